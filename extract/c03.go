package main

import (
	"fmt"
	"go/ast"
	"go/token"
	"os"
	"path/filepath"
	"strings"
)

// luaStatements reads a Lua script of the repo and returns its statements, one per line, with
// comments, indentation and blank lines dropped (so the Tie is about the statements, not the layout).
func luaStatements(rel string) ([]string, error) {
	b, err := os.ReadFile(filepath.Join(*repo, rel))
	if err != nil {
		return nil, err
	}
	var out []string
	for _, ln := range strings.Split(string(b), "\n") {
		if i := strings.Index(ln, "--"); i >= 0 {
			ln = ln[:i]
		}
		ln = strings.Join(strings.Fields(ln), " ")
		if ln != "" {
			out = append(out, ln)
		}
	}
	return out, nil
}

// iotaConsts returns the names of the const block that starts with `first = iota`, in order.
func iotaConsts(s *source, rel, first string) []string {
	f := s.file(rel)
	if f == nil {
		return nil
	}
	for _, d := range f.Decls {
		gd, ok := d.(*ast.GenDecl)
		if !ok || gd.Tok != token.CONST || len(gd.Specs) == 0 {
			continue
		}
		vs := gd.Specs[0].(*ast.ValueSpec)
		if len(vs.Names) != 1 || vs.Names[0].Name != first || len(vs.Values) != 1 {
			continue
		}
		if id, ok := vs.Values[0].(*ast.Ident); !ok || id.Name != "iota" {
			continue
		}
		var names []string
		for i, sp := range gd.Specs {
			v := sp.(*ast.ValueSpec)
			if i > 0 && len(v.Values) != 0 {
				break // explicit values from here on: the iota run is over
			}
			for _, n := range v.Names {
				names = append(names, n.Name)
			}
		}
		return names
	}
	return nil
}

// callArgs finds the first call of `method` inside function goName and returns the source text of
// each element of its composite-literal arguments (keys, args) in order, flattened with a "|" marker
// between arguments.
func callArgs(s *source, rel, goName, method string) []string {
	fd := s.findFunc(rel, goName)
	if fd == nil {
		return nil
	}
	var out []string
	ast.Inspect(fd.Body, func(n ast.Node) bool {
		if out != nil {
			return false
		}
		c, ok := n.(*ast.CallExpr)
		if !ok {
			return true
		}
		sel, ok := c.Fun.(*ast.SelectorExpr)
		if !ok || sel.Sel.Name != method {
			return true
		}
		for _, a := range c.Args {
			if cl, ok := a.(*ast.CompositeLit); ok {
				out = append(out, "|")
				for _, el := range cl.Elts {
					out = append(out, s.src(el))
				}
			} else {
				out = append(out, s.src(a))
			}
		}
		return false
	})
	return out
}

// assignedExpr returns the source of the value of the struct-literal field `field` inside function goName.
func fieldInit(s *source, rel, goName, field string) string {
	fd := s.findFunc(rel, goName)
	if fd == nil {
		return ""
	}
	res := ""
	ast.Inspect(fd.Body, func(n ast.Node) bool {
		kv, ok := n.(*ast.KeyValueExpr)
		if !ok {
			return true
		}
		if id, ok := kv.Key.(*ast.Ident); ok && id.Name == field && res == "" {
			res = s.src(kv.Value)
		}
		return true
	})
	return res
}

// switchCases returns "case <exprs> -> <return expr>" for the first switch on `tag` in function goName.
func switchCases(s *source, rel, goName, tag string) []string {
	fd := s.findFunc(rel, goName)
	if fd == nil {
		return nil
	}
	var out []string
	ast.Inspect(fd.Body, func(n ast.Node) bool {
		sw, ok := n.(*ast.SwitchStmt)
		if !ok || sw.Tag == nil || s.src(sw.Tag) != tag || out != nil {
			return true
		}
		for _, st := range sw.Body.List {
			cc := st.(*ast.CaseClause)
			lhs := "default"
			if cc.List != nil {
				var xs []string
				for _, e := range cc.List {
					xs = append(xs, s.src(e))
				}
				lhs = "case " + strings.Join(xs, ",")
			}
			var body []string
			for _, b := range cc.Body {
				body = append(body, s.src(b))
			}
			out = append(out, lhs+" -> "+strings.Join(body, "; "))
		}
		return false
	})
	return out
}

// detail flattens a function body like shape() does, but keeps what the C03 model depends on:
// if-conditions, returned expressions, call statements with their arguments, field stores with
// their values, go/defer. Logging (logx.*) is dropped.
func (s *source) detail(fd *ast.FuncDecl) []string {
	var out []string
	s.detailBlock(fd.Body.List, &out)
	return out
}

func (s *source) detailBlock(list []ast.Stmt, out *[]string) {
	for _, st := range list {
		s.detailStmt(st, out)
	}
}

func (s *source) detailCall(prefix string, c *ast.CallExpr, out *[]string) {
	if fl, ok := c.Fun.(*ast.FuncLit); ok {
		*out = append(*out, prefix+"func{")
		s.detailBlock(fl.Body.List, out)
		*out = append(*out, "}")
		return
	}
	*out = append(*out, prefix+s.src(c))
}

func (s *source) detailStmt(st ast.Stmt, out *[]string) {
	switch x := st.(type) {
	case *ast.IfStmt:
		if x.Init != nil {
			s.detailStmt(x.Init, out)
		}
		*out = append(*out, "if "+s.src(x.Cond)+" {")
		s.detailBlock(x.Body.List, out)
		*out = append(*out, "}")
		if x.Else != nil {
			*out = append(*out, "else {")
			if b, ok := x.Else.(*ast.BlockStmt); ok {
				s.detailBlock(b.List, out)
			} else {
				s.detailStmt(x.Else, out)
			}
			*out = append(*out, "}")
		}
	case *ast.ReturnStmt:
		var xs []string
		for _, r := range x.Results {
			xs = append(xs, s.src(r))
		}
		*out = append(*out, strings.TrimSpace("return "+strings.Join(xs, ", ")))
	case *ast.ExprStmt:
		if c, ok := x.X.(*ast.CallExpr); ok {
			if strings.HasPrefix(s.src(c.Fun), "logx.") {
				return
			}
			s.detailCall("", c, out)
		}
	case *ast.GoStmt:
		s.detailCall("go ", x.Call, out)
	case *ast.DeferStmt:
		s.detailCall("defer ", x.Call, out)
	case *ast.AssignStmt:
		if c03FullAssign {
			*out = append(*out, s.src(x))
			return
		}
		var lhs []string
		field := false
		for _, l := range x.Lhs {
			lhs = append(lhs, s.src(l))
			if _, ok := l.(*ast.SelectorExpr); ok {
				field = true
			}
		}
		if len(x.Rhs) == 1 {
			if c, ok := x.Rhs[0].(*ast.CallExpr); ok {
				*out = append(*out, strings.Join(lhs, ", ")+" "+x.Tok.String()+" "+s.src(c.Fun)+"(…)")
				return
			}
			if ta, ok := x.Rhs[0].(*ast.TypeAssertExpr); ok {
				*out = append(*out, strings.Join(lhs, ", ")+" "+x.Tok.String()+" "+s.src(ta))
				return
			}
		}
		if field {
			var rhs []string
			for _, r := range x.Rhs {
				rhs = append(rhs, s.src(r))
			}
			*out = append(*out, strings.Join(lhs, ", ")+" "+x.Tok.String()+" "+strings.Join(rhs, ", "))
		}
	case *ast.RangeStmt:
		*out = append(*out, "for range "+s.src(x.X)+" {")
		s.detailBlock(x.Body.List, out)
		*out = append(*out, "}")
	case *ast.ForStmt:
		*out = append(*out, "for {")
		s.detailBlock(x.Body.List, out)
		*out = append(*out, "}")
	case *ast.SwitchStmt:
		tag := ""
		if x.Tag != nil {
			tag = s.src(x.Tag)
		}
		*out = append(*out, "switch "+tag+" {")
		for _, c := range x.Body.List {
			cc := c.(*ast.CaseClause)
			if cc.List == nil {
				*out = append(*out, "default:")
			} else {
				var xs []string
				for _, e := range cc.List {
					xs = append(xs, s.src(e))
				}
				*out = append(*out, "case "+strings.Join(xs, ", ")+":")
			}
			s.detailBlock(cc.Body, out)
		}
		*out = append(*out, "}")
	case *ast.BlockStmt:
		s.detailBlock(x.List, out)
	}
}

// c03FullAssign: print every assignment with its complete right-hand side (used for the arithmetic of
// calcExpireSeconds, where `unix := now.Unix() + int64(offset)` matters)
var c03FullAssign bool

func (e *emitter) detailDefFull(s *source, rel, goName, leanName string) {
	c03FullAssign = true
	defer func() { c03FullAssign = false }()
	e.detailDef(s, rel, goName, leanName)
}

func (e *emitter) detailDef(s *source, rel, goName, leanName string) {
	fd := s.findFunc(rel, goName)
	if fd == nil {
		e.errors = append(e.errors, fmt.Sprintf("function %s not found in %s", goName, rel))
		e.stringList(leanName, "MISSING: "+goName+" in "+rel, []string{"MISSING"})
		return
	}
	e.stringList(leanName, "statement skeleton (conditions, returns, calls, field stores) of `"+goName+"` in "+rel, s.detail(fd))
}

func init() {
	register("C03", func(s *source, e *emitter) {
		const pf = "core/limit/periodlimit.go"
		const tf = "core/limit/tokenlimit.go"
		for _, x := range []struct{ rel, lean string }{
			{"core/limit/periodscript.lua", "periodLua"},
			{"core/limit/tokenscript.lua", "tokenLua"},
		} {
			st, err := luaStatements(x.rel)
			if err != nil {
				e.errors = append(e.errors, fmt.Sprintf("cannot read %s: %v", x.rel, err))
				st = []string{"MISSING"}
			}
			e.stringList(x.lean, "statements of "+x.rel+" (comments, indentation, blank lines dropped)", st)
		}
		e.constDef(s, pf, "internalOverQuota", "internalOverQuota")
		e.constDef(s, pf, "internalAllowed", "internalAllowed")
		e.constDef(s, pf, "internalHitQuota", "internalHitQuota")
		names := iotaConsts(s, pf, "Unknown")
		if names == nil {
			e.errors = append(e.errors, "iota const block starting with Unknown not found in "+pf)
			names = []string{"MISSING"}
		}
		e.stringList("publicCodes", "the exported result codes of periodlimit.go in iota order (value = index)", names)
		e.stringList("periodScriptCall", "arguments of ScriptRunCtx in PeriodLimit.TakeCtx", callArgs(s, pf, "PeriodLimit.TakeCtx", "ScriptRunCtx"))
		e.detailDef(s, pf, "PeriodLimit.TakeCtx", "takeShape")
		e.detailDefFull(s, pf, "PeriodLimit.calcExpireSeconds", "calcExpireShape")
		e.detailDef(s, pf, "PeriodLimit.Take", "takeWrapShape")
		e.detailDef(s, pf, "Align", "alignShape")
		e.stringList("periodInit", "fields of the PeriodLimit literal in NewPeriodLimit",
			[]string{fieldInit(s, pf, "NewPeriodLimit", "period"), fieldInit(s, pf, "NewPeriodLimit", "quota"),
				fieldInit(s, pf, "NewPeriodLimit", "limitStore"), fieldInit(s, pf, "NewPeriodLimit", "keyPrefix")})

		e.constDef(s, tf, "tokenFormat", "tokenFormat")
		e.constDef(s, tf, "timestampFormat", "timestampFormat")
		e.constDef(s, tf, "pingInterval", "pingInterval")
		e.stringList("tokenScriptCall", "arguments of ScriptRunCtx in TokenLimiter.reserveN", callArgs(s, tf, "TokenLimiter.reserveN", "ScriptRunCtx"))
		e.stringList("limiterInit", "initial redisAlive and the construction of the rescue limiter in NewTokenLimiter",
			[]string{fieldInit(s, tf, "NewTokenLimiter", "redisAlive"), fieldInit(s, tf, "NewTokenLimiter", "rescueLimiter"),
				fieldInit(s, tf, "NewTokenLimiter", "tokenKey"), fieldInit(s, tf, "NewTokenLimiter", "timestampKey")})
		e.detailDef(s, tf, "TokenLimiter.reserveN", "reserveShape")
		e.detailDef(s, tf, "TokenLimiter.startMonitor", "startMonitorShape")
		e.detailDef(s, tf, "TokenLimiter.waitForRedis", "waitForRedisShape")
		e.detailDef(s, tf, "TokenLimiter.AllowN", "allowNShape")
		e.detailDef(s, tf, "TokenLimiter.AllowNCtx", "allowNCtxShape")
		e.detailDef(s, tf, "TokenLimiter.Allow", "allowShape")
		e.detailDef(s, tf, "TokenLimiter.AllowCtx", "allowCtxShape")
		e.stringList("limiterFields", "rate, burst and store fields of the TokenLimiter literal in NewTokenLimiter",
			[]string{fieldInit(s, tf, "NewTokenLimiter", "rate"), fieldInit(s, tf, "NewTokenLimiter", "burst"),
				fieldInit(s, tf, "NewTokenLimiter", "store")})
	})
}
