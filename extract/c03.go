package main

import (
	"fmt"
	"go/ast"
	"go/token"
	"os"
	"path/filepath"
	"strings"
)

// luaStatements reads a Lua script of the repo and returns its statements, one per line, with
// comments, indentation and blank lines dropped (so the Tie is about the statements, not the layout).
func luaStatements(rel string) ([]string, error) {
	b, err := os.ReadFile(filepath.Join(*repo, rel))
	if err != nil {
		return nil, err
	}
	var out []string
	for _, ln := range strings.Split(string(b), "\n") {
		if i := strings.Index(ln, "--"); i >= 0 {
			ln = ln[:i]
		}
		ln = strings.Join(strings.Fields(ln), " ")
		if ln != "" {
			out = append(out, ln)
		}
	}
	return out, nil
}

// iotaConsts returns the names of the const block that starts with `first = iota`, in order.
func iotaConsts(s *source, rel, first string) []string {
	f := s.file(rel)
	if f == nil {
		return nil
	}
	for _, d := range f.Decls {
		gd, ok := d.(*ast.GenDecl)
		if !ok || gd.Tok != token.CONST || len(gd.Specs) == 0 {
			continue
		}
		vs := gd.Specs[0].(*ast.ValueSpec)
		if len(vs.Names) != 1 || vs.Names[0].Name != first || len(vs.Values) != 1 {
			continue
		}
		if id, ok := vs.Values[0].(*ast.Ident); !ok || id.Name != "iota" {
			continue
		}
		var names []string
		for i, sp := range gd.Specs {
			v := sp.(*ast.ValueSpec)
			if i > 0 && len(v.Values) != 0 {
				break // explicit values from here on: the iota run is over
			}
			for _, n := range v.Names {
				names = append(names, n.Name)
			}
		}
		return names
	}
	return nil
}

// callArgs finds the first call of `method` inside function goName and returns the source text of
// each element of its composite-literal arguments (keys, args) in order, flattened with a "|" marker
// between arguments.
func callArgs(s *source, rel, goName, method string) []string {
	fd := s.findFunc(rel, goName)
	if fd == nil {
		return nil
	}
	var out []string
	ast.Inspect(fd.Body, func(n ast.Node) bool {
		if out != nil {
			return false
		}
		c, ok := n.(*ast.CallExpr)
		if !ok {
			return true
		}
		sel, ok := c.Fun.(*ast.SelectorExpr)
		if !ok || sel.Sel.Name != method {
			return true
		}
		for _, a := range c.Args {
			if cl, ok := a.(*ast.CompositeLit); ok {
				out = append(out, "|")
				for _, el := range cl.Elts {
					out = append(out, s.src(el))
				}
			} else {
				out = append(out, s.src(a))
			}
		}
		return false
	})
	return out
}

// assignedExpr returns the source of the value of the struct-literal field `field` inside function goName.
func fieldInit(s *source, rel, goName, field string) string {
	fd := s.findFunc(rel, goName)
	if fd == nil {
		return ""
	}
	res := ""
	ast.Inspect(fd.Body, func(n ast.Node) bool {
		kv, ok := n.(*ast.KeyValueExpr)
		if !ok {
			return true
		}
		if id, ok := kv.Key.(*ast.Ident); ok && id.Name == field && res == "" {
			res = s.src(kv.Value)
		}
		return true
	})
	return res
}

// switchCases returns "case <exprs> -> <return expr>" for the first switch on `tag` in function goName.
func switchCases(s *source, rel, goName, tag string) []string {
	fd := s.findFunc(rel, goName)
	if fd == nil {
		return nil
	}
	var out []string
	ast.Inspect(fd.Body, func(n ast.Node) bool {
		sw, ok := n.(*ast.SwitchStmt)
		if !ok || sw.Tag == nil || s.src(sw.Tag) != tag || out != nil {
			return true
		}
		for _, st := range sw.Body.List {
			cc := st.(*ast.CaseClause)
			lhs := "default"
			if cc.List != nil {
				var xs []string
				for _, e := range cc.List {
					xs = append(xs, s.src(e))
				}
				lhs = "case " + strings.Join(xs, ",")
			}
			var body []string
			for _, b := range cc.Body {
				body = append(body, s.src(b))
			}
			out = append(out, lhs+" -> "+strings.Join(body, "; "))
		}
		return false
	})
	return out
}

// detail flattens a function body like shape() does, but keeps what the C03 model depends on:
// if-conditions, returned expressions, call statements with their arguments, field stores with
// their values, go/defer. Logging (logx.*) is dropped.
func (s *source) detail(fd *ast.FuncDecl) []string {
	var out []string
	s.detailBlock(fd.Body.List, &out)
	return out
}

func (s *source) detailBlock(list []ast.Stmt, out *[]string) {
	for _, st := range list {
		s.detailStmt(st, out)
	}
}

func (s *source) detailCall(prefix string, c *ast.CallExpr, out *[]string) {
	if fl, ok := c.Fun.(*ast.FuncLit); ok {
		*out = append(*out, prefix+"func{")
		s.detailBlock(fl.Body.List, out)
		*out = append(*out, "}")
		return
	}
	*out = append(*out, prefix+s.src(c))
}

func (s *source) detailStmt(st ast.Stmt, out *[]string) {
	switch x := st.(type) {
	case *ast.IfStmt:
		if x.Init != nil {
			s.detailStmt(x.Init, out)
		}
		*out = append(*out, "if "+s.src(x.Cond)+" {")
		s.detailBlock(x.Body.List, out)
		*out = append(*out, "}")
		if x.Else != nil {
			*out = append(*out, "else {")
			if b, ok := x.Else.(*ast.BlockStmt); ok {
				s.detailBlock(b.List, out)
			} else {
				s.detailStmt(x.Else, out)
			}
			*out = append(*out, "}")
		}
	case *ast.ReturnStmt:
		var xs []string
		for _, r := range x.Results {
			xs = append(xs, s.src(r))
		}
		*out = append(*out, strings.TrimSpace("return "+strings.Join(xs, ", ")))
	case *ast.ExprStmt:
		if c, ok := x.X.(*ast.CallExpr); ok {
			if strings.HasPrefix(s.src(c.Fun), "logx.") {
				return
			}
			s.detailCall("", c, out)
		}
	case *ast.GoStmt:
		s.detailCall("go ", x.Call, out)
	case *ast.DeferStmt:
		s.detailCall("defer ", x.Call, out)
	case *ast.AssignStmt:
		if c03FullAssign {
			*out = append(*out, s.src(x))
			return
		}
		var lhs []string
		field := false
		for _, l := range x.Lhs {
			lhs = append(lhs, s.src(l))
			if _, ok := l.(*ast.SelectorExpr); ok {
				field = true
			}
		}
		if len(x.Rhs) == 1 {
			if c, ok := x.Rhs[0].(*ast.CallExpr); ok {
				*out = append(*out, strings.Join(lhs, ", ")+" "+x.Tok.String()+" "+s.src(c.Fun)+"(…)")
				return
			}
			if ta, ok := x.Rhs[0].(*ast.TypeAssertExpr); ok {
				*out = append(*out, strings.Join(lhs, ", ")+" "+x.Tok.String()+" "+s.src(ta))
				return
			}
		}
		if field {
			var rhs []string
			for _, r := range x.Rhs {
				rhs = append(rhs, s.src(r))
			}
			*out = append(*out, strings.Join(lhs, ", ")+" "+x.Tok.String()+" "+strings.Join(rhs, ", "))
		}
	case *ast.RangeStmt:
		*out = append(*out, "for range "+s.src(x.X)+" {")
		s.detailBlock(x.Body.List, out)
		*out = append(*out, "}")
	case *ast.ForStmt:
		*out = append(*out, "for {")
		s.detailBlock(x.Body.List, out)
		*out = append(*out, "}")
	case *ast.SwitchStmt:
		tag := ""
		if x.Tag != nil {
			tag = s.src(x.Tag)
		}
		*out = append(*out, "switch "+tag+" {")
		for _, c := range x.Body.List {
			cc := c.(*ast.CaseClause)
			if cc.List == nil {
				*out = append(*out, "default:")
			} else {
				var xs []string
				for _, e := range cc.List {
					xs = append(xs, s.src(e))
				}
				*out = append(*out, "case "+strings.Join(xs, ", ")+":")
			}
			s.detailBlock(cc.Body, out)
		}
		*out = append(*out, "}")
	case *ast.BlockStmt:
		s.detailBlock(x.List, out)
	}
}

// c03FullAssign: print every assignment with its complete right-hand side (used for the arithmetic of
// calcExpireSeconds, where `unix := now.Unix() + int64(offset)` matters)
var c03FullAssign bool

func (e *emitter) detailDefFull(s *source, rel, goName, leanName string) {
	c03FullAssign = true
	defer func() { c03FullAssign = false }()
	e.detailDef(s, rel, goName, leanName)
}

func (e *emitter) detailDef(s *source, rel, goName, leanName string) {
	fd := s.findFunc(rel, goName)
	if fd == nil {
		e.errors = append(e.errors, fmt.Sprintf("function %s not found in %s", goName, rel))
		e.stringList(leanName, "MISSING: "+goName+" in "+rel, []string{"MISSING"})
		return
	}
	e.stringList(leanName, "statement skeleton (conditions, returns, calls, field stores) of `"+goName+"` in "+rel, s.detail(fd))
}


// ---------------------------------------------------------------------------------------------------------
// round 4: semantic ties. A small translator of the decision chains and of calcExpireSeconds' arithmetic.

// c03Expr translates an integer / comparison expression: identifiers, recv.field -> field, integer literals,
// + - * / % (Go's truncating division: Int.tdiv / Int.tmod), comparisons (decide), conversions int()/int64(),
// and the opaque readings `now.Unix()` -> nowUnix, `atomic.LoadUint32(&recv.f)` -> f.
func c03Expr(recv string, e ast.Expr) (string, error) {
	switch x := e.(type) {
	case *ast.ParenExpr:
		return c03Expr(recv, x.X)
	case *ast.BasicLit:
		if x.Kind == token.INT {
			return x.Value, nil
		}
	case *ast.Ident:
		return leanIdent(x.Name), nil
	case *ast.SelectorExpr:
		if id, ok := x.X.(*ast.Ident); ok && id.Name == recv {
			return leanIdent(x.Sel.Name), nil
		}
	case *ast.BinaryExpr:
		a, err := c03Expr(recv, x.X)
		if err != nil {
			return "", err
		}
		b, err := c03Expr(recv, x.Y)
		if err != nil {
			return "", err
		}
		switch x.Op {
		case token.ADD, token.SUB, token.MUL:
			return "(" + a + " " + x.Op.String() + " " + b + ")", nil
		case token.QUO:
			return "(Int.tdiv " + a + " " + b + ")", nil
		case token.REM:
			return "(Int.tmod " + a + " " + b + ")", nil
		case token.LSS, token.LEQ, token.GTR, token.GEQ, token.EQL, token.NEQ:
			op := map[token.Token]string{token.LSS: "<", token.LEQ: "≤", token.GTR: ">", token.GEQ: "≥", token.EQL: "=", token.NEQ: "≠"}[x.Op]
			return "(decide (" + a + " " + op + " " + b + "))", nil
		}
	case *ast.CallExpr:
		if id, ok := x.Fun.(*ast.Ident); ok && (id.Name == "int" || id.Name == "int64") && len(x.Args) == 1 {
			return c03Expr(recv, x.Args[0])
		}
		if sel, ok := x.Fun.(*ast.SelectorExpr); ok && len(x.Args) == 0 {
			if id, ok := sel.X.(*ast.Ident); ok && id.Name == "now" && sel.Sel.Name == "Unix" {
				return "nowUnix", nil
			}
		}
		if sel, ok := x.Fun.(*ast.SelectorExpr); ok && len(x.Args) == 1 {
			if id, ok := sel.X.(*ast.Ident); ok && id.Name == "atomic" && sel.Sel.Name == "LoadUint32" {
				if u, ok := x.Args[0].(*ast.UnaryExpr); ok && u.Op == token.AND {
					return c03Expr(recv, u.X)
				}
			}
		}
	}
	return "", fmt.Errorf("c03Expr: unsupported expression %T", e)
}

// c03ConstOf: value of a constant expression, including the names of the exported iota block of periodlimit.go
func c03ConstOf(s *source, rel string, e ast.Expr) (string, bool) {
	if id, ok := e.(*ast.Ident); ok {
		for i, n := range iotaConsts(s, rel, "Unknown") {
			if n == id.Name {
				return fmt.Sprint(i), true
			}
		}
	}
	if cv, ok := s.eval(rel, e); ok {
		return cv.ExactString(), true
	}
	return "", false
}

func recvName(fd *ast.FuncDecl) string {
	if fd.Recv != nil && len(fd.Recv.List) == 1 && len(fd.Recv.List[0].Names) == 1 {
		return fd.Recv.List[0].Names[0].Name
	}
	return ""
}

// calcExpire emits the arithmetic of PeriodLimit.calcExpireSeconds as Lean functions over Int:
//   calcExpireCond : String                                    the condition of the if
//   calcExpireAligned (period nowUnix offset : Int) : Int      the branch taken under it
//   calcExpirePlain (period : Int) : Int                       the statement after it
func (e *emitter) c03CalcExpire(s *source, rel string) {
	fail := func(msg string) {
		e.errors = append(e.errors, "calcExpireSeconds: "+msg)
		e.printf("def calcExpireCond : String := \"MISSING\"\ndef calcExpireAligned (period nowUnix offset : Int) : Int := 0\ndef calcExpirePlain (period : Int) : Int := 0\n\n")
	}
	fd := s.findFunc(rel, "PeriodLimit.calcExpireSeconds")
	if fd == nil || len(fd.Body.List) != 2 {
		fail("unexpected shape")
		return
	}
	recv := recvName(fd)
	ifs, ok := fd.Body.List[0].(*ast.IfStmt)
	ret, ok2 := fd.Body.List[1].(*ast.ReturnStmt)
	if !ok || !ok2 || ifs.Else != nil || ifs.Init != nil || len(ret.Results) != 1 {
		fail("unexpected shape")
		return
	}
	var lets []string
	result := ""
	for _, st := range ifs.Body.List {
		switch x := st.(type) {
		case *ast.AssignStmt:
			src := s.src(x)
			if src == "now := time.Now()" || src == "_, offset := now.Zone()" {
				continue // the two readings of the environment: nowUnix = now.Unix(), offset
			}
			if len(x.Lhs) != 1 || len(x.Rhs) != 1 || x.Tok != token.DEFINE {
				fail("unsupported assignment " + src)
				return
			}
			v, err := c03Expr(recv, x.Rhs[0])
			if err != nil {
				fail(err.Error())
				return
			}
			lets = append(lets, "  let "+leanIdent(s.src(x.Lhs[0]))+" : Int := "+v+"\n")
		case *ast.ReturnStmt:
			if len(x.Results) != 1 {
				fail("unsupported return")
				return
			}
			v, err := c03Expr(recv, x.Results[0])
			if err != nil {
				fail(err.Error())
				return
			}
			result = v
		default:
			fail("unsupported statement " + s.src(st))
			return
		}
	}
	plain, err := c03Expr(recv, ret.Results[0])
	if err != nil || result == "" {
		fail("no result")
		return
	}
	e.printf("/-- condition of the if in calcExpireSeconds -/\ndef calcExpireCond : String := %s\n\n", leanString(s.src(ifs.Cond)))
	e.printf("/-- translated from the `if %s` branch of calcExpireSeconds (nowUnix = now.Unix(), offset = second result of now.Zone()) -/\ndef calcExpireAligned (period nowUnix offset : Int) : Int :=\n%s  %s\n\n", s.src(ifs.Cond), strings.Join(lets, ""), result)
	e.printf("/-- translated from the final return of calcExpireSeconds -/\ndef calcExpirePlain (period : Int) : Int := %s\n\n", plain)
}

// c03Chain translates the decision chain of a function (a sequence of `if cond { … return }` without else, a
// `switch code`, a final return) into nested Lean if-then-else.  Conditions are mapped by `conds` (source text
// -> Lean Bool term; a missing entry is an extraction error), unless the condition is an integer comparison the
// expression translator understands; the value of a terminal block is computed by `val`.
type c03Chain struct {
	recv  string
	conds map[string]string
	val   func(s *source, body []ast.Stmt) (string, error)
	skip  func(src string) bool
}

func (cc *c03Chain) cond(s *source, e ast.Expr) (string, error) {
	if l, ok := cc.conds[s.src(e)]; ok {
		return l, nil
	}
	if l, err := c03Expr(cc.recv, e); err == nil {
		return l, nil
	}
	return "", fmt.Errorf("condition %q is not in the vocabulary", s.src(e))
}

func noLog(s *source, list []ast.Stmt) []ast.Stmt {
	var out []ast.Stmt
	for _, st := range list {
		if x, ok := st.(*ast.ExprStmt); ok {
			if c, ok := x.X.(*ast.CallExpr); ok && strings.HasPrefix(s.src(c.Fun), "logx.") {
				continue
			}
		}
		out = append(out, st)
	}
	return out
}

func (cc *c03Chain) walk(s *source, list []ast.Stmt) (string, error) {
	list = noLog(s, list)
	for i, st := range list {
		switch x := st.(type) {
		case *ast.AssignStmt:
			if cc.skip(s.src(x)) {
				continue
			}
			return "", fmt.Errorf("unexpected assignment %q", s.src(x))
		case *ast.IfStmt:
			if x.Else != nil || x.Init != nil {
				return "", fmt.Errorf("unsupported if form")
			}
			c, err := cc.cond(s, x.Cond)
			if err != nil {
				return "", err
			}
			v, err := cc.val(s, noLog(s, x.Body.List))
			if err != nil {
				return "", err
			}
			rest, err := cc.walk(s, list[i+1:])
			if err != nil {
				return "", err
			}
			return "if " + c + " then " + v + "\n  else " + rest, nil
		case *ast.SwitchStmt:
			if x.Tag == nil || x.Init != nil || i != len(list)-1 {
				return "", fmt.Errorf("unsupported switch form")
			}
			tag, err := c03Expr(cc.recv, x.Tag)
			if err != nil {
				return "", err
			}
			out, dflt := "", ""
			for _, c := range x.Body.List {
				cl := c.(*ast.CaseClause)
				v, err := cc.val(s, noLog(s, cl.Body))
				if err != nil {
					return "", err
				}
				if cl.List == nil {
					dflt = v
					continue
				}
				var alts []string
				for _, ce := range cl.List {
					cv, ok := s.eval("core/limit/periodlimit.go", ce)
					if !ok {
						return "", fmt.Errorf("case %q is not a constant", s.src(ce))
					}
					alts = append(alts, "decide ("+tag+" = "+cv.ExactString()+")")
				}
				out += "if " + strings.Join(alts, " || ") + " then " + v + "\n  else "
			}
			if dflt == "" {
				return "", fmt.Errorf("switch without default")
			}
			return out + dflt, nil
		case *ast.ReturnStmt:
			return cc.val(s, list[i:])
		default:
			return "", fmt.Errorf("unsupported statement %q", s.src(st))
		}
	}
	return "", fmt.Errorf("chain does not end in a return")
}

func (e *emitter) c03TakeChain(s *source, rel string) {
	sig := "def takeChain (errNonNil isInt : Bool) (code : Int) : Int × Int :="
	fd := s.findFunc(rel, "PeriodLimit.TakeCtx")
	if fd == nil {
		e.errors = append(e.errors, "TakeCtx not found")
		e.printf("%s (0, 0)\n\n", sig)
		return
	}
	cc := &c03Chain{recv: recvName(fd),
		conds: map[string]string{"err != nil": "errNonNil", "!ok": "(!isInt)"},
		skip: func(src string) bool {
			return strings.HasPrefix(src, "resp, err := h.limitStore.ScriptRunCtx(") || src == "code, ok := resp.(int64)"
		},
		val: func(s *source, body []ast.Stmt) (string, error) {
			if len(body) != 1 {
				return "", fmt.Errorf("block is not a single return")
			}
			r, ok := body[0].(*ast.ReturnStmt)
			if !ok || len(r.Results) != 2 {
				return "", fmt.Errorf("block is not a two-valued return")
			}
			cvs, ok := c03ConstOf(s, rel, r.Results[0])
			if !ok {
				return "", fmt.Errorf("returned code %q is not a constant", s.src(r.Results[0]))
			}
			ek, ok := map[string]string{"nil": "0", "err": "1", "ErrUnknownCode": "2"}[s.src(r.Results[1])]
			if !ok {
				return "", fmt.Errorf("returned error %q is not in the vocabulary", s.src(r.Results[1]))
			}
			return "(" + cvs + ", " + ek + ")", nil
		}}
	body, err := cc.walk(s, fd.Body.List)
	if err != nil {
		e.errors = append(e.errors, "TakeCtx: "+err.Error())
		e.printf("%s (0, 0)\n\n", sig)
		return
	}
	e.printf("/-- translated from the decision chain of PeriodLimit.TakeCtx: (returned code, error kind 0 nil / 1 the store's err / 2 ErrUnknownCode);\nerrNonNil = `err != nil`, isInt = `ok` of `resp.(int64)` -/\n%s\n  %s\n\n", sig, body)
}

func (e *emitter) c03ReserveChain(s *source, rel string) {
	sig := "def reserveChain (redisAlive : Int) (isNil isCtx errNonNil isInt : Bool) (code : Int) : Int :="
	fd := s.findFunc(rel, "TokenLimiter.reserveN")
	if fd == nil {
		e.errors = append(e.errors, "reserveN not found")
		e.printf("%s 9\n\n", sig)
		return
	}
	recv := recvName(fd)
	cc := &c03Chain{recv: recv,
		conds: map[string]string{
			"errors.Is(err, redis.Nil)":                                      "isNil",
			"errorx.In(err, context.DeadlineExceeded, context.Canceled)":     "isCtx",
			"err != nil":                                                     "errNonNil",
			"!ok":                                                            "(!isInt)",
		},
		skip: func(src string) bool {
			return strings.HasPrefix(src, "resp, err := lim.store.ScriptRunCtx(") || src == "code, ok := resp.(int64)"
		},
		val: func(s *source, body []ast.Stmt) (string, error) {
			var srcs []string
			for _, b := range body {
				srcs = append(srcs, s.src(b))
			}
			switch strings.Join(srcs, "; ") {
			case "return false":
				return "0", nil
			case "return lim.rescueLimiter.AllowN(now, n)":
				return "3", nil // the local limiter decides, no monitor is started
			case "lim.startMonitor(); return lim.rescueLimiter.AllowN(now, n)":
				return "2", nil // startMonitor, then the local limiter decides
			}
			if len(body) == 1 {
				if r, ok := body[0].(*ast.ReturnStmt); ok && len(r.Results) == 1 {
					if v, err := c03Expr(recv, r.Results[0]); err == nil {
						return "(if " + v + " then 1 else 0)", nil
					}
				}
			}
			return "", fmt.Errorf("block %q is not in the vocabulary", strings.Join(srcs, "; "))
		}}
	body, err := cc.walk(s, fd.Body.List)
	if err != nil {
		e.errors = append(e.errors, "reserveN: "+err.Error())
		e.printf("%s 9\n\n", sig)
		return
	}
	e.printf("/-- translated from the decision chain of TokenLimiter.reserveN: 0 = return false, 1 = return true, 2 = startMonitor + local limiter,\n3 = local limiter only; isNil = errors.Is(err, redis.Nil), isCtx = errorx.In(err, DeadlineExceeded, Canceled) -/\n%s\n  %s\n\n", sig, body)
}

// c03LuaToks emits the raw tokens of a Lua file (lexer of c19.go) for LuaSem.lean
func (e *emitter) c03LuaToks(rel, lean string) {
	raw, err := os.ReadFile(filepath.Join(*repo, rel))
	if err != nil {
		e.errors = append(e.errors, "cannot read "+rel)
		e.printf("def %s : List (Nat × String × Nat) := [(9, \"MISSING\", 0)]\n\n", lean)
		return
	}
	toks, err := luaTokens(string(raw))
	if err != nil {
		e.errors = append(e.errors, rel+": "+err.Error())
	}
	e.printf("/-- tokens of %s as (kind, text, value): 0 word/punctuation, 1 string literal, 2 number -/\ndef %s : List (Nat × String × Nat) := [", rel, lean)
	for i, t := range toks {
		if i > 0 {
			e.printf(",")
		}
		switch {
		case strings.HasPrefix(t, "\""):
			e.printf("\n  (1, %s, 0)", leanString(t[1:len(t)-1]))
		case t[0] >= '0' && t[0] <= '9':
			e.printf("\n  (2, \"\", %s)", t)
		default:
			e.printf("\n  (0, %s, 0)", leanString(t))
		}
	}
	e.printf("]\n\n")
}

// scriptBinding: ["<scriptVar> = NewScript(<src var>)", "embed <file>"] for a package-level script variable
func scriptBinding(s *source, rel, name string) []string {
	srcVar, ok := "", false
	if f := s.file(rel); f != nil {
		ast.Inspect(f, func(n ast.Node) bool {
			vs, isVs := n.(*ast.ValueSpec)
			if !isVs {
				return true
			}
			for i, nm := range vs.Names {
				if nm.Name == name && i < len(vs.Values) {
					if call, isCall := vs.Values[i].(*ast.CallExpr); isCall && len(call.Args) == 1 && s.src(call.Fun) == "redis.NewScript" {
						if a, isId := call.Args[0].(*ast.Ident); isId {
							srcVar, ok = a.Name, true
						}
					}
				}
			}
			return true
		})
	}
	if !ok {
		return []string{"MISSING " + name}
	}
	file, ok := embedOf(s, rel, srcVar)
	if !ok {
		return []string{name + " = NewScript(" + srcVar + ")", "MISSING embed"}
	}
	return []string{name + " = NewScript(" + srcVar + ")", "embed " + file}
}

// ---------------------------------------------------------------------------------------------------------
// round 5: forwarded argument lists of the delegating entry points, and the arithmetic of NewTokenLimiter.

// c03Forward: a function whose body is ONE `return <recv>.<callee>(args…)`: emits the parameter names of the
// function and the argument expressions of the call, both in order (TieSem interprets them for all actual values).
func (e *emitter) c03Forward(s *source, rel, goName, callee, lean string) {
	fd := s.findFunc(rel, goName)
	var params, args []string
	ok := false
	if fd != nil && fd.Body != nil && len(fd.Body.List) == 1 {
		if ret, isRet := fd.Body.List[0].(*ast.ReturnStmt); isRet && len(ret.Results) == 1 {
			if call, isCall := ret.Results[0].(*ast.CallExpr); isCall {
				if sel, isSel := call.Fun.(*ast.SelectorExpr); isSel && sel.Sel.Name == callee {
					if id, isId := sel.X.(*ast.Ident); isId && id.Name == recvName(fd) {
						ok = true
						for _, f := range fd.Type.Params.List {
							for _, n := range f.Names {
								params = append(params, n.Name)
							}
						}
						for k, a := range call.Args {
							t := s.src(a)
							if call.Ellipsis != token.NoPos && k == len(call.Args)-1 {
								t += "..." // the variadic parameter is handed on as a whole
							}
							args = append(args, t)
						}
					}
				}
			}
		}
	}
	if !ok {
		e.errors = append(e.errors, goName+": not a single `return recv."+callee+"(…)`")
		params, args = []string{"MISSING"}, []string{"MISSING"}
	}
	e.stringList(lean+"Params", "parameter names of `"+goName+"` in "+rel, params)
	e.stringList(lean+"Args", "arguments `"+goName+"` hands to `"+callee+"`, in order", args)
}

// c03Duration translates an expression of type time.Duration in ns: time.Second / time.Millisecond… are constants,
// time.Duration(x) is a conversion, the rest is integer arithmetic (c03Expr)
func c03Duration(e ast.Expr) (string, error) {
	units := map[string]string{"Nanosecond": "1", "Microsecond": "1000", "Millisecond": "1000000", "Second": "1000000000"}
	switch x := e.(type) {
	case *ast.ParenExpr:
		return c03Duration(x.X)
	case *ast.SelectorExpr:
		if id, ok := x.X.(*ast.Ident); ok && id.Name == "time" {
			if u, ok := units[x.Sel.Name]; ok {
				return u, nil
			}
		}
	case *ast.CallExpr:
		if sel, ok := x.Fun.(*ast.SelectorExpr); ok && len(x.Args) == 1 {
			if id, ok := sel.X.(*ast.Ident); ok && id.Name == "time" && sel.Sel.Name == "Duration" {
				return c03Duration(x.Args[0])
			}
		}
	case *ast.BinaryExpr:
		a, err := c03Duration(x.X)
		if err != nil {
			return "", err
		}
		b, err := c03Duration(x.Y)
		if err != nil {
			return "", err
		}
		switch x.Op {
		case token.ADD, token.SUB, token.MUL:
			return "(" + a + " " + x.Op.String() + " " + b + ")", nil
		case token.QUO:
			return "(Int.tdiv " + a + " " + b + ")", nil
		}
	}
	return c03Expr("", e)
}

// c03RescueLimiter: the `rescueLimiter:` field of the literal NewTokenLimiter returns must be
// xrate.NewLimiter(xrate.Every(<duration expression over rate>), <burst expression>): emits both as Lean functions
func (e *emitter) c03RescueLimiter(s *source, rel string) {
	fail := func(msg string) {
		e.errors = append(e.errors, "NewTokenLimiter rescueLimiter: "+msg)
		e.printf("def rescueEveryNs (rate burst : Int) : Int := 0\ndef rescueBurst (rate burst : Int) : Int := 0\n\n")
	}
	fd := s.findFunc(rel, "NewTokenLimiter")
	if fd == nil {
		fail("function not found")
		return
	}
	var val ast.Expr
	ast.Inspect(fd, func(n ast.Node) bool {
		if kv, ok := n.(*ast.KeyValueExpr); ok {
			if id, ok := kv.Key.(*ast.Ident); ok && id.Name == "rescueLimiter" {
				val = kv.Value
			}
		}
		return true
	})
	call, ok := val.(*ast.CallExpr)
	if !ok || len(call.Args) != 2 || s.src(call.Fun) != "xrate.NewLimiter" {
		fail("not xrate.NewLimiter(limit, burst)")
		return
	}
	every, ok := call.Args[0].(*ast.CallExpr)
	if !ok || len(every.Args) != 1 || s.src(every.Fun) != "xrate.Every" {
		fail("the limit is not xrate.Every(interval)")
		return
	}
	iv, err := c03Duration(every.Args[0])
	if err != nil {
		fail(err.Error())
		return
	}
	b, err := c03Expr("", call.Args[1])
	if err != nil {
		fail(err.Error())
		return
	}
	e.printf("/-- translated from NewTokenLimiter: the interval (ns) handed to xrate.Every for the rescue limiter -/\ndef rescueEveryNs (rate burst : Int) : Int := %s\n\n", iv)
	e.printf("/-- translated from NewTokenLimiter: the burst handed to xrate.NewLimiter -/\ndef rescueBurst (rate burst : Int) : Int := %s\n\n", b)
}

// ---------------------------------------------------------------------------------------------------------
// round 5c: the store client's functions and NewPeriodLimit / Align, semantically.

// c03ErrChain translates a function that is a sequence of `x, err := <call>` / `if err != nil { return … }` and a final
// return: every `err != nil` is mapped to the Bool parameter named for the call whose result it tests.
func (e *emitter) c03ErrChain(s *source, rel, goName, sig, fallback string, errName func(assign string) string,
	val func(srcs string, body []ast.Stmt) (string, error)) {
	fd := s.findFunc(rel, goName)
	if fd == nil {
		e.errors = append(e.errors, goName+" not found")
		e.printf("%s %s\n\n", sig, fallback)
		return
	}
	cc := &c03Chain{recv: recvName(fd), conds: map[string]string{}}
	cc.skip = func(src string) bool {
		n := errName(src)
		if n == "" {
			return false
		}
		cc.conds["err != nil"] = n
		return true
	}
	cc.val = func(s *source, body []ast.Stmt) (string, error) {
		var srcs []string
		for _, b := range body {
			srcs = append(srcs, s.src(b))
		}
		return val(strings.Join(srcs, "; "), body)
	}
	body, err := cc.walk(s, fd.Body.List)
	if err != nil {
		e.errors = append(e.errors, goName+": "+err.Error())
		e.printf("%s %s\n\n", sig, fallback)
		return
	}
	e.printf("/-- translated from `%s` in %s -/\n%s\n  %s\n\n", goName, rel, sig, body)
}

// c03SwitchConsts: a function whose body is one `switch <tag>` with constant string cases and a default:
// the values of the case constants whose clause returns a call (no error literal), and whether the default returns nil + an error
func (e *emitter) c03SwitchConsts(s *source, rel, goName, leanAccepted, leanDefault string) {
	fd := s.findFunc(rel, goName)
	var acc []string
	dflt := false
	ok := false
	if fd != nil && len(fd.Body.List) == 1 {
		if sw, isSw := fd.Body.List[0].(*ast.SwitchStmt); isSw && sw.Init == nil {
			ok = true
			for _, c := range sw.Body.List {
				cl := c.(*ast.CaseClause)
				ret, isRet := (ast.Stmt)(nil), false
				if len(cl.Body) == 1 {
					ret, isRet = cl.Body[0], true
				}
				r, isR := ret.(*ast.ReturnStmt)
				if !isRet || !isR {
					ok = false
					continue
				}
				if cl.List == nil {
					dflt = len(r.Results) == 2 && s.src(r.Results[0]) == "nil" && strings.HasPrefix(s.src(r.Results[1]), "fmt.Errorf(")
					continue
				}
				if _, isCall := r.Results[0].(*ast.CallExpr); !isCall || len(r.Results) != 1 {
					ok = false
					continue
				}
				for _, ce := range cl.List {
					cv, okc := s.eval(rel, ce)
					if !okc {
						ok = false
						continue
					}
					acc = append(acc, strings.Trim(cv.ExactString(), "\""))
				}
			}
		}
	}
	if !ok {
		e.errors = append(e.errors, goName+": not a switch over constants")
		acc = []string{"MISSING"}
	}
	e.stringList(leanAccepted, "values of the case constants of the switch in `"+goName+"` ("+rel+") whose clause returns a client", acc)
	e.printf("/-- the default clause of the switch in `%s` returns nil and an error -/\ndef %s : Bool := %v\n\n", goName, leanDefault, dflt)
}

// c03OrErrs: `return err == nil || errorx.In(err, A, B) || errors.Is(err, C)`: the accepted error values
func (e *emitter) c03OrErrs(s *source, rel, goName, lean string) {
	fd := s.findFunc(rel, goName)
	var out []string
	ok := false
	var walk func(x ast.Expr) bool
	walk = func(x ast.Expr) bool {
		switch v := x.(type) {
		case *ast.ParenExpr:
			return walk(v.X)
		case *ast.BinaryExpr:
			if v.Op == token.LOR {
				return walk(v.X) && walk(v.Y)
			}
			if v.Op == token.EQL && s.src(v.X) == "err" {
				out = append(out, s.src(v.Y))
				return true
			}
		case *ast.CallExpr:
			f := s.src(v.Fun)
			if (f == "errorx.In" || f == "errors.Is") && len(v.Args) >= 2 && s.src(v.Args[0]) == "err" {
				for _, a := range v.Args[1:] {
					out = append(out, s.src(a))
				}
				return true
			}
		}
		return false
	}
	if fd != nil && len(fd.Body.List) == 1 {
		if r, isR := fd.Body.List[0].(*ast.ReturnStmt); isR && len(r.Results) == 1 {
			ok = walk(r.Results[0])
		}
	}
	if !ok {
		e.errors = append(e.errors, goName+": not a disjunction of error tests")
		out = []string{"MISSING"}
	}
	e.stringList(lean, "error values `"+goName+"` ("+rel+") accepts (`nil` = no error)", out)
}

// c03Ctor: NewPeriodLimit = `limiter := &PeriodLimit{f: e, …}`, `for _, opt := range opts { opt(limiter) }`, `return limiter`;
// Align = `return func(l *PeriodLimit) { l.f = v }`.  Emits the field initialisers, the loop as (loop variable, ranged
// expression, called function, argument), the returned variable, and the assignments of the option's closure.
func (e *emitter) c03Ctor(s *source, rel string) {
	pairs := func(name string, kv [][2]string) {
		e.printf("def %s : List (String × String) := [", name)
		for i, p := range kv {
			if i > 0 {
				e.printf(", ")
			}
			e.printf("(%s, %s)", leanString(p[0]), leanString(p[1]))
		}
		e.printf("]\n\n")
	}
	var fields, closure [][2]string
	loop := []string{"MISSING"}
	ret, litVar := "MISSING", "MISSING"
	if fd := s.findFunc(rel, "NewPeriodLimit"); fd != nil && len(fd.Body.List) == 3 {
		if as, ok := fd.Body.List[0].(*ast.AssignStmt); ok && len(as.Lhs) == 1 && len(as.Rhs) == 1 {
			litVar = s.src(as.Lhs[0])
			if u, ok := as.Rhs[0].(*ast.UnaryExpr); ok && u.Op == token.AND {
				if cl, ok := u.X.(*ast.CompositeLit); ok {
					for _, el := range cl.Elts {
						if kv, ok := el.(*ast.KeyValueExpr); ok {
							fields = append(fields, [2]string{s.src(kv.Key), s.src(kv.Value)})
						}
					}
				}
			}
		}
		if rg, ok := fd.Body.List[1].(*ast.RangeStmt); ok && rg.Value != nil && len(rg.Body.List) == 1 {
			if es, ok := rg.Body.List[0].(*ast.ExprStmt); ok {
				if call, ok := es.X.(*ast.CallExpr); ok && len(call.Args) == 1 {
					loop = []string{s.src(rg.Value), s.src(rg.X), s.src(call.Fun), s.src(call.Args[0])}
				}
			}
		}
		if r, ok := fd.Body.List[2].(*ast.ReturnStmt); ok && len(r.Results) == 1 {
			ret = s.src(r.Results[0])
		}
	} else {
		e.errors = append(e.errors, "NewPeriodLimit: unexpected shape")
	}
	if fd := s.findFunc(rel, "Align"); fd != nil && len(fd.Body.List) == 1 {
		if r, ok := fd.Body.List[0].(*ast.ReturnStmt); ok && len(r.Results) == 1 {
			if fl, ok := r.Results[0].(*ast.FuncLit); ok && len(fl.Type.Params.List) == 1 && len(fl.Type.Params.List[0].Names) == 1 {
				pv := fl.Type.Params.List[0].Names[0].Name
				for _, st := range fl.Body.List {
					if as, ok := st.(*ast.AssignStmt); ok && len(as.Lhs) == 1 && as.Tok == token.ASSIGN {
						if sel, ok := as.Lhs[0].(*ast.SelectorExpr); ok && s.src(sel.X) == pv {
							closure = append(closure, [2]string{sel.Sel.Name, s.src(as.Rhs[0])})
							continue
						}
					}
					e.errors = append(e.errors, "Align: statement outside the vocabulary: "+s.src(st))
				}
			}
		}
	} else {
		e.errors = append(e.errors, "Align: unexpected shape")
	}
	pairs("newPeriodFields", fields)
	e.stringList("newPeriodLoop", "the option loop of NewPeriodLimit: loop variable, ranged expression, called function, its argument", loop)
	e.printf("def newPeriodLitVar : String := %s\ndef newPeriodRet : String := %s\n\n", leanString(litVar), leanString(ret))
	pairs("alignAssigns", closure)
}

// round 5e: where a field of the limiter is written.  Every function of the file that assigns `<x>.field` or sets
// `field:` in a composite literal, as "<function>:<assign|literal>", in source order.
func (e *emitter) c03FieldWrites(s *source, rel, field, lean string) {
	var out []string
	f := s.file(rel)
	if f == nil {
		e.errors = append(e.errors, "cannot parse "+rel)
		out = []string{"MISSING"}
	} else {
		for _, d := range f.Decls {
			fd, ok := d.(*ast.FuncDecl)
			if !ok || fd.Body == nil {
				continue
			}
			name := fd.Name.Name
			if r := recvTypeName(fd); r != "" {
				name = r + "." + name
			}
			ast.Inspect(fd.Body, func(n ast.Node) bool {
				switch x := n.(type) {
				case *ast.AssignStmt:
					for _, l := range x.Lhs {
						if sel, ok := l.(*ast.SelectorExpr); ok && sel.Sel.Name == field {
							out = append(out, name+":assign")
						}
					}
				case *ast.KeyValueExpr:
					if id, ok := x.Key.(*ast.Ident); ok && id.Name == field {
						out = append(out, name+":literal")
					}
				case *ast.UnaryExpr:
					if x.Op == token.AND {
						if sel, ok := x.X.(*ast.SelectorExpr); ok && sel.Sel.Name == field {
							out = append(out, name+":address-taken")
						}
					}
				}
				return true
			})
		}
	}
	e.stringList(lean, "every place in "+rel+" that writes the field `"+field+"` (function:kind)", out)
}

func init() {
	register("C03", func(s *source, e *emitter) {
		const pf = "core/limit/periodlimit.go"
		const tf = "core/limit/tokenlimit.go"
		for _, x := range []struct{ rel, lean string }{
			{"core/limit/periodscript.lua", "periodLua"},
			{"core/limit/tokenscript.lua", "tokenLua"},
		} {
			st, err := luaStatements(x.rel)
			if err != nil {
				e.errors = append(e.errors, fmt.Sprintf("cannot read %s: %v", x.rel, err))
				st = []string{"MISSING"}
			}
			e.stringList(x.lean, "statements of "+x.rel+" (comments, indentation, blank lines dropped)", st)
		}
		e.constDef(s, pf, "internalOverQuota", "internalOverQuota")
		e.constDef(s, pf, "internalAllowed", "internalAllowed")
		e.constDef(s, pf, "internalHitQuota", "internalHitQuota")
		names := iotaConsts(s, pf, "Unknown")
		if names == nil {
			e.errors = append(e.errors, "iota const block starting with Unknown not found in "+pf)
			names = []string{"MISSING"}
		}
		e.stringList("publicCodes", "the exported result codes of periodlimit.go in iota order (value = index)", names)
		e.stringList("periodScriptCall", "arguments of ScriptRunCtx in PeriodLimit.TakeCtx", callArgs(s, pf, "PeriodLimit.TakeCtx", "ScriptRunCtx"))
		e.detailDef(s, pf, "PeriodLimit.TakeCtx", "takeShape")
		e.detailDefFull(s, pf, "PeriodLimit.calcExpireSeconds", "calcExpireShape")
		e.detailDef(s, pf, "PeriodLimit.Take", "takeWrapShape")
		e.detailDef(s, pf, "Align", "alignShape")
		e.stringList("periodInit", "fields of the PeriodLimit literal in NewPeriodLimit",
			[]string{fieldInit(s, pf, "NewPeriodLimit", "period"), fieldInit(s, pf, "NewPeriodLimit", "quota"),
				fieldInit(s, pf, "NewPeriodLimit", "limitStore"), fieldInit(s, pf, "NewPeriodLimit", "keyPrefix")})

		e.constDef(s, tf, "tokenFormat", "tokenFormat")
		e.constDef(s, tf, "timestampFormat", "timestampFormat")
		e.constDef(s, tf, "pingInterval", "pingInterval")
		e.stringList("tokenScriptCall", "arguments of ScriptRunCtx in TokenLimiter.reserveN", callArgs(s, tf, "TokenLimiter.reserveN", "ScriptRunCtx"))
		e.stringList("limiterInit", "initial redisAlive and the construction of the rescue limiter in NewTokenLimiter",
			[]string{fieldInit(s, tf, "NewTokenLimiter", "redisAlive"), fieldInit(s, tf, "NewTokenLimiter", "rescueLimiter"),
				fieldInit(s, tf, "NewTokenLimiter", "tokenKey"), fieldInit(s, tf, "NewTokenLimiter", "timestampKey")})
		e.detailDef(s, tf, "TokenLimiter.reserveN", "reserveShape")
		e.detailDef(s, tf, "TokenLimiter.startMonitor", "startMonitorShape")
		e.detailDef(s, tf, "TokenLimiter.waitForRedis", "waitForRedisShape")
		e.detailDef(s, tf, "TokenLimiter.AllowN", "allowNShape")
		e.detailDef(s, tf, "TokenLimiter.AllowNCtx", "allowNCtxShape")
		e.detailDef(s, tf, "TokenLimiter.Allow", "allowShape")
		e.detailDef(s, tf, "TokenLimiter.AllowCtx", "allowCtxShape")
		e.stringList("limiterFields", "rate, burst and store fields of the TokenLimiter literal in NewTokenLimiter",
			[]string{fieldInit(s, tf, "NewTokenLimiter", "rate"), fieldInit(s, tf, "NewTokenLimiter", "burst"),
				fieldInit(s, tf, "NewTokenLimiter", "store")})

		// round 4: semantic ties and the store client's script path
		const rf = "core/stores/redis/redis.go"
		e.c03LuaToks("core/limit/periodscript.lua", "periodLuaToks")
		e.c03CalcExpire(s, pf)
		e.c03TakeChain(s, pf)
		e.c03ReserveChain(s, tf)
		e.stringList("periodScriptBinding", "which text the script variable of periodlimit.go runs", scriptBinding(s, pf, "periodScript"))
		e.stringList("tokenScriptBinding", "which text the script variable of tokenlimit.go runs", scriptBinding(s, tf, "tokenScript"))
		e.detailDefFull(s, tf, "NewTokenLimiter", "newTokenLimiterShape")
		e.detailDefFull(s, pf, "NewPeriodLimit", "newPeriodLimitShape")
		e.detailDef(s, rf, "Redis.ScriptRunCtx", "scriptRunCtxShape")
		e.detailDef(s, rf, "Redis.ScriptRun", "scriptRunShape")
		e.detailDef(s, rf, "NewScript", "newScriptShape")
		e.detailDef(s, rf, "getRedis", "getRedisShape")
		e.detailDef(s, rf, "acceptable", "acceptableShape")
		e.detailDef(s, rf, "Redis.Ping", "pingShape")
		e.detailDef(s, rf, "Redis.PingCtx", "pingCtxShape")

		// round 5
		e.c03Forward(s, pf, "PeriodLimit.Take", "TakeCtx", "takeFwd")
		e.c03Forward(s, tf, "TokenLimiter.Allow", "AllowN", "allowFwd")
		e.c03Forward(s, tf, "TokenLimiter.AllowCtx", "AllowNCtx", "allowCtxFwd")
		e.c03Forward(s, tf, "TokenLimiter.AllowN", "reserveN", "allowNFwd")
		e.c03Forward(s, tf, "TokenLimiter.AllowNCtx", "reserveN", "allowNCtxFwd")
		e.c03RescueLimiter(s, tf)
		e.c03LuaToks("core/limit/tokenscript.lua", "tokenLuaToks")

		// round 5c
		e.c03Forward(s, rf, "Redis.ScriptRun", "ScriptRunCtx", "scriptRunFwd")
		e.c03Forward(s, rf, "Redis.Ping", "PingCtx", "pingFwd")
		e.stringList("scriptRunCtxCallArgs", "arguments of script.Run in Redis.ScriptRunCtx", callArgs(s, rf, "Redis.ScriptRunCtx", "Run"))
		e.c03ErrChain(s, rf, "Redis.ScriptRunCtx", "def scriptRunCtxChain (typeErr : Bool) : Int :=", "9",
			func(a string) string {
				if a == "conn, err := getRedis(s)" {
					return "typeErr"
				}
				return ""
			},
			func(srcs string, body []ast.Stmt) (string, error) {
				switch {
				case srcs == "return nil, err":
					return "0", nil // the error of getRedis, nothing is sent
				case strings.HasPrefix(srcs, "return script.Run(") && strings.HasSuffix(srcs, ").Result()"):
					return "1", nil // value AND error of the one script.Run(...) call, unchanged
				}
				return "", fmt.Errorf("block %q is not in the vocabulary", srcs)
			})
		e.c03ErrChain(s, rf, "Redis.PingCtx", "def pingCtxChain (typeErr cmdErr : Bool) (v : String) : Bool :=", "true",
			func(a string) string {
				switch a {
				case "conn, err := getRedis(s)":
					return "typeErr"
				case "v, err := conn.Ping(ctx).Result()":
					return "cmdErr"
				}
				return ""
			},
			func(srcs string, body []ast.Stmt) (string, error) {
				switch srcs {
				case "return false":
					return "false", nil
				case "return v == \"PONG\"":
					return "(v == \"PONG\")", nil
				}
				return "", fmt.Errorf("block %q is not in the vocabulary", srcs)
			})
		e.c03SwitchConsts(s, rf, "getRedis", "getRedisAccepted", "getRedisDefaultIsError")
		e.c03OrErrs(s, rf, "acceptable", "acceptableErrs")
		e.c03Ctor(s, pf)

		// round 5e
		e.c03FieldWrites(s, tf, "rescueLimiter", "rescueLimiterWrites")
		e.c03FieldWrites(s, tf, "burst", "burstWrites")
		e.c03FieldWrites(s, tf, "rate", "rateWrites")
	})
}
