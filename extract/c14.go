package main

func init() {
	register("C14", func(s *source, e *emitter) {
		const tx = "core/stores/sqlx/tx.go"
		const sc = "core/stores/sqlx/sqlconn.go"
		const cc = "core/stores/sqlc/cachedsql.go"
		// the deferred decision (recover -> Rollback; err -> Rollback; else Commit) and the begin guard
		e.shapeDef(s, tx, "transactOnConn", "transactOnConnShape")
		e.shapeDef(s, tx, "transact", "transactShape")
		e.shapeDef(s, tx, "begin", "beginShape")
		// the wrappers: breaker + acceptable, and the ctx-less entry points
		e.shapeDef(s, sc, "commonSqlConn.TransactCtx", "transactCtxShape")
		e.shapeDef(s, sc, "commonSqlConn.Transact", "transactPlainShape")
		e.shapeDef(s, sc, "commonSqlConn.acceptable", "acceptableShape")
		e.shapeDef(s, cc, "CachedConn.TransactCtx", "cachedTransactCtxShape")
		e.shapeDef(s, cc, "CachedConn.Transact", "cachedTransactShape")
		// nested transactions are refused
		e.shapeDef(s, tx, "txConn.Transact", "txConnTransactShape")
		e.shapeDef(s, tx, "txConn.TransactCtx", "txConnTransactCtxShape")
	})
}
