package main

import (
	"fmt"
	"go/ast"
	"go/token"
	"regexp"
	"strconv"
	"strings"
)

// C14: besides the generic statement skeletons, the body of transactOnConn is emitted as a small control-flow
// term (type Blk, declared in the generated file itself) that keeps what the property depends on: every
// assignment to the named result `err` with its right-hand side (calls by source text, fmt.Errorf by its
// verb/argument pairs, so %w vs %s is visible), if/else-if/else with init statement and condition, the
// deferred function, and the returns. Tie.lean gives this term a semantics and proves it equal to the model.

const c14IRDecl = `/-- right-hand sides / returned expressions -/
inductive Rhs
  | none                                   -- bare return
  | call (src : String)                    -- a call, by source text
  | errorf (verbs : List (String × String)) -- fmt.Errorf: (verb, argument source) pairs
  | other (src : String)
  deriving DecidableEq, Repr

/-- control-flow term of a function body (statement, then continuation) -/
inductive Blk
  | done
  | assignErr (r : Rhs) (k : Blk)                          -- … err … = r
  | ifc (init cond : String) (thn els : Blk) (k : Blk)     -- if init; cond { thn } else { els }; k
  | deferFn (body : Blk) (k : Blk)                         -- defer func() { body }(); k
  | ret (r : Rhs)                                          -- return r
  | other (src : String) (k : Blk)
  deriving DecidableEq, Repr

`

var c14Verb = regexp.MustCompile(`%[#+\- 0]*[a-zA-Z]`)

func (s *source) c14Rhs(e ast.Expr) string {
	if call, ok := e.(*ast.CallExpr); ok {
		if s.src(call.Fun) == "fmt.Errorf" && len(call.Args) >= 1 {
			if lit, ok := call.Args[0].(*ast.BasicLit); ok && lit.Kind == token.STRING {
				format, err := strconv.Unquote(lit.Value)
				if err == nil {
					verbs := c14Verb.FindAllString(format, -1)
					if len(verbs) == len(call.Args)-1 {
						var ps []string
						for i, v := range verbs {
							ps = append(ps, fmt.Sprintf("(%s, %s)", leanString(v), leanString(s.src(call.Args[i+1]))))
						}
						return ".errorf [" + strings.Join(ps, ", ") + "]"
					}
				}
			}
		}
		return ".call " + leanString(s.src(call))
	}
	return ".other " + leanString(s.src(e))
}

func assignsErr(x *ast.AssignStmt) bool {
	for _, l := range x.Lhs {
		if id, ok := l.(*ast.Ident); ok && id.Name == "err" {
			return true
		}
	}
	return false
}

// c14Blk renders list[i:] as a Blk term.
func (s *source) c14Blk(list []ast.Stmt, ind string) string {
	if len(list) == 0 {
		return ".done"
	}
	st, rest := list[0], list[1:]
	k := func() string { return s.c14Blk(rest, ind) }
	in := ind + "  "
	switch x := st.(type) {
	case *ast.AssignStmt:
		if assignsErr(x) && len(x.Rhs) == 1 {
			return fmt.Sprintf(".assignErr (%s) <|\n%s%s", s.c14Rhs(x.Rhs[0]), ind, k())
		}
	case *ast.IfStmt:
		init := ""
		if x.Init != nil {
			init = s.src(x.Init)
		}
		els := ".done"
		switch e := x.Else.(type) {
		case *ast.BlockStmt:
			els = s.c14Blk(e.List, in)
		case *ast.IfStmt:
			els = s.c14Blk([]ast.Stmt{e}, in)
		}
		return fmt.Sprintf(".ifc %s %s\n%s(%s)\n%s(%s) <|\n%s%s", leanString(init), leanString(s.src(x.Cond)),
			in, s.c14Blk(x.Body.List, in), in, els, ind, k())
	case *ast.DeferStmt:
		if fl, ok := x.Call.Fun.(*ast.FuncLit); ok && len(x.Call.Args) == 0 {
			return fmt.Sprintf(".deferFn\n%s(%s) <|\n%s%s", in, s.c14Blk(fl.Body.List, in), ind, k())
		}
	case *ast.ReturnStmt:
		switch len(x.Results) {
		case 0:
			return ".ret .none"
		case 1:
			return fmt.Sprintf(".ret (%s)", s.c14Rhs(x.Results[0]))
		}
	case *ast.DeclStmt:
		// `var tx trans`: no effect on the decision
		return k()
	}
	return fmt.Sprintf(".other %s <|\n%s%s", leanString(s.src(st)), ind, k())
}

func (e *emitter) c14BlkDef(s *source, rel, goName, leanName string) {
	fd := s.findFunc(rel, goName)
	if fd == nil {
		e.errors = append(e.errors, fmt.Sprintf("function %s not found in %s", goName, rel))
		e.printf("/-- MISSING: %s in %s -/\ndef %s : Blk := .other \"MISSING\" .done\n\n", goName, rel, leanName)
		return
	}
	// the names of the results: the decision relies on the named result `err`
	named := ""
	if fd.Type.Results != nil {
		for _, f := range fd.Type.Results.List {
			for _, n := range f.Names {
				named += n.Name + " "
			}
		}
	}
	e.printf("/-- named results of `%s` -/\ndef %sResults : String := %s\n\n", goName, leanName, leanString(strings.TrimSpace(named)))
	e.printf("/-- control-flow term of `%s` in %s -/\ndef %s : Blk :=\n  %s\n\n", goName, rel, leanName, s.c14Blk(fd.Body.List, "  "))
}

// the sentinels `acceptable` passes to errorx.In
func (e *emitter) c14AcceptSentinels(s *source, rel string) {
	fd := s.findFunc(rel, "commonSqlConn.acceptable")
	var out []string
	if fd != nil {
		ast.Inspect(fd.Body, func(n ast.Node) bool {
			if c, ok := n.(*ast.CallExpr); ok && s.src(c.Fun) == "errorx.In" {
				for _, a := range c.Args[1:] {
					out = append(out, s.src(a))
				}
			}
			return true
		})
	} else {
		e.errors = append(e.errors, "commonSqlConn.acceptable not found")
	}
	e.stringList("acceptSentinels", "sentinels `acceptable` passes to errorx.In", out)
}

var c14Space = regexp.MustCompile(`\s+`)

func c14Flat(src string) string { return strings.TrimSpace(c14Space.ReplaceAllString(src, " ")) }

// c14Wiring emits what ties an entry point to the next function on the property's path: every `return`
// expression (also inside function literals, marked "func:") and every call whose callee text is in `calls`,
// as whitespace-normalised source — arguments included, so a changed callee, context, begin function,
// acceptable function or passed-on body shows.
func (e *emitter) c14Wiring(s *source, rel, goName, leanName string, calls ...string) {
	fd := s.findFunc(rel, goName)
	var out []string
	if fd == nil {
		e.errors = append(e.errors, fmt.Sprintf("function %s not found in %s", goName, rel))
		e.stringList(leanName, "MISSING "+goName, out)
		return
	}
	want := map[string]bool{}
	for _, c := range calls {
		want[c] = true
	}
	var walk func(n ast.Node, depth int)
	walk = func(n ast.Node, depth int) {
		ast.Inspect(n, func(m ast.Node) bool {
			switch x := m.(type) {
			case *ast.FuncLit:
				if m != n {
					walk(x.Body, depth+1)
					return false
				}
			case *ast.ReturnStmt:
				pre := strings.Repeat("func:", depth)
				var rs []string
				for _, r := range x.Results {
					rs = append(rs, c14Flat(s.src(r)))
				}
				out = append(out, pre+"return "+strings.Join(rs, ", "))
			case *ast.CallExpr:
				if want[s.src(x.Fun)] {
					out = append(out, strings.Repeat("func:", depth)+"call "+c14Flat(s.src(x)))
				}
			}
			return true
		})
	}
	walk(fd.Body, 0)
	e.stringList(leanName, "returns and path calls of `"+goName+"` in "+rel, out)
}

// c14LitFields emits `field: value` of the composite literal of type typ built in a function (function-literal
// values as "func"): which begin function and breaker a constructor installs.
func (e *emitter) c14LitFields(s *source, rel, goName, typ, leanName string) {
	fd := s.findFunc(rel, goName)
	var out []string
	if fd == nil {
		e.errors = append(e.errors, fmt.Sprintf("function %s not found in %s", goName, rel))
		e.stringList(leanName, "MISSING "+goName, out)
		return
	}
	found := false
	ast.Inspect(fd.Body, func(n ast.Node) bool {
		cl, ok := n.(*ast.CompositeLit)
		if !ok || cl.Type == nil || s.src(cl.Type) != typ {
			return true
		}
		found = true
		for _, el := range cl.Elts {
			if kv, ok := el.(*ast.KeyValueExpr); ok {
				v := c14Flat(s.src(kv.Value))
				if _, isFn := kv.Value.(*ast.FuncLit); isFn {
					v = "func"
				}
				out = append(out, s.src(kv.Key)+": "+v)
			} else {
				out = append(out, "positional: "+c14Flat(s.src(el)))
			}
		}
		return false
	})
	if !found {
		e.errors = append(e.errors, fmt.Sprintf("no %s literal in %s", typ, goName))
	}
	e.stringList(leanName, typ+" literal built by `"+goName+"` in "+rel, out)
}

// the value of a package-level `var name = …` (the sentinel errors)
func (e *emitter) c14VarInit(s *source, rel, name, leanName string) {
	f := s.file(rel)
	val := ""
	if f != nil {
		for _, d := range f.Decls {
			gd, ok := d.(*ast.GenDecl)
			if !ok || gd.Tok != token.VAR {
				continue
			}
			for _, sp := range gd.Specs {
				vs := sp.(*ast.ValueSpec)
				for i, n := range vs.Names {
					if n.Name == name && i < len(vs.Values) {
						val = c14Flat(s.src(vs.Values[i]))
					}
				}
			}
		}
	}
	if val == "" {
		e.errors = append(e.errors, fmt.Sprintf("var %s not found in %s", name, rel))
	}
	e.printf("/-- initialiser of `%s` in %s -/\ndef %s : String := %s\n\n", name, rel, leanName, leanString(val))
}

func init() {
	register("C14", func(s *source, e *emitter) {
		const tx = "core/stores/sqlx/tx.go"
		const sc = "core/stores/sqlx/sqlconn.go"
		const cc = "core/stores/sqlc/cachedsql.go"
		e.printf("%s", c14IRDecl)
		// the begin guard and the deferred decision (recover -> Rollback; err -> Rollback; else Commit)
		e.c14BlkDef(s, tx, "transactOnConn", "transactOnConnBlk")
		e.c14BlkDef(s, tx, "transact", "transactBlk")
		e.shapeDef(s, tx, "transactOnConn", "transactOnConnShape")
		e.shapeDef(s, tx, "transact", "transactShape")
		e.shapeDef(s, tx, "begin", "beginShape")
		// the wrappers: breaker + acceptable, and the ctx-less entry points
		e.shapeDef(s, sc, "commonSqlConn.TransactCtx", "transactCtxShape")
		e.shapeDef(s, sc, "commonSqlConn.Transact", "transactPlainShape")
		e.shapeDef(s, sc, "commonSqlConn.acceptable", "acceptableShape")
		e.c14AcceptSentinels(s, sc)
		e.shapeDef(s, cc, "CachedConn.TransactCtx", "cachedTransactCtxShape")
		e.shapeDef(s, cc, "CachedConn.Transact", "cachedTransactShape")
		// nested transactions are refused
		e.shapeDef(s, tx, "txConn.Transact", "txConnTransactShape")
		e.shapeDef(s, tx, "txConn.TransactCtx", "txConnTransactCtxShape")
		// the wiring of every entry point down to transactOnConn: callee and arguments of each hop
		e.c14Wiring(s, sc, "commonSqlConn.Transact", "wireTransact", "fn")
		e.c14Wiring(s, sc, "commonSqlConn.TransactCtx", "wireTransactCtx", "db.brk.DoWithAcceptableCtx", "startSpan")
		e.c14Wiring(s, tx, "transact", "wireTransactFn", "db.connProv")
		e.c14Wiring(s, tx, "begin", "wireBegin", "db.Begin", "db.BeginTx")
		e.c14Wiring(s, cc, "CachedConn.Transact", "wireCachedTransact")
		e.c14Wiring(s, cc, "CachedConn.TransactCtx", "wireCachedTransactCtx")
		e.c14Wiring(s, cc, "CachedConn.WithSession", "wireWithSession")
		e.c14Wiring(s, sc, "NewSqlConnFromSession", "wireFromSession")
		e.c14Wiring(s, tx, "txConn.Transact", "wireTxConnTransact")
		e.c14Wiring(s, tx, "txConn.TransactCtx", "wireTxConnTransactCtx")
		e.c14Wiring(s, tx, "txSession.ExecCtx", "wireTxExecCtx", "exec")
		e.c14LitFields(s, sc, "NewSqlConn", "commonSqlConn", "litNewSqlConn")
		e.c14LitFields(s, sc, "NewSqlConnFromDB", "commonSqlConn", "litNewSqlConnFromDB")
		e.c14VarInit(s, "core/stores/sqlx/errors.go", "errCantNestTx", "errCantNestTxInit")
	})
}
