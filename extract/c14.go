package main

import (
	"fmt"
	"go/ast"
	"go/token"
	"regexp"
	"strconv"
	"strings"
)

// C14: besides the generic statement skeletons, the body of transactOnConn is emitted as a small control-flow
// term (type Blk, declared in the generated file itself) that keeps what the property depends on: every
// assignment to the named result `err` with its right-hand side (calls by source text, fmt.Errorf by its
// verb/argument pairs, so %w vs %s is visible), if/else-if/else with init statement and condition, the
// deferred function, and the returns. Tie.lean gives this term a semantics and proves it equal to the model.

const c14IRDecl = `/-- right-hand sides / returned expressions -/
inductive Rhs
  | none                                   -- bare return
  | call (src : String)                    -- a call, by source text
  | errorf (verbs : List (String × String)) -- fmt.Errorf: (verb, argument source) pairs
  | other (src : String)
  deriving DecidableEq, Repr

/-- control-flow term of a function body (statement, then continuation) -/
inductive Blk
  | done
  | assignErr (r : Rhs) (k : Blk)                          -- … err … = r
  | ifc (init cond : String) (thn els : Blk) (k : Blk)     -- if init; cond { thn } else { els }; k
  | deferFn (body : Blk) (k : Blk)                         -- defer func() { body }(); k
  | ret (r : Rhs)                                          -- return r
  | other (src : String) (k : Blk)
  deriving DecidableEq, Repr

/-- a boolean Go expression over the error err (the decision-making conditions of acceptable / WithAcceptable) -/
inductive BX
  | lit (b : Bool)
  | isNil (v : String)                 -- v == nil
  | errIn (sentinels : List String)    -- errorx.In(err, …) / errors.Is(err, x)
  | errAs (v : String)                 -- errors.As(err, &v)
  | call (f : String)                  -- f(err)
  | not (a : BX)
  | or (a b : BX)                      -- a || b (short-circuit)
  | and (a b : BX)
  | other (src : String)
  deriving DecidableEq, Repr

/-- a function body of the form  [var v T;] if c { return v } … return v -/
inductive RC
  | ifRet (c v : BX) (k : RC)
  | ret (v : BX)
  | decl (v ty : String) (k : RC)
  | other (src : String)
  | fallOff
  deriving DecidableEq, Repr

/-- an argument a function on the transaction path passes on to the next one -/
inductive Arg
  | param (i : Nat)                    -- the i-th parameter of the enclosing function (receiver not counted), as it came in
  | rebound (i : Nat) (rhs : String)   -- that parameter after the function re-bound it: name, … := rhs
  | bg                                 -- context.Background()
  | recvField (path : String)          -- a field / method value of the receiver (db.beginTx, db.acceptable)
  | recv                               -- the receiver itself
  | local (name : String)              -- a local variable
  | adapt (nparams callee : Nat) (args : List Nat)  -- func(p₀ … pₙ₋₁) T { return <outer param callee>(p_args…) }
  | thunk                              -- func() error { return <next call> }  (emitted as its own Fwd)
  | other (src : String)
  deriving DecidableEq, Repr

/-- one hop of the path: the callee (source text) and the arguments it is given, in order -/
structure Fwd where
  callee : String
  args : List Arg
  deriving DecidableEq, Repr

/-- a function value: a name, or a literal  func(err error) bool { return body } -/
inductive FX
  | name (n : String)
  | lam (body : BX)
  | other (src : String)
  deriving DecidableEq, Repr

`

var c14Verb = regexp.MustCompile(`%[#+\- 0]*[a-zA-Z]`)

func (s *source) c14Rhs(e ast.Expr) string {
	if call, ok := e.(*ast.CallExpr); ok {
		if s.src(call.Fun) == "fmt.Errorf" && len(call.Args) >= 1 {
			if lit, ok := call.Args[0].(*ast.BasicLit); ok && lit.Kind == token.STRING {
				format, err := strconv.Unquote(lit.Value)
				if err == nil {
					verbs := c14Verb.FindAllString(format, -1)
					if len(verbs) == len(call.Args)-1 {
						var ps []string
						for i, v := range verbs {
							ps = append(ps, fmt.Sprintf("(%s, %s)", leanString(v), leanString(s.src(call.Args[i+1]))))
						}
						return ".errorf [" + strings.Join(ps, ", ") + "]"
					}
				}
			}
		}
		return ".call " + leanString(s.src(call))
	}
	return ".other " + leanString(s.src(e))
}

func assignsErr(x *ast.AssignStmt) bool {
	for _, l := range x.Lhs {
		if id, ok := l.(*ast.Ident); ok && id.Name == "err" {
			return true
		}
	}
	return false
}

// c14Blk renders list[i:] as a Blk term.
func (s *source) c14Blk(list []ast.Stmt, ind string) string {
	if len(list) == 0 {
		return ".done"
	}
	st, rest := list[0], list[1:]
	k := func() string { return s.c14Blk(rest, ind) }
	in := ind + "  "
	switch x := st.(type) {
	case *ast.AssignStmt:
		if assignsErr(x) && len(x.Rhs) == 1 {
			return fmt.Sprintf(".assignErr (%s) <|\n%s%s", s.c14Rhs(x.Rhs[0]), ind, k())
		}
	case *ast.IfStmt:
		init := ""
		if x.Init != nil {
			init = s.src(x.Init)
		}
		els := ".done"
		switch e := x.Else.(type) {
		case *ast.BlockStmt:
			els = s.c14Blk(e.List, in)
		case *ast.IfStmt:
			els = s.c14Blk([]ast.Stmt{e}, in)
		}
		return fmt.Sprintf(".ifc %s %s\n%s(%s)\n%s(%s) <|\n%s%s", leanString(init), leanString(s.src(x.Cond)),
			in, s.c14Blk(x.Body.List, in), in, els, ind, k())
	case *ast.DeferStmt:
		if fl, ok := x.Call.Fun.(*ast.FuncLit); ok && len(x.Call.Args) == 0 {
			return fmt.Sprintf(".deferFn\n%s(%s) <|\n%s%s", in, s.c14Blk(fl.Body.List, in), ind, k())
		}
	case *ast.ReturnStmt:
		switch len(x.Results) {
		case 0:
			return ".ret .none"
		case 1:
			return fmt.Sprintf(".ret (%s)", s.c14Rhs(x.Results[0]))
		}
	case *ast.DeclStmt:
		// `var tx trans`: no effect on the decision
		return k()
	}
	return fmt.Sprintf(".other %s <|\n%s%s", leanString(s.src(st)), ind, k())
}

func (e *emitter) c14BlkDef(s *source, rel, goName, leanName string) {
	fd := s.findFunc(rel, goName)
	if fd == nil {
		e.errors = append(e.errors, fmt.Sprintf("function %s not found in %s", goName, rel))
		e.printf("/-- MISSING: %s in %s -/\ndef %s : Blk := .other \"MISSING\" .done\n\n", goName, rel, leanName)
		return
	}
	// the names of the results: the decision relies on the named result `err`
	named := ""
	if fd.Type.Results != nil {
		for _, f := range fd.Type.Results.List {
			for _, n := range f.Names {
				named += n.Name + " "
			}
		}
	}
	e.printf("/-- named results of `%s` -/\ndef %sResults : String := %s\n\n", goName, leanName, leanString(strings.TrimSpace(named)))
	e.printf("/-- control-flow term of `%s` in %s -/\ndef %s : Blk :=\n  %s\n\n", goName, rel, leanName, s.c14Blk(fd.Body.List, "  "))
}

// the sentinels `acceptable` passes to errorx.In
func (e *emitter) c14AcceptSentinels(s *source, rel string) {
	fd := s.findFunc(rel, "commonSqlConn.acceptable")
	var out []string
	if fd != nil {
		ast.Inspect(fd.Body, func(n ast.Node) bool {
			if c, ok := n.(*ast.CallExpr); ok && s.src(c.Fun) == "errorx.In" {
				for _, a := range c.Args[1:] {
					out = append(out, s.src(a))
				}
			}
			return true
		})
	} else {
		e.errors = append(e.errors, "commonSqlConn.acceptable not found")
	}
	e.stringList("acceptSentinels", "sentinels `acceptable` passes to errorx.In", out)
}

var c14Space = regexp.MustCompile(`\s+`)

func c14Flat(src string) string { return strings.TrimSpace(c14Space.ReplaceAllString(src, " ")) }

// c14Wiring emits what ties an entry point to the next function on the property's path: every `return`
// expression (also inside function literals, marked "func:") and every call whose callee text is in `calls`,
// as whitespace-normalised source — arguments included, so a changed callee, context, begin function,
// acceptable function or passed-on body shows.
func (e *emitter) c14Wiring(s *source, rel, goName, leanName string, calls ...string) {
	fd := s.findFunc(rel, goName)
	var out []string
	if fd == nil {
		e.errors = append(e.errors, fmt.Sprintf("function %s not found in %s", goName, rel))
		e.stringList(leanName, "MISSING "+goName, out)
		return
	}
	want := map[string]bool{}
	for _, c := range calls {
		want[c] = true
	}
	var walk func(n ast.Node, depth int)
	walk = func(n ast.Node, depth int) {
		ast.Inspect(n, func(m ast.Node) bool {
			switch x := m.(type) {
			case *ast.FuncLit:
				if m != n {
					walk(x.Body, depth+1)
					return false
				}
			case *ast.ReturnStmt:
				pre := strings.Repeat("func:", depth)
				var rs []string
				for _, r := range x.Results {
					rs = append(rs, c14Flat(s.src(r)))
				}
				out = append(out, pre+"return "+strings.Join(rs, ", "))
			case *ast.CallExpr:
				if want[s.src(x.Fun)] {
					out = append(out, strings.Repeat("func:", depth)+"call "+c14Flat(s.src(x)))
				}
			}
			return true
		})
	}
	walk(fd.Body, 0)
	e.stringList(leanName, "returns and path calls of `"+goName+"` in "+rel, out)
}

// c14LitFields emits `field: value` of the composite literal of type typ built in a function (function-literal
// values as "func"): which begin function and breaker a constructor installs.
func (e *emitter) c14LitFields(s *source, rel, goName, typ, leanName string) {
	fd := s.findFunc(rel, goName)
	var out []string
	if fd == nil {
		e.errors = append(e.errors, fmt.Sprintf("function %s not found in %s", goName, rel))
		e.stringList(leanName, "MISSING "+goName, out)
		return
	}
	found := false
	ast.Inspect(fd.Body, func(n ast.Node) bool {
		cl, ok := n.(*ast.CompositeLit)
		if !ok || cl.Type == nil || s.src(cl.Type) != typ {
			return true
		}
		found = true
		for _, el := range cl.Elts {
			if kv, ok := el.(*ast.KeyValueExpr); ok {
				v := c14Flat(s.src(kv.Value))
				if _, isFn := kv.Value.(*ast.FuncLit); isFn {
					v = "func"
				}
				out = append(out, s.src(kv.Key)+": "+v)
			} else {
				out = append(out, "positional: "+c14Flat(s.src(el)))
			}
		}
		return false
	})
	if !found {
		e.errors = append(e.errors, fmt.Sprintf("no %s literal in %s", typ, goName))
	}
	e.stringList(leanName, typ+" literal built by `"+goName+"` in "+rel, out)
}

// the value of a package-level `var name = …` (the sentinel errors)
func (e *emitter) c14VarInit(s *source, rel, name, leanName string) {
	f := s.file(rel)
	val := ""
	if f != nil {
		for _, d := range f.Decls {
			gd, ok := d.(*ast.GenDecl)
			if !ok || gd.Tok != token.VAR {
				continue
			}
			for _, sp := range gd.Specs {
				vs := sp.(*ast.ValueSpec)
				for i, n := range vs.Names {
					if n.Name == name && i < len(vs.Values) {
						val = c14Flat(s.src(vs.Values[i]))
					}
				}
			}
		}
	}
	if val == "" {
		e.errors = append(e.errors, fmt.Sprintf("var %s not found in %s", name, rel))
	}
	e.printf("/-- initialiser of `%s` in %s -/\ndef %s : String := %s\n\n", name, rel, leanName, leanString(val))
}

// c14BX translates a boolean expression over `err` into a BX term.
func (s *source) c14BX(e ast.Expr) string {
	switch x := e.(type) {
	case *ast.ParenExpr:
		return s.c14BX(x.X)
	case *ast.Ident:
		if x.Name == "true" || x.Name == "false" {
			return "(.lit " + x.Name + ")"
		}
	case *ast.UnaryExpr:
		if x.Op == token.NOT {
			return "(.not " + s.c14BX(x.X) + ")"
		}
	case *ast.BinaryExpr:
		switch x.Op {
		case token.LOR:
			return "(.or " + s.c14BX(x.X) + " " + s.c14BX(x.Y) + ")"
		case token.LAND:
			return "(.and " + s.c14BX(x.X) + " " + s.c14BX(x.Y) + ")"
		case token.EQL, token.NEQ:
			if id, ok := x.Y.(*ast.Ident); ok && id.Name == "nil" {
				t := "(.isNil " + leanString(s.src(x.X)) + ")"
				if x.Op == token.NEQ {
					t = "(.not " + t + ")"
				}
				return t
			}
		}
	case *ast.CallExpr:
		fun := s.src(x.Fun)
		isErr := func(a ast.Expr) bool { id, ok := a.(*ast.Ident); return ok && id.Name == "err" }
		switch {
		case (fun == "errorx.In" || fun == "errors.Is") && len(x.Args) >= 2 && isErr(x.Args[0]):
			var ss []string
			for _, a := range x.Args[1:] {
				ss = append(ss, leanString(s.src(a)))
			}
			return "(.errIn [" + strings.Join(ss, ", ") + "])"
		case fun == "errors.As" && len(x.Args) == 2 && isErr(x.Args[0]):
			if u, ok := x.Args[1].(*ast.UnaryExpr); ok && u.Op == token.AND {
				return "(.errAs " + leanString(s.src(u.X)) + ")"
			}
		case len(x.Args) == 1 && isErr(x.Args[0]):
			return "(.call " + leanString(fun) + ")"
		}
	}
	return "(.other " + leanString(c14Flat(s.src(e))) + ")"
}

// c14RC translates `[var v T;] if c { return v } … return v` into an RC term.
func (s *source) c14RC(list []ast.Stmt) string {
	if len(list) == 0 {
		return ".fallOff"
	}
	switch x := list[0].(type) {
	case *ast.IfStmt:
		if x.Init == nil && x.Else == nil && len(x.Body.List) == 1 {
			if r, ok := x.Body.List[0].(*ast.ReturnStmt); ok && len(r.Results) == 1 {
				return fmt.Sprintf("(.ifRet %s %s <|\n    %s)", s.c14BX(x.Cond), s.c14BX(r.Results[0]), s.c14RC(list[1:]))
			}
		}
	case *ast.ReturnStmt:
		if len(x.Results) == 1 && len(list) == 1 {
			return "(.ret " + s.c14BX(x.Results[0]) + ")"
		}
	case *ast.DeclStmt:
		if gd, ok := x.Decl.(*ast.GenDecl); ok && gd.Tok == token.VAR && len(gd.Specs) == 1 {
			if vs, ok := gd.Specs[0].(*ast.ValueSpec); ok && len(vs.Names) == 1 && len(vs.Values) == 0 && vs.Type != nil {
				return fmt.Sprintf("(.decl %s %s <|\n    %s)", leanString(vs.Names[0].Name), leanString(s.src(vs.Type)), s.c14RC(list[1:]))
			}
		}
	}
	return "(.other " + leanString(c14Flat(s.src(list[0]))) + ")"
}

func (e *emitter) c14RCDef(s *source, rel, goName, leanName string) {
	fd := s.findFunc(rel, goName)
	if fd == nil {
		e.errors = append(e.errors, fmt.Sprintf("function %s not found in %s", goName, rel))
		e.printf("def %s : RC := .other \"MISSING\"\n\n", leanName)
		return
	}
	e.printf("/-- decision chain of `%s` in %s, translated -/\ndef %s : RC :=\n  %s\n\n", goName, rel, leanName, s.c14RC(fd.Body.List))
}

// c14FX translates a function-valued expression.
func (s *source) c14FX(x ast.Expr) string {
	if fl, ok := x.(*ast.FuncLit); ok {
		if len(fl.Body.List) == 1 && fl.Type.Params != nil && len(fl.Type.Params.List) == 1 &&
			len(fl.Type.Params.List[0].Names) == 1 && fl.Type.Params.List[0].Names[0].Name == "err" {
			if r, ok := fl.Body.List[0].(*ast.ReturnStmt); ok && len(r.Results) == 1 {
				return "(.lam " + s.c14BX(r.Results[0]) + ")"
			}
		}
		return "(.other " + leanString(c14Flat(s.src(x))) + ")"
	}
	switch x.(type) {
	case *ast.Ident, *ast.SelectorExpr:
		return "(.name " + leanString(s.src(x)) + ")"
	}
	return "(.other " + leanString(c14Flat(s.src(x))) + ")"
}

// c14WithAcceptable: the option closure  if C { conn.accept = T } else { v := L; conn.accept = E }  as
// condition (BX), the function value installed in each branch (FX) and the local bindings of the else branch.
func (e *emitter) c14WithAcceptable(s *source, rel string) {
	fd := s.findFunc(rel, "WithAcceptable")
	cond, thn, els := "(.other \"MISSING\")", "(.other \"MISSING\")", "(.other \"MISSING\")"
	var lets []string
	param := ""
	ok := false
	nilGuard := false
	if fd != nil && len(fd.Body.List) == 1 && fd.Type.Params != nil && len(fd.Type.Params.List) == 1 && len(fd.Type.Params.List[0].Names) == 1 {
		param = fd.Type.Params.List[0].Names[0].Name
		if r, isRet := fd.Body.List[0].(*ast.ReturnStmt); isRet && len(r.Results) == 1 {
			if fl, isFn := r.Results[0].(*ast.FuncLit); isFn && len(fl.Body.List) >= 1 {
				body := fl.Body.List
				// an optional leading guard  if <param> == nil { return }  (fixes/not-applied/C14-withacceptable-nil.patch)
				if g, isIf := body[0].(*ast.IfStmt); isIf && len(body) == 2 && g.Init == nil && g.Else == nil &&
					c14Flat(s.src(g.Cond)) == param+" == nil" && len(g.Body.List) == 1 {
					if gr, isR := g.Body.List[0].(*ast.ReturnStmt); isR && len(gr.Results) == 0 {
						nilGuard = true
						body = body[1:]
					}
				}
				if ifs, isIf := body[0].(*ast.IfStmt); isIf && len(body) == 1 && ifs.Init == nil {
					assignTo := func(st ast.Stmt, lhs string) (ast.Expr, bool) {
						a, isA := st.(*ast.AssignStmt)
						if !isA || len(a.Lhs) != 1 || len(a.Rhs) != 1 || s.src(a.Lhs[0]) != lhs {
							return nil, false
						}
						return a.Rhs[0], true
					}
					if eb, isBlk := ifs.Else.(*ast.BlockStmt); isBlk && len(ifs.Body.List) == 1 && len(eb.List) >= 1 {
						t, ok1 := assignTo(ifs.Body.List[0], "conn.accept")
						el, ok2 := assignTo(eb.List[len(eb.List)-1], "conn.accept")
						ok3 := true
						for _, st := range eb.List[:len(eb.List)-1] {
							a, isA := st.(*ast.AssignStmt)
							if !isA || a.Tok != token.DEFINE || len(a.Lhs) != 1 || len(a.Rhs) != 1 {
								ok3 = false
								break
							}
							lets = append(lets, fmt.Sprintf("(%s, %s)", leanString(s.src(a.Lhs[0])), s.c14FX(a.Rhs[0])))
						}
						if ok1 && ok2 && ok3 {
							cond, thn, els, ok = s.c14BX(ifs.Cond), s.c14FX(t), s.c14FX(el), true
						}
					}
				}
			}
		}
	}
	if !ok {
		e.errors = append(e.errors, "WithAcceptable: option closure not of the form if C { conn.accept = T } else { lets; conn.accept = E }")
	}
	e.printf("/-- `WithAcceptable(%s)`: the condition of its option closure -/\ndef withAcceptableCond : BX := %s\n\n", param, cond)
	e.printf("def withAcceptableParam : String := %s\n\n", leanString(param))
	e.printf("/-- the option closure starts with  if %s == nil { return }  (a nil function is ignored) -/\ndef withAcceptableNilGuard : Bool := %v\n\n", param, nilGuard)
	e.printf("/-- … what it installs as conn.accept when the condition holds -/\ndef withAcceptableThen : FX := %s\n\n", thn)
	e.printf("/-- … the local bindings of its else branch -/\ndef withAcceptableLets : List (String × FX) := [%s]\n\n", strings.Join(lets, ", "))
	e.printf("/-- … what it installs as conn.accept otherwise -/\ndef withAcceptableElse : FX := %s\n\n", els)
}

// ---- round 5: forwarded argument lists as typed terms

func c14Params(ft *ast.FuncType) []string {
	var out []string
	if ft.Params == nil {
		return out
	}
	for _, f := range ft.Params.List {
		if len(f.Names) == 0 {
			out = append(out, "_")
		}
		for _, n := range f.Names {
			out = append(out, n.Name)
		}
	}
	return out
}

func c14Index(xs []string, x string) int {
	if x == "_" {
		return -1
	}
	for i, y := range xs {
		if y == x {
			return i
		}
	}
	return -1
}

// the right-hand side a top-level statement of fd (re)binds name with ("" if none); function literals too
func (s *source) c14Binding(fd *ast.FuncDecl, name string) (string, *ast.FuncLit) {
	for _, st := range fd.Body.List {
		a, ok := st.(*ast.AssignStmt)
		if !ok {
			continue
		}
		for i, l := range a.Lhs {
			if id, ok := l.(*ast.Ident); ok && id.Name == name {
				if len(a.Rhs) == len(a.Lhs) {
					if fl, ok := a.Rhs[i].(*ast.FuncLit); ok {
						return "", fl
					}
					return c14Flat(s.src(a.Rhs[i])), nil
				}
				return c14Flat(s.src(a.Rhs[0])), nil
			}
		}
	}
	return "", nil
}

func (s *source) c14ArgFuncLit(outer []string, fl *ast.FuncLit) string {
	ps := c14Params(fl.Type)
	if len(fl.Body.List) == 1 {
		if r, ok := fl.Body.List[0].(*ast.ReturnStmt); ok && len(r.Results) == 1 {
			if call, ok := r.Results[0].(*ast.CallExpr); ok {
				if len(ps) == 0 {
					return ".thunk"
				}
				if id, ok := call.Fun.(*ast.Ident); ok && c14Index(ps, id.Name) < 0 && c14Index(outer, id.Name) >= 0 {
					var idx []string
					for _, a := range call.Args {
						ai, ok := a.(*ast.Ident)
						if !ok || c14Index(ps, ai.Name) < 0 {
							return "(.other " + leanString(c14Flat(s.src(fl))) + ")"
						}
						idx = append(idx, fmt.Sprint(c14Index(ps, ai.Name)))
					}
					return fmt.Sprintf("(.adapt %d %d [%s])", len(ps), c14Index(outer, id.Name), strings.Join(idx, ", "))
				}
			}
		}
	}
	return "(.other " + leanString(c14Flat(s.src(fl))) + ")"
}

func (s *source) c14Arg(fd *ast.FuncDecl, params []string, recv string, e ast.Expr) string {
	switch x := e.(type) {
	case *ast.Ident:
		if x.Name == recv && recv != "" {
			return ".recv"
		}
		rhs, fl := s.c14Binding(fd, x.Name)
		if i := c14Index(params, x.Name); i >= 0 {
			if rhs != "" || fl != nil {
				return fmt.Sprintf("(.rebound %d %s)", i, leanString(rhs))
			}
			return fmt.Sprintf("(.param %d)", i)
		}
		if fl != nil {
			return s.c14ArgFuncLit(params, fl)
		}
		return "(.local " + leanString(x.Name) + ")"
	case *ast.CallExpr:
		if c14Flat(s.src(x)) == "context.Background()" {
			return ".bg"
		}
	case *ast.SelectorExpr:
		if id, ok := x.X.(*ast.Ident); ok && id.Name == recv && recv != "" {
			return "(.recvField " + leanString(s.src(x)) + ")"
		}
	case *ast.FuncLit:
		return s.c14ArgFuncLit(params, x)
	}
	return "(.other " + leanString(c14Flat(s.src(e))) + ")"
}

// c14Fwd emits the first call of goName whose callee text is `callee` (function literals included) as a Fwd term:
// every argument classified relative to the parameters / receiver of goName.
func (e *emitter) c14Fwd(s *source, rel, goName, leanName, callee string) {
	fd := s.findFunc(rel, goName)
	if fd == nil {
		e.errors = append(e.errors, fmt.Sprintf("function %s not found in %s", goName, rel))
		e.printf("def %s : Fwd := { callee := \"MISSING\", args := [] }\n\n", leanName)
		return
	}
	recv := ""
	if fd.Recv != nil && len(fd.Recv.List) == 1 && len(fd.Recv.List[0].Names) == 1 {
		recv = fd.Recv.List[0].Names[0].Name
	}
	params := c14Params(fd.Type)
	var found *ast.CallExpr
	n := 0
	ast.Inspect(fd.Body, func(m ast.Node) bool {
		if c, ok := m.(*ast.CallExpr); ok && s.src(c.Fun) == callee {
			if found == nil {
				found = c
			}
			n++
		}
		return true
	})
	if found == nil || n != 1 {
		e.errors = append(e.errors, fmt.Sprintf("%s: %d calls of %s (want exactly 1)", goName, n, callee))
		e.printf("def %s : Fwd := { callee := \"MISSING\", args := [] }\n\n", leanName)
		return
	}
	var as []string
	for _, a := range found.Args {
		as = append(as, s.c14Arg(fd, params, recv, a))
	}
	e.printf("/-- `%s` in %s: its one call of `%s` — arguments relative to its parameters (%s) -/\ndef %s : Fwd :=\n  { callee := %s, args := [%s] }\n\n",
		goName, rel, callee, strings.Join(params, ", "), leanName, leanString(callee), strings.Join(as, ", "))
	e.stringList(leanName+"Params", "parameter names of `"+goName+"`", params)
}

func init() {
	register("C14", func(s *source, e *emitter) {
		const tx = "core/stores/sqlx/tx.go"
		const sc = "core/stores/sqlx/sqlconn.go"
		const cc = "core/stores/sqlc/cachedsql.go"
		e.printf("%s", c14IRDecl)
		// the begin guard and the deferred decision (recover -> Rollback; err -> Rollback; else Commit)
		e.c14BlkDef(s, tx, "transactOnConn", "transactOnConnBlk")
		e.c14BlkDef(s, tx, "transact", "transactBlk")
		e.shapeDef(s, tx, "transactOnConn", "transactOnConnShape")
		e.shapeDef(s, tx, "transact", "transactShape")
		e.shapeDef(s, tx, "begin", "beginShape")
		// the wrappers: breaker + acceptable, and the ctx-less entry points
		e.shapeDef(s, sc, "commonSqlConn.TransactCtx", "transactCtxShape")
		e.shapeDef(s, sc, "commonSqlConn.Transact", "transactPlainShape")
		e.shapeDef(s, sc, "commonSqlConn.acceptable", "acceptableShape")
		e.c14AcceptSentinels(s, sc)
		e.shapeDef(s, cc, "CachedConn.TransactCtx", "cachedTransactCtxShape")
		e.shapeDef(s, cc, "CachedConn.Transact", "cachedTransactShape")
		// nested transactions are refused
		e.shapeDef(s, tx, "txConn.Transact", "txConnTransactShape")
		e.shapeDef(s, tx, "txConn.TransactCtx", "txConnTransactCtxShape")
		// the wiring of every entry point down to transactOnConn: callee and arguments of each hop
		e.c14Wiring(s, sc, "commonSqlConn.Transact", "wireTransact", "fn")
		e.c14Wiring(s, sc, "commonSqlConn.TransactCtx", "wireTransactCtx", "db.brk.DoWithAcceptableCtx", "startSpan")
		e.c14Wiring(s, tx, "transact", "wireTransactFn", "db.connProv")
		e.c14Wiring(s, tx, "begin", "wireBegin", "db.Begin", "db.BeginTx")
		e.c14Wiring(s, cc, "CachedConn.Transact", "wireCachedTransact")
		e.c14Wiring(s, cc, "CachedConn.TransactCtx", "wireCachedTransactCtx")
		e.c14Wiring(s, cc, "CachedConn.WithSession", "wireWithSession")
		e.c14Wiring(s, sc, "NewSqlConnFromSession", "wireFromSession")
		e.c14Wiring(s, tx, "txConn.Transact", "wireTxConnTransact")
		e.c14Wiring(s, tx, "txConn.TransactCtx", "wireTxConnTransactCtx")
		e.c14Wiring(s, tx, "txSession.ExecCtx", "wireTxExecCtx", "exec")
		e.c14LitFields(s, sc, "NewSqlConn", "commonSqlConn", "litNewSqlConn")
		e.c14LitFields(s, sc, "NewSqlConnFromDB", "commonSqlConn", "litNewSqlConnFromDB")
		e.c14VarInit(s, "core/stores/sqlx/errors.go", "errCantNestTx", "errCantNestTxInit")
		// round 4: the decision-making conditions translated into terms (semantic ties in Tie.lean)
		e.c14RCDef(s, sc, "commonSqlConn.acceptable", "acceptableRC")
		e.c14WithAcceptable(s, sc)
		e.c14BlkDef(s, tx, "begin", "beginBlk")
		// round 4: the statement methods a body uses inside the transaction, the raw-Tx session constructor,
		// the constructors' option loops and the CachedConn literal
		for _, m := range []struct{ fn, lean, callee string }{
			{"txSession.Exec", "wireTxExec", "t.ExecCtx"}, {"txSession.QueryRow", "wireTxQueryRow", "t.QueryRowCtx"},
			{"txSession.QueryRowCtx", "wireTxQueryRowCtx", "query"}, {"txSession.QueryRows", "wireTxQueryRows", "t.QueryRowsCtx"},
			{"txSession.QueryRowsCtx", "wireTxQueryRowsCtx", "query"}, {"txSession.Prepare", "wireTxPrepare", "t.PrepareCtx"},
			{"txSession.PrepareCtx", "wireTxPrepareCtx", "t.Tx.PrepareContext"},
			{"txSession.QueryRowPartialCtx", "wireTxQueryRowPartialCtx", "query"},
			{"txSession.QueryRowsPartialCtx", "wireTxQueryRowsPartialCtx", "query"},
		} {
			e.c14Wiring(s, tx, m.fn, m.lean, m.callee)
		}
		e.c14Wiring(s, tx, "NewSessionFromTx", "wireNewSessionFromTx")
		e.c14Wiring(s, tx, "txConn.RawDB", "wireTxConnRawDB")
		e.shapeDef(s, sc, "NewSqlConn", "newSqlConnShape")
		e.shapeDef(s, sc, "NewSqlConnFromDB", "newSqlConnFromDBShape")
		e.c14Wiring(s, sc, "NewSqlConn", "wireNewSqlConn", "opt")
		e.c14Wiring(s, sc, "NewSqlConnFromDB", "wireNewSqlConnFromDB", "opt")
		e.c14LitFields(s, cc, "NewConnWithCache", "CachedConn", "litNewConnWithCache")
		e.c14Wiring(s, cc, "NewConn", "wireNewConn")
		e.c14Wiring(s, cc, "NewNodeConn", "wireNewNodeConn")
		e.c14VarInit(s, "core/stores/sqlx/errors.go", "ErrNotFound", "errNotFoundInit")
		e.c14VarInit(s, cc, "ErrNotFound", "cachedErrNotFoundInit")
		// round 5: what every hop of the path hands to the next one, as typed terms (Tie: composed, the caller's
		// context and body reach `fn(ctx, tx)` for all arguments)
		e.c14Fwd(s, cc, "CachedConn.Transact", "fwdCachedTransact", "cc.TransactCtx")
		e.c14Fwd(s, cc, "CachedConn.TransactCtx", "fwdCachedTransactCtx", "cc.db.TransactCtx")
		e.c14Fwd(s, sc, "commonSqlConn.Transact", "fwdTransact", "db.TransactCtx")
		e.c14Fwd(s, sc, "commonSqlConn.TransactCtx", "fwdTransactCtx", "db.brk.DoWithAcceptableCtx")
		e.c14Fwd(s, sc, "commonSqlConn.TransactCtx", "fwdTransactCtxThunk", "transact")
		e.c14Fwd(s, tx, "transact", "fwdTransactFn", "transactOnConn")
		e.c14Fwd(s, tx, "transactOnConn", "fwdOnConnBegin", "b")
		e.c14Fwd(s, tx, "transactOnConn", "fwdOnConnBody", "fn")
		// … and what every statement method of the transaction's session hands to database/sql
		for _, m := range []struct{ fn, lean, callee string }{
			{"txSession.ExecCtx", "fwdTxExecCtx", "exec"}, {"txSession.QueryRowCtx", "fwdTxQueryRowCtx", "query"},
			{"txSession.QueryRowPartialCtx", "fwdTxQueryRowPartialCtx", "query"},
			{"txSession.QueryRowsCtx", "fwdTxQueryRowsCtx", "query"},
			{"txSession.QueryRowsPartialCtx", "fwdTxQueryRowsPartialCtx", "query"},
			{"txSession.PrepareCtx", "fwdTxPrepareCtx", "t.Tx.PrepareContext"},
			{"txSession.Exec", "fwdTxExec", "t.ExecCtx"}, {"txSession.Prepare", "fwdTxPrepare", "t.PrepareCtx"},
			{"txSession.QueryRow", "fwdTxQueryRow", "t.QueryRowCtx"},
			{"txSession.QueryRowPartial", "fwdTxQueryRowPartial", "t.QueryRowPartialCtx"},
			{"txSession.QueryRows", "fwdTxQueryRows", "t.QueryRowsCtx"},
			{"txSession.QueryRowsPartial", "fwdTxQueryRowsPartial", "t.QueryRowsPartialCtx"},
		} {
			e.c14Fwd(s, tx, m.fn, m.lean, m.callee)
		}
		// round 5c: the control-flow terms of the …Ctx statement methods (Tie: the error of exec / query /
		// PrepareContext is what the method returns)
		for _, m := range []struct{ fn, lean string }{
			{"txSession.ExecCtx", "txExecCtxBlk"}, {"txSession.QueryRowCtx", "txQueryRowCtxBlk"},
			{"txSession.QueryRowPartialCtx", "txQueryRowPartialCtxBlk"}, {"txSession.QueryRowsCtx", "txQueryRowsCtxBlk"},
			{"txSession.QueryRowsPartialCtx", "txQueryRowsPartialCtxBlk"}, {"txSession.PrepareCtx", "txPrepareCtxBlk"},
		} {
			e.c14BlkDef(s, tx, m.fn, m.lean)
		}
	})
}
