package main

// C12 — what the Tie reads from core/collection/timingwheel.go:
//   * arithmetic: getOffset, getPositionAndCircle, onTick, the constructor's initial tickedPos (generic translator)
//   * the run loop's handlers as per-branch effect lists (assigned location ↦ value, calls with their arguments):
//     moveTask, setTask (clamp + rest), removeTask, setTimerPosition, one iteration of the scan loop and of the
//     drain loop.  The generic translator handles straight-line integer code; c12Rewrite first brings the
//     handlers into that subset without dropping anything the model depends on (see the rules there).
//   * the public API: the argument guards as Bool functions, the select tables (channel, direction, sent value,
//     returned error), Stop, the run loop's dispatch table, the constructor's struct literal.
//   * statement skeletons (shapeDef) for the order of list/map operations.

import (
	"fmt"
	"go/ast"
	"go/token"
	"strings"
)

func c12Ident(name string) *ast.Ident { return &ast.Ident{Name: name} }

func c12CallStmt(name string, args ...ast.Expr) ast.Stmt {
	return &ast.ExprStmt{X: &ast.CallExpr{Fun: c12Ident(name), Args: args}}
}

func c12IsIdent(e ast.Expr, name string) bool {
	id, ok := e.(*ast.Ident)
	return ok && id.Name == name
}

// c12Exposed are the integer locals whose value a call depends on through an index or an argument; the
// rewrite puts `arg.<name> = <name>` in front of such a call so that the value shows up in the effect list.
var c12Exposed = map[string]bool{"pos": true, "circle": true}

func c12MentionsExposed(n ast.Node) []string {
	var out []string
	seen := map[string]bool{}
	ast.Inspect(n, func(x ast.Node) bool {
		if _, ok := x.(*ast.FuncLit); ok {
			return false
		}
		if id, ok := x.(*ast.Ident); ok && c12Exposed[id.Name] && !seen[id.Name] {
			seen[id.Name] = true
			out = append(out, id.Name)
		}
		return true
	})
	return out
}

// c12Arg renders a call argument the generic translator would print as "_" (composite literal, address of
// one, anything that is not a plain name) as an identifier carrying its source text.
func (s *source) c12Arg(a ast.Expr) ast.Expr {
	switch a.(type) {
	case *ast.Ident, *ast.SelectorExpr:
		return a
	}
	return c12Ident(s.src(a))
}

// c12Rewrite brings a handler body into the generic translator's subset:
//
//	R1  `v, ok := f(args)`            → call f(args); `ok` becomes a free Bool of the translated function
//	R2  `if init; cond {`             → init; `if cond {`
//	R3  `continue`                    → `return` (the body of a loop is translated as one iteration)
//	R4  loop advance (`next := e.Next()`, `e = next`, `e = e.Next()`) → dropped (its order relative to
//	                                    Remove is tied by the statement skeletons)
//	R5  `xs = append(xs, lit)`        → call append:xs(<lit source>)
//	R6  `x := &T{…}` / `x := T{…}`    → call new:x(<literal source>)
//	R7  `f(func() { body })`          → call f{ ; body ; call }
//	R8  a call mentioning the integer locals pos / circle is preceded by `arg.pos = pos` (the value appears)
//	R9  other non-name arguments are printed as their source text
func (s *source) c12Rewrite(list []ast.Stmt) []ast.Stmt {
	var out []ast.Stmt
	for _, st := range list {
		out = append(out, s.c12RewriteStmt(st)...)
	}
	return out
}

func (s *source) c12RewriteStmt(st ast.Stmt) []ast.Stmt {
	switch x := st.(type) {
	case *ast.BranchStmt:
		if x.Tok == token.CONTINUE {
			return []ast.Stmt{&ast.ReturnStmt{}}
		}
	case *ast.BlockStmt:
		return s.c12Rewrite(x.List)
	case *ast.IfStmt:
		var pre []ast.Stmt
		if x.Init != nil {
			pre = s.c12RewriteStmt(x.Init)
		}
		n := &ast.IfStmt{Cond: x.Cond, Body: &ast.BlockStmt{List: s.c12Rewrite(x.Body.List)}}
		switch e := x.Else.(type) {
		case *ast.BlockStmt:
			n.Else = &ast.BlockStmt{List: s.c12Rewrite(e.List)}
		case *ast.IfStmt:
			r := s.c12RewriteStmt(e)
			if is, ok := r[len(r)-1].(*ast.IfStmt); ok && len(r) == 1 {
				n.Else = is
			} else {
				n.Else = &ast.BlockStmt{List: r}
			}
		}
		return append(pre, n)
	case *ast.AssignStmt:
		if len(x.Lhs) == 1 && len(x.Rhs) == 1 {
			if c12IsIdent(x.Lhs[0], "e") || s.src(x.Rhs[0]) == "e.Next()" {
				return nil // R4
			}
			if call, ok := x.Rhs[0].(*ast.CallExpr); ok && c12IsIdent(call.Fun, "append") && len(call.Args) >= 2 {
				var args []ast.Expr
				for _, a := range call.Args[1:] {
					args = append(args, c12Ident(s.src(a)))
				}
				return []ast.Stmt{c12CallStmt("append:"+s.src(x.Lhs[0]), args...)} // R5
			}
			rhs := x.Rhs[0]
			if u, ok := rhs.(*ast.UnaryExpr); ok && u.Op == token.AND {
				rhs = u.X
			}
			if _, ok := rhs.(*ast.CompositeLit); ok && x.Tok == token.DEFINE {
				return []ast.Stmt{c12CallStmt("new:"+s.src(x.Lhs[0]), c12Ident(s.src(x.Rhs[0])))} // R6
			}
		}
		if len(x.Lhs) == 2 && len(x.Rhs) == 1 && c12IsIdent(x.Lhs[1], "ok") {
			if call, ok := x.Rhs[0].(*ast.CallExpr); ok {
				return s.c12RewriteStmt(&ast.ExprStmt{X: call}) // R1
			}
		}
	case *ast.ExprStmt:
		call, ok := x.X.(*ast.CallExpr)
		if !ok {
			return []ast.Stmt{st}
		}
		var out []ast.Stmt
		for _, name := range c12MentionsExposed(call) {
			out = append(out, &ast.AssignStmt{
				Lhs: []ast.Expr{&ast.SelectorExpr{X: c12Ident("arg"), Sel: c12Ident(name)}},
				Tok: token.ASSIGN,
				Rhs: []ast.Expr{c12Ident(name)},
			}) // R8
		}
		if len(call.Args) == 1 {
			if fl, ok := call.Args[0].(*ast.FuncLit); ok {
				out = append(out, c12CallStmt(s.src(call.Fun)+"{"))
				out = append(out, s.c12Rewrite(fl.Body.List)...)
				return append(out, c12CallStmt("}")) // R7
			}
		}
		n := &ast.CallExpr{Fun: call.Fun}
		for _, a := range call.Args {
			n.Args = append(n.Args, s.c12Arg(a)) // R9
		}
		return append(out, &ast.ExprStmt{X: n})
	}
	return []ast.Stmt{st}
}

// c12Effects translates a (rewritten) statement list into `def leanName … : List (String × Int)`.
// intParams become explicit Int parameters; every other free name is a parameter in order of first use.
func (e *emitter) c12Effects(t *translator, leanName, doc, recv string, intParams []string, list []ast.Stmt) {
	defer func() {
		if p := recover(); p != nil {
			te, ok := p.(transErr)
			if !ok {
				panic(p)
			}
			e.errors = append(e.errors, leanName+": "+te.msg)
			e.printf("/-- TRANSLATION FAILED: %s -/\ndef %s : Unit := ()\n\n", te.msg, leanName)
		}
	}()
	c := &tctx{t: t, recv: recv, locals: map[string]bool{}, freeSet: map[string]bool{}, boolVars: map[string]bool{}, effects: true}
	var params []string
	for _, p := range intParams {
		c.locals[p] = true
		params = append(params, "("+leanIdent(p)+" : Int)")
	}
	body := c.stmts(list, nil, "  ")
	for _, f := range c.free {
		ty := "Int"
		if c.boolVars[f] {
			ty = "Bool"
		}
		params = append(params, "("+f+" : "+ty+")")
	}
	e.printf("/-- %s -/\ndef %s %s : List (String × Int) :=\n%s\n\n", doc, leanName, strings.Join(params, " "), body)
}

// c12Guard translates a boolean guard into `def leanName … : Bool`; `x == nil` becomes the Bool parameter xNil.
func (e *emitter) c12Guard(t *translator, s *source, leanName, doc string, intParams []string, cond ast.Expr) {
	defer func() {
		if p := recover(); p != nil {
			te, ok := p.(transErr)
			if !ok {
				panic(p)
			}
			e.errors = append(e.errors, leanName+": "+te.msg)
			e.printf("/-- TRANSLATION FAILED: %s -/\ndef %s : Unit := ()\n\n", te.msg, leanName)
		}
	}()
	c := &tctx{t: t, locals: map[string]bool{}, freeSet: map[string]bool{}, boolVars: map[string]bool{}}
	var params []string
	for _, p := range intParams {
		c.locals[p] = true
		params = append(params, "("+leanIdent(p)+" : Int)")
	}
	body := c.expr(c12NilTests(cond), true)
	for _, f := range c.free {
		ty := "Int"
		if c.boolVars[f] {
			ty = "Bool"
		}
		params = append(params, "("+f+" : "+ty+")")
	}
	e.printf("/-- %s: `%s` -/\ndef %s %s : Bool :=\n  %s\n\n", doc, s.src(cond), leanName, strings.Join(params, " "), body)
}

// c12NilTests rewrites `x == nil` to the identifier xNil and `x != nil` to !xNil.
func c12NilTests(e ast.Expr) ast.Expr {
	switch x := e.(type) {
	case *ast.ParenExpr:
		return &ast.ParenExpr{X: c12NilTests(x.X)}
	case *ast.UnaryExpr:
		return &ast.UnaryExpr{Op: x.Op, X: c12NilTests(x.X)}
	case *ast.BinaryExpr:
		if (x.Op == token.EQL || x.Op == token.NEQ) && c12IsIdent(x.Y, "nil") {
			if id, ok := x.X.(*ast.Ident); ok {
				v := c12Ident(id.Name + "Nil")
				if x.Op == token.NEQ {
					return &ast.UnaryExpr{Op: token.NOT, X: v}
				}
				return v
			}
		}
		return &ast.BinaryExpr{X: c12NilTests(x.X), Op: x.Op, Y: c12NilTests(x.Y)}
	}
	return e
}

func (s *source) c12Results(r *ast.ReturnStmt) string {
	var parts []string
	for _, x := range r.Results {
		parts = append(parts, s.src(x))
	}
	return strings.TrimSpace("return " + strings.Join(parts, ", "))
}

// c12Flat renders a statement list as one line per simple statement; `if GUARD` hides the condition
// (tied separately as a Bool function), select and for keep their structure.
func (s *source) c12Flat(list []ast.Stmt, out *[]string) {
	for _, st := range list {
		switch x := st.(type) {
		case *ast.IfStmt:
			*out = append(*out, "if GUARD {")
			s.c12Flat(x.Body.List, out)
			*out = append(*out, "}")
			if x.Else != nil {
				*out = append(*out, "else " + s.src(x.Else))
			}
		case *ast.SelectStmt:
			*out = append(*out, "select {")
			for _, c := range x.Body.List {
				cc := c.(*ast.CommClause)
				if cc.Comm == nil {
					*out = append(*out, "default:")
				} else {
					*out = append(*out, "case "+s.src(cc.Comm)+":")
				}
				s.c12Flat(cc.Body, out)
			}
			*out = append(*out, "}")
		case *ast.ForStmt:
			hdr := "for"
			if x.Init != nil || x.Cond != nil || x.Post != nil {
				hdr += " " + c12Src(s, x.Init) + "; " + c12Src(s, x.Cond) + "; " + c12Src(s, x.Post)
			}
			*out = append(*out, hdr+" {")
			s.c12Flat(x.Body.List, out)
			*out = append(*out, "}")
		case *ast.ReturnStmt:
			*out = append(*out, s.c12Results(x))
		default:
			*out = append(*out, s.src(st))
		}
	}
}

func c12Src(s *source, n ast.Node) string {
	switch x := n.(type) {
	case nil:
		return ""
	case ast.Stmt:
		if x == nil {
			return ""
		}
	case ast.Expr:
		if x == nil {
			return ""
		}
	}
	return s.src(n)
}

func (e *emitter) c12FlatDef(s *source, rel, goName, leanName string) *ast.FuncDecl {
	fd := s.findFunc(rel, goName)
	if fd == nil {
		e.errors = append(e.errors, "function "+goName+" not found in "+rel)
		e.stringList(leanName, "MISSING: "+goName+" in "+rel, []string{"MISSING"})
		return nil
	}
	var out []string
	s.c12Flat(fd.Body.List, &out)
	e.stringList(leanName, "statements of `"+goName+"` in "+rel+" (guards hidden, tied as Bool functions)", out)
	return fd
}

func c12FirstIf(fd *ast.FuncDecl) *ast.IfStmt {
	for _, st := range fd.Body.List {
		if is, ok := st.(*ast.IfStmt); ok {
			return is
		}
	}
	return nil
}

func c12InnerLoop(fd *ast.FuncDecl) *ast.ForStmt {
	var found *ast.ForStmt
	ast.Inspect(fd.Body, func(n ast.Node) bool {
		if f, ok := n.(*ast.ForStmt); ok {
			found = f // the last (innermost in source order) for statement
		}
		return true
	})
	return found
}

// ---------------------------------------------------------------------------------------------- clients of the wheel

// c12Deep renders a statement list with its conditions visible and function literals opened up:
// `f(func() { body })` → "f(func {", body…, "})"; `if init; cond {` → "if init; cond {".
func (s *source) c12Deep(list []ast.Stmt, out *[]string) {
	for _, st := range list {
		switch x := st.(type) {
		case *ast.IfStmt:
			hdr := "if "
			if x.Init != nil {
				hdr += s.src(x.Init) + "; "
			}
			*out = append(*out, hdr+s.src(x.Cond)+" {")
			s.c12Deep(x.Body.List, out)
			switch e := x.Else.(type) {
			case *ast.BlockStmt:
				*out = append(*out, "} else {")
				s.c12Deep(e.List, out)
				*out = append(*out, "}")
			case *ast.IfStmt:
				*out = append(*out, "} else")
				s.c12Deep([]ast.Stmt{e}, out)
			default:
				*out = append(*out, "}")
			}
		case *ast.ExprStmt:
			if call, ok := x.X.(*ast.CallExpr); ok && len(call.Args) > 0 {
				if fl, ok := call.Args[len(call.Args)-1].(*ast.FuncLit); ok {
					var args []string
					for _, a := range call.Args[:len(call.Args)-1] {
						args = append(args, s.src(a))
					}
					*out = append(*out, s.src(call.Fun)+"("+strings.Join(append(args, "func {"), ", "))
					s.c12Deep(fl.Body.List, out)
					*out = append(*out, "})")
					continue
				}
			}
			if c12Log(s.src(st)) {
				*out = append(*out, "(log)")
				continue
			}
			*out = append(*out, s.src(st))
		case *ast.AssignStmt:
			if c12Log(s.src(st)) {
				*out = append(*out, "(log)")
				continue
			}
			if len(x.Rhs) == 1 {
				if call, ok := x.Rhs[0].(*ast.CallExpr); ok && len(call.Args) > 0 {
					if fl, ok := call.Args[len(call.Args)-1].(*ast.FuncLit); ok {
						var lhs, args []string
						for _, l := range x.Lhs {
							lhs = append(lhs, s.src(l))
						}
						for _, a := range call.Args[:len(call.Args)-1] {
							args = append(args, s.src(a))
						}
						*out = append(*out, strings.Join(lhs, ", ")+" "+x.Tok.String()+" "+s.src(call.Fun)+"("+strings.Join(append(args, "func {"), ", "))
						s.c12Deep(fl.Body.List, out)
						*out = append(*out, "})")
						continue
					}
				}
			}
			*out = append(*out, s.src(st))
		case *ast.ReturnStmt:
			*out = append(*out, s.c12Results(x))
		case *ast.SelectStmt, *ast.ForStmt:
			s.c12Flat([]ast.Stmt{st}, out)
		default:
			*out = append(*out, s.src(st))
		}
	}
}

func (e *emitter) c12DeepDef(s *source, rel, goName, leanName string) *ast.FuncDecl {
	fd := s.findFunc(rel, goName)
	if fd == nil {
		e.errors = append(e.errors, "function "+goName+" not found in "+rel)
		e.stringList(leanName, "MISSING: "+goName+" in "+rel, []string{"MISSING"})
		return nil
	}
	var out []string
	s.c12Deep(fd.Body.List, &out)
	e.stringList(leanName, "statements of `"+goName+"` in "+rel, out)
	return fd
}

// c12Log: statements that only log or report (their text is not tied).
func c12Log(src string) bool {
	for _, p := range []string{"logx.Error", "logx.Errorf", "stat.Report(", "msg := fmt.Sprintf("} {
		if strings.HasPrefix(src, p) {
			return true
		}
	}
	return false
}

// c12CallsNamed collects the calls `<anything>.<name>(…)` / `<name>(…)` inside n, function literals included.
func c12CallsNamed(n ast.Node, name string) []*ast.CallExpr {
	var out []*ast.CallExpr
	ast.Inspect(n, func(x ast.Node) bool {
		if c, ok := x.(*ast.CallExpr); ok {
			switch f := c.Fun.(type) {
			case *ast.SelectorExpr:
				if f.Sel.Name == name {
					out = append(out, c)
				}
			case *ast.Ident:
				if f.Name == name {
					out = append(out, c)
				}
			}
		}
		return true
	})
	return out
}

// c12IntDef emits `def lean : Int` for a constant expression of file rel (time units, constants of the file).
func (e *emitter) c12IntDef(s *source, rel, lean, doc string, x ast.Expr) {
	v, ok := s.eval(rel, x)
	if !ok || x == nil {
		e.errors = append(e.errors, lean+": not a constant expression")
		e.printf("/-- NOT CONSTANT: %s -/\ndef %s : Int := -999999999\n\n", doc, lean)
		return
	}
	e.printf("/-- %s: `%s` -/\ndef %s : Int := %s\n\n", doc, s.src(x), lean, v.ExactString())
}

// c12SwitchTable translates `switch <param> { case C: return V, b … default: return V, b }` (constant cases and
// results) into `def lean (param : Int) : Int × Bool` as an if-chain in source order.
func (e *emitter) c12SwitchTable(s *source, rel, goName, lean string) {
	fail := func(msg string) {
		e.errors = append(e.errors, lean+": "+msg)
		e.printf("/-- TRANSLATION FAILED: %s -/\ndef %s : Unit := ()\n\n", msg, lean)
	}
	fd := s.findFunc(rel, goName)
	if fd == nil || len(fd.Body.List) != 1 || len(fd.Type.Params.List) != 1 || len(fd.Type.Params.List[0].Names) != 1 {
		fail("function not found or not a single switch over its parameter")
		return
	}
	param := fd.Type.Params.List[0].Names[0].Name
	sw, ok := fd.Body.List[0].(*ast.SwitchStmt)
	if !ok || sw.Init != nil || !c12IsIdent(sw.Tag, param) {
		fail("body is not `switch " + param + "`")
		return
	}
	result := func(body []ast.Stmt) (string, bool) {
		if len(body) != 1 {
			return "", false
		}
		r, ok := body[0].(*ast.ReturnStmt)
		if !ok || len(r.Results) != 2 {
			return "", false
		}
		v, ok := s.eval(rel, r.Results[0])
		if !ok || (!c12IsIdent(r.Results[1], "true") && !c12IsIdent(r.Results[1], "false")) {
			return "", false
		}
		return "(" + v.ExactString() + ", " + s.src(r.Results[1]) + ")", true
	}
	var chain []string
	dflt := ""
	for _, c := range sw.Body.List {
		cc := c.(*ast.CaseClause)
		res, ok := result(cc.Body)
		if !ok {
			fail("a case does not return (constant, true|false)")
			return
		}
		if cc.List == nil {
			dflt = res
			continue
		}
		var conds []string
		for _, x := range cc.List {
			v, ok := s.eval(rel, x)
			if !ok {
				fail("case expression is not constant: " + s.src(x))
				return
			}
			conds = append(conds, leanIdent(param)+" = "+v.ExactString())
		}
		chain = append(chain, "if "+strings.Join(conds, " ∨ ")+" then "+res)
	}
	if dflt == "" {
		fail("no default case")
		return
	}
	e.printf("/-- `%s` in %s -/\ndef %s (%s : Int) : Int × Bool :=\n  %s\n  else %s\n\n", goName, rel, lean, leanIdent(param),
		strings.Join(chain, "\n  else "), dflt)
}

func (e *emitter) c12Clients(s *source) {
	// core/stores/cache/cleaner.go
	const cl = "core/stores/cache/cleaner.go"
	e.constDef(s, cl, "timingWheelSlots", "cleanerSlots")
	e.constDef(s, cl, "cleanWorkers", "cleanWorkers")
	e.c12SwitchTable(s, cl, "nextDelay", "nextDelay")
	if fd := e.c12DeepDef(s, cl, "AddCleanTask", "addCleanTaskStmts"); fd != nil {
		calls := c12CallsNamed(fd, "SetTimer")
		if len(calls) == 1 && len(calls[0].Args) == 3 {
			e.c12IntDef(s, cl, "addCleanTaskTimerDelay", "delay argument of the SetTimer in AddCleanTask", calls[0].Args[2])
			var dl ast.Expr
			if lit, ok := calls[0].Args[1].(*ast.CompositeLit); ok {
				for _, el := range lit.Elts {
					if kv, ok := el.(*ast.KeyValueExpr); ok && c12IsIdent(kv.Key, "delay") {
						dl = kv.Value
					}
				}
			}
			e.c12IntDef(s, cl, "addCleanTaskValueDelay", "delayTask.delay stored by AddCleanTask", dl)
		} else {
			e.errors = append(e.errors, "AddCleanTask: expected exactly one SetTimer(key, value, delay)")
		}
	}
	e.c12DeepDef(s, cl, "clean", "cleanStmts")
	if fd := e.c12DeepDef(s, cl, "init", "cleanerInitStmts"); fd != nil {
		calls := c12CallsNamed(fd, "NewTimingWheel")
		if len(calls) == 1 && len(calls[0].Args) == 3 {
			e.c12IntDef(s, cl, "cleanerInterval", "interval of the cleaner's wheel", calls[0].Args[0])
			e.c12IntDef(s, cl, "cleanerSlotsArg", "slots of the cleaner's wheel", calls[0].Args[1])
		} else {
			e.errors = append(e.errors, "cleaner init: expected exactly one NewTimingWheel(interval, slots, execute)")
		}
	}
	// core/collection/cache.go
	const ca = "core/collection/cache.go"
	e.constDef(s, ca, "slots", "cacheSlots")
	if fd := s.findFunc(ca, "NewCache"); fd != nil {
		calls := c12CallsNamed(fd, "NewTimingWheel")
		if len(calls) == 1 && len(calls[0].Args) == 3 {
			e.c12IntDef(s, ca, "cacheInterval", "interval of the cache's wheel", calls[0].Args[0])
			e.c12IntDef(s, ca, "cacheSlotsArg", "slots of the cache's wheel", calls[0].Args[1])
			var out []string
			if fl, ok := calls[0].Args[2].(*ast.FuncLit); ok {
				s.c12Deep(fl.Body.List, &out)
			}
			e.stringList("cacheExpiryCallback", "the execute callback NewCache gives its wheel", out)
		} else {
			e.errors = append(e.errors, "NewCache: expected exactly one NewTimingWheel(interval, slots, execute)")
		}
	} else {
		e.errors = append(e.errors, "NewCache not found")
	}
	e.c12DeepDef(s, ca, "Cache.Del", "cacheDelStmts")
	e.c12DeepDef(s, ca, "Cache.Set", "cacheSetStmts")
	e.c12DeepDef(s, ca, "Cache.SetWithExpire", "cacheSetWithExpireStmts")
	e.c12DeepDef(s, ca, "Cache.onEvict", "cacheOnEvictStmts")
	// core/timex/ticker.go
	const tk = "core/timex/ticker.go"
	e.c12DeepDef(s, tk, "NewTicker", "newTickerStmts")
	e.c12DeepDef(s, tk, "realTicker.Chan", "realTickerChanStmts")
	e.c12DeepDef(s, tk, "NewFakeTicker", "newFakeTickerStmts")
	e.c12DeepDef(s, tk, "fakeTicker.Chan", "fakeTickerChanStmts")
	e.c12DeepDef(s, tk, "fakeTicker.Stop", "fakeTickerStopStmts")
	e.c12DeepDef(s, tk, "fakeTicker.Tick", "fakeTickerTickStmts")
}


// ---------------------------------------------------------------------------------------------- round 5: typed tables

// c12WheelMethods are the public methods of the wheel a client calls.
var c12WheelMethods = map[string]bool{"SetTimer": true, "MoveTimer": true, "RemoveTimer": true, "Drain": true}

// c12WheelCalls emits, for EVERY function of the file (function literals included), every call of a public method
// of a timing wheel as a typed row: (enclosing function, method, forwarded arguments, issued on a goroutine of
// its own?, inside a deferred call?).  A call is on a goroutine of its own when an enclosing statement is a
// `go` statement or an enclosing call is threading.GoSafe / GoSafeCtx.
func (e *emitter) c12WheelCalls(s *source, rel, lean string) {
	f := s.file(rel)
	if f == nil {
		e.errors = append(e.errors, "file "+rel+" not found")
		return
	}
	var rows []string
	for _, d := range f.Decls {
		fd, ok := d.(*ast.FuncDecl)
		if !ok || fd.Body == nil {
			continue
		}
		name := fd.Name.Name
		if r := recvTypeName(fd); r != "" {
			name = r + "." + name
		}
		var stack []ast.Node
		ast.Inspect(fd.Body, func(n ast.Node) bool {
			if n == nil {
				stack = stack[:len(stack)-1]
				return true
			}
			if call, ok := n.(*ast.CallExpr); ok {
				if sel, ok := call.Fun.(*ast.SelectorExpr); ok && c12WheelMethods[sel.Sel.Name] {
					detached, deferred := false, false
					for _, a := range stack {
						switch x := a.(type) {
						case *ast.GoStmt:
							detached = true
						case *ast.DeferStmt:
							deferred = true
						case *ast.CallExpr:
							if strings.Contains(s.src(x.Fun), "GoSafe") {
								detached = true
							}
						}
					}
					if _, isGo := n.(*ast.CallExpr); isGo && len(stack) > 0 {
						if g, ok := stack[len(stack)-1].(*ast.GoStmt); ok && g.Call == call {
							detached = true
						}
					}
					var args []string
					for _, a := range call.Args {
						args = append(args, fmt.Sprintf("%q", s.src(a)))
					}
					rows = append(rows, fmt.Sprintf("⟨%q, %q, [%s], %v, %v⟩", name, sel.Sel.Name, strings.Join(args, ", "), detached, deferred))
				}
			}
			stack = append(stack, n)
			return true
		})
	}
	e.printf("/-- every call of a public method of a timing wheel in %s: function, method, arguments, on a goroutine of its own, deferred -/\ndef %s : List WheelCall :=\n  [%s]\n\n",
		rel, lean, strings.Join(rows, ",\n   "))
}

// c12ForwardArgs emits the argument list of the single call of `callee` inside goName (a delegating entry point).
func (e *emitter) c12ForwardArgs(s *source, rel, goName, callee, lean string) {
	fd := s.findFunc(rel, goName)
	if fd == nil {
		e.errors = append(e.errors, "function "+goName+" not found in "+rel)
		e.stringList(lean, "MISSING", []string{"MISSING"})
		return
	}
	calls := c12CallsNamed(fd, callee)
	if len(calls) != 1 {
		e.errors = append(e.errors, fmt.Sprintf("%s: expected exactly one call of %s, found %d", goName, callee, len(calls)))
		e.stringList(lean, "MISSING", []string{"MISSING"})
		return
	}
	var args []string
	for _, a := range calls[0].Args {
		args = append(args, s.src(a))
	}
	e.stringList(lean, "arguments `"+goName+"` forwards to `"+callee+"`", args)
}

// c12Subst replaces method calls `x.Len()` by the identifier `length` and selectors `x.limit` by `limit`.
func c12Subst(e ast.Expr) ast.Expr {
	switch x := e.(type) {
	case *ast.ParenExpr:
		return &ast.ParenExpr{X: c12Subst(x.X)}
	case *ast.BinaryExpr:
		return &ast.BinaryExpr{X: c12Subst(x.X), Op: x.Op, Y: c12Subst(x.Y)}
	case *ast.CallExpr:
		if sel, ok := x.Fun.(*ast.SelectorExpr); ok && sel.Sel.Name == "Len" && len(x.Args) == 0 {
			return c12Ident("length")
		}
	case *ast.SelectorExpr:
		if x.Sel.Name == "limit" {
			return c12Ident("limit")
		}
	}
	return e
}

// c12FirstIfIn finds the first if statement anywhere below n (function literals included).
func c12FirstIfIn(n ast.Node) *ast.IfStmt {
	var found *ast.IfStmt
	ast.Inspect(n, func(x ast.Node) bool {
		if is, ok := x.(*ast.IfStmt); ok && found == nil {
			found = is
		}
		return found == nil
	})
	return found
}


// c12Nest emits the constructs that enclose the call of the callback inside goName, outermost first, as a typed
// list: go statement, threading.GoSafe, threading.RunSafe, TaskRunner.Schedule, loop.
func (e *emitter) c12Nest(s *source, rel, goName, lean, target string) {
	fd := s.findFunc(rel, goName)
	if fd == nil {
		e.errors = append(e.errors, "function "+goName+" not found in "+rel)
		e.printf("def %s : List Nest := []\n\n", lean)
		return
	}
	var stack []ast.Node
	var paths [][]string
	ast.Inspect(fd.Body, func(n ast.Node) bool {
		if n == nil {
			stack = stack[:len(stack)-1]
			return true
		}
		if call, ok := n.(*ast.CallExpr); ok && s.src(call.Fun) == target {
			var path []string
			for _, a := range stack {
				switch x := a.(type) {
				case *ast.GoStmt:
					path = append(path, ".go")
				case *ast.ForStmt, *ast.RangeStmt:
					path = append(path, ".loop")
				case *ast.CallExpr:
					if _, lit := x.Fun.(*ast.FuncLit); lit {
						continue
					}
					f := s.src(x.Fun)
					switch {
					case strings.Contains(f, "GoSafe"):
						path = append(path, ".goSafe")
					case strings.Contains(f, "RunSafe"):
						path = append(path, ".runSafe")
					case strings.HasSuffix(f, ".Schedule"):
						path = append(path, ".schedule")
					}
				}
			}
			paths = append(paths, path)
		}
		stack = append(stack, n)
		return true
	})
	if len(paths) != 1 {
		e.errors = append(e.errors, fmt.Sprintf("%s: expected exactly one call of %s, found %d", goName, target, len(paths)))
		e.printf("def %s : List Nest := []\n\n", lean)
		return
	}
	e.printf("/-- what encloses the call of `%s` in `%s`, outermost first -/\ndef %s : List Nest := [%s]\n\n", target, goName, lean, strings.Join(paths[0], ", "))
}


// c12LitFields flattens a composite literal (nested literals included) into (field, value source) pairs; any other
// expression is one pair with an empty field name.
func (s *source) c12LitFields(x ast.Expr, out *[]string) {
	if lit, ok := x.(*ast.CompositeLit); ok {
		for _, el := range lit.Elts {
			if kv, ok := el.(*ast.KeyValueExpr); ok {
				if _, nested := kv.Value.(*ast.CompositeLit); nested {
					s.c12LitFields(kv.Value, out)
				} else {
					*out = append(*out, fmt.Sprintf("(%q, %q)", s.src(kv.Key), s.src(kv.Value)))
				}
			} else {
				*out = append(*out, fmt.Sprintf("(%q, %q)", "", s.src(el)))
			}
		}
		return
	}
	*out = append(*out, fmt.Sprintf("(%q, %q)", "", s.src(x)))
}

func c12FindSelect(n ast.Node) *ast.SelectStmt {
	var found *ast.SelectStmt
	ast.Inspect(n, func(x ast.Node) bool {
		if sel, ok := x.(*ast.SelectStmt); ok && found == nil {
			found = sel
		}
		return found == nil
	})
	return found
}

func (s *source) c12Returns(body []ast.Stmt) string {
	for _, st := range body {
		if r, ok := st.(*ast.ReturnStmt); ok {
			var parts []string
			for _, x := range r.Results {
				parts = append(parts, s.src(x))
			}
			return strings.Join(parts, ", ")
		}
	}
	return "(no return)"
}

// c12ApiTables: the select of every public method as a typed row (channel sent on, the fields of the request, what is
// returned once the loop has it, what is returned when stopChannel is closed), and the dispatch table of run (channel
// received from, bound variable, handler, its arguments, does the clause end the loop).
func (e *emitter) c12ApiTables(s *source) {
	const f = "core/collection/timingwheel.go"
	e.printf("structure ApiSend where\n  method : String\n  chan : String\n  fields : List (String × String)\n  onSent : String\n  closedChan : String\n  onClosed : String\n  deriving Repr, DecidableEq\n\n")
	e.printf("structure Dispatch where\n  chan : String\n  bound : String\n  handler : String\n  args : List String\n  endsLoop : Bool\n  deriving Repr, DecidableEq\n\n")
	var rows []string
	for _, m := range []string{"SetTimer", "MoveTimer", "RemoveTimer", "Drain"} {
		fd := s.findFunc(f, "TimingWheel."+m)
		if fd == nil {
			e.errors = append(e.errors, m+" not found")
			continue
		}
		sel := c12FindSelect(fd.Body)
		if sel == nil {
			e.errors = append(e.errors, m+": no select")
			continue
		}
		ch, onSent, closedChan, onClosed := "", "", "", ""
		var fields []string
		for _, c := range sel.Body.List {
			cc := c.(*ast.CommClause)
			switch x := cc.Comm.(type) {
			case *ast.SendStmt:
				ch = strings.TrimPrefix(s.src(x.Chan), "tw.")
				s.c12LitFields(x.Value, &fields)
				onSent = s.c12Returns(cc.Body)
			case *ast.ExprStmt:
				if u, ok := x.X.(*ast.UnaryExpr); ok && u.Op == token.ARROW {
					closedChan = strings.TrimPrefix(s.src(u.X), "tw.")
					onClosed = s.c12Returns(cc.Body)
				}
			default:
				e.errors = append(e.errors, m+": unexpected select clause")
			}
		}
		rows = append(rows, fmt.Sprintf("⟨%q, %q, [%s], %q, %q, %q⟩", m, ch, strings.Join(fields, ", "), onSent, closedChan, onClosed))
	}
	e.printf("/-- the select of every public method of the wheel -/\ndef apiSends : List ApiSend :=\n  [%s]\n\n", strings.Join(rows, ",\n   "))
	rows = nil
	if fd := s.findFunc(f, "TimingWheel.run"); fd != nil {
		if sel := c12FindSelect(fd.Body); sel != nil {
			for _, c := range sel.Body.List {
				cc := c.(*ast.CommClause)
				ch, bound := "", ""
				switch x := cc.Comm.(type) {
				case *ast.ExprStmt:
					if u, ok := x.X.(*ast.UnaryExpr); ok && u.Op == token.ARROW {
						ch = strings.TrimPrefix(s.src(u.X), "tw.")
					}
				case *ast.AssignStmt:
					if len(x.Lhs) == 1 && len(x.Rhs) == 1 {
						bound = s.src(x.Lhs[0])
						if u, ok := x.Rhs[0].(*ast.UnaryExpr); ok && u.Op == token.ARROW {
							ch = strings.TrimPrefix(s.src(u.X), "tw.")
						}
					}
				}
				handler, ends := "", false
				var args []string
				for _, st := range cc.Body {
					switch x := st.(type) {
					case *ast.ExprStmt:
						if call, ok := x.X.(*ast.CallExpr); ok && handler == "" {
							handler = strings.TrimPrefix(s.src(call.Fun), "tw.")
							for _, a := range call.Args {
								args = append(args, fmt.Sprintf("%q", s.src(a)))
							}
						} else {
							handler += "; " + s.src(st)
						}
					case *ast.ReturnStmt:
						ends = true
					default:
						handler += "; " + s.src(st)
					}
				}
				rows = append(rows, fmt.Sprintf("⟨%q, %q, %q, [%s], %v⟩", ch, bound, handler, strings.Join(args, ", "), ends))
			}
		} else {
			e.errors = append(e.errors, "run: no select")
		}
	} else {
		e.errors = append(e.errors, "run not found")
	}
	e.printf("/-- the dispatch table of `run` -/\ndef runDispatch : List Dispatch :=\n  [%s]\n\n", strings.Join(rows, ",\n   "))
}

func (e *emitter) c12Round5(s *source, t *translator) {
	const ca = "core/collection/cache.go"
	const cl = "core/stores/cache/cleaner.go"
	e.printf("structure WheelCall where\n  fn : String\n  method : String\n  args : List String\n  detached : Bool\n  deferred : Bool\n  deriving Repr, DecidableEq\n\n")
	e.printf("inductive Nest where\n  | go | goSafe | runSafe | schedule | loop\n  deriving Repr, DecidableEq\n\n")
	e.c12Nest(s, "core/collection/timingwheel.go", "TimingWheel.runTasks", "runTasksNest", "tw.execute")
	e.c12Nest(s, "core/collection/timingwheel.go", "TimingWheel.drainAll", "drainNest", "fn")
	e.c12Nest(s, "core/collection/timingwheel.go", "TimingWheel.moveTask", "moveImmediateNest", "tw.execute")
	e.c12ApiTables(s)
	e.c12WheelCalls(s, ca, "cacheWheelCalls")
	e.c12WheelCalls(s, cl, "cleanerWheelCalls")
	e.c12ForwardArgs(s, ca, "Cache.Set", "SetWithExpire", "cacheSetForward")
	e.c12ForwardArgs(s, ca, "Cache.Take", "Set", "cacheTakeForward")
	e.c12ForwardArgs(s, ca, "Cache.SetWithExpire", "AroundDuration", "cacheExpiryForward")
	e.c12ForwardArgs(s, "core/collection/timingwheel.go", "NewTimingWheel", "NewTimingWheelWithTicker", "newTimingWheelForward")
	e.c12ForwardArgs(s, "core/collection/timingwheel.go", "NewTimingWheel", "NewTicker", "newTimingWheelTickerForward")
	// guards: WithLimit installs the LRU list for limit > 0; keyLru.add evicts when the list is longer than the limit
	if fd := s.findFunc(ca, "WithLimit"); fd != nil {
		if is := c12FirstIfIn(fd.Body); is != nil {
			e.c12Guard(t, s, "withLimitGuard", "guard of `WithLimit`", []string{"limit"}, is.Cond)
		} else {
			e.errors = append(e.errors, "WithLimit: no guard")
		}
	} else {
		e.errors = append(e.errors, "WithLimit not found")
	}
	if fd := s.findFunc(ca, "keyLru.add"); fd != nil {
		var last *ast.IfStmt
		for _, st := range fd.Body.List {
			if is, ok := st.(*ast.IfStmt); ok {
				last = is
			}
		}
		if last != nil {
			e.c12Guard(t, s, "lruEvictGuard", "eviction test of `keyLru.add` (after the new key was pushed to the front)", []string{"length", "limit"}, c12Subst(last.Cond))
		} else {
			e.errors = append(e.errors, "keyLru.add: no eviction test")
		}
	}
	for _, m := range []struct{ goName, lean string }{
		{"Cache.Take", "cacheTakeStmts"}, {"Cache.doGet", "cacheDoGetStmts"}, {"Cache.Get", "cacheGetStmts"},
		{"WithLimit", "withLimitStmts"}, {"keyLru.add", "lruAddStmts"}, {"keyLru.remove", "lruRemoveStmts"},
		{"keyLru.removeOldest", "lruRemoveOldestStmts"}, {"keyLru.removeElement", "lruRemoveElementStmts"},
		{"newKeyLru", "newKeyLruStmts"}, {"emptyLru.add", "emptyLruAddStmts"}, {"emptyLru.remove", "emptyLruRemoveStmts"},
	} {
		e.c12DeepDef(s, ca, m.goName, m.lean)
	}
	// the options loop and the default LRU of NewCache
	if fd := s.findFunc(ca, "NewCache"); fd != nil {
		var out []string
		for _, st := range fd.Body.List {
			src := s.src(st)
			if strings.Contains(src, "lruCache") || strings.Contains(src, "opt(cache)") {
				s.c12Deep([]ast.Stmt{st}, &out)
			}
		}
		e.stringList("newCacheOptionStmts", "NewCache: the default LRU and the loop over the options", out)
	}
	// scanAndRunTasks / drainAll collect into a slice of their own (declared inside the function, never stored)
	for _, m := range []struct{ goName, lean string }{{"TimingWheel.scanAndRunTasks", "scanTasksDecl"}, {"TimingWheel.drainAll", "drainTasksDecl"}} {
		var out []string
		if fd := s.findFunc("core/collection/timingwheel.go", m.goName); fd != nil {
			ast.Inspect(fd.Body, func(n ast.Node) bool {
				switch x := n.(type) {
				case *ast.DeclStmt:
					if strings.Contains(s.src(x), "tasks") {
						out = append(out, s.src(x))
					}
				case *ast.AssignStmt:
					src := s.src(x)
					if strings.HasPrefix(src, "tasks ") || strings.HasPrefix(src, "tasks=") || strings.Contains(src, "= tasks") {
						out = append(out, src)
					}
				}
				return true
			})
		}
		e.stringList(m.lean, "every declaration of / assignment to or from `tasks` in `"+m.goName+"`", out)
	}
}

func init() {
	register("C12", func(s *source, e *emitter) {
		const f = "core/collection/timingwheel.go"
		t := &translator{registry: map[string]*transFunc{}, consts: map[string]string{}}
		e.constDef(s, f, "drainWorkers", "drainWorkers")
		e.translated(t, s, f, "TimingWheel.getOffset", "getOffset", false, "")
		e.translated(t, s, f, "TimingWheel.getPositionAndCircle", "getPositionAndCircle", false, "")
		// the case split of moveTask, from the position computation on (round 1 obligation, kept)
		e.translated(t, s, f, "TimingWheel.moveTask", "moveTaskTail", true, "pos, circle := tw.getPositionAndCircle")
		e.translated(t, s, f, "TimingWheel.onTick", "onTickEff", true, "")

		need := func(name string) *ast.FuncDecl {
			fd := s.findFunc(f, name)
			if fd == nil {
				e.errors = append(e.errors, "function "+name+" not found in "+f)
			}
			return fd
		}
		recvOf := func(fd *ast.FuncDecl) string {
			if fd.Recv != nil && len(fd.Recv.List) == 1 && len(fd.Recv.List[0].Names) == 1 {
				return fd.Recv.List[0].Names[0].Name
			}
			return ""
		}
		// handlers of the run loop as effect lists
		if fd := need("TimingWheel.moveTask"); fd != nil {
			e.c12Effects(t, "moveTaskEff", "every statement of `moveTask` (rewritten by c12Rewrite)", recvOf(fd), nil, s.c12Rewrite(fd.Body.List))
		}
		if fd := need("TimingWheel.setTask"); fd != nil && len(fd.Body.List) >= 2 {
			e.c12Effects(t, "setTaskClamp", "first statement of `setTask`: the clamp of a delay below one interval", recvOf(fd), nil, s.c12Rewrite(fd.Body.List[:1]))
			e.c12Effects(t, "setTaskEff", "`setTask` after the clamp (task.delay is the clamped delay)", recvOf(fd), nil, s.c12Rewrite(fd.Body.List[1:]))
		}
		if fd := need("TimingWheel.removeTask"); fd != nil {
			e.c12Effects(t, "removeTaskEff", "every statement of `removeTask`", recvOf(fd), nil, s.c12Rewrite(fd.Body.List))
		}
		if fd := need("TimingWheel.setTimerPosition"); fd != nil {
			e.c12Effects(t, "setTimerPositionEff", "every statement of `setTimerPosition`", recvOf(fd), []string{"pos"}, s.c12Rewrite(fd.Body.List))
		}
		if fd := need("TimingWheel.scanAndRunTasks"); fd != nil {
			if loop := c12InnerLoop(fd); loop != nil {
				e.c12Effects(t, "scanEntryEff", "one iteration of the loop of `scanAndRunTasks` (what happens to one entry of the scanned slot)", recvOf(fd), nil, s.c12Rewrite(loop.Body.List))
				e.stringList("scanLoopHeader", "loop header of `scanAndRunTasks`", []string{c12Src(s, loop.Init), c12Src(s, loop.Cond), c12Src(s, loop.Post)})
			} else {
				e.errors = append(e.errors, "scanAndRunTasks: loop not found")
			}
		}
		if fd := need("TimingWheel.drainAll"); fd != nil {
			if loop := c12InnerLoop(fd); loop != nil {
				e.c12Effects(t, "drainEntryEff", "one iteration of the inner loop of `drainAll`", recvOf(fd), nil, s.c12Rewrite(loop.Body.List))
				e.stringList("drainLoopHeader", "inner loop header of `drainAll`", []string{c12Src(s, loop.Init), c12Src(s, loop.Cond), c12Src(s, loop.Post)})
				// what drainAll does with the collected tasks, after the slots are empty (the hand-off to the workers)
				var tail []string
				seenRange := false
				for _, st := range fd.Body.List {
					if _, ok := st.(*ast.RangeStmt); ok && !seenRange {
						seenRange = true
						continue
					}
					if seenRange {
						s.c12Deep([]ast.Stmt{st}, &tail)
					}
				}
				e.stringList("drainTailStmts", "statements of `drainAll` after the loop over the slots", tail)
			} else {
				e.errors = append(e.errors, "drainAll: loop not found")
			}
		}
		// the slot onTick scans
		if fd := need("TimingWheel.onTick"); fd != nil {
			var out []string
			s.c12Flat(fd.Body.List, &out)
			e.stringList("onTickStmts", "statements of `onTick`", out)
		}
		// public API: guards as Bool functions, statement tables
		for _, m := range []struct{ goName, lean string }{
			{"TimingWheel.SetTimer", "setTimer"}, {"TimingWheel.MoveTimer", "moveTimer"},
			{"TimingWheel.RemoveTimer", "removeTimer"}, {"TimingWheel.Drain", "drain"}, {"TimingWheel.Stop", "stop"},
			{"TimingWheel.run", "runLoop"}, {"TimingWheel.initSlots", "initSlots"}, {"TimingWheel.runTasks", "runTasks"},
		} {
			fd := e.c12FlatDef(s, f, m.goName, m.lean+"Stmts")
			if fd == nil {
				continue
			}
			if is := c12FirstIf(fd); is != nil && strings.HasSuffix(m.goName, "Timer") {
				e.c12Guard(t, s, m.lean+"Guard", "argument guard of `"+m.goName+"`", []string{"delay"}, is.Cond)
			} else if is != nil && m.lean == "runTasks" {
				e.c12Guard(t, s, m.lean+"Guard", "early return of `"+m.goName+"`", nil, is.Cond)
			}
		}
		// constructors
		if fd := e.c12FlatDef(s, f, "NewTimingWheel", "newTimingWheelStmts"); fd != nil {
			if is := c12FirstIf(fd); is != nil {
				e.c12Guard(t, s, "newTimingWheelGuard", "argument guard of `NewTimingWheel`", []string{"interval", "numSlots"}, is.Cond)
			} else {
				e.errors = append(e.errors, "NewTimingWheel: no guard")
			}
		}
		if fd := need("NewTimingWheelWithTicker"); fd != nil {
			var fields, rest []string
			var tickedPos ast.Expr
			for i, st := range fd.Body.List {
				if as, ok := st.(*ast.AssignStmt); ok && i == 0 && len(as.Rhs) == 1 {
					rhs := as.Rhs[0]
					if u, ok := rhs.(*ast.UnaryExpr); ok {
						rhs = u.X
					}
					if cl, ok := rhs.(*ast.CompositeLit); ok {
						for _, el := range cl.Elts {
							if kv, ok := el.(*ast.KeyValueExpr); ok {
								if c12IsIdent(kv.Key, "tickedPos") {
									tickedPos = kv.Value
									fields = append(fields, "tickedPos: INIT")
								} else {
									fields = append(fields, s.src(kv.Key)+": "+s.src(kv.Value))
								}
							}
						}
						amp := ""
						if _, ok := as.Rhs[0].(*ast.UnaryExpr); ok {
							amp = "&"
						}
						rest = append(rest, s.src(as.Lhs[0])+" "+as.Tok.String()+" "+amp+s.src(cl.Type)+"{…}")
						continue
					}
				}
				var tmp []string
				s.c12Flat([]ast.Stmt{st}, &tmp)
				rest = append(rest, tmp...)
			}
			e.stringList("ctorFields", "fields of the struct literal of `NewTimingWheelWithTicker` (tickedPos tied as a function)", fields)
			e.stringList("ctorStmts", "statements of `NewTimingWheelWithTicker`", rest)
			if tickedPos != nil {
				func() {
					defer func() {
						if p := recover(); p != nil {
							e.errors = append(e.errors, fmt.Sprint("initTickedPos: ", p))
							e.printf("def initTickedPos : Unit := ()\n\n")
						}
					}()
					c := &tctx{t: t, locals: map[string]bool{"numSlots": true}, freeSet: map[string]bool{}, boolVars: map[string]bool{}}
					body := c.expr(tickedPos, false)
					if len(c.free) > 0 {
						failf("initial tickedPos depends on %v", c.free)
					}
					e.printf("/-- initial `tickedPos` in `NewTimingWheelWithTicker`: `%s` -/\ndef initTickedPos (numSlots : Int) : Int :=\n  %s\n\n", s.src(tickedPos), body)
				}()
			} else {
				e.errors = append(e.errors, "NewTimingWheelWithTicker: tickedPos field not found")
			}
		}
		// numeric conversions anywhere in the file (the generic translator reads every conversion as the identity,
		// so a narrowing one must not appear unnoticed)
		if file := s.file(f); file != nil {
			convs := []string{}
			ast.Inspect(file, func(n ast.Node) bool {
				if c, ok := n.(*ast.CallExpr); ok && len(c.Args) == 1 {
					switch s.src(c.Fun) {
					case "int", "int8", "int16", "int32", "int64", "uint", "uint8", "uint16", "uint32", "uint64",
						"uintptr", "float32", "float64", "time.Duration", "byte", "rune":
						convs = append(convs, s.src(c))
					}
				}
				return true
			})
			e.stringList("conversions", "numeric conversions in "+f, convs)
		}
		// statement skeletons (order of list / map operations)
		e.shapeDef(s, f, "TimingWheel.scanAndRunTasks", "scanShape")
		e.shapeDef(s, f, "TimingWheel.drainAll", "drainShape")
		e.shapeDef(s, f, "TimingWheel.removeTask", "removeShape")
		e.shapeDef(s, f, "TimingWheel.setTask", "setTaskShape")
		e.shapeDef(s, f, "TimingWheel.onTick", "onTickShape")
		e.c12Clients(s)
		e.c12Round5(s, t)
	})
}
