package main

func init() {
	register("C12", func(s *source, e *emitter) {
		const f = "core/collection/timingwheel.go"
		t := &translator{registry: map[string]*transFunc{}, consts: map[string]string{}}
		e.translated(t, s, f, "TimingWheel.getOffset", "getOffset", false, "")
		e.translated(t, s, f, "TimingWheel.getPositionAndCircle", "getPositionAndCircle", false, "")
		// the case split of moveTask, from the position computation on
		e.translated(t, s, f, "TimingWheel.moveTask", "moveTaskTail", true, "pos, circle := tw.getPositionAndCircle")
		e.shapeDef(s, f, "TimingWheel.scanAndRunTasks", "scanShape")
		e.shapeDef(s, f, "TimingWheel.drainAll", "drainShape")
		e.shapeDef(s, f, "TimingWheel.removeTask", "removeShape")
		e.shapeDef(s, f, "TimingWheel.setTask", "setTaskShape")
		e.shapeDef(s, f, "TimingWheel.onTick", "onTickShape")
	})
}
