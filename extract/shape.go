package main

import (
	"go/ast"
	"go/token"
	"strings"
)

// shape flattens a function body into its synchronisation skeleton: the ordered list of the
// statements that matter for interleavings (lock/unlock, map writes/deletes, channel operations,
// select, go, defer, wait-group and atomic calls, returns) with the control structure around them.
// Pure computations and logging are dropped, so harmless edits do not change the skeleton.
func (s *source) shape(fd *ast.FuncDecl) []string {
	var out []string
	s.shapeBlock(fd.Body.List, &out)
	return out
}

var interestingMethods = map[string]bool{
	"Lock": true, "Unlock": true, "RLock": true, "RUnlock": true,
	"Add": true, "Done": true, "Wait": true, "Signal": true, "Broadcast": true,
	"Store": true, "Load": true, "CompareAndSwap": true, "Swap": true,
	"Do": true, "Stop": true, "Set": true, "Get": true, "Del": true,
	"Commit": true, "Rollback": true, "BeginTx": true, "Begin": true,
}

func (s *source) callTok(c *ast.CallExpr) (string, bool) {
	switch f := c.Fun.(type) {
	case *ast.Ident:
		switch f.Name {
		case "delete", "close":
			if len(c.Args) > 0 {
				return f.Name + " " + s.src(c.Args[0]), true
			}
		case "panic":
			return "panic", true
		case "recover":
			return "recover", true
		}
		return "call " + f.Name, true
	case *ast.SelectorExpr:
		name := s.src(f)
		if interestingMethods[f.Sel.Name] || strings.HasPrefix(name, "atomic.") {
			return "call " + name, true
		}
		return "call " + name, true
	case *ast.FuncLit:
		return "", false
	}
	return "call ?", true
}

func (s *source) shapeExpr(e ast.Expr, out *[]string) {
	ast.Inspect(e, func(n ast.Node) bool {
		switch x := n.(type) {
		case *ast.FuncLit:
			*out = append(*out, "func{")
			s.shapeBlock(x.Body.List, out)
			*out = append(*out, "}")
			return false
		case *ast.UnaryExpr:
			if x.Op == token.ARROW {
				*out = append(*out, "recv "+s.src(x.X))
			}
		case *ast.CallExpr:
			// arguments first (evaluation order), then the call
			for _, a := range x.Args {
				s.shapeExpr(a, out)
			}
			if fl, ok := x.Fun.(*ast.FuncLit); ok {
				*out = append(*out, "func{")
				s.shapeBlock(fl.Body.List, out)
				*out = append(*out, "}", "call func")
				return false
			}
			if sel, ok := x.Fun.(*ast.SelectorExpr); ok {
				s.shapeExpr(sel.X, out)
			}
			if tok, ok := s.callTok(x); ok && !boringCall(tok) {
				*out = append(*out, tok)
			}
			return false
		}
		return true
	})
}

func boringCall(tok string) bool {
	for _, p := range []string{"call logx.", "call fmt.", "call errors.", "call strings.", "call strconv.", "call len", "call make", "call append", "call new", "call time.", "call int", "call float64", "call string", "call lang.Repr", "call reflect."} {
		if strings.HasPrefix(tok, p) {
			return true
		}
	}
	return false
}

func (s *source) shapeBlock(list []ast.Stmt, out *[]string) {
	for _, st := range list {
		s.shapeStmt(st, out)
	}
}

func (s *source) shapeStmt(st ast.Stmt, out *[]string) {
	switch x := st.(type) {
	case *ast.ExprStmt:
		s.shapeExpr(x.X, out)
	case *ast.SendStmt:
		s.shapeExpr(x.Value, out)
		*out = append(*out, "send "+s.src(x.Chan))
	case *ast.AssignStmt:
		for _, r := range x.Rhs {
			s.shapeExpr(r, out)
		}
		for _, l := range x.Lhs {
			if ix, ok := l.(*ast.IndexExpr); ok {
				*out = append(*out, "mapset "+s.src(ix.X))
			} else if sel, ok := l.(*ast.SelectorExpr); ok {
				*out = append(*out, "store "+s.src(sel))
			}
		}
	case *ast.IncDecStmt:
		if sel, ok := x.X.(*ast.SelectorExpr); ok {
			*out = append(*out, "store "+s.src(sel))
		}
	case *ast.DeferStmt:
		*out = append(*out, "defer{")
		s.shapeExpr(x.Call, out)
		*out = append(*out, "}")
	case *ast.GoStmt:
		*out = append(*out, "go{")
		s.shapeExpr(x.Call, out)
		*out = append(*out, "}")
	case *ast.ReturnStmt:
		for _, r := range x.Results {
			s.shapeExpr(r, out)
		}
		*out = append(*out, "return")
	case *ast.BlockStmt:
		s.shapeBlock(x.List, out)
	case *ast.IfStmt:
		if x.Init != nil {
			s.shapeStmt(x.Init, out)
		}
		*out = append(*out, "if "+s.src(x.Cond)+" {")
		s.shapeBlock(x.Body.List, out)
		*out = append(*out, "}")
		if x.Else != nil {
			*out = append(*out, "else{")
			s.shapeStmt(x.Else, out)
			*out = append(*out, "}")
		}
	case *ast.ForStmt:
		hdr := "for"
		if x.Cond != nil {
			hdr += " " + s.src(x.Cond)
		}
		*out = append(*out, hdr+" {")
		s.shapeBlock(x.Body.List, out)
		*out = append(*out, "}")
	case *ast.RangeStmt:
		*out = append(*out, "range "+s.src(x.X)+" {")
		s.shapeBlock(x.Body.List, out)
		*out = append(*out, "}")
	case *ast.SelectStmt:
		*out = append(*out, "select{")
		for _, c := range x.Body.List {
			cc := c.(*ast.CommClause)
			if cc.Comm == nil {
				*out = append(*out, "default:")
			} else {
				var tmp []string
				s.shapeStmt(cc.Comm, &tmp)
				*out = append(*out, "case "+strings.Join(tmp, "; ")+":")
			}
			s.shapeBlock(cc.Body, out)
		}
		*out = append(*out, "}")
	case *ast.SwitchStmt:
		hdr := "switch"
		if x.Tag != nil {
			hdr += " " + s.src(x.Tag)
		}
		*out = append(*out, hdr+" {")
		for _, c := range x.Body.List {
			cc := c.(*ast.CaseClause)
			if cc.List == nil {
				*out = append(*out, "default:")
			} else {
				var cs []string
				for _, e := range cc.List {
					cs = append(cs, s.src(e))
				}
				*out = append(*out, "case "+strings.Join(cs, ", ")+":")
			}
			s.shapeBlock(cc.Body, out)
		}
		*out = append(*out, "}")
	case *ast.DeclStmt, *ast.EmptyStmt, *ast.BranchStmt, *ast.LabeledStmt, *ast.TypeSwitchStmt:
		if b, ok := st.(*ast.BranchStmt); ok {
			*out = append(*out, b.Tok.String())
		}
	}
}
