package main

import (
	"go/ast"
	"strings"
)

// c17SwitchCases lists, for the first (type) switch statement of a function, every case as
// "<case expressions> -> <first statement of the body>" (whitespace normalised).
func c17SwitchCases(s *source, e *emitter, rel, goName, leanName string) {
	fd := s.findFunc(rel, goName)
	if fd == nil {
		e.errors = append(e.errors, "function "+goName+" not found in "+rel)
		e.stringList(leanName, "MISSING: "+goName, []string{"MISSING"})
		return
	}
	var items []string
	done := false
	ast.Inspect(fd.Body, func(n ast.Node) bool {
		if done {
			return false
		}
		var body *ast.BlockStmt
		switch x := n.(type) {
		case *ast.TypeSwitchStmt:
			body = x.Body
		case *ast.SwitchStmt:
			body = x.Body
		}
		if body == nil {
			return true
		}
		done = true
		for _, c := range body.List {
			cc := c.(*ast.CaseClause)
			var exprs []string
			for _, x := range cc.List {
				exprs = append(exprs, s.src(x))
			}
			lhs := strings.Join(exprs, ",")
			if cc.List == nil {
				lhs = "default"
			}
			rhs := ""
			if len(cc.Body) > 0 {
				rhs = s.src(cc.Body[0])
				if len(rhs) > 90 {
					rhs = rhs[:90]
				}
			}
			items = append(items, lhs+" -> "+rhs)
		}
		return false
	})
	e.stringList(leanName, "cases of the first switch of `"+goName+"` in "+rel, items)
}

// c17Detail lists, in source order, what the small forwarding functions of the property's path do: every call
// expression with its full argument list, every if-condition, every assignment to a struct field, every return.
// Closures are entered.  (A dropped `opts...`, a changed argument, a removed UseNumber, a moved ExpandEnv shows up.)
func c17Detail(s *source, e *emitter, rel, goName, leanName string) {
	fd := s.findFunc(rel, goName)
	if fd == nil {
		e.errors = append(e.errors, "function "+goName+" not found in "+rel)
		e.stringList(leanName, "MISSING: "+goName, []string{"MISSING"})
		return
	}
	var items []string
	ast.Inspect(fd.Body, func(n ast.Node) bool {
		switch x := n.(type) {
		case *ast.CallExpr:
			items = append(items, "call "+s.src(x))
		case *ast.IfStmt:
			items = append(items, "if "+s.src(x.Cond))
		case *ast.RangeStmt:
			items = append(items, "range "+s.src(x.X))
		case *ast.ReturnStmt:
			var xs []string
			for _, r := range x.Results {
				xs = append(xs, s.src(r))
			}
			items = append(items, strings.TrimSpace("return "+strings.Join(xs, ", ")))
		case *ast.AssignStmt:
			for i, l := range x.Lhs {
				if _, ok := l.(*ast.SelectorExpr); ok && i < len(x.Rhs) {
					items = append(items, "set "+s.src(l)+" "+x.Tok.String()+" "+s.src(x.Rhs[i]))
				}
			}
		}
		return true
	})
	e.stringList(leanName, "calls (with arguments), conditions, field stores and returns of `"+goName+"` in "+rel, items)
}

// c17MapLiteral lists the entries "key -> value" of the composite literal assigned to the package variable `name`.
func c17MapLiteral(s *source, e *emitter, rel, name, leanName string) {
	f := s.file(rel)
	var items []string
	found := false
	if f != nil {
		ast.Inspect(f, func(n ast.Node) bool {
			vs, ok := n.(*ast.ValueSpec)
			if !ok {
				return true
			}
			for i, id := range vs.Names {
				if id.Name == name && i < len(vs.Values) {
					if cl, ok := vs.Values[i].(*ast.CompositeLit); ok {
						found = true
						for _, el := range cl.Elts {
							if kv, ok := el.(*ast.KeyValueExpr); ok {
								items = append(items, s.src(kv.Key)+" -> "+s.src(kv.Value))
							}
						}
					}
				}
			}
			return true
		})
	}
	if !found {
		e.errors = append(e.errors, "map literal "+name+" not found in "+rel)
	}
	e.stringList(leanName, "entries of `"+name+"` in "+rel, items)
}

func init() {
	register("C17", func(s *source, e *emitter) {
		const cf = "core/conf/config.go"
		const ef = "internal/encoding/encoding.go"
		const uf = "core/mapping/utils.go"
		e.constDef(s, cf, "jsonTagKey", "jsonTagKey")
		e.shapeDef(s, cf, "Load", "loadShape")
		e.shapeDef(s, cf, "LoadFromJsonBytes", "loadJsonShape")
		e.shapeDef(s, cf, "LoadFromYamlBytes", "loadYamlShape")
		e.shapeDef(s, cf, "LoadFromTomlBytes", "loadTomlShape")
		e.shapeDef(s, cf, "toLowerCaseKeyMap", "lowerKeyMapShape")
		e.shapeDef(s, cf, "toLowerCaseInterface", "lowerInterfaceShape")
		e.shapeDef(s, cf, "toLowerCase", "toLowerShape")
		c17SwitchCases(s, e, cf, "buildFieldsInfo", "buildFieldsInfoCases")
		c17SwitchCases(s, e, cf, "buildNamedFieldInfo", "buildNamedFieldInfoCases")
		c17SwitchCases(s, e, cf, "toLowerCaseInterface", "lowerInterfaceCases")
		e.shapeDef(s, ef, "YamlToJson", "yamlToJsonShape")
		e.shapeDef(s, ef, "TomlToJson", "tomlToJsonShape")
		c17SwitchCases(s, e, ef, "toStringKeyMap", "toStringKeyMapCases")
		e.shapeDef(s, ef, "convertKeyToString", "convertKeyShape")
		c17SwitchCases(s, e, uf, "convertTypeFromString", "convertTypeCases")
		e.shapeDef(s, "core/jsonx/json.go", "unmarshalUseNumber", "useNumberShape")
		e.shapeDef(s, "core/mapping/jsonunmarshaler.go", "unmarshalJsonBytes", "unmarshalJsonBytesShape")
		// the mapping-level entry points and what they forward
		const jf = "core/mapping/jsonunmarshaler.go"
		const yf = "core/mapping/yamlunmarshaler.go"
		const tf = "core/mapping/tomlunmarshaler.go"
		const mf = "core/mapping/unmarshaler.go"
		const xf = "core/jsonx/json.go"
		c17Detail(s, e, jf, "UnmarshalJsonBytes", "mJsonBytes")
		c17Detail(s, e, jf, "UnmarshalJsonReader", "mJsonReader")
		c17Detail(s, e, jf, "UnmarshalJsonMap", "mJsonMap")
		c17Detail(s, e, jf, "getJsonUnmarshaler", "mGetJsonUnmarshaler")
		c17Detail(s, e, jf, "unmarshalJsonBytes", "mUnmarshalJsonBytes")
		c17Detail(s, e, jf, "unmarshalJsonReader", "mUnmarshalJsonReader")
		c17Detail(s, e, yf, "UnmarshalYamlBytes", "mYamlBytes")
		c17Detail(s, e, yf, "UnmarshalYamlReader", "mYamlReader")
		c17Detail(s, e, tf, "UnmarshalTomlBytes", "mTomlBytes")
		c17Detail(s, e, tf, "UnmarshalTomlReader", "mTomlReader")
		c17Detail(s, e, mf, "NewUnmarshaler", "mNewUnmarshaler")
		c17Detail(s, e, mf, "Unmarshaler.Unmarshal", "mUnmarshal")
		c17Detail(s, e, mf, "WithStringValues", "optStringValues")
		c17Detail(s, e, mf, "WithCanonicalKeyFunc", "optCanonicalKey")
		c17Detail(s, e, mf, "WithFromArray", "optFromArray")
		c17Detail(s, e, mf, "WithOpaqueKeys", "optOpaqueKeys")
		c17Detail(s, e, mf, "WithDefault", "optDefault")
		c17SwitchCases(s, e, mf, "Unmarshaler.processFieldPrimitiveWithJSONNumber", "jsonNumberCases")
		c17SwitchCases(s, e, mf, "Unmarshaler.processFieldWithEnvValue", "envValueCases")
		c17Detail(s, e, mf, "readKeys", "mReadKeys")
		c17Detail(s, e, mf, "getValueWithChainedKeys", "mChainedKeys")
		c17Detail(s, e, xf, "Unmarshal", "xUnmarshal")
		c17Detail(s, e, xf, "UnmarshalFromReader", "xUnmarshalFromReader")
		c17Detail(s, e, xf, "UnmarshalFromString", "xUnmarshalFromString")
		c17Detail(s, e, xf, "unmarshalUseNumber", "xUseNumber")
		// conf: the loaders and the file-level API
		c17Detail(s, e, cf, "Load", "cLoad")
		c17Detail(s, e, cf, "LoadConfig", "cLoadConfig")
		c17Detail(s, e, cf, "MustLoad", "cMustLoad")
		c17Detail(s, e, cf, "FillDefault", "cFillDefault")
		c17Detail(s, e, cf, "LoadFromJsonBytes", "cLoadJson")
		c17Detail(s, e, cf, "LoadFromYamlBytes", "cLoadYaml")
		c17Detail(s, e, cf, "LoadFromTomlBytes", "cLoadToml")
		c17Detail(s, e, "core/conf/options.go", "UseEnv", "cUseEnv")
		c17MapLiteral(s, e, cf, "loaders", "cLoaders")
		c17Detail(s, e, ef, "convertKeyToString", "eConvertKey")
		c17Detail(s, e, ef, "convertNumberToJsonNumber", "eConvertNumber")
		c17Detail(s, e, ef, "convertSlice", "eConvertSlice")
		c17Detail(s, e, ef, "encodeToJSON", "eEncodeToJSON")
	})
}
