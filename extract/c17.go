package main

func init() {
	register("C17", func(s *source, e *emitter) {
		const cf = "core/conf/config.go"
		e.shapeDef(s, cf, "LoadFromJsonBytes", "loadJsonShape")
		e.shapeDef(s, cf, "LoadFromYamlBytes", "loadYamlShape")
		e.shapeDef(s, cf, "LoadFromTomlBytes", "loadTomlShape")
	})
}
