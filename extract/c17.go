package main

import (
	"fmt"
	"go/ast"
	"go/token"
	"strings"
)

// ---- a small translator of Go conditions into Lean `Bool` functions (own to C17) -------------------------------------
//
// c17Conds emits, for every `if` of a function (source order, closures entered), `def <prefix><i> (atoms…) : Bool`.
// Operators && || ! < <= > >= == != and integer literals are translated; every other sub-expression (identifier,
// selector, call) is an ATOM and becomes a parameter: `Int` when it is compared, `Bool` when it is used as a truth
// value; `x == nil` / `x != nil` become the Bool atom `x_isNil` (negated for !=).  Parameters are ordered by first
// occurrence.  The Tie theorems then prove these functions equal to the model's decisions FOR ALL ARGUMENTS.
type c17CondCtx struct {
	s     *source
	names []string
	types map[string]string
	bad   []string
}

func c17Ident(src string) string {
	var b strings.Builder
	last := byte('_')
	for i := 0; i < len(src); i++ {
		c := src[i]
		ok := (c >= 'a' && c <= 'z') || (c >= 'A' && c <= 'Z') || (c >= '0' && c <= '9')
		if ok {
			b.WriteByte(c)
			last = c
		} else if last != '_' {
			b.WriteByte('_')
			last = '_'
		}
	}
	out := strings.Trim(b.String(), "_")
	if out == "" || (out[0] >= '0' && out[0] <= '9') {
		out = "a_" + out
	}
	return out
}

func (c *c17CondCtx) atom(e ast.Expr, ty string, suffix string) string {
	name := c17Ident(c.s.src(e)) + suffix
	if old, ok := c.types[name]; ok {
		if old != ty {
			c.bad = append(c.bad, "atom "+name+" used as "+old+" and "+ty)
		}
		return name
	}
	c.types[name] = ty
	c.names = append(c.names, name)
	return name
}

func isNilIdent(e ast.Expr) bool {
	id, ok := e.(*ast.Ident)
	return ok && id.Name == "nil"
}

func (c *c17CondCtx) intExpr(e ast.Expr) string {
	switch x := e.(type) {
	case *ast.ParenExpr:
		return c.intExpr(x.X)
	case *ast.BasicLit:
		if x.Kind == token.INT {
			return "(" + x.Value + " : Int)"
		}
	}
	return c.atom(e, "Int", "")
}

func (c *c17CondCtx) boolExpr(e ast.Expr) string {
	switch x := e.(type) {
	case *ast.ParenExpr:
		return "(" + c.boolExpr(x.X) + ")"
	case *ast.UnaryExpr:
		if x.Op == token.NOT {
			return "(!" + c.boolExpr(x.X) + ")"
		}
	case *ast.BinaryExpr:
		switch x.Op {
		case token.LAND:
			return "(" + c.boolExpr(x.X) + " && " + c.boolExpr(x.Y) + ")"
		case token.LOR:
			return "(" + c.boolExpr(x.X) + " || " + c.boolExpr(x.Y) + ")"
		case token.EQL, token.NEQ:
			var inner string
			switch {
			case isNilIdent(x.Y):
				inner = c.atom(x.X, "Bool", "_isNil")
			case isNilIdent(x.X):
				inner = c.atom(x.Y, "Bool", "_isNil")
			default:
				inner = "decide (" + c.intExpr(x.X) + " = " + c.intExpr(x.Y) + ")"
			}
			if x.Op == token.NEQ {
				return "(!" + inner + ")"
			}
			return inner
		case token.LSS:
			return "decide (" + c.intExpr(x.X) + " < " + c.intExpr(x.Y) + ")"
		case token.LEQ:
			return "decide (" + c.intExpr(x.X) + " ≤ " + c.intExpr(x.Y) + ")"
		case token.GTR:
			return "decide (" + c.intExpr(x.X) + " > " + c.intExpr(x.Y) + ")"
		case token.GEQ:
			return "decide (" + c.intExpr(x.X) + " ≥ " + c.intExpr(x.Y) + ")"
		}
	}
	return c.atom(e, "Bool", "")
}

func c17Conds(s *source, e *emitter, rel, goName, prefix string) {
	fd := s.findFunc(rel, goName)
	if fd == nil {
		e.errors = append(e.errors, "function "+goName+" not found in "+rel)
		return
	}
	i := 0
	ast.Inspect(fd.Body, func(n ast.Node) bool {
		st, ok := n.(*ast.IfStmt)
		if !ok {
			return true
		}
		ctx := &c17CondCtx{s: s, types: map[string]string{}}
		body := ctx.boolExpr(st.Cond)
		for _, b := range ctx.bad {
			e.errors = append(e.errors, goName+": "+b)
		}
		var params strings.Builder
		for _, nm := range ctx.names {
			fmt.Fprintf(&params, " (%s : %s)", nm, ctx.types[nm])
		}
		e.printf("/-- condition %d of `%s` in %s: `if %s` -/\ndef %s%d%s : Bool := %s\n\n", i, goName, rel,
			strings.ReplaceAll(s.src(st.Cond), "-/", "- /"), prefix, i, params.String(), body)
		i++
		return true
	})
	e.printf("def %sCount : Nat := %d\n\n", prefix, i)
}

// c17CondsSw: like c17Conds, and additionally every case expression of a TAGLESS switch (`switch { case a && b: … }`) is a
// condition (source order, mixed with the ifs as they appear).  Used for the dispatch functions of the unmarshaller.
func c17CondsSw(s *source, e *emitter, rel, goName, prefix string) {
	fd := s.findFunc(rel, goName)
	if fd == nil {
		e.errors = append(e.errors, "function "+goName+" not found in "+rel)
		return
	}
	i := 0
	emit := func(cond ast.Expr, what string) {
		ctx := &c17CondCtx{s: s, types: map[string]string{}}
		body := ctx.boolExpr(cond)
		for _, b := range ctx.bad {
			e.errors = append(e.errors, goName+": "+b)
		}
		var params strings.Builder
		for _, nm := range ctx.names {
			fmt.Fprintf(&params, " (%s : %s)", nm, ctx.types[nm])
		}
		e.printf("/-- condition %d of `%s` in %s: `%s %s` -/\ndef %s%d%s : Bool := %s\n\n", i, goName, rel, what,
			strings.ReplaceAll(strings.Join(strings.Fields(s.src(cond)), " "), "-/", "- /"), prefix, i, params.String(), body)
		i++
	}
	ast.Inspect(fd.Body, func(n ast.Node) bool {
		switch st := n.(type) {
		case *ast.IfStmt:
			emit(st.Cond, "if")
		case *ast.SwitchStmt:
			if st.Tag == nil {
				for _, c := range st.Body.List {
					for _, x := range c.(*ast.CaseClause).List {
						emit(x, "case")
					}
				}
			}
		}
		return true
	})
	e.printf("def %sCount : Nat := %d\n\n", prefix, i)
}

// c17AllocSites: for the first `range` loop of a function, every call `SetMapIndexValue(…, X)` / `….SetMapIndex(k, X)`
// with the origin of the cell X refers to: "loop <name> := <init>" when the root identifier of X is declared (`:=`)
// inside the loop body — a fresh cell per iteration — else "outer <name>" (a cell shared by all iterations).
func c17AllocSites(s *source, e *emitter, rel, goName, leanName string) {
	fd := s.findFunc(rel, goName)
	var items []string
	if fd == nil {
		e.errors = append(e.errors, "function "+goName+" not found in "+rel)
		e.stringList(leanName, "MISSING", []string{"MISSING"})
		return
	}
	var loop *ast.RangeStmt
	ast.Inspect(fd.Body, func(n ast.Node) bool {
		if r, ok := n.(*ast.RangeStmt); ok && loop == nil {
			loop = r
			return false
		}
		return loop == nil
	})
	if loop == nil {
		e.errors = append(e.errors, goName+": no range loop")
		e.stringList(leanName, "MISSING", []string{"MISSING"})
		return
	}
	root := func(x ast.Expr) string {
		for {
			switch y := x.(type) {
			case *ast.CallExpr:
				x = y.Fun
			case *ast.SelectorExpr:
				x = y.X
			case *ast.ParenExpr:
				x = y.X
			case *ast.Ident:
				return y.Name
			default:
				return "?"
			}
		}
	}
	// declarations are looked up in the innermost enclosing block first: walk with a scope stack
	var walk func(n ast.Node, scope map[string]string)
	walk = func(n ast.Node, scope map[string]string) {
		switch x := n.(type) {
		case *ast.BlockStmt:
			inner := map[string]string{}
			for k, v := range scope {
				inner[k] = v
			}
			for _, st := range x.List {
				walk(st, inner)
			}
			return
		case *ast.CaseClause:
			inner := map[string]string{}
			for k, v := range scope {
				inner[k] = v
			}
			for _, st := range x.Body {
				walk(st, inner)
			}
			return
		case *ast.AssignStmt:
			for _, r := range x.Rhs {
				walk(r, scope)
			}
			if x.Tok == token.DEFINE {
				for i, l := range x.Lhs {
					if id, ok := l.(*ast.Ident); ok && i < len(x.Rhs) {
						scope[id.Name] = s.src(x.Rhs[i])
					} else if ok {
						scope[id.Name] = s.src(x.Rhs[0])
					}
				}
			}
			return
		case *ast.CallExpr:
			fn := s.src(x.Fun)
			if (fn == "SetMapIndexValue" || strings.HasSuffix(fn, ".SetMapIndex")) && len(x.Args) > 0 {
				last := x.Args[len(x.Args)-1]
				r := root(last)
				if init, ok := scope[r]; ok {
					items = append(items, fn+" "+s.src(last)+" <- loop "+r+" := "+init)
				} else {
					items = append(items, fn+" "+s.src(last)+" <- outer "+r)
				}
			}
		}
		ast.Inspect(n, func(m ast.Node) bool {
			if m == n || m == nil {
				return true
			}
			walk(m, scope)
			return false
		})
	}
	walk(loop.Body, map[string]string{})
	e.stringList(leanName, "where the cell stored under each key by `"+goName+"` is allocated", items)
}

// c17Decls: the local `var` declarations of a function ("var opt options" / "var x T = init") and c17PkgVars: the
// package-level variables of a file with their initialisers — state that persists between calls shows up here.
func c17Decls(s *source, e *emitter, rel, goName, leanName string) {
	fd := s.findFunc(rel, goName)
	var items []string
	if fd == nil {
		e.errors = append(e.errors, "function "+goName+" not found in "+rel)
	} else {
		ast.Inspect(fd.Body, func(n ast.Node) bool {
			if d, ok := n.(*ast.DeclStmt); ok {
				items = append(items, strings.Join(strings.Fields(s.src(d)), " "))
			}
			return true
		})
	}
	e.stringList(leanName, "local var declarations of `"+goName+"` in "+rel, items)
}

func c17PkgVars(s *source, e *emitter, rel, leanName string) {
	f := s.file(rel)
	var items []string
	if f == nil {
		e.errors = append(e.errors, "file "+rel+" not found")
	} else {
		for _, d := range f.Decls {
			gd, ok := d.(*ast.GenDecl)
			if !ok || gd.Tok != token.VAR {
				continue
			}
			for _, sp := range gd.Specs {
				vs := sp.(*ast.ValueSpec)
				for i, id := range vs.Names {
					it := id.Name
					if vs.Type != nil {
						it += " : " + s.src(vs.Type)
					}
					if i < len(vs.Values) {
						v := strings.Join(strings.Fields(s.src(vs.Values[i])), " ")
						if len(v) > 60 {
							v = v[:60]
						}
						it += " = " + v
					}
					items = append(items, it)
				}
			}
		}
	}
	e.stringList(leanName, "package-level variables of "+rel, items)
}

// c17SwitchCases lists, for the first (type) switch statement of a function, every case as
// "<case expressions> -> <first statement of the body>" (whitespace normalised).
func c17SwitchCases(s *source, e *emitter, rel, goName, leanName string) {
	fd := s.findFunc(rel, goName)
	if fd == nil {
		e.errors = append(e.errors, "function "+goName+" not found in "+rel)
		e.stringList(leanName, "MISSING: "+goName, []string{"MISSING"})
		return
	}
	var items []string
	done := false
	ast.Inspect(fd.Body, func(n ast.Node) bool {
		if done {
			return false
		}
		var body *ast.BlockStmt
		switch x := n.(type) {
		case *ast.TypeSwitchStmt:
			body = x.Body
		case *ast.SwitchStmt:
			body = x.Body
		}
		if body == nil {
			return true
		}
		done = true
		for _, c := range body.List {
			cc := c.(*ast.CaseClause)
			var exprs []string
			for _, x := range cc.List {
				exprs = append(exprs, s.src(x))
			}
			lhs := strings.Join(exprs, ",")
			if cc.List == nil {
				lhs = "default"
			}
			rhs := ""
			if len(cc.Body) > 0 {
				rhs = s.src(cc.Body[0])
				if len(rhs) > 90 {
					rhs = rhs[:90]
				}
			}
			items = append(items, lhs+" -> "+rhs)
		}
		return false
	})
	e.stringList(leanName, "cases of the first switch of `"+goName+"` in "+rel, items)
}

// c17Detail lists, in source order, what the small forwarding functions of the property's path do: every call
// expression with its full argument list, every if-condition, every assignment to a struct field, every return.
// Closures are entered.  (A dropped `opts...`, a changed argument, a removed UseNumber, a moved ExpandEnv shows up.)
func c17Detail(s *source, e *emitter, rel, goName, leanName string) {
	fd := s.findFunc(rel, goName)
	if fd == nil {
		e.errors = append(e.errors, "function "+goName+" not found in "+rel)
		e.stringList(leanName, "MISSING: "+goName, []string{"MISSING"})
		return
	}
	var items []string
	ast.Inspect(fd.Body, func(n ast.Node) bool {
		switch x := n.(type) {
		case *ast.CallExpr:
			items = append(items, "call "+s.src(x))
		case *ast.IfStmt:
			items = append(items, "if "+s.src(x.Cond))
		case *ast.RangeStmt:
			items = append(items, "range "+s.src(x.X))
		case *ast.ReturnStmt:
			var xs []string
			for _, r := range x.Results {
				xs = append(xs, s.src(r))
			}
			items = append(items, strings.TrimSpace("return "+strings.Join(xs, ", ")))
		case *ast.AssignStmt:
			for i, l := range x.Lhs {
				if _, ok := l.(*ast.SelectorExpr); ok && i < len(x.Rhs) {
					items = append(items, "set "+s.src(l)+" "+x.Tok.String()+" "+s.src(x.Rhs[i]))
				}
			}
		}
		return true
	})
	e.stringList(leanName, "calls (with arguments), conditions, field stores and returns of `"+goName+"` in "+rel, items)
}

// c17MapLiteral lists the entries "key -> value" of the composite literal assigned to the package variable `name`.
func c17MapLiteral(s *source, e *emitter, rel, name, leanName string) {
	f := s.file(rel)
	var items []string
	found := false
	if f != nil {
		ast.Inspect(f, func(n ast.Node) bool {
			vs, ok := n.(*ast.ValueSpec)
			if !ok {
				return true
			}
			for i, id := range vs.Names {
				if id.Name == name && i < len(vs.Values) {
					if cl, ok := vs.Values[i].(*ast.CompositeLit); ok {
						found = true
						for _, el := range cl.Elts {
							if kv, ok := el.(*ast.KeyValueExpr); ok {
								items = append(items, s.src(kv.Key)+" -> "+s.src(kv.Value))
							}
						}
					}
				}
			}
			return true
		})
	}
	if !found {
		e.errors = append(e.errors, "map literal "+name+" not found in "+rel)
	}
	e.stringList(leanName, "entries of `"+name+"` in "+rel, items)
}

// c17ByteFlow: for the function that hands bytes to its caller, where the returned bytes live.  Emits a typed record
// (key/value pairs) read by GoZero.C17.siteOfFlow: the returned expression, its root identifier, how that identifier is
// declared (var / assign / param), the scope of the root (local / param / package) and, for `x := init`, the root of
// the initialiser with ITS scope (package = a package-level variable such as a pool; import; builtin; local), the number
// of defers and each deferred call.  A buffer taken from package-level state, or given back while the result is still
// in use, shows here as a different record.
func c17ByteFlow(s *source, e *emitter, rel, goName, leanName string) {
	fd := s.findFunc(rel, goName)
	var items [][2]string
	add := func(k, v string) { items = append(items, [2]string{k, strings.Join(strings.Fields(v), " ")}) }
	if fd == nil {
		e.errors = append(e.errors, "function "+goName+" not found in "+rel)
	} else {
		pkgVars := map[string]bool{}
		imports := map[string]bool{}
		if f := s.file(rel); f != nil {
			for _, d := range f.Decls {
				if gd, ok := d.(*ast.GenDecl); ok && gd.Tok == token.VAR {
					for _, sp := range gd.Specs {
						for _, id := range sp.(*ast.ValueSpec).Names {
							pkgVars[id.Name] = true
						}
					}
				}
			}
			for _, im := range f.Imports {
				path := strings.Trim(im.Path.Value, "\"")
				name := path[strings.LastIndex(path, "/")+1:]
				if im.Name != nil {
					name = im.Name.Name
				}
				imports[name] = true
			}
		}
		root := func(x ast.Expr) string {
			for {
				switch y := x.(type) {
				case *ast.CallExpr:
					x = y.Fun
				case *ast.SelectorExpr:
					x = y.X
				case *ast.ParenExpr:
					x = y.X
				case *ast.TypeAssertExpr:
					x = y.X
				case *ast.StarExpr:
					x = y.X
				case *ast.UnaryExpr:
					x = y.X
				case *ast.IndexExpr:
					x = y.X
				case *ast.SliceExpr:
					x = y.X
				case *ast.Ident:
					return y.Name
				case *ast.CompositeLit:
					return "composite-literal"
				default:
					return "?"
				}
			}
		}
		params := map[string]bool{}
		for _, fl := range fd.Type.Params.List {
			for _, id := range fl.Names {
				params[id.Name] = true
			}
		}
		localVar := map[string]string{}    // name -> type source
		localAssign := map[string]ast.Expr{} // name -> initialiser
		defers := 0
		var ret ast.Expr
		var rets []ast.Expr
		ast.Inspect(fd.Body, func(n ast.Node) bool {
			switch x := n.(type) {
			case *ast.DeclStmt:
				if gd, ok := x.Decl.(*ast.GenDecl); ok && gd.Tok == token.VAR {
					for _, sp := range gd.Specs {
						vs := sp.(*ast.ValueSpec)
						for _, id := range vs.Names {
							if vs.Type != nil {
								localVar[id.Name] = s.src(vs.Type)
							} else {
								localVar[id.Name] = "?"
							}
						}
					}
				}
			case *ast.AssignStmt:
				if x.Tok == token.DEFINE {
					for i, l := range x.Lhs {
						if id, ok := l.(*ast.Ident); ok {
							if i < len(x.Rhs) {
								localAssign[id.Name] = x.Rhs[i]
							} else {
								localAssign[id.Name] = x.Rhs[0]
							}
						}
					}
				}
			case *ast.DeferStmt:
				defers++
				add("defer", s.src(x.Call))
			case *ast.ReturnStmt:
				if len(x.Results) > 0 && !isNilIdent(x.Results[0]) {
					ret = x.Results[0]
					rets = append(rets, x.Results[0])
				}
			}
			return true
		})
		scopeOf := func(name string) string {
			switch {
			case params[name]:
				return "param"
			case localVar[name] != "" || localAssign[name] != nil:
				return "local"
			case pkgVars[name]:
				return "package"
			case imports[name]:
				return "import"
			case name == "new" || name == "make" || name == "append":
				return "builtin"
			case name == "composite-literal":
				return "fresh"
			}
			return "unknown"
		}
		if ret == nil {
			e.errors = append(e.errors, goName+": no non-nil result returned")
		} else {
			r := root(ret)
			add("return", s.src(ret))
			add("root", r)
			add("root-scope", scopeOf(r))
			if ty, ok := localVar[r]; ok {
				add("decl", "var")
				add("type", ty)
			} else if init, ok := localAssign[r]; ok {
				add("decl", "assign")
				add("init", s.src(init))
				add("init-root", root(init))
				add("init-root-scope", scopeOf(root(init)))
			} else if params[r] {
				add("decl", "param")
			} else {
				add("decl", "none")
			}
		}
		add("defers", fmt.Sprint(defers))
		// non-nil results returned from somewhere else than the last return's root (an early return of a cached object ...)
		other := 0
		if ret != nil {
			for _, r := range rets {
				if root(r) != root(ret) {
					other++
				}
			}
		}
		add("other-returns", fmt.Sprint(other))
	}
	e.printf("/-- where the bytes returned by `%s` (%s) live: typed flow record -/\ndef %s : List (String × String) := [", goName, rel, leanName)
	for i, it := range items {
		if i > 0 {
			e.printf(",")
		}
		e.printf("\n  (%s, %s)", leanString(it[0]), leanString(it[1]))
	}
	e.printf("]\n\n")
}

// c17Forward: the DATA FLOW of a delegating function as a typed list of calls, in evaluation order: for every call that
// is the right-hand side of an assignment, the initialiser of an `if`, an expression statement or the result of a
// return (calls nested in arguments first), the callee and, per argument, ("param", i) the caller's own i-th
// parameter, ("spread", i) its variadic parameter passed with `...`, ("result", k) the first result of call k,
// ("other", 0) anything else.  GoZero.C17.fcallsOf / runFwd give the list its meaning for all arguments.
func c17Forward(s *source, e *emitter, rel, goName, leanName string) {
	fd := s.findFunc(rel, goName)
	type call struct {
		callee string
		args   [][2]string
	}
	var calls []call
	if fd == nil {
		e.errors = append(e.errors, "function "+goName+" not found in "+rel)
	} else {
		paramIdx := map[string]int{}
		variadic := ""
		i := 0
		for _, fl := range fd.Type.Params.List {
			_, isVar := fl.Type.(*ast.Ellipsis)
			for _, id := range fl.Names {
				paramIdx[id.Name] = i
				if isVar {
					variadic = id.Name
				}
				i++
			}
		}
		results := map[string]int{}
		var doCall func(c *ast.CallExpr) int
		var doExpr func(x ast.Expr)
		doCall = func(c *ast.CallExpr) int {
			var args [][2]string
			for ai, a := range c.Args {
				switch x := a.(type) {
				case *ast.Ident:
					if x.Name == variadic {
						if c.Ellipsis.IsValid() && ai == len(c.Args)-1 {
							args = append(args, [2]string{"spread", fmt.Sprint(paramIdx[x.Name])})
						} else {
							args = append(args, [2]string{"other", "0"})
						}
					} else if k, ok := results[x.Name]; ok {
						args = append(args, [2]string{"result", fmt.Sprint(k)})
					} else if pi, ok := paramIdx[x.Name]; ok {
						args = append(args, [2]string{"param", fmt.Sprint(pi)})
					} else {
						args = append(args, [2]string{"other", "0"})
					}
				case *ast.CallExpr:
					k := doCall(x)
					args = append(args, [2]string{"result", fmt.Sprint(k)})
				default:
					doExpr(a)
					args = append(args, [2]string{"other", "0"})
				}
			}
			calls = append(calls, call{callee: s.src(c.Fun), args: args})
			return len(calls) - 1
		}
		// calls hidden in other expressions (index expressions, &x, parentheses) are emitted in evaluation order too
		doExpr = func(x ast.Expr) {
			switch y := x.(type) {
			case *ast.CallExpr:
				doCall(y)
			case *ast.IndexExpr:
				doExpr(y.X)
				doExpr(y.Index)
			case *ast.ParenExpr:
				doExpr(y.X)
			case *ast.UnaryExpr:
				doExpr(y.X)
			case *ast.BinaryExpr:
				doExpr(y.X)
				doExpr(y.Y)
			}
		}
		var walk func(st ast.Stmt)
		walk = func(st ast.Stmt) {
			switch x := st.(type) {
			case *ast.BlockStmt:
				for _, y := range x.List {
					walk(y)
				}
			case *ast.AssignStmt:
				if len(x.Rhs) == 1 {
					if c, ok := x.Rhs[0].(*ast.CallExpr); ok {
						k := doCall(c)
						if id, ok := x.Lhs[0].(*ast.Ident); ok && id.Name != "_" && id.Name != "err" {
							results[id.Name] = k
						}
					} else {
						doExpr(x.Rhs[0])
					}
				}
			case *ast.RangeStmt:
				walk(x.Body)
			case *ast.SwitchStmt:
				if x.Init != nil {
					walk(x.Init)
				}
				if x.Tag != nil {
					doExpr(x.Tag)
				}
				for _, c := range x.Body.List {
					for _, y := range c.(*ast.CaseClause).Body {
						walk(y)
					}
				}
			case *ast.ExprStmt:
				if c, ok := x.X.(*ast.CallExpr); ok {
					doCall(c)
				}
			case *ast.IfStmt:
				if x.Init != nil {
					walk(x.Init)
				}
				doExpr(x.Cond)
				walk(x.Body)
				if x.Else != nil {
					walk(x.Else)
				}
			case *ast.ReturnStmt:
				for _, r := range x.Results {
					if c, ok := r.(*ast.CallExpr); ok {
						doCall(c)
					}
				}
			}
		}
		walk(fd.Body)
	}
	e.printf("/-- data flow of `%s` in %s: calls in evaluation order with the origin of every argument -/\ndef %s : List (String × List (String × Nat)) := [", goName, rel, leanName)
	for i, c := range calls {
		if i > 0 {
			e.printf(",")
		}
		var as []string
		for _, a := range c.args {
			as = append(as, "("+leanString(a[0])+", "+a[1]+")")
		}
		e.printf("\n  (%s, [%s])", leanString(c.callee), strings.Join(as, ", "))
	}
	e.printf("]\n\n")
}

// c17StringKeyTable: every `"key": value` pair (string-literal key) inside the initialiser of the package variable `name`,
// however deeply nested (the registry of configcenter is `&unmarshalerRegistry{unmarshalers: map[string]LoaderFn{...}}`).
func c17StringKeyTable(s *source, e *emitter, rel, name, leanName string) {
	f := s.file(rel)
	var items []string
	found := false
	if f != nil {
		ast.Inspect(f, func(n ast.Node) bool {
			vs, ok := n.(*ast.ValueSpec)
			if !ok {
				return true
			}
			for i, id := range vs.Names {
				if id.Name == name && i < len(vs.Values) {
					found = true
					ast.Inspect(vs.Values[i], func(m ast.Node) bool {
						if kv, ok := m.(*ast.KeyValueExpr); ok {
							if bl, ok := kv.Key.(*ast.BasicLit); ok && bl.Kind == token.STRING {
								items = append(items, s.src(kv.Key)+" -> "+s.src(kv.Value))
							}
						}
						return true
					})
				}
			}
			return true
		})
	}
	if !found {
		e.errors = append(e.errors, "variable "+name+" not found in "+rel)
	}
	e.stringList(leanName, "string-keyed entries of `"+name+"` in "+rel, items)
}

func init() {
	register("C17", func(s *source, e *emitter) {
		const cf = "core/conf/config.go"
		const ef = "internal/encoding/encoding.go"
		const uf = "core/mapping/utils.go"
		e.constDef(s, cf, "jsonTagKey", "jsonTagKey")
		e.shapeDef(s, cf, "Load", "loadShape")
		e.shapeDef(s, cf, "LoadFromJsonBytes", "loadJsonShape")
		e.shapeDef(s, cf, "LoadFromYamlBytes", "loadYamlShape")
		e.shapeDef(s, cf, "LoadFromTomlBytes", "loadTomlShape")
		e.shapeDef(s, cf, "toLowerCaseKeyMap", "lowerKeyMapShape")
		e.shapeDef(s, cf, "toLowerCaseInterface", "lowerInterfaceShape")
		e.shapeDef(s, cf, "toLowerCase", "toLowerShape")
		c17SwitchCases(s, e, cf, "buildFieldsInfo", "buildFieldsInfoCases")
		c17SwitchCases(s, e, cf, "buildNamedFieldInfo", "buildNamedFieldInfoCases")
		c17SwitchCases(s, e, cf, "toLowerCaseInterface", "lowerInterfaceCases")
		e.shapeDef(s, ef, "YamlToJson", "yamlToJsonShape")
		e.shapeDef(s, ef, "TomlToJson", "tomlToJsonShape")
		c17SwitchCases(s, e, ef, "toStringKeyMap", "toStringKeyMapCases")
		e.shapeDef(s, ef, "convertKeyToString", "convertKeyShape")
		c17SwitchCases(s, e, uf, "convertTypeFromString", "convertTypeCases")
		e.shapeDef(s, "core/jsonx/json.go", "unmarshalUseNumber", "useNumberShape")
		e.shapeDef(s, "core/mapping/jsonunmarshaler.go", "unmarshalJsonBytes", "unmarshalJsonBytesShape")
		// the mapping-level entry points and what they forward
		const jf = "core/mapping/jsonunmarshaler.go"
		const yf = "core/mapping/yamlunmarshaler.go"
		const tf = "core/mapping/tomlunmarshaler.go"
		const mf = "core/mapping/unmarshaler.go"
		const xf = "core/jsonx/json.go"
		c17Detail(s, e, jf, "UnmarshalJsonBytes", "mJsonBytes")
		c17Detail(s, e, jf, "UnmarshalJsonReader", "mJsonReader")
		c17Detail(s, e, jf, "UnmarshalJsonMap", "mJsonMap")
		c17Detail(s, e, jf, "getJsonUnmarshaler", "mGetJsonUnmarshaler")
		c17Detail(s, e, jf, "unmarshalJsonBytes", "mUnmarshalJsonBytes")
		c17Detail(s, e, jf, "unmarshalJsonReader", "mUnmarshalJsonReader")
		c17Detail(s, e, yf, "UnmarshalYamlBytes", "mYamlBytes")
		c17Detail(s, e, yf, "UnmarshalYamlReader", "mYamlReader")
		c17Detail(s, e, tf, "UnmarshalTomlBytes", "mTomlBytes")
		c17Detail(s, e, tf, "UnmarshalTomlReader", "mTomlReader")
		c17Detail(s, e, mf, "NewUnmarshaler", "mNewUnmarshaler")
		c17Detail(s, e, mf, "Unmarshaler.Unmarshal", "mUnmarshal")
		c17Detail(s, e, mf, "WithStringValues", "optStringValues")
		c17Detail(s, e, mf, "WithCanonicalKeyFunc", "optCanonicalKey")
		c17Detail(s, e, mf, "WithFromArray", "optFromArray")
		c17Detail(s, e, mf, "WithOpaqueKeys", "optOpaqueKeys")
		c17Detail(s, e, mf, "WithDefault", "optDefault")
		c17SwitchCases(s, e, mf, "Unmarshaler.processFieldPrimitiveWithJSONNumber", "jsonNumberCases")
		c17SwitchCases(s, e, mf, "Unmarshaler.processFieldWithEnvValue", "envValueCases")
		c17Detail(s, e, mf, "readKeys", "mReadKeys")
		c17Detail(s, e, mf, "getValueWithChainedKeys", "mChainedKeys")
		c17Detail(s, e, xf, "Unmarshal", "xUnmarshal")
		c17Detail(s, e, xf, "UnmarshalFromReader", "xUnmarshalFromReader")
		c17Detail(s, e, xf, "UnmarshalFromString", "xUnmarshalFromString")
		c17Detail(s, e, xf, "unmarshalUseNumber", "xUseNumber")
		// conf: the loaders and the file-level API
		c17Detail(s, e, cf, "Load", "cLoad")
		c17Detail(s, e, cf, "LoadConfig", "cLoadConfig")
		c17Detail(s, e, cf, "MustLoad", "cMustLoad")
		c17Detail(s, e, cf, "FillDefault", "cFillDefault")
		c17Detail(s, e, cf, "LoadFromJsonBytes", "cLoadJson")
		c17Detail(s, e, cf, "LoadFromYamlBytes", "cLoadYaml")
		c17Detail(s, e, cf, "LoadFromTomlBytes", "cLoadToml")
		c17Detail(s, e, "core/conf/options.go", "UseEnv", "cUseEnv")
		c17MapLiteral(s, e, cf, "loaders", "cLoaders")
		c17Detail(s, e, ef, "convertKeyToString", "eConvertKey")
		c17Detail(s, e, ef, "convertNumberToJsonNumber", "eConvertNumber")
		c17Detail(s, e, ef, "convertSlice", "eConvertSlice")
		c17Detail(s, e, ef, "encodeToJSON", "eEncodeToJSON")
		// round 4: allocation sites, state between calls, per-element functions, decisions translated to Lean
		c17AllocSites(s, e, mf, "Unmarshaler.generateMap", "genMapAlloc")
		c17Detail(s, e, mf, "Unmarshaler.fillSlice", "mFillSlice")
		c17Detail(s, e, mf, "Unmarshaler.fillSliceValue", "mFillSliceValue")
		c17Detail(s, e, mf, "Unmarshaler.fillStructElement", "mFillStructElement")
		c17Detail(s, e, uf, "convertTypeOfPtr", "uConvertTypeOfPtr")
		c17Detail(s, e, uf, "SetMapIndexValue", "uSetMapIndexValue")
		c17Detail(s, e, uf, "SetValue", "uSetValue")
		c17Decls(s, e, cf, "Load", "cLoadDecls")
		c17PkgVars(s, e, cf, "cPkgVars")
		c17PkgVars(s, e, "core/conf/options.go", "cOptionsPkgVars")
		c17PkgVars(s, e, jf, "mJsonPkgVars")
		c17PkgVars(s, e, xf, "xPkgVars")
		c17PkgVars(s, e, ef, "ePkgVars")
		c17Conds(s, e, uf, "validateNumberRange", "rangeCond")
		c17Conds(s, e, jf, "getJsonUnmarshaler", "getUnmCond")
		c17Conds(s, e, cf, "Load", "loadCond")
		c17Conds(s, e, mf, "Unmarshaler.fillSlice", "fillSliceCond")
		c17Conds(s, e, mf, "Unmarshaler.generateMap", "genMapCond")
		c17Conds(s, e, cf, "toLowerCaseKeyMap", "lowerMapCond")
		c17Conds(s, e, cf, "LoadFromJsonBytes", "loadJsonCond")
		c17Detail(s, e, cf, "getTagName", "cGetTagName")
		c17Detail(s, e, cf, "LoadConfigFromJsonBytes", "cLoadConfigJson")
		c17Detail(s, e, cf, "LoadConfigFromYamlBytes", "cLoadConfigYaml")
		c17Conds(s, e, cf, "getTagName", "tagNameCond")
		// round 5: where the bytes of a conversion live, and the typed data flow of every delegating entry point
		// round 5c: the decisions of the unmarshaller's dispatch functions, translated
		c17CondsSw(s, e, mf, "Unmarshaler.processFieldNotFromString", "nfsCond")
		c17CondsSw(s, e, mf, "Unmarshaler.processNamedField", "namedCond")
		c17CondsSw(s, e, mf, "Unmarshaler.processNamedFieldWithValue", "withValCond")
		c17CondsSw(s, e, mf, "Unmarshaler.processNamedFieldWithoutValue", "noValCond")
		c17CondsSw(s, e, mf, "Unmarshaler.processFieldPrimitive", "primCond")
		c17CondsSw(s, e, mf, "Unmarshaler.fillMap", "fillMapCond")
		c17SwitchCases(s, e, mf, "Unmarshaler.processFieldNotFromString", "nfsCases")
		c17SwitchCases(s, e, mf, "Unmarshaler.processNamedFieldWithValue", "withValKindCases")
		c17SwitchCases(s, e, mf, "Unmarshaler.processNamedFieldWithoutValue", "noValDefaultCases")
		c17CondsSw(s, e, cf, "buildStructFieldsInfo", "structInfoCond")
		c17CondsSw(s, e, cf, "addOrMergeFields", "addMergeCond")
		c17CondsSw(s, e, cf, "mergeFields", "mergeCond")
		c17CondsSw(s, e, cf, "buildAnonymousFieldInfo", "anonInfoCond")
		c17Detail(s, e, cf, "buildStructFieldsInfo", "cBuildStructFieldsInfo")
		c17Detail(s, e, cf, "addOrMergeFields", "cAddOrMergeFields")
		c17Detail(s, e, cf, "mergeFields", "cMergeFields")
		c17Detail(s, e, cf, "buildAnonymousFieldInfo", "cBuildAnonymousFieldInfo")
		c17SwitchCases(s, e, cf, "buildAnonymousFieldInfo", "anonInfoCases")
		// round 5d: the config center, a CALLER that selects the loader from a Type string
		const ccf = "core/configcenter/configurator.go"
		c17Forward(s, e, ccf, "configCenter.genValue", "fwdCcGenValue")
		c17Forward(s, e, ccf, "configCenter.loadConfig", "fwdCcLoadConfig")
		c17Forward(s, e, ccf, "NewConfigCenter", "fwdCcNew")
		c17Detail(s, e, ccf, "configCenter.genValue", "ccGenValue")
		c17Detail(s, e, ccf, "configCenter.GetConfig", "ccGetConfig")
		c17CondsSw(s, e, ccf, "configCenter.genValue", "ccGenCond")
		c17CondsSw(s, e, ccf, "configCenter.GetConfig", "ccGetCond")
		c17StringKeyTable(s, e, "core/configcenter/unmarshaler.go", "registry", "ccRegistry")
		c17Detail(s, e, "core/configcenter/unmarshaler.go", "Unmarshaler", "ccUnmarshaler")
		c17ByteFlow(s, e, ef, "encodeToJSON", "encodeBufFlow")
		c17ByteFlow(s, e, cf, "buildStructFieldsInfo", "structInfoFlow")
		c17Forward(s, e, ef, "YamlToJson", "fwdEYamlToJson")
		c17Forward(s, e, ef, "TomlToJson", "fwdETomlToJson")
		c17Forward(s, e, yf, "UnmarshalYamlBytes", "fwdYamlBytes")
		c17Forward(s, e, yf, "UnmarshalYamlReader", "fwdYamlReader")
		c17Forward(s, e, tf, "UnmarshalTomlBytes", "fwdTomlBytes")
		c17Forward(s, e, tf, "UnmarshalTomlReader", "fwdTomlReader")
		c17Forward(s, e, jf, "UnmarshalJsonBytes", "fwdJsonBytes")
		c17Forward(s, e, jf, "UnmarshalJsonReader", "fwdJsonReader")
		c17Forward(s, e, jf, "UnmarshalJsonMap", "fwdJsonMap")
		c17Forward(s, e, jf, "getJsonUnmarshaler", "fwdGetJsonUnmarshaler")
		c17Forward(s, e, jf, "unmarshalJsonBytes", "fwdUnmJsonBytes")
		c17Forward(s, e, jf, "unmarshalJsonReader", "fwdUnmJsonReader")
		c17Forward(s, e, cf, "LoadFromYamlBytes", "fwdConfYaml")
		c17Forward(s, e, cf, "LoadFromTomlBytes", "fwdConfToml")
		c17Forward(s, e, cf, "Load", "fwdConfLoad")
		c17Forward(s, e, cf, "LoadFromJsonBytes", "fwdConfLoadJson")
		c17Forward(s, e, cf, "FillDefault", "fwdConfFillDefault")
		c17Forward(s, e, cf, "LoadConfig", "fwdConfLoadConfig")
		c17Forward(s, e, cf, "MustLoad", "fwdConfMustLoad")
		c17Forward(s, e, cf, "LoadConfigFromJsonBytes", "fwdConfLoadConfigJson")
		c17Forward(s, e, cf, "LoadConfigFromYamlBytes", "fwdConfLoadConfigYaml")
		c17Forward(s, e, xf, "Unmarshal", "fwdXUnmarshal")
		c17Forward(s, e, xf, "UnmarshalFromString", "fwdXUnmarshalFromString")
		c17Forward(s, e, xf, "UnmarshalFromReader", "fwdXUnmarshalFromReader")
		c17Forward(s, e, xf, "unmarshalUseNumber", "fwdXUseNumber")
	})
}
