package main

import (
	"go/ast"
	"strings"
)

// c17SwitchCases lists, for the first (type) switch statement of a function, every case as
// "<case expressions> -> <first statement of the body>" (whitespace normalised).
func c17SwitchCases(s *source, e *emitter, rel, goName, leanName string) {
	fd := s.findFunc(rel, goName)
	if fd == nil {
		e.errors = append(e.errors, "function "+goName+" not found in "+rel)
		e.stringList(leanName, "MISSING: "+goName, []string{"MISSING"})
		return
	}
	var items []string
	done := false
	ast.Inspect(fd.Body, func(n ast.Node) bool {
		if done {
			return false
		}
		var body *ast.BlockStmt
		switch x := n.(type) {
		case *ast.TypeSwitchStmt:
			body = x.Body
		case *ast.SwitchStmt:
			body = x.Body
		}
		if body == nil {
			return true
		}
		done = true
		for _, c := range body.List {
			cc := c.(*ast.CaseClause)
			var exprs []string
			for _, x := range cc.List {
				exprs = append(exprs, s.src(x))
			}
			lhs := strings.Join(exprs, ",")
			if cc.List == nil {
				lhs = "default"
			}
			rhs := ""
			if len(cc.Body) > 0 {
				rhs = s.src(cc.Body[0])
				if len(rhs) > 90 {
					rhs = rhs[:90]
				}
			}
			items = append(items, lhs+" -> "+rhs)
		}
		return false
	})
	e.stringList(leanName, "cases of the first switch of `"+goName+"` in "+rel, items)
}

func init() {
	register("C17", func(s *source, e *emitter) {
		const cf = "core/conf/config.go"
		const ef = "internal/encoding/encoding.go"
		const uf = "core/mapping/utils.go"
		e.constDef(s, cf, "jsonTagKey", "jsonTagKey")
		e.shapeDef(s, cf, "Load", "loadShape")
		e.shapeDef(s, cf, "LoadFromJsonBytes", "loadJsonShape")
		e.shapeDef(s, cf, "LoadFromYamlBytes", "loadYamlShape")
		e.shapeDef(s, cf, "LoadFromTomlBytes", "loadTomlShape")
		e.shapeDef(s, cf, "toLowerCaseKeyMap", "lowerKeyMapShape")
		e.shapeDef(s, cf, "toLowerCaseInterface", "lowerInterfaceShape")
		e.shapeDef(s, cf, "toLowerCase", "toLowerShape")
		c17SwitchCases(s, e, cf, "buildFieldsInfo", "buildFieldsInfoCases")
		c17SwitchCases(s, e, cf, "buildNamedFieldInfo", "buildNamedFieldInfoCases")
		c17SwitchCases(s, e, cf, "toLowerCaseInterface", "lowerInterfaceCases")
		e.shapeDef(s, ef, "YamlToJson", "yamlToJsonShape")
		e.shapeDef(s, ef, "TomlToJson", "tomlToJsonShape")
		c17SwitchCases(s, e, ef, "toStringKeyMap", "toStringKeyMapCases")
		e.shapeDef(s, ef, "convertKeyToString", "convertKeyShape")
		c17SwitchCases(s, e, uf, "convertTypeFromString", "convertTypeCases")
		e.shapeDef(s, "core/jsonx/json.go", "unmarshalUseNumber", "useNumberShape")
		e.shapeDef(s, "core/mapping/jsonunmarshaler.go", "unmarshalJsonBytes", "unmarshalJsonBytesShape")
	})
}
