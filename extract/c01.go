package main

func init() {
	register("C01", func(s *source, e *emitter) {
		const gb = "core/breaker/googlebreaker.go"
		e.constDef(s, gb, "window", "window")
		e.constDef(s, gb, "buckets", "buckets")
		e.constDef(s, gb, "forcePassDuration", "forcePassDuration")
		e.constDef(s, gb, "k", "k")
		e.constDef(s, gb, "minK", "minK")
		e.constDef(s, gb, "protection", "protection")
	})
}
