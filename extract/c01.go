package main

// C01 — circuit breaker. Emits: constants (incl. the iota codes of bucket.go), the float arithmetic of
// googleBreaker.accept translated statement by statement into exact `Rat` definitions, the history
// reducer and RollingWindow.span/updateOffset arithmetic as `Int` functions, statement skeletons of the
// entry points, and the argument lists of the calls that select fallback / acceptable / mark codes.

import (
	"fmt"
	"go/ast"
	"go/token"
	"strings"
)

// c01Iota emits the constants of the first `const ( x = iota; y; z )` block of a file.
func c01Iota(s *source, e *emitter, rel string, names map[string]string) {
	f := s.file(rel)
	found := map[string]bool{}
	if f != nil {
		for _, d := range f.Decls {
			gd, ok := d.(*ast.GenDecl)
			if !ok || gd.Tok != token.CONST {
				continue
			}
			isIota := false
			for i, sp := range gd.Specs {
				vs := sp.(*ast.ValueSpec)
				if i == 0 {
					if len(vs.Values) == 1 {
						if id, ok := vs.Values[0].(*ast.Ident); ok && id.Name == "iota" {
							isIota = true
						}
					}
				} else if len(vs.Values) != 0 {
					isIota = false
				}
				if !isIota {
					break
				}
				for _, n := range vs.Names {
					if lean, ok := names[n.Name]; ok {
						e.printf("/-- `%s` (iota) in %s -/\ndef %s : Int := %d\n\n", n.Name, rel, lean, i)
						found[n.Name] = true
					}
				}
			}
		}
	}
	for n, lean := range names {
		if !found[n] {
			e.errors = append(e.errors, fmt.Sprintf("iota constant %s not found in %s", n, rel))
			e.printf("def %s : Int := -999999999\n\n", lean)
		}
	}
}

// c01Calls lists every call of a function body as `callee(arg, …)` in source order.
func c01Calls(s *source, e *emitter, rel, goName, lean string) {
	fd := s.findFunc(rel, goName)
	if fd == nil {
		e.errors = append(e.errors, fmt.Sprintf("function %s not found in %s", goName, rel))
		e.stringList(lean, "MISSING: "+goName, []string{"MISSING"})
		return
	}
	var out []string
	ast.Inspect(fd.Body, func(n ast.Node) bool {
		if c, ok := n.(*ast.CallExpr); ok {
			if _, isLit := c.Fun.(*ast.FuncLit); !isLit {
				out = append(out, s.src(c))
			}
		}
		return true
	})
	e.stringList(lean, "calls (with arguments) of `"+goName+"` in "+rel, out)
}

// c01Stmts lists the simple statements (assignments, returns, inc/dec) of a function as normalised source text.
func c01Stmts(s *source, e *emitter, rel, goName, lean string) {
	fd := s.findFunc(rel, goName)
	if fd == nil {
		e.errors = append(e.errors, fmt.Sprintf("function %s not found in %s", goName, rel))
		e.stringList(lean, "MISSING: "+goName, []string{"MISSING"})
		return
	}
	var out []string
	ast.Inspect(fd.Body, func(n ast.Node) bool {
		switch x := n.(type) {
		case *ast.AssignStmt, *ast.ReturnStmt, *ast.IncDecStmt:
			out = append(out, s.src(x))
		case *ast.IfStmt:
			out = append(out, "if "+s.src(x.Cond))
		case *ast.ForStmt:
			hdr := "for"
			if x.Init != nil {
				hdr += " " + s.src(x.Init)
			}
			if x.Cond != nil {
				hdr += "; " + s.src(x.Cond)
			}
			if x.Post != nil {
				hdr += "; " + s.src(x.Post)
			}
			out = append(out, hdr)
		}
		return true
	})
	e.stringList(lean, "simple statements of `"+goName+"` in "+rel, out)
}

// ---- float64 expressions of accept() -> Rat

type c01Float struct {
	s        *source
	ratConst map[string]string // Go name -> Lean Rat constant
	intConst map[string]string // Go name -> Lean Int constant
	ratVar   map[string]string // float locals / fields -> Lean Rat parameter
	intVar   map[string]string // int64 values -> Lean Int parameter
}

func (c *c01Float) name(e ast.Expr) string { return c.s.src(e) }

// rat translates an expression of type float64.
func (c *c01Float) rat(e ast.Expr) string {
	switch x := e.(type) {
	case *ast.ParenExpr:
		return c.rat(x.X)
	case *ast.Ident, *ast.SelectorExpr:
		n := c.name(x)
		if v, ok := c.ratVar[n]; ok {
			return v
		}
		if v, ok := c.ratConst[n]; ok {
			return v
		}
		if v, ok := c.intConst[n]; ok {
			return "((" + v + " : Int) : Rat)"
		}
		failf("accept: unknown float operand %s", n)
	case *ast.BasicLit:
		if x.Kind == token.INT {
			return "(" + x.Value + " : Rat)"
		}
		failf("accept: unsupported literal %s", x.Value)
	case *ast.BinaryExpr:
		switch x.Op {
		case token.ADD, token.SUB, token.MUL, token.QUO:
			return "(" + c.rat(x.X) + " " + x.Op.String() + " " + c.rat(x.Y) + ")"
		}
		failf("accept: unsupported float operator %s", x.Op)
	case *ast.CallExpr:
		fn := c.name(x.Fun)
		if fn == "float64" && len(x.Args) == 1 {
			return "((" + c.int(x.Args[0]) + " : Int) : Rat)"
		}
		if fn == "mathx.AtLeast" && len(x.Args) == 2 {
			a, b := c.rat(x.Args[0]), c.rat(x.Args[1])
			return "(if " + a + " < " + b + " then " + b + " else " + a + ")"
		}
		failf("accept: unsupported call %s", fn)
	}
	failf("accept: unsupported float expression %T", e)
	return ""
}

// int translates an expression of type int64 (no overflow modelled).
func (c *c01Float) int(e ast.Expr) string {
	switch x := e.(type) {
	case *ast.ParenExpr:
		return c.int(x.X)
	case *ast.Ident, *ast.SelectorExpr:
		n := c.name(x)
		if v, ok := c.intVar[n]; ok {
			return v
		}
		if v, ok := c.intConst[n]; ok {
			return v
		}
		failf("accept: unknown integer operand %s", n)
	case *ast.BasicLit:
		if x.Kind == token.INT {
			return x.Value
		}
	case *ast.BinaryExpr:
		switch x.Op {
		case token.ADD, token.SUB, token.MUL:
			return "(" + c.int(x.X) + " " + x.Op.String() + " " + c.int(x.Y) + ")"
		}
	}
	failf("accept: unsupported integer expression %s", c.name(e))
	return ""
}

func c01Accept(s *source, e *emitter, rel string) {
	fd := s.findFunc(rel, "googleBreaker.accept")
	if fd == nil {
		e.errors = append(e.errors, "function googleBreaker.accept not found")
		return
	}
	c := &c01Float{s: s,
		ratConst: map[string]string{"k": "k", "minK": "minK"},
		intConst: map[string]string{"buckets": "buckets", "protection": "protection"},
		ratVar:   map[string]string{"b.k": "bk", "w": "w", "weightedAccepts": "weightedAccepts", "dropRatio": "dropRatio"},
		intVar: map[string]string{"history.accepts": "accepts", "history.total": "total",
			"history.failingBuckets": "failingBuckets", "history.workingBuckets": "workingBuckets"}}
	const params = "(bk w weightedAccepts dropRatio : Rat) (accepts total failingBuckets workingBuckets : Int)"
	count := map[string]int{}
	var conds []string
	emit := func(lhs string, body func() string) {
		count[lhs]++
		name := fmt.Sprintf("accept_%s_%d", lhs, count[lhs])
		func() {
			defer func() {
				if p := recover(); p != nil {
					if te, ok := p.(transErr); ok {
						e.errors = append(e.errors, te.msg)
						e.printf("/-- TRANSLATION FAILED: %s -/\ndef %s : Unit := ()\n\n", te.msg, name)
						return
					}
					panic(p)
				}
			}()
			e.printf("/-- `%s` assignment no. %d in googleBreaker.accept -/\ndef %s %s : Rat :=\n  %s\n\n", lhs, count[lhs], name, params, body())
		}()
	}
	ast.Inspect(fd.Body, func(n ast.Node) bool {
		switch x := n.(type) {
		case *ast.AssignStmt:
			if len(x.Lhs) != 1 || len(x.Rhs) != 1 {
				return true
			}
			id, ok := x.Lhs[0].(*ast.Ident)
			if !ok {
				return true
			}
			if _, isFloat := c.ratVar[id.Name]; !isFloat {
				return true
			}
			switch x.Tok {
			case token.ASSIGN, token.DEFINE:
				emit(id.Name, func() string { return c.rat(x.Rhs[0]) })
			case token.MUL_ASSIGN:
				emit(id.Name, func() string { return "(" + c.ratVar[id.Name] + " * " + c.rat(x.Rhs[0]) + ")" })
			default:
				e.errors = append(e.errors, "accept: unsupported assignment operator "+x.Tok.String())
			}
		case *ast.IfStmt:
			conds = append(conds, s.src(x.Cond))
		}
		return true
	})
	e.stringList("acceptConds", "the conditions of googleBreaker.accept, in order", conds)
	// the field b.k is initialised from the constant k
	init := s.findFunc(rel, "newGoogleBreaker")
	var fields []string
	if init != nil {
		ast.Inspect(init.Body, func(n ast.Node) bool {
			if cl, ok := n.(*ast.CompositeLit); ok && strings.Contains(s.src(cl.Type), "googleBreaker") {
				for _, el := range cl.Elts {
					fields = append(fields, s.src(el))
				}
			}
			return true
		})
	}
	e.stringList("newGoogleBreakerFields", "composite literal of newGoogleBreaker", fields)
}

// c01SwitchCases lists, for the first switch statement of a function, the tag and every clause as
// "case a, b: <first statement>" / "default: <first statement>".
func c01SwitchCases(s *source, e *emitter, rel, goName, lean string) {
	fd := s.findFunc(rel, goName)
	if fd == nil {
		e.errors = append(e.errors, fmt.Sprintf("function %s not found in %s", goName, rel))
		e.stringList(lean, "MISSING: "+goName, []string{"MISSING"})
		return
	}
	var out []string
	done := false
	ast.Inspect(fd.Body, func(n ast.Node) bool {
		sw, ok := n.(*ast.SwitchStmt)
		if !ok || done {
			return true
		}
		done = true
		if sw.Tag != nil {
			out = append(out, "switch "+s.src(sw.Tag))
		}
		for _, st := range sw.Body.List {
			cc := st.(*ast.CaseClause)
			var body []string
			for _, b := range cc.Body {
				body = append(body, s.src(b))
			}
			if cc.List == nil {
				out = append(out, "default: "+strings.Join(body, "; "))
				continue
			}
			var names []string
			for _, x := range cc.List {
				names = append(names, s.src(x))
			}
			out = append(out, "case "+strings.Join(names, ", ")+": "+strings.Join(body, "; "))
		}
		return false
	})
	e.stringList(lean, "first switch of `"+goName+"` in "+rel, out)
}

// c01MapKeys lists the keys of a package-level map composite literal.
func c01MapKeys(s *source, e *emitter, rel, varName, lean string) {
	f := s.file(rel)
	var out []string
	found := false
	if f != nil {
		for _, d := range f.Decls {
			gd, ok := d.(*ast.GenDecl)
			if !ok || gd.Tok != token.VAR {
				continue
			}
			for _, sp := range gd.Specs {
				vs := sp.(*ast.ValueSpec)
				for i, n := range vs.Names {
					if n.Name != varName || i >= len(vs.Values) {
						continue
					}
					if cl, ok := vs.Values[i].(*ast.CompositeLit); ok {
						found = true
						for _, el := range cl.Elts {
							if kv, ok := el.(*ast.KeyValueExpr); ok {
								out = append(out, s.src(kv.Key))
							}
						}
					}
				}
			}
		}
	}
	if !found {
		e.errors = append(e.errors, fmt.Sprintf("map %s not found in %s", varName, rel))
	}
	e.stringList(lean, "keys of `"+varName+"` in "+rel, out)
}

// c01BreakerCalls lists the calls `….brk.<Method>(…)` of a function as "<fun>(…, <last argument>)": which entry
// point of the breaker is used and which acceptability predicate is handed over (the request closure is elided).
func c01BreakerCalls(s *source, e *emitter, rel, goName, lean string) {
	fd := s.findFunc(rel, goName)
	if fd == nil {
		e.errors = append(e.errors, fmt.Sprintf("function %s not found in %s", goName, rel))
		e.stringList(lean, "MISSING: "+goName, []string{"MISSING"})
		return
	}
	var out []string
	ast.Inspect(fd.Body, func(n ast.Node) bool {
		if c, ok := n.(*ast.CallExpr); ok {
			fn := s.src(c.Fun)
			if strings.Contains(fn, "brk.") && len(c.Args) > 0 {
				out = append(out, fn+"(…, "+s.src(c.Args[len(c.Args)-1])+")")
			}
		}
		return true
	})
	e.stringList(lean, "breaker calls of `"+goName+"` in "+rel, out)
}

func c01Reducer(t *translator, s *source, e *emitter, rel string) {
	fd := s.findFunc(rel, "googleBreaker.history")
	var lit *ast.FuncLit
	if fd != nil {
		ast.Inspect(fd.Body, func(n ast.Node) bool {
			if l, ok := n.(*ast.FuncLit); ok && lit == nil {
				lit = l
			}
			return true
		})
	}
	if lit == nil {
		e.errors = append(e.errors, "history reducer not found")
		e.printf("def historyStep : Unit := ()\n\n")
		return
	}
	synth := &ast.FuncDecl{Name: ast.NewIdent("historyStep"), Type: lit.Type, Body: lit.Body}
	def, err := t.translateFunc(synth, "historyStep", "historyStep", true, 0, nil)
	if err != nil {
		e.errors = append(e.errors, err.Error())
	}
	e.printf("/-- translated from the callback of `googleBreaker.history` in %s -/\n%s\n", rel, def)
}

func init() {
	register("C01", func(s *source, e *emitter) {
		const gb = "core/breaker/googlebreaker.go"
		const bk = "core/breaker/bucket.go"
		const br = "core/breaker/breaker.go"
		const rw = "core/collection/rollingwindow.go"
		const pr = "core/mathx/proba.go"
		e.constDef(s, gb, "window", "window")
		e.constDef(s, gb, "buckets", "buckets")
		e.constDef(s, gb, "forcePassDuration", "forcePassDuration")
		e.constDef(s, gb, "k", "k")
		e.constDef(s, gb, "minK", "minK")
		e.constDef(s, gb, "protection", "protection")
		c01Iota(s, e, bk, map[string]string{"success": "codeSuccess", "fail": "codeFail", "drop": "codeDrop"})
		c01Accept(s, e, gb)
		e.shapeDef(s, gb, "googleBreaker.accept", "acceptShape")
		e.shapeDef(s, gb, "googleBreaker.doReq", "doReqShape")
		e.shapeDef(s, gb, "googleBreaker.allow", "allowShape")
		c01Calls(s, e, gb, "googleBreaker.markDrop", "markDropCalls")
		c01Calls(s, e, gb, "googleBreaker.markFailure", "markFailureCalls")
		c01Calls(s, e, gb, "googleBreaker.markSuccess", "markSuccessCalls")
		c01Calls(s, e, gb, "googlePromise.Accept", "promiseAcceptCalls")
		c01Calls(s, e, gb, "googlePromise.Reject", "promiseRejectCalls")
		c01Stmts(s, e, gb, "newGoogleBreaker", "newGoogleBreakerStmts")
		t := &translator{registry: map[string]*transFunc{}, consts: map[string]string{}}
		c01Reducer(t, s, e, gb)
		// bucket.go
		e.shapeDef(s, bk, "bucket.Add", "bucketAddShape")
		e.shapeDef(s, bk, "bucket.fail", "bucketFailShape")
		e.shapeDef(s, bk, "bucket.drop", "bucketDropShape")
		e.shapeDef(s, bk, "bucket.succeed", "bucketSucceedShape")
		e.shapeDef(s, bk, "bucket.Reset", "bucketResetShape")
		// breaker.go: which fallback / acceptable each entry point passes, ctx short-circuit, wrappers
		for _, fn := range []string{"Do", "DoWithAcceptable", "DoWithFallback", "DoWithFallbackAcceptable", "Allow"} {
			c01Calls(s, e, br, "circuitBreaker."+fn, "calls"+fn)
			e.shapeDef(s, br, "circuitBreaker."+fn+"Ctx", "shape"+fn+"Ctx")
		}
		c01Stmts(s, e, br, "defaultAcceptable", "defaultAcceptableStmts")
		e.shapeDef(s, br, "loggedThrottle.allow", "loggedAllowShape")
		e.shapeDef(s, br, "loggedThrottle.doReq", "loggedDoReqShape")
		c01Calls(s, e, br, "loggedThrottle.doReq", "loggedDoReqCalls")
		c01Stmts(s, e, br, "loggedThrottle.logError", "logErrorStmts")
		e.shapeDef(s, br, "promiseWithReason.Accept", "promiseWithReasonAcceptShape")
		e.shapeDef(s, br, "promiseWithReason.Reject", "promiseWithReasonRejectShape")
		c01Stmts(s, e, br, "NewBreaker", "newBreakerStmts")
		// rolling window
		t2 := &translator{registry: map[string]*transFunc{}, consts: map[string]string{}}
		e.printf("/-- `timex.Since(d)` on the clock value `now` -/\ndef since (d : Int) (now : Int) : Int := now - d\n\n")
		e.printf("/-- `timex.Now()` -/\ndef clockNow (now : Int) : Int := now\n\n")
		t2.registry["timex.Since"] = &transFunc{leanName: "since", explicit: []string{"d"}, implicit: []string{"now"}, implBool: map[string]bool{}, nres: 1}
		t2.registry["timex.Now"] = &transFunc{leanName: "clockNow", explicit: nil, implicit: []string{"now"}, implBool: map[string]bool{}, nres: 1}
		e.translated(t2, s, rw, "RollingWindow.span", "rwSpan", false, "")
		e.translated(t2, s, rw, "RollingWindow.updateOffset", "rwUpdateOffsetTail", true, "rw.offset = (offset + span) % rw.size")
		c01Stmts(s, e, rw, "RollingWindow.updateOffset", "rwUpdateOffsetStmts")
		e.shapeDef(s, rw, "RollingWindow.updateOffset", "rwUpdateOffsetShape")
		c01Calls(s, e, rw, "RollingWindow.updateOffset", "rwUpdateOffsetCalls")
		c01Calls(s, e, rw, "RollingWindow.Reduce", "rwReduceCalls")
		c01Stmts(s, e, rw, "RollingWindow.Reduce", "rwReduceStmts")
		e.shapeDef(s, rw, "RollingWindow.Reduce", "rwReduceShape")
		e.shapeDef(s, rw, "RollingWindow.Add", "rwAddShape")
		c01Calls(s, e, rw, "RollingWindow.Add", "rwAddCalls")
		c01Stmts(s, e, rw, "window.reduce", "winReduceStmts")
		c01Calls(s, e, rw, "window.reduce", "winReduceCalls")
		c01Calls(s, e, rw, "window.add", "winAddCalls")
		c01Calls(s, e, rw, "window.resetBucket", "winResetCalls")
		c01Stmts(s, e, rw, "NewRollingWindow", "newRollingWindowStmts")
		// proba
		c01Stmts(s, e, pr, "Proba.TrueOnProba", "trueOnProbaStmts")
		// ---- call sites
		const rh = "rest/handler/breakerhandler.go"
		e.shapeDef(s, rh, "BreakerHandler", "restBreakerHandlerShape")
		const zc = "zrpc/internal/clientinterceptors/breakerinterceptor.go"
		c01Calls(s, e, zc, "BreakerInterceptor", "zrpcClientCalls")
		c01Stmts(s, e, zc, "BreakerInterceptor", "zrpcClientStmts")
		const zs = "zrpc/internal/serverinterceptors/breakerinterceptor.go"
		c01Stmts(s, e, zs, "UnaryBreakerInterceptor", "zrpcServerUnaryStmts")
		c01Stmts(s, e, zs, "StreamBreakerInterceptor", "zrpcServerStreamStmts")
		c01Stmts(s, e, zs, "serverSideAcceptable", "serverSideAcceptableStmts")
		c01Stmts(s, e, zs, "convertError", "convertErrorStmts")
		c01SwitchCases(s, e, "zrpc/internal/codes/accept.go", "Acceptable", "codesAcceptableSwitch")
		const rb = "core/stores/redis/breakerhook.go"
		e.shapeDef(s, rb, "breakerHook.ProcessHook", "redisProcessHookShape")
		e.shapeDef(s, rb, "breakerHook.ProcessPipelineHook", "redisPipelineHookShape")
		c01BreakerCalls(s, e, rb, "breakerHook.ProcessHook", "redisProcessHookBreaker")
		c01BreakerCalls(s, e, rb, "breakerHook.ProcessPipelineHook", "redisPipelineHookBreaker")
		c01MapKeys(s, e, rb, "ignoreCmds", "redisIgnoreCmds")
		c01Stmts(s, e, "core/stores/redis/redis.go", "acceptable", "redisAcceptableStmts")
		const sq = "core/stores/sqlx/sqlconn.go"
		c01Stmts(s, e, sq, "commonSqlConn.acceptable", "sqlxAcceptableStmts")
		for _, fn := range []string{"ExecCtx", "PrepareCtx", "TransactCtx", "queryRows"} {
			c01BreakerCalls(s, e, sq, "commonSqlConn."+fn, "sqlx"+strings.ToUpper(fn[:1])+fn[1:]+"Breaker")
		}
		c01Stmts(s, e, "core/stores/sqlx/orm.go", "isScanFailed", "sqlxIsScanFailedStmts")
		// breakers.go
		const bs = "core/breaker/breakers.go"
		e.shapeDef(s, bs, "GetBreaker", "getBreakerShape")
		c01Stmts(s, e, bs, "GetBreaker", "getBreakerStmts")
		c01Stmts(s, e, bs, "do", "breakersLookupStmts")
		for _, fn := range []string{"Do", "DoCtx", "DoWithAcceptable", "DoWithAcceptableCtx", "DoWithFallback", "DoWithFallbackCtx",
			"DoWithFallbackAcceptable", "DoWithFallbackAcceptableCtx"} {
			c01Stmts(s, e, bs, fn, "breakers"+fn+"Stmts")
		}
	})
}
