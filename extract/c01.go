package main

// C01 — circuit breaker. Emits: constants (incl. the iota codes of bucket.go), the float arithmetic of
// googleBreaker.accept translated statement by statement into exact `Rat` definitions, the history
// reducer and RollingWindow.span/updateOffset arithmetic as `Int` functions, statement skeletons of the
// entry points, and the argument lists of the calls that select fallback / acceptable / mark codes.

import (
	"fmt"
	"go/ast"
	"go/token"
	"strings"
)

// c01Iota emits the constants of the first `const ( x = iota; y; z )` block of a file.
func c01Iota(s *source, e *emitter, rel string, names map[string]string) {
	f := s.file(rel)
	found := map[string]bool{}
	if f != nil {
		for _, d := range f.Decls {
			gd, ok := d.(*ast.GenDecl)
			if !ok || gd.Tok != token.CONST {
				continue
			}
			isIota := false
			for i, sp := range gd.Specs {
				vs := sp.(*ast.ValueSpec)
				if i == 0 {
					if len(vs.Values) == 1 {
						if id, ok := vs.Values[0].(*ast.Ident); ok && id.Name == "iota" {
							isIota = true
						}
					}
				} else if len(vs.Values) != 0 {
					isIota = false
				}
				if !isIota {
					break
				}
				for _, n := range vs.Names {
					if lean, ok := names[n.Name]; ok {
						e.printf("/-- `%s` (iota) in %s -/\ndef %s : Int := %d\n\n", n.Name, rel, lean, i)
						found[n.Name] = true
					}
				}
			}
		}
	}
	for n, lean := range names {
		if !found[n] {
			e.errors = append(e.errors, fmt.Sprintf("iota constant %s not found in %s", n, rel))
			e.printf("def %s : Int := -999999999\n\n", lean)
		}
	}
}

// c01Calls lists every call of a function body as `callee(arg, …)` in source order.
func c01Calls(s *source, e *emitter, rel, goName, lean string) {
	fd := s.findFunc(rel, goName)
	if fd == nil {
		e.errors = append(e.errors, fmt.Sprintf("function %s not found in %s", goName, rel))
		e.stringList(lean, "MISSING: "+goName, []string{"MISSING"})
		return
	}
	var out []string
	ast.Inspect(fd.Body, func(n ast.Node) bool {
		if c, ok := n.(*ast.CallExpr); ok {
			if _, isLit := c.Fun.(*ast.FuncLit); !isLit {
				out = append(out, s.src(c))
			}
		}
		return true
	})
	e.stringList(lean, "calls (with arguments) of `"+goName+"` in "+rel, out)
}

// c01Stmts lists the simple statements (assignments, returns, inc/dec) of a function as normalised source text.
func c01Stmts(s *source, e *emitter, rel, goName, lean string) {
	fd := s.findFunc(rel, goName)
	if fd == nil {
		e.errors = append(e.errors, fmt.Sprintf("function %s not found in %s", goName, rel))
		e.stringList(lean, "MISSING: "+goName, []string{"MISSING"})
		return
	}
	var out []string
	ast.Inspect(fd.Body, func(n ast.Node) bool {
		switch x := n.(type) {
		case *ast.AssignStmt, *ast.ReturnStmt, *ast.IncDecStmt:
			out = append(out, s.src(x))
		case *ast.IfStmt:
			out = append(out, "if "+s.src(x.Cond))
		case *ast.ForStmt:
			hdr := "for"
			if x.Init != nil {
				hdr += " " + s.src(x.Init)
			}
			if x.Cond != nil {
				hdr += "; " + s.src(x.Cond)
			}
			if x.Post != nil {
				hdr += "; " + s.src(x.Post)
			}
			out = append(out, hdr)
		}
		return true
	})
	e.stringList(lean, "simple statements of `"+goName+"` in "+rel, out)
}

// ---- float64 expressions of accept() -> Rat

type c01Float struct {
	s        *source
	ratConst map[string]string // Go name -> Lean Rat constant
	intConst map[string]string // Go name -> Lean Int constant
	ratVar   map[string]string // float locals / fields -> Lean Rat parameter
	intVar   map[string]string // int64 values -> Lean Int parameter
}

func (c *c01Float) name(e ast.Expr) string { return c.s.src(e) }

// rat translates an expression of type float64.
func (c *c01Float) rat(e ast.Expr) string {
	switch x := e.(type) {
	case *ast.ParenExpr:
		return c.rat(x.X)
	case *ast.Ident, *ast.SelectorExpr:
		n := c.name(x)
		if v, ok := c.ratVar[n]; ok {
			return v
		}
		if v, ok := c.ratConst[n]; ok {
			return v
		}
		if v, ok := c.intConst[n]; ok {
			return "((" + v + " : Int) : Rat)"
		}
		failf("accept: unknown float operand %s", n)
	case *ast.BasicLit:
		if x.Kind == token.INT {
			return "(" + x.Value + " : Rat)"
		}
		failf("accept: unsupported literal %s", x.Value)
	case *ast.BinaryExpr:
		switch x.Op {
		case token.ADD, token.SUB, token.MUL, token.QUO:
			return "(" + c.rat(x.X) + " " + x.Op.String() + " " + c.rat(x.Y) + ")"
		}
		failf("accept: unsupported float operator %s", x.Op)
	case *ast.CallExpr:
		fn := c.name(x.Fun)
		if fn == "float64" && len(x.Args) == 1 {
			return "((" + c.int(x.Args[0]) + " : Int) : Rat)"
		}
		if fn == "mathx.AtLeast" && len(x.Args) == 2 {
			a, b := c.rat(x.Args[0]), c.rat(x.Args[1])
			return "(if " + a + " < " + b + " then " + b + " else " + a + ")"
		}
		failf("accept: unsupported call %s", fn)
	}
	failf("accept: unsupported float expression %T", e)
	return ""
}

// int translates an expression of type int64 (no overflow modelled).
func (c *c01Float) int(e ast.Expr) string {
	switch x := e.(type) {
	case *ast.ParenExpr:
		return c.int(x.X)
	case *ast.Ident, *ast.SelectorExpr:
		n := c.name(x)
		if v, ok := c.intVar[n]; ok {
			return v
		}
		if v, ok := c.intConst[n]; ok {
			return v
		}
		failf("accept: unknown integer operand %s", n)
	case *ast.BasicLit:
		if x.Kind == token.INT {
			return x.Value
		}
	case *ast.BinaryExpr:
		switch x.Op {
		case token.ADD, token.SUB, token.MUL:
			return "(" + c.int(x.X) + " " + x.Op.String() + " " + c.int(x.Y) + ")"
		}
	}
	failf("accept: unsupported integer expression %s", c.name(e))
	return ""
}

func c01Accept(s *source, e *emitter, rel string) {
	fd := s.findFunc(rel, "googleBreaker.accept")
	if fd == nil {
		e.errors = append(e.errors, "function googleBreaker.accept not found")
		return
	}
	c := &c01Float{s: s,
		ratConst: map[string]string{"k": "k", "minK": "minK"},
		intConst: map[string]string{"buckets": "buckets", "protection": "protection"},
		ratVar:   map[string]string{"b.k": "bk", "w": "w", "weightedAccepts": "weightedAccepts", "dropRatio": "dropRatio"},
		intVar: map[string]string{"history.accepts": "accepts", "history.total": "total",
			"history.failingBuckets": "failingBuckets", "history.workingBuckets": "workingBuckets"}}
	const params = "(bk w weightedAccepts dropRatio : Rat) (accepts total failingBuckets workingBuckets : Int)"
	count := map[string]int{}
	var conds []string
	emit := func(lhs string, body func() string) {
		count[lhs]++
		name := fmt.Sprintf("accept_%s_%d", lhs, count[lhs])
		func() {
			defer func() {
				if p := recover(); p != nil {
					if te, ok := p.(transErr); ok {
						e.errors = append(e.errors, te.msg)
						e.printf("/-- TRANSLATION FAILED: %s -/\ndef %s : Unit := ()\n\n", te.msg, name)
						return
					}
					panic(p)
				}
			}()
			e.printf("/-- `%s` assignment no. %d in googleBreaker.accept -/\ndef %s %s : Rat :=\n  %s\n\n", lhs, count[lhs], name, params, body())
		}()
	}
	ast.Inspect(fd.Body, func(n ast.Node) bool {
		switch x := n.(type) {
		case *ast.AssignStmt:
			if len(x.Lhs) != 1 || len(x.Rhs) != 1 {
				return true
			}
			id, ok := x.Lhs[0].(*ast.Ident)
			if !ok {
				return true
			}
			if _, isFloat := c.ratVar[id.Name]; !isFloat {
				return true
			}
			switch x.Tok {
			case token.ASSIGN, token.DEFINE:
				emit(id.Name, func() string { return c.rat(x.Rhs[0]) })
			case token.MUL_ASSIGN:
				emit(id.Name, func() string { return "(" + c.ratVar[id.Name] + " * " + c.rat(x.Rhs[0]) + ")" })
			default:
				e.errors = append(e.errors, "accept: unsupported assignment operator "+x.Tok.String())
			}
		case *ast.IfStmt:
			conds = append(conds, s.src(x.Cond))
		}
		return true
	})
	e.stringList("acceptConds", "the conditions of googleBreaker.accept, in order", conds)
	// the field b.k is initialised from the constant k
	init := s.findFunc(rel, "newGoogleBreaker")
	var fields []string
	if init != nil {
		ast.Inspect(init.Body, func(n ast.Node) bool {
			if cl, ok := n.(*ast.CompositeLit); ok && strings.Contains(s.src(cl.Type), "googleBreaker") {
				for _, el := range cl.Elts {
					fields = append(fields, s.src(el))
				}
			}
			return true
		})
	}
	e.stringList("newGoogleBreakerFields", "composite literal of newGoogleBreaker", fields)
}

// c01SwitchCases lists, for the first switch statement of a function, the tag and every clause as
// "case a, b: <first statement>" / "default: <first statement>".
func c01SwitchCases(s *source, e *emitter, rel, goName, lean string) {
	fd := s.findFunc(rel, goName)
	if fd == nil {
		e.errors = append(e.errors, fmt.Sprintf("function %s not found in %s", goName, rel))
		e.stringList(lean, "MISSING: "+goName, []string{"MISSING"})
		return
	}
	var out []string
	done := false
	ast.Inspect(fd.Body, func(n ast.Node) bool {
		sw, ok := n.(*ast.SwitchStmt)
		if !ok || done {
			return true
		}
		done = true
		if sw.Tag != nil {
			out = append(out, "switch "+s.src(sw.Tag))
		}
		for _, st := range sw.Body.List {
			cc := st.(*ast.CaseClause)
			var body []string
			for _, b := range cc.Body {
				body = append(body, s.src(b))
			}
			if cc.List == nil {
				out = append(out, "default: "+strings.Join(body, "; "))
				continue
			}
			var names []string
			for _, x := range cc.List {
				names = append(names, s.src(x))
			}
			out = append(out, "case "+strings.Join(names, ", ")+": "+strings.Join(body, "; "))
		}
		return false
	})
	e.stringList(lean, "first switch of `"+goName+"` in "+rel, out)
}

// c01MapKeys lists the keys of a package-level map composite literal.
func c01MapKeys(s *source, e *emitter, rel, varName, lean string) {
	f := s.file(rel)
	var out []string
	found := false
	if f != nil {
		for _, d := range f.Decls {
			gd, ok := d.(*ast.GenDecl)
			if !ok || gd.Tok != token.VAR {
				continue
			}
			for _, sp := range gd.Specs {
				vs := sp.(*ast.ValueSpec)
				for i, n := range vs.Names {
					if n.Name != varName || i >= len(vs.Values) {
						continue
					}
					if cl, ok := vs.Values[i].(*ast.CompositeLit); ok {
						found = true
						for _, el := range cl.Elts {
							if kv, ok := el.(*ast.KeyValueExpr); ok {
								out = append(out, s.src(kv.Key))
							}
						}
					}
				}
			}
		}
	}
	if !found {
		e.errors = append(e.errors, fmt.Sprintf("map %s not found in %s", varName, rel))
	}
	e.stringList(lean, "keys of `"+varName+"` in "+rel, out)
}

// c01BreakerCalls lists the calls `….brk.<Method>(…)` of a function as "<fun>(…, <last argument>)": which entry
// point of the breaker is used and which acceptability predicate is handed over (the request closure is elided).
func c01BreakerCalls(s *source, e *emitter, rel, goName, lean string) {
	fd := s.findFunc(rel, goName)
	if fd == nil {
		e.errors = append(e.errors, fmt.Sprintf("function %s not found in %s", goName, rel))
		e.stringList(lean, "MISSING: "+goName, []string{"MISSING"})
		return
	}
	var out []string
	ast.Inspect(fd.Body, func(n ast.Node) bool {
		if c, ok := n.(*ast.CallExpr); ok {
			fn := s.src(c.Fun)
			if strings.Contains(fn, "brk.") && len(c.Args) > 0 {
				out = append(out, fn+"(…, "+s.src(c.Args[len(c.Args)-1])+")")
			}
		}
		return true
	})
	e.stringList(lean, "breaker calls of `"+goName+"` in "+rel, out)
}


// ---- error predicates -> Lean Bool functions over an abstract error -------------------------------------------
//
// A Go predicate over an error (`func(err error) bool`, possibly a closure) is translated into
//   def <name> (isNil : Bool) (is as call nilv bv code : String → Bool) : Bool
// where isNil = `err == nil`, is "S" = `errors.Is(err, S)` (errorx.In is the disjunction), as "T" = `errors.As(err, &e)`
// with `var e T`, call "f" = `f(err)` for any other predicate applied to the error, nilv "x" = `x == nil` for a non-error
// operand, bv "v" = the bool variable v, code "C" = `status.Code(err) == C` (switch on status.Code(err)).
// Tie.lean instantiates the parameters with the model's semantics of the error classes and proves the result equal to
// the model's predicate for ALL errors.

const c01PredParams = "(isNil : Bool) (is as call nilv bv code : String → Bool)"

type c01Pred struct {
	s      *source
	errVar map[string]bool
	asType map[string]string
}

func (c *c01Pred) isErr(e ast.Expr) bool {
	id, ok := e.(*ast.Ident)
	return ok && c.errVar[id.Name]
}

func (c *c01Pred) expr(e ast.Expr) string {
	switch x := e.(type) {
	case *ast.ParenExpr:
		return c.expr(x.X)
	case *ast.Ident:
		if x.Name == "true" || x.Name == "false" {
			return x.Name
		}
		return fmt.Sprintf("bv %q", x.Name)
	case *ast.UnaryExpr:
		if x.Op == token.NOT {
			return "(!" + c.expr(x.X) + ")"
		}
	case *ast.BinaryExpr:
		switch x.Op {
		case token.LAND:
			return "(" + c.expr(x.X) + " && " + c.expr(x.Y) + ")"
		case token.LOR:
			return "(" + c.expr(x.X) + " || " + c.expr(x.Y) + ")"
		case token.EQL, token.NEQ:
			if id, ok := x.Y.(*ast.Ident); ok && id.Name == "nil" {
				v := "isNil"
				if !c.isErr(x.X) {
					v = fmt.Sprintf("nilv %q", c.s.src(x.X))
				}
				if x.Op == token.NEQ {
					v = "(!" + v + ")"
				}
				return v
			}
		}
	case *ast.CallExpr:
		fn := c.s.src(x.Fun)
		switch {
		case fn == "errors.Is" && len(x.Args) == 2 && c.isErr(x.Args[0]):
			return fmt.Sprintf("is %q", c.s.src(x.Args[1]))
		case fn == "errorx.In" && len(x.Args) >= 2 && c.isErr(x.Args[0]):
			var parts []string
			for _, a := range x.Args[1:] {
				parts = append(parts, fmt.Sprintf("is %q", c.s.src(a)))
			}
			return "(" + strings.Join(parts, " || ") + ")"
		case fn == "errors.As" && len(x.Args) == 2 && c.isErr(x.Args[0]):
			if u, ok := x.Args[1].(*ast.UnaryExpr); ok && u.Op == token.AND {
				if id, ok := u.X.(*ast.Ident); ok && c.asType[id.Name] != "" {
					return fmt.Sprintf("as %q", c.asType[id.Name])
				}
			}
		case len(x.Args) == 1 && c.isErr(x.Args[0]):
			return fmt.Sprintf("call %q", fn)
		}
	}
	failf("predicate: unsupported expression %s", c.s.src(e))
	return ""
}

func (c *c01Pred) stmts(list []ast.Stmt) string {
	if len(list) == 0 {
		failf("predicate: control falls off the end")
	}
	switch x := list[0].(type) {
	case *ast.ReturnStmt:
		if len(x.Results) == 1 {
			return c.expr(x.Results[0])
		}
	case *ast.DeclStmt:
		if gd, ok := x.Decl.(*ast.GenDecl); ok && gd.Tok == token.VAR {
			for _, sp := range gd.Specs {
				vs := sp.(*ast.ValueSpec)
				if vs.Type != nil && len(vs.Values) == 0 {
					for _, n := range vs.Names {
						c.asType[n.Name] = c.s.src(vs.Type)
					}
				}
			}
			return c.stmts(list[1:])
		}
	case *ast.IfStmt:
		if x.Init == nil {
			cond := c.expr(x.Cond)
			then := c.stmts(x.Body.List)
			var els string
			if x.Else != nil {
				blk, ok := x.Else.(*ast.BlockStmt)
				if !ok {
					failf("predicate: else-if not supported")
				}
				els = c.stmts(blk.List)
			} else {
				els = c.stmts(list[1:])
			}
			return "(if " + cond + " then " + then + " else " + els + ")"
		}
	case *ast.SwitchStmt:
		if x.Init == nil && x.Tag != nil {
			call, ok := x.Tag.(*ast.CallExpr)
			if ok && c.s.src(call.Fun) == "status.Code" && len(call.Args) == 1 && c.isErr(call.Args[0]) {
				def := ""
				type arm struct{ cond, body string }
				var arms []arm
				for _, st := range x.Body.List {
					cc := st.(*ast.CaseClause)
					body := c.stmts(cc.Body)
					if cc.List == nil {
						def = body
						continue
					}
					var parts []string
					for _, v := range cc.List {
						parts = append(parts, fmt.Sprintf("code %q", c.s.src(v)))
					}
					arms = append(arms, arm{"(" + strings.Join(parts, " || ") + ")", body})
				}
				if def == "" {
					def = c.stmts(list[1:])
				}
				out := def
				for i := len(arms) - 1; i >= 0; i-- {
					out = "(if " + arms[i].cond + " then " + arms[i].body + " else " + out + ")"
				}
				return out
			}
		}
	}
	failf("predicate: unsupported statement %s", c.s.src(list[0]))
	return ""
}

// assigned: the final value of the bool variable v after a statement list (`v = x`, `if c { v = x }`; definitions
// `e := f(…)` introduce e as the error under test; everything else must not mention v).
func (c *c01Pred) assigned(list []ast.Stmt, v, cur string) string {
	for _, st := range list {
		switch x := st.(type) {
		case *ast.AssignStmt:
			if len(x.Lhs) == 1 && len(x.Rhs) == 1 {
				if id, ok := x.Lhs[0].(*ast.Ident); ok {
					if id.Name == v {
						if x.Tok != token.ASSIGN {
							failf("assignment: unsupported operator on %s", v)
						}
						cur = c.expr(x.Rhs[0])
						continue
					}
					if x.Tok == token.DEFINE {
						c.errVar[id.Name] = true
						continue
					}
				}
			}
			if strings.Contains(c.s.src(x), v) {
				failf("assignment: unsupported statement %s", c.s.src(x))
			}
		case *ast.IfStmt:
			if x.Init != nil {
				failf("assignment: if with init")
			}
			then := c.assigned(x.Body.List, v, cur)
			els := cur
			if x.Else != nil {
				blk, ok := x.Else.(*ast.BlockStmt)
				if !ok {
					failf("assignment: else-if not supported")
				}
				els = c.assigned(blk.List, v, cur)
			}
			if then != cur || els != cur {
				cur = "(if " + c.expr(x.Cond) + " then " + then + " else " + els + ")"
			}
		case *ast.ReturnStmt:
			return cur
		default:
			if strings.Contains(c.s.src(st), v) {
				failf("assignment: unsupported statement %s", c.s.src(st))
			}
		}
	}
	return cur
}

func c01EmitPred(e *emitter, lean, doc string, body func() string) {
	defer func() {
		if p := recover(); p != nil {
			if te, ok := p.(transErr); ok {
				e.errors = append(e.errors, lean+": "+te.msg)
				e.printf("/-- TRANSLATION FAILED: %s -/\ndef %s %s : Bool := false\n\n", te.msg, lean, c01PredParams)
				return
			}
			panic(p)
		}
	}()
	b := body()
	e.printf("/-- %s -/\ndef %s %s : Bool :=\n  %s\n\n", doc, lean, c01PredParams, b)
}

func c01ErrParams(ft *ast.FuncType) map[string]bool {
	out := map[string]bool{}
	if ft.Params != nil {
		for _, f := range ft.Params.List {
			if id, ok := f.Type.(*ast.Ident); ok && id.Name == "error" {
				for _, n := range f.Names {
					out[n.Name] = true
				}
			}
		}
	}
	return out
}

// c01PredFunc translates a named predicate function.
func c01PredFunc(s *source, e *emitter, rel, goName, lean string) {
	fd := s.findFunc(rel, goName)
	c01EmitPred(e, lean, "`"+goName+"` in "+rel+" as a predicate over an abstract error", func() string {
		if fd == nil {
			failf("function %s not found in %s", goName, rel)
		}
		c := &c01Pred{s: s, errVar: c01ErrParams(fd.Type), asType: map[string]string{}}
		return c.stmts(fd.Body.List)
	})
}

// c01BreakerArgPred translates the predicate closure handed (as last argument) to the n-th `….brk.<Method>(…)` call
// of a function.
func c01BreakerArgPred(s *source, e *emitter, rel, goName, lean string) {
	fd := s.findFunc(rel, goName)
	c01EmitPred(e, lean, "the acceptability closure `"+goName+"` hands to its breaker, in "+rel, func() string {
		if fd == nil {
			failf("function %s not found in %s", goName, rel)
		}
		var lit *ast.FuncLit
		n := 0
		ast.Inspect(fd.Body, func(nd ast.Node) bool {
			if c, ok := nd.(*ast.CallExpr); ok && strings.Contains(s.src(c.Fun), "brk.") && len(c.Args) > 0 {
				n++
				if l, ok := c.Args[len(c.Args)-1].(*ast.FuncLit); ok && lit == nil {
					lit = l
				}
			}
			return true
		})
		if n != 1 || lit == nil {
			failf("%s: expected exactly one breaker call with a closure as last argument (found %d calls)", goName, n)
		}
		c := &c01Pred{s: s, errVar: c01ErrParams(lit.Type), asType: map[string]string{}}
		return c.stmts(lit.Body.List)
	})
}

// c01AssignedIn translates, for the innermost closure of a function that assigns the bool variable v, the final value
// of v after one run of that closure (bv "v" = its value before).  Also fails if v is assigned anywhere else.
func c01AssignedIn(s *source, e *emitter, rel, goName, v, lean string) {
	fd := s.findFunc(rel, goName)
	c01EmitPred(e, lean, "value of `"+v+"` after the closure of `"+goName+"` ("+rel+") that assigns it has run once", func() string {
		if fd == nil {
			failf("function %s not found in %s", goName, rel)
		}
		var lits []*ast.FuncLit
		total := 0
		var walk func(n ast.Node, stack []*ast.FuncLit)
		walk = func(n ast.Node, stack []*ast.FuncLit) {
			ast.Inspect(n, func(nd ast.Node) bool {
				switch x := nd.(type) {
				case *ast.FuncLit:
					if nd != n {
						walk(x.Body, append(append([]*ast.FuncLit{}, stack...), x))
						return false
					}
				case *ast.AssignStmt:
					for _, l := range x.Lhs {
						if id, ok := l.(*ast.Ident); ok && id.Name == v {
							total++
							if len(stack) == 0 {
								failf("%s assigned outside a closure", v)
							}
							top := stack[len(stack)-1]
							if len(lits) == 0 || lits[len(lits)-1] != top {
								lits = append(lits, top)
							}
						}
					}
				}
				return true
			})
		}
		walk(fd.Body, nil)
		if len(lits) != 1 {
			failf("%s: expected exactly one closure assigning %s, found %d (%d assignments)", goName, v, len(lits), total)
		}
		c := &c01Pred{s: s, errVar: c01ErrParams(lits[0].Type), asType: map[string]string{}}
		return c.assigned(lits[0].Body.List, v, fmt.Sprintf("bv %q", v))
	})
}

// c01VarDecls lists the `var x T` declarations (without value) directly in a function body.
func c01VarDecls(s *source, e *emitter, rel, goName, lean string) {
	fd := s.findFunc(rel, goName)
	var out []string
	if fd == nil {
		e.errors = append(e.errors, fmt.Sprintf("function %s not found in %s", goName, rel))
	} else {
		for _, st := range fd.Body.List {
			if ds, ok := st.(*ast.DeclStmt); ok {
				out = append(out, s.src(ds))
			}
		}
	}
	e.stringList(lean, "var declarations at the top level of `"+goName+"` in "+rel, out)
}

// ---- comparisons -> Lean Bool functions over numbers ----------------------------------------------------------

// c01Cmp translates a condition built from comparisons, &&, ||, ! whose operands are listed in env (Go source text ->
// Lean parameter), constants (consts: Go name -> Lean name) and integer literals.
func c01Cmp(s *source, x ast.Expr, env, consts map[string]string, used map[string]bool) string {
	var operand func(o ast.Expr) string
	operand = func(o ast.Expr) string {
		if p, ok := o.(*ast.ParenExpr); ok {
			return operand(p.X)
		}
		src := s.src(o)
		if v, ok := env[src]; ok {
			used[src] = true
			return v
		}
		if v, ok := consts[src]; ok {
			return v
		}
		if bl, ok := o.(*ast.BasicLit); ok && bl.Kind == token.INT {
			return bl.Value
		}
		failf("comparison: unknown operand %s", src)
		return ""
	}
	switch b := x.(type) {
	case *ast.ParenExpr:
		return c01Cmp(s, b.X, env, consts, used)
	case *ast.UnaryExpr:
		if b.Op == token.NOT {
			return "(!" + c01Cmp(s, b.X, env, consts, used) + ")"
		}
	case *ast.BinaryExpr:
		switch b.Op {
		case token.LAND:
			return "(" + c01Cmp(s, b.X, env, consts, used) + " && " + c01Cmp(s, b.Y, env, consts, used) + ")"
		case token.LOR:
			return "(" + c01Cmp(s, b.X, env, consts, used) + " || " + c01Cmp(s, b.Y, env, consts, used) + ")"
		case token.LSS, token.LEQ, token.GTR, token.GEQ, token.EQL, token.NEQ:
			op := map[token.Token]string{token.LSS: "<", token.LEQ: "≤", token.GTR: ">", token.GEQ: "≥", token.EQL: "=", token.NEQ: "≠"}[b.Op]
			return "decide (" + operand(b.X) + " " + op + " " + operand(b.Y) + ")"
		}
	}
	failf("comparison: unsupported condition %s", s.src(x))
	return ""
}

func c01EmitCmp(s *source, e *emitter, lean, doc, params string, x ast.Expr, env, consts map[string]string) {
	defer func() {
		if p := recover(); p != nil {
			if te, ok := p.(transErr); ok {
				e.errors = append(e.errors, lean+": "+te.msg)
				e.printf("/-- TRANSLATION FAILED: %s -/\ndef %s %s : Bool := false\n\n", te.msg, lean, params)
				return
			}
			panic(p)
		}
	}()
	if x == nil {
		failf("condition not found")
	}
	used := map[string]bool{}
	b := c01Cmp(s, x, env, consts, used)
	for k := range env {
		if !used[k] {
			failf("operand %s does not occur in %s", k, s.src(x))
		}
	}
	e.printf("/-- %s: `%s` -/\ndef %s %s : Bool :=\n  %s\n\n", doc, s.src(x), lean, params, b)
}

// c01IfConds returns the conditions of all if statements of a function, in source order.
func c01IfConds(s *source, rel, goName string) []ast.Expr {
	fd := s.findFunc(rel, goName)
	var out []ast.Expr
	if fd != nil {
		ast.Inspect(fd.Body, func(n ast.Node) bool {
			if x, ok := n.(*ast.IfStmt); ok {
				out = append(out, x.Cond)
			}
			return true
		})
	}
	return out
}

// c01CompositeFields lists `field: value` of the first composite literal of the named type inside a function.
func c01CompositeFields(s *source, e *emitter, rel, goName, typ, lean string) {
	fd := s.findFunc(rel, goName)
	var out []string
	found := false
	if fd != nil {
		ast.Inspect(fd.Body, func(n ast.Node) bool {
			if cl, ok := n.(*ast.CompositeLit); ok && !found && cl.Type != nil && s.src(cl.Type) == typ {
				found = true
				for _, el := range cl.Elts {
					out = append(out, s.src(el))
				}
			}
			return true
		})
	}
	if !found {
		e.errors = append(e.errors, fmt.Sprintf("composite literal %s not found in %s of %s", typ, goName, rel))
	}
	e.stringList(lean, "fields of the `"+typ+"` literal in `"+goName+"` ("+rel+")", out)
}

func c01Reducer(t *translator, s *source, e *emitter, rel string) {
	fd := s.findFunc(rel, "googleBreaker.history")
	var lit *ast.FuncLit
	if fd != nil {
		ast.Inspect(fd.Body, func(n ast.Node) bool {
			if l, ok := n.(*ast.FuncLit); ok && lit == nil {
				lit = l
			}
			return true
		})
	}
	if lit == nil {
		e.errors = append(e.errors, "history reducer not found")
		e.printf("def historyStep : Unit := ()\n\n")
		return
	}
	synth := &ast.FuncDecl{Name: ast.NewIdent("historyStep"), Type: lit.Type, Body: lit.Body}
	def, err := t.translateFunc(synth, "historyStep", "historyStep", true, 0, nil)
	if err != nil {
		e.errors = append(e.errors, err.Error())
	}
	e.printf("/-- translated from the callback of `googleBreaker.history` in %s -/\n%s\n", rel, def)
}


// ---- bucket.go: field updates -> Lean functions over (Sum, Success, Failure, Drop) ----------------------------------

var c01BucketFields = []string{"Sum", "Success", "Failure", "Drop"}

// c01FieldUpdates translates a method whose body consists of `b.F++`, `b.F--` and `b.F = <integer literal>` statements
// on the fields of its receiver into `def <lean> (sum success failure drop : Int) : Int × Int × Int × Int`.
func c01FieldUpdates(s *source, e *emitter, rel, goName, lean string) {
	fd := s.findFunc(rel, goName)
	cur := map[string]string{"Sum": "sum", "Success": "success", "Failure": "failure", "Drop": "drop"}
	if fd == nil || fd.Body == nil || fd.Recv == nil || len(fd.Recv.List) != 1 || len(fd.Recv.List[0].Names) != 1 {
		e.errors = append(e.errors, fmt.Sprintf("method %s not found in %s", goName, rel))
	} else {
		recv := fd.Recv.List[0].Names[0].Name
		field := func(x ast.Expr) (string, bool) {
			sel, ok := x.(*ast.SelectorExpr)
			if !ok {
				return "", false
			}
			id, ok := sel.X.(*ast.Ident)
			if !ok || id.Name != recv {
				return "", false
			}
			_, known := cur[sel.Sel.Name]
			return sel.Sel.Name, known
		}
		for _, st := range fd.Body.List {
			ok := false
			switch x := st.(type) {
			case *ast.IncDecStmt:
				if f, k := field(x.X); k {
					if x.Tok == token.INC {
						cur[f] = "(" + cur[f] + " + 1)"
					} else {
						cur[f] = "(" + cur[f] + " - 1)"
					}
					ok = true
				}
			case *ast.AssignStmt:
				if len(x.Lhs) == 1 && len(x.Rhs) == 1 && x.Tok == token.ASSIGN {
					if f, k := field(x.Lhs[0]); k {
						if lit, isLit := x.Rhs[0].(*ast.BasicLit); isLit && lit.Kind == token.INT {
							cur[f] = "(" + lit.Value + " : Int)"
							ok = true
						}
					}
				}
			}
			if !ok {
				e.errors = append(e.errors, fmt.Sprintf("%s: unsupported statement %q", goName, s.src(st)))
			}
		}
	}
	e.printf("/-- `%s` in %s as a function of the receiver's fields (Sum, Success, Failure, Drop) -/\n", goName, rel)
	e.printf("def %s (sum success failure drop : Int) : Int × Int × Int × Int :=\n  (%s, %s, %s, %s)\n\n", lean,
		cur["Sum"], cur["Success"], cur["Failure"], cur["Drop"])
}

// c01BucketAdd translates `bucket.Add`: a switch on its parameter whose clauses each call one receiver method.
func c01BucketAdd(s *source, e *emitter, rel, goName, lean string, consts, methods map[string]string) {
	fd := s.findFunc(rel, goName)
	body := ""
	if fd == nil || fd.Body == nil || len(fd.Body.List) != 1 || fd.Type.Params == nil || len(fd.Type.Params.List) != 1 ||
		len(fd.Type.Params.List[0].Names) != 1 {
		e.errors = append(e.errors, fmt.Sprintf("%s: expected a single switch over its one parameter", goName))
	} else if sw, ok := fd.Body.List[0].(*ast.SwitchStmt); !ok || sw.Init != nil || sw.Tag == nil ||
		s.src(sw.Tag) != fd.Type.Params.List[0].Names[0].Name {
		e.errors = append(e.errors, fmt.Sprintf("%s: expected `switch <param>`", goName))
	} else {
		callOf := func(list []ast.Stmt) string {
			if len(list) == 1 {
				if es, ok := list[0].(*ast.ExprStmt); ok {
					if call, ok := es.X.(*ast.CallExpr); ok && len(call.Args) == 0 {
						if sel, ok := call.Fun.(*ast.SelectorExpr); ok {
							if m, known := methods[sel.Sel.Name]; known {
								return m + " sum success failure drop"
							}
						}
					}
				}
			}
			e.errors = append(e.errors, fmt.Sprintf("%s: clause body is not one call of a known receiver method", goName))
			return "(sum, success, failure, drop)"
		}
		def := "(sum, success, failure, drop)"
		var arms []string
		for _, cl := range sw.Body.List {
			cc := cl.(*ast.CaseClause)
			if cc.List == nil {
				def = callOf(cc.Body)
				continue
			}
			var conds []string
			for _, x := range cc.List {
				id, ok := x.(*ast.Ident)
				if !ok || consts[id.Name] == "" {
					e.errors = append(e.errors, fmt.Sprintf("%s: case value %s is not one of the iota codes", goName, s.src(x)))
					continue
				}
				conds = append(conds, "v = "+consts[id.Name])
			}
			arms = append(arms, fmt.Sprintf("if %s then %s\n  else ", strings.Join(conds, " ∨ "), callOf(cc.Body)))
		}
		body = strings.Join(arms, "") + def
	}
	if body == "" {
		body = "(sum, success, failure, drop)"
	}
	e.printf("/-- `%s` in %s: the switch over the mark code, each clause one field update -/\n", goName, rel)
	e.printf("def %s (v sum success failure drop : Int) : Int × Int × Int × Int :=\n  %s\n\n", lean, body)
}


// ---- typed effect programs ---------------------------------------------------------------------------------------

// A function body is emitted as a flat, typed token list (`List Tok`): calls with their assignment targets and
// argument lists, plain assignments, `var` declarations, `if` / `else` / `defer func() {` blocks with explicit block
// ends, and returns.  Tie.lean gives the tokens an operational meaning (an interpreter with a defer stack, run on
// return AND on panic) and proves, for ALL inputs, that running the extracted program yields the model's event list:
// the ORDER of the effects (accept, mark, defer, request, return) is derived from /repo on every run.
const c01TokDecl = `/-- one token of a function body: the typed statement skeleton the effect interpreter of Tie.lean runs -/
inductive Tok
  | call (lhs : List String) (f : String) (args : List String)   -- [lhs :=] f(args)
  | set (lhs rhs : String)                                       -- lhs = <expression without call semantics>
  | var (name ty : String)                                       -- var name ty
  | ifB (cond : String)                                          -- if cond {
  | elseB                                                        -- } else {
  | deferB                                                       -- defer func() {
  | endB                                                         -- }   (of if / else / defer)
  | ret (vals : List String)                                     -- return vals
  | retCall (f : String) (args : List String)                    -- return f(args)
  deriving DecidableEq, Repr

`

type c01ProgT struct {
	s    *source
	toks []string
	errs []string
}

func c01StrList(items []string) string {
	q := make([]string, len(items))
	for i, it := range items {
		q[i] = leanString(it)
	}
	return "[" + strings.Join(q, ", ") + "]"
}

func (c *c01ProgT) callTok(lhs []string, call *ast.CallExpr) {
	args := make([]string, len(call.Args))
	for i, a := range call.Args {
		args[i] = c.s.src(a)
	}
	if call.Ellipsis.IsValid() && len(args) > 0 {
		args[len(args)-1] += "..."
	}
	c.toks = append(c.toks, fmt.Sprintf(".call %s %s %s", c01StrList(lhs), leanString(c.s.src(call.Fun)), c01StrList(args)))
}

func (c *c01ProgT) block(list []ast.Stmt) {
	for _, st := range list {
		c.stmt(st)
	}
}

func (c *c01ProgT) stmt(st ast.Stmt) {
	switch x := st.(type) {
	case *ast.ExprStmt:
		if call, ok := x.X.(*ast.CallExpr); ok {
			if _, isLit := call.Fun.(*ast.FuncLit); !isLit {
				c.callTok(nil, call)
				return
			}
		}
		c.errs = append(c.errs, "unsupported expression statement: "+c.s.src(st))
	case *ast.AssignStmt:
		lhs := make([]string, len(x.Lhs))
		for i, l := range x.Lhs {
			lhs[i] = c.s.src(l)
		}
		if len(x.Rhs) == 1 {
			if call, ok := x.Rhs[0].(*ast.CallExpr); ok {
				if _, isLit := call.Fun.(*ast.FuncLit); !isLit {
					c.callTok(lhs, call)
					return
				}
			}
		}
		if len(x.Lhs) == 1 && len(x.Rhs) == 1 {
			c.toks = append(c.toks, fmt.Sprintf(".set %s %s", leanString(lhs[0]), leanString(c.s.src(x.Rhs[0]))))
			return
		}
		c.errs = append(c.errs, "unsupported assignment: "+c.s.src(st))
	case *ast.DeclStmt:
		gd, ok := x.Decl.(*ast.GenDecl)
		if ok && gd.Tok == token.VAR {
			for _, sp := range gd.Specs {
				vs := sp.(*ast.ValueSpec)
				if len(vs.Values) != 0 || vs.Type == nil {
					c.errs = append(c.errs, "unsupported var declaration: "+c.s.src(st))
					continue
				}
				for _, n := range vs.Names {
					c.toks = append(c.toks, fmt.Sprintf(".var %s %s", leanString(n.Name), leanString(c.s.src(vs.Type))))
				}
			}
			return
		}
		c.errs = append(c.errs, "unsupported declaration: "+c.s.src(st))
	case *ast.IfStmt:
		if x.Init != nil {
			c.stmt(x.Init)
		}
		c.toks = append(c.toks, ".ifB "+leanString(c.s.src(x.Cond)))
		c.block(x.Body.List)
		switch el := x.Else.(type) {
		case nil:
		case *ast.BlockStmt:
			c.toks = append(c.toks, ".elseB")
			c.block(el.List)
		default:
			c.toks = append(c.toks, ".elseB")
			c.stmt(el)
		}
		c.toks = append(c.toks, ".endB")
	case *ast.DeferStmt:
		c.toks = append(c.toks, ".deferB")
		if lit, ok := x.Call.Fun.(*ast.FuncLit); ok && len(x.Call.Args) == 0 {
			c.block(lit.Body.List)
		} else {
			c.callTok(nil, x.Call)
		}
		c.toks = append(c.toks, ".endB")
	case *ast.ReturnStmt:
		if len(x.Results) == 1 {
			if call, ok := x.Results[0].(*ast.CallExpr); ok {
				if _, isLit := call.Fun.(*ast.FuncLit); !isLit {
					args := make([]string, len(call.Args))
					for i, a := range call.Args {
						args[i] = c.s.src(a)
					}
					c.toks = append(c.toks, fmt.Sprintf(".retCall %s %s", leanString(c.s.src(call.Fun)), c01StrList(args)))
					return
				}
			}
		}
		vals := make([]string, len(x.Results))
		for i, r := range x.Results {
			vals[i] = c.s.src(r)
		}
		c.toks = append(c.toks, ".ret "+c01StrList(vals))
	case *ast.BlockStmt:
		c.block(x.List)
	default:
		c.errs = append(c.errs, "unsupported statement: "+c.s.src(st))
	}
}

// c01Prog emits the body of a function — or, if nparams >= 0, of the innermost function literal inside it that has
// exactly nparams parameters (the handler closure of a middleware constructor) — as `def <lean> : List Tok`.
func c01Prog(s *source, e *emitter, rel, goName, lean string, nparams int) {
	fd := s.findFunc(rel, goName)
	c := &c01ProgT{s: s}
	if fd == nil || fd.Body == nil {
		e.errors = append(e.errors, fmt.Sprintf("function %s not found in %s", goName, rel))
	} else {
		body := fd.Body
		if nparams >= 0 {
			body = nil
			ast.Inspect(fd.Body, func(n ast.Node) bool {
				if l, ok := n.(*ast.FuncLit); ok && l.Type.Params != nil {
					cnt := 0
					for _, f := range l.Type.Params.List {
						if len(f.Names) == 0 {
							cnt++
						}
						cnt += len(f.Names)
					}
					if cnt == nparams {
						body = l.Body
					}
				}
				return true
			})
			if body == nil {
				e.errors = append(e.errors, fmt.Sprintf("%s: no function literal with %d parameters", goName, nparams))
			}
		}
		if body != nil {
			c.block(body.List)
		}
	}
	for _, er := range c.errs {
		e.errors = append(e.errors, goName+": "+er)
	}
	e.printf("/-- typed effect program of `%s` in %s -/\ndef %s : List Tok := [", goName, rel, lean)
	for i, t := range c.toks {
		if i > 0 {
			e.printf(",")
		}
		e.printf("\n  %s", t)
	}
	e.printf("]\n\n")
}


// c01Wrapper handles a function whose body is `return outer(inner(a0, a1, func(err error) bool {…}))`: it emits the
// names of the two calls, the forwarded argument list (the closure as "<closure>") and the closure's body as a typed
// program, so that Tie.lean can prove the wrapper transparent (arguments forwarded unchanged, closure ≡ the predicate
// it wraps).
func c01Wrapper(s *source, e *emitter, rel, goName, lean string) {
	fd := s.findFunc(rel, goName)
	outer, inner := "", ""
	var args []string
	c := &c01ProgT{s: s}
	ok := false
	if fd != nil && fd.Body != nil && len(fd.Body.List) == 1 {
		if rs, isRet := fd.Body.List[0].(*ast.ReturnStmt); isRet && len(rs.Results) == 1 {
			if oc, isCall := rs.Results[0].(*ast.CallExpr); isCall && len(oc.Args) == 1 {
				if ic, isCall2 := oc.Args[0].(*ast.CallExpr); isCall2 {
					outer, inner = s.src(oc.Fun), s.src(ic.Fun)
					nlit := 0
					for _, a := range ic.Args {
						if lit, isLit := a.(*ast.FuncLit); isLit {
							nlit++
							args = append(args, "<closure>")
							c.block(lit.Body.List)
						} else {
							args = append(args, s.src(a))
						}
					}
					ok = nlit == 1
				}
			}
		}
	}
	if !ok {
		e.errors = append(e.errors, fmt.Sprintf("%s: not of the form return outer(inner(…, func…))", goName))
	}
	for _, er := range c.errs {
		e.errors = append(e.errors, goName+": "+er)
	}
	e.printf("/-- `%s` in %s: `return <outer>(<inner>(args…))` -/\ndef %sOuter : String := %s\ndef %sInner : String := %s\ndef %sArgs : List String := %s\n\n",
		goName, rel, lean, leanString(outer), lean, leanString(inner), lean, c01StrList(args))
	e.printf("/-- the closure `%s` hands on instead of its predicate, as a typed program -/\ndef %sClosure : List Tok := [", goName, lean)
	for i, t := range c.toks {
		if i > 0 {
			e.printf(",")
		}
		e.printf("\n  %s", t)
	}
	e.printf("]\n\n")
}


// ---- typed forwards: which arguments reach doReq from a call site ------------------------------------------------

const c01FwdDecl = `/-- a typed call: the parameters of the function it occurs in, the method called and its argument list (a function
literal is written "<closure>") -/
structure Fwd where
  params : List String
  method : String
  args : List String
  deriving DecidableEq, Repr

`

// c01Fwd emits, for a function, the LAST call in its body whose callee text starts with one of the prefixes (the
// call it forwards to / the breaker call of a site) as a typed `Fwd`; exactly `want` such calls must exist.
func c01Fwd(s *source, e *emitter, rel, goName, lean string, want int, prefixes ...string) {
	fd := s.findFunc(rel, goName)
	var params, args []string
	method := "MISSING"
	if fd == nil || fd.Body == nil {
		e.errors = append(e.errors, fmt.Sprintf("function %s not found in %s", goName, rel))
	} else {
		if fd.Type.Params != nil {
			for _, f := range fd.Type.Params.List {
				for _, n := range f.Names {
					params = append(params, n.Name)
				}
			}
		}
		found := 0
		ast.Inspect(fd.Body, func(n ast.Node) bool {
			c, ok := n.(*ast.CallExpr)
			if !ok {
				return true
			}
			fn := s.src(c.Fun)
			for _, p := range prefixes {
				if strings.HasPrefix(fn, p) {
					found++
					method = fn[strings.LastIndex(fn, ".")+1:]
					args = nil
					for _, a := range c.Args {
						if _, isLit := a.(*ast.FuncLit); isLit {
							args = append(args, "<closure>")
						} else {
							args = append(args, s.src(a))
						}
					}
					break
				}
			}
			return true
		})
		if found != want {
			e.errors = append(e.errors, fmt.Sprintf("%s: %d forwarding calls (prefixes %v), expected %d", goName, found, prefixes, want))
		}
	}
	e.printf("/-- the call `%s` (%s) forwards to -/\ndef %s : Fwd := ⟨%s, %s, %s⟩\n\n", goName, rel, lean, c01StrList(params),
		leanString(method), c01StrList(args))
}

func init() {
	register("C01", func(s *source, e *emitter) {
		const gb = "core/breaker/googlebreaker.go"
		const bk = "core/breaker/bucket.go"
		const br = "core/breaker/breaker.go"
		const rw = "core/collection/rollingwindow.go"
		const pr = "core/mathx/proba.go"
		e.constDef(s, gb, "window", "window")
		e.constDef(s, gb, "buckets", "buckets")
		e.constDef(s, gb, "forcePassDuration", "forcePassDuration")
		e.constDef(s, gb, "k", "k")
		e.constDef(s, gb, "minK", "minK")
		e.constDef(s, gb, "protection", "protection")
		c01Iota(s, e, bk, map[string]string{"success": "codeSuccess", "fail": "codeFail", "drop": "codeDrop"})
		c01Accept(s, e, gb)
		e.shapeDef(s, gb, "googleBreaker.accept", "acceptShape")
		e.shapeDef(s, gb, "googleBreaker.doReq", "doReqShape")
		e.shapeDef(s, gb, "googleBreaker.allow", "allowShape")
		c01Calls(s, e, gb, "googleBreaker.markDrop", "markDropCalls")
		c01Calls(s, e, gb, "googleBreaker.markFailure", "markFailureCalls")
		c01Calls(s, e, gb, "googleBreaker.markSuccess", "markSuccessCalls")
		c01Calls(s, e, gb, "googlePromise.Accept", "promiseAcceptCalls")
		c01Calls(s, e, gb, "googlePromise.Reject", "promiseRejectCalls")
		c01Stmts(s, e, gb, "newGoogleBreaker", "newGoogleBreakerStmts")
		t := &translator{registry: map[string]*transFunc{}, consts: map[string]string{}}
		c01Reducer(t, s, e, gb)
		// bucket.go
		e.shapeDef(s, bk, "bucket.Add", "bucketAddShape")
		e.shapeDef(s, bk, "bucket.fail", "bucketFailShape")
		e.shapeDef(s, bk, "bucket.drop", "bucketDropShape")
		e.shapeDef(s, bk, "bucket.succeed", "bucketSucceedShape")
		e.shapeDef(s, bk, "bucket.Reset", "bucketResetShape")
		// bucket.go, semantically: every method as a function of the four counters
		c01FieldUpdates(s, e, bk, "bucket.fail", "bucketFailSem")
		c01FieldUpdates(s, e, bk, "bucket.drop", "bucketDropSem")
		c01FieldUpdates(s, e, bk, "bucket.succeed", "bucketSucceedSem")
		c01FieldUpdates(s, e, bk, "bucket.Reset", "bucketResetSem")
		c01BucketAdd(s, e, bk, "bucket.Add", "bucketAddSem",
			map[string]string{"success": "codeSuccess", "fail": "codeFail", "drop": "codeDrop"},
			map[string]string{"fail": "bucketFailSem", "drop": "bucketDropSem", "succeed": "bucketSucceedSem"})
		// breaker.go: which fallback / acceptable each entry point passes, ctx short-circuit, wrappers
		for _, fn := range []string{"Do", "DoWithAcceptable", "DoWithFallback", "DoWithFallbackAcceptable", "Allow"} {
			c01Calls(s, e, br, "circuitBreaker."+fn, "calls"+fn)
			e.shapeDef(s, br, "circuitBreaker."+fn+"Ctx", "shape"+fn+"Ctx")
		}
		c01Stmts(s, e, br, "defaultAcceptable", "defaultAcceptableStmts")
		e.shapeDef(s, br, "loggedThrottle.allow", "loggedAllowShape")
		e.shapeDef(s, br, "loggedThrottle.doReq", "loggedDoReqShape")
		c01Calls(s, e, br, "loggedThrottle.doReq", "loggedDoReqCalls")
		c01Stmts(s, e, br, "loggedThrottle.logError", "logErrorStmts")
		e.shapeDef(s, br, "promiseWithReason.Accept", "promiseWithReasonAcceptShape")
		e.shapeDef(s, br, "promiseWithReason.Reject", "promiseWithReasonRejectShape")
		c01Stmts(s, e, br, "NewBreaker", "newBreakerStmts")
		// rolling window
		t2 := &translator{registry: map[string]*transFunc{}, consts: map[string]string{}}
		e.printf("/-- `timex.Since(d)` on the clock value `now` -/\ndef since (d : Int) (now : Int) : Int := now - d\n\n")
		e.printf("/-- `timex.Now()` -/\ndef clockNow (now : Int) : Int := now\n\n")
		t2.registry["timex.Since"] = &transFunc{leanName: "since", explicit: []string{"d"}, implicit: []string{"now"}, implBool: map[string]bool{}, nres: 1}
		t2.registry["timex.Now"] = &transFunc{leanName: "clockNow", explicit: nil, implicit: []string{"now"}, implBool: map[string]bool{}, nres: 1}
		e.translated(t2, s, rw, "RollingWindow.span", "rwSpan", false, "")
		e.translated(t2, s, rw, "RollingWindow.updateOffset", "rwUpdateOffsetTail", true, "rw.offset = (offset + span) % rw.size")
		c01Stmts(s, e, rw, "RollingWindow.updateOffset", "rwUpdateOffsetStmts")
		e.shapeDef(s, rw, "RollingWindow.updateOffset", "rwUpdateOffsetShape")
		c01Calls(s, e, rw, "RollingWindow.updateOffset", "rwUpdateOffsetCalls")
		c01Calls(s, e, rw, "RollingWindow.Reduce", "rwReduceCalls")
		c01Stmts(s, e, rw, "RollingWindow.Reduce", "rwReduceStmts")
		e.shapeDef(s, rw, "RollingWindow.Reduce", "rwReduceShape")
		e.shapeDef(s, rw, "RollingWindow.Add", "rwAddShape")
		c01Calls(s, e, rw, "RollingWindow.Add", "rwAddCalls")
		c01Stmts(s, e, rw, "window.reduce", "winReduceStmts")
		c01Calls(s, e, rw, "window.reduce", "winReduceCalls")
		c01Calls(s, e, rw, "window.add", "winAddCalls")
		c01Calls(s, e, rw, "window.resetBucket", "winResetCalls")
		c01Stmts(s, e, rw, "NewRollingWindow", "newRollingWindowStmts")
		// proba
		c01Stmts(s, e, pr, "Proba.TrueOnProba", "trueOnProbaStmts")
		// ---- call sites
		const rh = "rest/handler/breakerhandler.go"
		e.shapeDef(s, rh, "BreakerHandler", "restBreakerHandlerShape")
		const zc = "zrpc/internal/clientinterceptors/breakerinterceptor.go"
		c01Calls(s, e, zc, "BreakerInterceptor", "zrpcClientCalls")
		c01Stmts(s, e, zc, "BreakerInterceptor", "zrpcClientStmts")
		const zs = "zrpc/internal/serverinterceptors/breakerinterceptor.go"
		c01Stmts(s, e, zs, "UnaryBreakerInterceptor", "zrpcServerUnaryStmts")
		c01Stmts(s, e, zs, "StreamBreakerInterceptor", "zrpcServerStreamStmts")
		c01Stmts(s, e, zs, "serverSideAcceptable", "serverSideAcceptableStmts")
		c01Stmts(s, e, zs, "convertError", "convertErrorStmts")
		c01SwitchCases(s, e, "zrpc/internal/codes/accept.go", "Acceptable", "codesAcceptableSwitch")
		const rb = "core/stores/redis/breakerhook.go"
		e.shapeDef(s, rb, "breakerHook.ProcessHook", "redisProcessHookShape")
		e.shapeDef(s, rb, "breakerHook.ProcessPipelineHook", "redisPipelineHookShape")
		c01BreakerCalls(s, e, rb, "breakerHook.ProcessHook", "redisProcessHookBreaker")
		c01BreakerCalls(s, e, rb, "breakerHook.ProcessPipelineHook", "redisPipelineHookBreaker")
		c01MapKeys(s, e, rb, "ignoreCmds", "redisIgnoreCmds")
		c01Stmts(s, e, "core/stores/redis/redis.go", "acceptable", "redisAcceptableStmts")
		const sq = "core/stores/sqlx/sqlconn.go"
		c01Stmts(s, e, sq, "commonSqlConn.acceptable", "sqlxAcceptableStmts")
		for _, fn := range []string{"ExecCtx", "PrepareCtx", "TransactCtx", "queryRows"} {
			c01BreakerCalls(s, e, sq, "commonSqlConn."+fn, "sqlx"+strings.ToUpper(fn[:1])+fn[1:]+"Breaker")
		}
		c01Stmts(s, e, "core/stores/sqlx/orm.go", "isScanFailed", "sqlxIsScanFailedStmts")

		// ---- semantic part of the call sites: predicates and decision-making conditions as Lean functions
		c01PredFunc(s, e, br, "defaultAcceptable", "predDefaultAcceptable")
		c01PredFunc(s, e, "zrpc/internal/codes/accept.go", "Acceptable", "predCodesAcceptable")
		c01PredFunc(s, e, zs, "serverSideAcceptable", "predServerSideAcceptable")
		c01PredFunc(s, e, "core/stores/redis/redis.go", "acceptable", "predRedisAcceptable")
		c01PredFunc(s, e, sq, "commonSqlConn.acceptable", "predDbAcceptable")
		c01PredFunc(s, e, "core/stores/sqlx/orm.go", "isScanFailed", "predIsScanFailed")
		c01BreakerArgPred(s, e, sq, "commonSqlConn.queryRows", "predQueryRows")
		c01AssignedIn(s, e, sq, "commonSqlConn.queryRows", "scanFailed", "assignQueryRowsScanFailed")
		c01VarDecls(s, e, sq, "commonSqlConn.queryRows", "sqlxQueryRowsVars")
		const st = "core/stores/sqlx/stmt.go"
		c01BreakerArgPred(s, e, st, "statement.queryRows", "predStmtQueryRows")
		c01AssignedIn(s, e, st, "statement.queryRows", "scanFailed", "assignStmtQueryRowsScanFailed")
		c01VarDecls(s, e, st, "statement.queryRows", "sqlxStmtQueryRowsVars")
		c01BreakerArgPred(s, e, st, "statement.ExecCtx", "predStmtExec")
		c01BreakerCalls(s, e, st, "statement.ExecCtx", "sqlxStmtExecBreaker")
		c01BreakerCalls(s, e, st, "statement.queryRows", "sqlxStmtQueryRowsBreaker")
		c01CompositeFields(s, e, sq, "commonSqlConn.PrepareCtx", "statement", "sqlxPrepareStatementFields")
		c01Stmts(s, e, sq, "WithAcceptable", "sqlxWithAcceptableStmts")
		c01Stmts(s, e, sq, "NewSqlConn", "sqlxNewSqlConnStmts")
		c01Stmts(s, e, sq, "NewSqlConnFromDB", "sqlxNewSqlConnFromDBStmts")
		// WithAcceptable: the chained closure `pre(err) || acceptable(err)`
		c01EmitPred(e, "predWithAcceptableChain", "the chained predicate of `WithAcceptable` in "+sq, func() string {
			fd := s.findFunc(sq, "WithAcceptable")
			if fd == nil {
				failf("WithAcceptable not found")
			}
			var lit *ast.FuncLit
			ast.Inspect(fd.Body, func(n ast.Node) bool {
				if l, ok := n.(*ast.FuncLit); ok && len(c01ErrParams(l.Type)) > 0 {
					lit = l
				}
				return true
			})
			if lit == nil {
				failf("WithAcceptable: chained closure not found")
			}
			c := &c01Pred{s: s, errVar: c01ErrParams(lit.Type), asType: map[string]string{}}
			return c.stmts(lit.Body.List)
		})
		// rest: the deferred decision `cw.Code < http.StatusInternalServerError`
		{
			conds := c01IfConds(s, rh, "BreakerHandler")
			var x ast.Expr
			if len(conds) == 2 {
				x = conds[1]
			}
			c01EmitCmp(s, e, "restAcceptCond", "BreakerHandler: Accept iff", "(code statusInternalServerError : Int)", x,
				map[string]string{"cw.Code": "code", "http.StatusInternalServerError": "statusInternalServerError"}, nil)
		}
		// accept(): its three decisions, and TrueOnProba's comparison
		{
			conds := c01IfConds(s, gb, "googleBreaker.accept")
			var c0, c1 ast.Expr
			if len(conds) == 3 {
				c0, c1 = conds[0], conds[1]
			}
			c01EmitCmp(s, e, "acceptCondFree", "accept(): free pass iff", "(dropRatio : Rat)", c0,
				map[string]string{"dropRatio": "dropRatio"}, nil)
			c01EmitCmp(s, e, "acceptCondForced", "accept(): forced probe iff", "(lastPass since : Int)", c1,
				map[string]string{"lastPass": "lastPass", "timex.Since(lastPass)": "since"},
				map[string]string{"forcePassDuration": "forcePassDuration"})
			var tp ast.Expr
			if fd := s.findFunc(pr, "Proba.TrueOnProba"); fd != nil {
				ast.Inspect(fd.Body, func(n ast.Node) bool {
					if a, ok := n.(*ast.AssignStmt); ok && len(a.Lhs) == 1 && s.src(a.Lhs[0]) == "truth" && len(a.Rhs) == 1 {
						tp = a.Rhs[0]
					}
					return true
				})
			}
			c01EmitCmp(s, e, "trueOnProbaCond", "TrueOnProba: truth =", "(draw proba : Rat)", tp,
				map[string]string{"p.r.Float64()": "draw", "proba": "proba"}, nil)
		}
		// rolling window: span()'s range check and updateOffset's early return
		{
			conds := c01IfConds(s, rw, "RollingWindow.updateOffset")
			var x ast.Expr
			if len(conds) >= 1 {
				x = conds[0]
			}
			c01EmitCmp(s, e, "rwUpdateOffsetSkip", "updateOffset: nothing to do iff", "(span : Int)", x,
				map[string]string{"span": "span"}, nil)
		}
		// ---- typed effect programs: the order of accept / mark / defer / request / return, run by Tie.lean's interpreter
		e.printf("%s", c01TokDecl)
		c01Prog(s, e, gb, "googleBreaker.accept", "progAccept", -1)
		c01Prog(s, e, gb, "googleBreaker.doReq", "progDoReq", -1)
		c01Prog(s, e, gb, "googleBreaker.allow", "progAllow", -1)
		c01Prog(s, e, rh, "BreakerHandler", "progRestHandler", 2)
		c01Wrapper(s, e, br, "loggedThrottle.doReq", "loggedDoReq")
		c01Prog(s, e, br, "loggedThrottle.logError", "progLogError", -1)
		c01Prog(s, e, br, "loggedThrottle.allow", "progLoggedAllow", -1)
		c01Prog(s, e, br, "promiseWithReason.Accept", "progPromiseAccept", -1)
		c01Prog(s, e, br, "promiseWithReason.Reject", "progPromiseReject", -1)
		// ---- typed forwards: entry point -> … -> doReq(req, fallback, acceptable), and the breaker call of every site
		e.printf("%s", c01FwdDecl)
		for _, fn := range []string{"Do", "DoCtx", "DoWithAcceptable", "DoWithAcceptableCtx", "DoWithFallback", "DoWithFallbackCtx",
			"DoWithFallbackAcceptable", "DoWithFallbackAcceptableCtx"} {
			c01Fwd(s, e, br, "circuitBreaker."+fn, "fwdCb"+fn, 1, "cb.")
			c01Fwd(s, e, "core/breaker/breakers.go", fn, "fwdPkg"+fn, 1, "b.")
		}
		c01Fwd(s, e, rb, "breakerHook.ProcessHook", "siteCallRedisProcess", 1, "h.brk.")
		c01Fwd(s, e, rb, "breakerHook.ProcessPipelineHook", "siteCallRedisPipeline", 1, "h.brk.")
		c01Fwd(s, e, zc, "BreakerInterceptor", "siteCallZrpcClient", 1, "breaker.")
		c01Fwd(s, e, zs, "UnaryBreakerInterceptor", "siteCallZrpcServerUnary", 1, "breaker.")
		c01Fwd(s, e, zs, "StreamBreakerInterceptor", "siteCallZrpcServerStream", 1, "breaker.")
		c01Fwd(s, e, sq, "commonSqlConn.ExecCtx", "siteCallSqlExec", 1, "db.brk.")
		c01Fwd(s, e, sq, "commonSqlConn.PrepareCtx", "siteCallSqlPrepare", 1, "db.brk.")
		c01Fwd(s, e, sq, "commonSqlConn.TransactCtx", "siteCallSqlTransact", 1, "db.brk.")
		c01Fwd(s, e, sq, "commonSqlConn.queryRows", "siteCallSqlQueryRows", 1, "db.brk.")
		c01Fwd(s, e, st, "statement.ExecCtx", "siteCallStmtExec", 1, "s.brk.")
		c01Fwd(s, e, st, "statement.queryRows", "siteCallStmtQueryRows", 1, "s.brk.")
		// breakers.go
		const bs = "core/breaker/breakers.go"
		e.shapeDef(s, bs, "GetBreaker", "getBreakerShape")
		c01Stmts(s, e, bs, "GetBreaker", "getBreakerStmts")
		c01Stmts(s, e, bs, "do", "breakersLookupStmts")
		for _, fn := range []string{"Do", "DoCtx", "DoWithAcceptable", "DoWithAcceptableCtx", "DoWithFallback", "DoWithFallbackCtx",
			"DoWithFallbackAcceptable", "DoWithFallbackAcceptableCtx"} {
			c01Stmts(s, e, bs, fn, "breakers"+fn+"Stmts")
		}
	})
}
