package main

// A tiny Go -> Lean translator for straight-line integer code and if-chains.
//
// Supported subset (anything else makes the translation fail loudly, which the caller
// turns into a marker that breaks the Tie obligation):
//   expressions: identifiers, selectors (a.b.c), integer literals, + - * / %, unary -, !,
//                comparisons, && ||, parentheses, numeric conversions int(x)/int64(x)/time.Duration(x),
//                len(x), calls of already translated functions of the same receiver
//   statements:  x := e | x = e | x++ | x-- | a.b = e (effect) | f(...) (effect "call:f")
//                if / else if / else (a branch that does not end in return falls through to the
//                statements after the if) | return [exprs]
// Integer semantics: Lean `Int` with Go's truncating `/` (Int.tdiv) and `%` (Int.tmod).
// Overflow is not modelled (the modelled quantities are slot indices, counters, milliseconds).
//
// A function is translated either as a *value function* (returns its results as a tuple) or as an
// *effect function* (returns the list of (assigned location, value) pairs and opaque calls it
// performs, in order) - the latter for methods that mutate their receiver.

import (
	"fmt"
	"go/ast"
	"go/token"
	"sort"
	"strings"
)

type transFunc struct {
	leanName string
	explicit []string // explicit parameters (Lean names)
	implicit []string // free variables (receiver fields, globals) in order of first use
	implBool map[string]bool
	nres     int
}

type translator struct {
	registry map[string]*transFunc // go method/function name -> translation
	consts   map[string]string     // known constant identifiers -> Lean int literal
}

type tctx struct {
	t        *translator
	recv     string            // receiver identifier (dropped from selector names)
	locals   map[string]bool   // locally bound names (params, :=, named results)
	free     []string          // free variables in order of first appearance
	freeSet  map[string]bool
	boolVars map[string]bool
	effects  bool
	results  []string // named results
}

var globalSrc *source

type transErr struct{ msg string }

func failf(format string, a ...any) { panic(transErr{fmt.Sprintf(format, a...)}) }

func leanIdent(s string) string {
	s = strings.ReplaceAll(s, ".", "_")
	switch s {
	case "end", "at", "from", "to", "in", "do", "then", "else", "if", "fun", "let", "have", "show", "open", "local", "prefix", "instance", "structure", "class", "def", "theorem", "example", "where", "with", "match", "by", "max", "min":
		return s + "'"
	}
	return s
}

func (c *tctx) selName(e ast.Expr) (string, bool) {
	switch x := e.(type) {
	case *ast.Ident:
		return x.Name, true
	case *ast.SelectorExpr:
		base, ok := c.selName(x.X)
		if !ok {
			return "", false
		}
		if base == c.recv {
			return x.Sel.Name, true
		}
		return base + "." + x.Sel.Name, true
	}
	return "", false
}

func (c *tctx) useVar(name string, isBool bool) string {
	ln := leanIdent(name)
	root := name
	if i := strings.IndexByte(name, '.'); i >= 0 {
		root = name[:i]
	}
	if c.locals[name] {
		return ln
	}
	if v, ok := c.t.consts[name]; ok {
		return v
	}
	_ = root
	if !c.freeSet[ln] {
		c.freeSet[ln] = true
		c.free = append(c.free, ln)
	}
	if isBool {
		c.boolVars[ln] = true
	}
	return ln
}

func isConv(name string) bool {
	switch name {
	case "int", "int64", "int32", "uint64", "uint32", "uint", "time.Duration", "float64":
		return true
	}
	return false
}

// expr translates an expression; wantBool says whether a boolean is expected.
func (c *tctx) expr(e ast.Expr, wantBool bool) string {
	switch x := e.(type) {
	case *ast.ParenExpr:
		return c.expr(x.X, wantBool)
	case *ast.BasicLit:
		if x.Kind == token.INT {
			return x.Value
		}
		failf("unsupported literal %s", x.Value)
	case *ast.Ident:
		if x.Name == "true" || x.Name == "false" {
			return x.Name
		}
		return c.useVar(x.Name, wantBool)
	case *ast.SelectorExpr:
		n, ok := c.selName(x)
		if !ok {
			failf("unsupported selector")
		}
		return c.useVar(n, wantBool)
	case *ast.UnaryExpr:
		switch x.Op {
		case token.SUB:
			return "(-" + c.expr(x.X, false) + ")"
		case token.NOT:
			return "(!" + c.expr(x.X, true) + ")"
		}
		failf("unsupported unary %s", x.Op)
	case *ast.BinaryExpr:
		switch x.Op {
		case token.ADD, token.SUB, token.MUL:
			return "(" + c.expr(x.X, false) + " " + x.Op.String() + " " + c.expr(x.Y, false) + ")"
		case token.QUO:
			return "(Int.tdiv " + c.expr(x.X, false) + " " + c.expr(x.Y, false) + ")"
		case token.REM:
			return "(Int.tmod " + c.expr(x.X, false) + " " + c.expr(x.Y, false) + ")"
		case token.LSS, token.LEQ, token.GTR, token.GEQ, token.EQL, token.NEQ:
			op := map[token.Token]string{token.LSS: "<", token.LEQ: "≤", token.GTR: ">", token.GEQ: "≥", token.EQL: "=", token.NEQ: "≠"}[x.Op]
			return "(decide (" + c.expr(x.X, false) + " " + op + " " + c.expr(x.Y, false) + "))"
		case token.LAND:
			return "(" + c.expr(x.X, true) + " && " + c.expr(x.Y, true) + ")"
		case token.LOR:
			return "(" + c.expr(x.X, true) + " || " + c.expr(x.Y, true) + ")"
		}
		failf("unsupported binary %s", x.Op)
	case *ast.CallExpr:
		fn, ok := c.selName(x.Fun)
		if !ok {
			failf("unsupported call")
		}
		if isConv(fn) && len(x.Args) == 1 {
			return c.expr(x.Args[0], false)
		}
		if fn == "len" && len(x.Args) == 1 {
			n, ok := c.selName(x.Args[0])
			if !ok {
				failf("unsupported len argument")
			}
			return c.useVar("len."+n, false)
		}
		if tf, ok := c.t.registry[fn]; ok {
			if len(x.Args) != len(tf.explicit) {
				failf("arity mismatch calling %s", fn)
			}
			parts := []string{tf.leanName}
			for _, a := range x.Args {
				parts = append(parts, c.expr(a, false))
			}
			for _, iv := range tf.implicit {
				// the callee's free variables are free variables of the caller too
				if !c.locals[iv] && !c.freeSet[iv] {
					c.freeSet[iv] = true
					c.free = append(c.free, iv)
					if tf.implBool[iv] {
						c.boolVars[iv] = true
					}
				}
				parts = append(parts, iv)
			}
			return "(" + strings.Join(parts, " ") + ")"
		}
		failf("call of untranslated function %s", fn)
	}
	failf("unsupported expression %T", e)
	return ""
}

func endsInReturn(b *ast.BlockStmt) bool {
	if len(b.List) == 0 {
		return false
	}
	switch s := b.List[len(b.List)-1].(type) {
	case *ast.ReturnStmt:
		return true
	case *ast.IfStmt:
		if s.Else == nil {
			return false
		}
		if !endsInReturn(s.Body) {
			return false
		}
		switch e := s.Else.(type) {
		case *ast.BlockStmt:
			return endsInReturn(e)
		case *ast.IfStmt:
			return endsInReturn(&ast.BlockStmt{List: []ast.Stmt{e}})
		}
	}
	return false
}

// stmts translates a statement list in "continuation" style; acc is the Lean expression of the
// effects accumulated so far (effect mode).
func (c *tctx) stmts(list []ast.Stmt, acc []string, indent string) string {
	if len(list) == 0 {
		return indent + c.finish(nil, acc)
	}
	s, rest := list[0], list[1:]
	switch x := s.(type) {
	case *ast.AssignStmt:
		if len(x.Lhs) == len(x.Rhs) {
			out := ""
			newAcc := acc
			for i := range x.Lhs {
				name, ok := c.selName(x.Lhs[i])
				if !ok {
					failf("unsupported assignment target")
				}
				var rhs string
				switch x.Tok {
				case token.DEFINE, token.ASSIGN:
					if id, ok := x.Rhs[i].(*ast.Ident); ok && (id.Name == "true" || id.Name == "false") {
						rhs = map[string]string{"true": "1", "false": "0"}[id.Name]
					} else if r, ok := c.tryExpr(x.Rhs[i]); ok {
						rhs = r
					} else if c.effects && x.Tok == token.DEFINE {
						// value outside the integer subset (composite literal, pointer, ...): opaque local
						c.locals[name] = true
						continue
					} else {
						rhs = c.expr(x.Rhs[i], false)
					}
				case token.ADD_ASSIGN:
					rhs = "(" + c.expr(x.Lhs[i], false) + " + " + c.expr(x.Rhs[i], false) + ")"
				case token.SUB_ASSIGN:
					rhs = "(" + c.expr(x.Lhs[i], false) + " - " + c.expr(x.Rhs[i], false) + ")"
				default:
					failf("unsupported assignment op %s", x.Tok)
				}
				if x.Tok == token.DEFINE || c.locals[name] {
					c.locals[name] = true
					out += indent + "let " + leanIdent(name) + " : Int := " + rhs + "\n"
				} else {
					if !c.effects {
						failf("assignment to non-local %s in value function", name)
					}
					newAcc = append(append([]string{}, newAcc...), fmt.Sprintf("(%q, %s)", name, rhs))
				}
			}
			return out + c.stmts(rest, newAcc, indent)
		}
		if len(x.Rhs) == 1 {
			// multi-value call: results become opaque inputs
			if _, ok := x.Rhs[0].(*ast.CallExpr); ok {
				call := x.Rhs[0].(*ast.CallExpr)
				fn, _ := c.selName(call.Fun)
				if tf, ok := c.t.registry[fn]; ok && tf.nres == len(x.Lhs) {
					callS := c.expr(call, false)
					out := indent + "let __r := " + callS + "\n"
					for i := range x.Lhs {
						name, _ := c.selName(x.Lhs[i])
						c.locals[name] = true
						proj := fmt.Sprintf("__r.%d", i+1)
						if len(x.Lhs) > 2 {
							failf("more than two results")
						}
						out += indent + "let " + leanIdent(name) + " : Int := " + proj + "\n"
					}
					return out + c.stmts(rest, acc, indent)
				}
			}
		}
		failf("unsupported multi-assignment")
	case *ast.IncDecStmt:
		name, ok := c.selName(x.X)
		if !ok {
			failf("unsupported incdec target")
		}
		op := "+"
		if x.Tok == token.DEC {
			op = "-"
		}
		rhs := "(" + c.expr(x.X, false) + " " + op + " 1)"
		if c.locals[name] {
			return indent + "let " + leanIdent(name) + " : Int := " + rhs + "\n" + c.stmts(rest, acc, indent)
		}
		if !c.effects {
			failf("incdec of non-local in value function")
		}
		return c.stmts(rest, append(append([]string{}, acc...), fmt.Sprintf("(%q, %s)", name, rhs)), indent)
	case *ast.ExprStmt:
		call, ok := x.X.(*ast.CallExpr)
		if !ok || !c.effects {
			failf("unsupported expression statement")
		}
		fn, ok := c.selName(call.Fun)
		if !ok {
			fn = globalSrc.src(call.Fun)
		}
		var args []string
		for _, a := range call.Args {
			args = append(args, c.opaqueOrExpr(a))
		}
		eff := fmt.Sprintf("(%q, 0)", "call:"+fn+"("+strings.Join(args, ",")+")")
		return c.stmts(rest, append(append([]string{}, acc...), eff), indent)
	case *ast.ReturnStmt:
		return indent + c.finish(x, acc)
	case *ast.IfStmt:
		if x.Init != nil {
			failf("if with init statement")
		}
		cond := c.expr(x.Cond, true)
		thenList := append(append([]ast.Stmt{}, x.Body.List...), contIfNeeded(x.Body, rest)...)
		saved := copyLocals(c.locals)
		thenS := c.stmts(thenList, acc, indent+"  ")
		c.locals = copyLocals(saved)
		var elseS string
		switch e := x.Else.(type) {
		case nil:
			elseS = c.stmts(rest, acc, indent+"  ")
		case *ast.BlockStmt:
			elseList := append(append([]ast.Stmt{}, e.List...), contIfNeeded(e, rest)...)
			elseS = c.stmts(elseList, acc, indent+"  ")
		case *ast.IfStmt:
			elseS = c.stmts(append([]ast.Stmt{e}, rest...), acc, indent+"  ")
		}
		c.locals = saved
		return indent + "if " + cond + " then\n" + thenS + "\n" + indent + "else\n" + elseS
	}
	failf("unsupported statement %T", s)
	return ""
}

func (c *tctx) tryExpr(e ast.Expr) (s string, ok bool) {
	savedFree := append([]string{}, c.free...)
	savedSet := map[string]bool{}
	for k, v := range c.freeSet {
		savedSet[k] = v
	}
	defer func() {
		if p := recover(); p != nil {
			if _, is := p.(transErr); is {
				c.free, c.freeSet = savedFree, savedSet
				s, ok = "", false
				return
			}
			panic(p)
		}
	}()
	return c.expr(e, false), true
}

// opaqueOrExpr renders a call argument: translated if it is in the integer subset, else its name.
func (c *tctx) opaqueOrExpr(e ast.Expr) (s string) {
	if n, ok := c.selName(e); ok {
		return n
	}
	return "_"
}

func contIfNeeded(b *ast.BlockStmt, rest []ast.Stmt) []ast.Stmt {
	if endsInReturn(b) {
		return nil
	}
	return rest
}

func copyLocals(m map[string]bool) map[string]bool {
	n := make(map[string]bool, len(m))
	for k, v := range m {
		n[k] = v
	}
	return n
}

func (c *tctx) finish(ret *ast.ReturnStmt, acc []string) string {
	if c.effects {
		return "[" + strings.Join(acc, ", ") + "]"
	}
	var vals []string
	if ret != nil && len(ret.Results) > 0 {
		for _, r := range ret.Results {
			vals = append(vals, c.expr(r, false))
		}
	} else {
		for _, r := range c.results {
			vals = append(vals, leanIdent(r))
		}
	}
	if len(vals) == 0 {
		failf("value function without results")
	}
	if len(vals) == 1 {
		return vals[0]
	}
	return "(" + strings.Join(vals, ", ") + ")"
}

// translateFunc translates fd (optionally only the statements from index `from` on) into a Lean
// definition named leanName. On failure it returns a definition that keeps the file compiling
// and a marker, so that the Tie obligation (not the build of unrelated modules) fails.
func (t *translator) translateFunc(fd *ast.FuncDecl, goName, leanName string, effects bool, from int, extraLocals []string) (def string, err error) {
	defer func() {
		if p := recover(); p != nil {
			if te, ok := p.(transErr); ok {
				err = fmt.Errorf("%s: %s", goName, te.msg)
				def = fmt.Sprintf("/-- TRANSLATION FAILED: %s -/\ndef %s : Unit := ()\n", te.msg, leanName)
				return
			}
			panic(p)
		}
	}()
	c := &tctx{t: t, locals: map[string]bool{}, freeSet: map[string]bool{}, boolVars: map[string]bool{}, effects: effects}
	if fd.Recv != nil && len(fd.Recv.List) == 1 && len(fd.Recv.List[0].Names) == 1 {
		c.recv = fd.Recv.List[0].Names[0].Name
	}
	var explicit []string
	for _, f := range fd.Type.Params.List {
		for _, n := range f.Names {
			// struct-typed parameters are accessed through selectors and become free variables
			if id, ok := f.Type.(*ast.Ident); ok && (id.Name == "int" || id.Name == "int64" || id.Name == "int32" || id.Name == "uint64") {
				c.locals[n.Name] = true
				explicit = append(explicit, leanIdent(n.Name))
			} else if sel, ok := f.Type.(*ast.SelectorExpr); ok && sel.Sel.Name == "Duration" {
				c.locals[n.Name] = true
				explicit = append(explicit, leanIdent(n.Name))
			}
		}
	}
	nres := 0
	if fd.Type.Results != nil {
		for _, f := range fd.Type.Results.List {
			if len(f.Names) == 0 {
				nres++
			}
			for _, n := range f.Names {
				nres++
				c.results = append(c.results, n.Name)
				c.locals[n.Name] = true
			}
		}
	}
	for _, l := range extraLocals {
		c.locals[l] = false
	}
	body := c.stmts(fd.Body.List[from:], nil, "  ")
	// named results start at zero
	pre := ""
	if from == 0 {
		for _, r := range c.results {
			pre += "  let " + leanIdent(r) + " : Int := 0\n"
		}
	}
	var params []string
	for _, p := range explicit {
		params = append(params, "("+p+" : Int)")
	}
	for _, f := range c.free {
		ty := "Int"
		if c.boolVars[f] {
			ty = "Bool"
		}
		params = append(params, "("+f+" : "+ty+")")
	}
	retTy := "Int"
	if effects {
		retTy = "List (String × Int)"
	} else if nres == 2 {
		retTy = "Int × Int"
	} else if nres != 1 {
		failf("unsupported number of results %d", nres)
	}
	def = fmt.Sprintf("def %s %s : %s :=\n%s%s\n", leanName, strings.Join(params, " "), retTy, pre, body)
	implBool := map[string]bool{}
	for k, v := range c.boolVars {
		implBool[k] = v
	}
	t.registry[goName] = &transFunc{leanName: leanName, explicit: explicit, implicit: append([]string{}, c.free...), implBool: implBool, nres: nres}
	return def, nil
}

func sortedKeys(m map[string]string) []string {
	var ks []string
	for k := range m {
		ks = append(ks, k)
	}
	sort.Strings(ks)
	return ks
}
