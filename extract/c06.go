package main

import (
	"fmt"
	"go/ast"
	"go/constant"
	"strings"
)

// c06SwitchTable emits, for a function whose body is `switch x { case C: return V, true … default: return 0, false }`,
// the list of (C, V) pairs as Lean `List (Int × Int)` (constants evaluated) and the default's source.
func c06SwitchTable(s *source, e *emitter, rel, goName, lean string) {
	fd := s.findFunc(rel, goName)
	var rows []string
	dflt := "MISSING"
	ok := fd != nil && len(fd.Body.List) == 1
	if ok {
		sw, isSw := fd.Body.List[0].(*ast.SwitchStmt)
		ok = isSw
		if isSw {
			for _, c := range sw.Body.List {
				cc := c.(*ast.CaseClause)
				if len(cc.Body) != 1 {
					ok = false
					break
				}
				ret, isRet := cc.Body[0].(*ast.ReturnStmt)
				if !isRet || len(ret.Results) != 2 {
					ok = false
					break
				}
				if cc.List == nil {
					dflt = s.src(ret)
					continue
				}
				if len(cc.List) != 1 || s.src(ret.Results[1]) != "true" {
					ok = false
					break
				}
				k, ok1 := s.eval(rel, cc.List[0])
				v, ok2 := s.eval(rel, ret.Results[0])
				if !ok1 || !ok2 || k.Kind() != constant.Int || v.Kind() != constant.Int {
					ok = false
					break
				}
				rows = append(rows, fmt.Sprintf("(%s, %s)", k.ExactString(), v.ExactString()))
			}
		}
	}
	if !ok {
		e.errors = append(e.errors, fmt.Sprintf("%s in %s is not a constant switch table", goName, rel))
		rows = nil
	}
	e.printf("/-- case table of `%s` in %s (nanoseconds) -/\ndef %s : List (Int × Int) := [%s]\n\n", goName, rel, lean, strings.Join(rows, ", "))
	e.printf("/-- default case of `%s` -/\ndef %sDefault : String := %s\n\n", goName, lean, leanString(dflt))
}

// c06Facts emits the source text (whitespace-normalised) of every return statement and of every call whose
// callee's last selector is in `calls`, in syntactic order: what is returned where, and the arguments of the
// calls that carry the property (which key, which expiry, which delay).
func c06Facts(s *source, e *emitter, rel, goName, lean string, calls ...string) {
	fd := s.findFunc(rel, goName)
	if fd == nil {
		e.errors = append(e.errors, fmt.Sprintf("function %s not found in %s", goName, rel))
		e.stringList(lean, "MISSING: "+goName, []string{"MISSING"})
		return
	}
	want := map[string]bool{}
	for _, c := range calls {
		want[c] = true
	}
	var out []string
	ast.Inspect(fd.Body, func(n ast.Node) bool {
		switch x := n.(type) {
		case *ast.ReturnStmt:
			out = append(out, s.src(x))
		case *ast.CallExpr:
			name := ""
			switch f := x.Fun.(type) {
			case *ast.SelectorExpr:
				name = f.Sel.Name
			case *ast.Ident:
				name = f.Name
			}
			if want[name] {
				if _, isLit := x.Fun.(*ast.FuncLit); !isLit {
					// print the call without the bodies of function literals passed to it
					args := make([]string, len(x.Args))
					for i, a := range x.Args {
						if _, fl := a.(*ast.FuncLit); fl {
							args[i] = "func{…}"
						} else {
							args[i] = s.src(a)
						}
					}
					out = append(out, "call "+s.src(x.Fun)+"("+strings.Join(args, ", ")+")")
				}
			}
		}
		return true
	})
	e.stringList(lean, "returns and property-carrying calls of `"+goName+"` in "+rel, out)
}

// c06FactsOptional is c06Facts for a function that may not exist (a helper introduced by a proposed fix):
// an absent function yields the empty list, not an extraction error.
func c06FactsOptional(s *source, e *emitter, rel, goName, lean string, calls ...string) {
	if s.findFunc(rel, goName) == nil {
		e.stringList(lean, "`"+goName+"` does not exist in "+rel, nil)
		return
	}
	c06Facts(s, e, rel, goName, lean, calls...)
}

// c06IndexAssigns emits the source of every assignment whose left side is an index expression (map / slice
// element): what is stored under which key.
func c06IndexAssigns(s *source, e *emitter, rel, goName, lean string) {
	fd := s.findFunc(rel, goName)
	if fd == nil {
		e.errors = append(e.errors, fmt.Sprintf("function %s not found in %s", goName, rel))
		e.stringList(lean, "MISSING: "+goName, []string{"MISSING"})
		return
	}
	var out []string
	ast.Inspect(fd.Body, func(n ast.Node) bool {
		if as, ok := n.(*ast.AssignStmt); ok {
			for _, l := range as.Lhs {
				if _, isIdx := l.(*ast.IndexExpr); isIdx {
					out = append(out, s.src(as))
					break
				}
			}
		}
		return true
	})
	e.stringList(lean, "assignments to map / slice elements in `"+goName+"` in "+rel, out)
}

// c06Head emits the source of the statements of a function that come before the first statement starting
// with `untilPrefix` (how the state the translated tail works on is initialised).
func c06Head(s *source, e *emitter, rel, goName, lean, untilPrefix string) {
	fd := s.findFunc(rel, goName)
	if fd == nil {
		e.errors = append(e.errors, fmt.Sprintf("function %s not found in %s", goName, rel))
		e.stringList(lean, "MISSING: "+goName, []string{"MISSING"})
		return
	}
	var out []string
	found := false
	for _, st := range fd.Body.List {
		if strings.HasPrefix(s.src(st), untilPrefix) {
			found = true
			break
		}
		out = append(out, s.src(st))
	}
	if !found {
		e.errors = append(e.errors, fmt.Sprintf("%s: statement %q not found", goName, untilPrefix))
		out = []string{"MISSING"}
	}
	e.stringList(lean, "statements of `"+goName+"` in "+rel+" before `"+untilPrefix+"`", out)
}

// c06Assigns emits the source of every assignment in a function (function literals included).
func c06Assigns(s *source, e *emitter, rel, goName, lean string) {
	fd := s.findFunc(rel, goName)
	if fd == nil {
		e.errors = append(e.errors, fmt.Sprintf("function %s not found in %s", goName, rel))
		e.stringList(lean, "MISSING: "+goName, []string{"MISSING"})
		return
	}
	var out []string
	ast.Inspect(fd.Body, func(n ast.Node) bool {
		if as, ok := n.(*ast.AssignStmt); ok {
			out = append(out, s.src(as))
		}
		return true
	})
	e.stringList(lean, "assignments in `"+goName+"` in "+rel, out)
}

func init() {
	register("C06", func(s *source, e *emitter) {
		const node = "core/stores/cache/cachenode.go"
		const opt = "core/stores/cache/cacheopt.go"
		const cleaner = "core/stores/cache/cleaner.go"
		const sqlc = "core/stores/sqlc/cachedsql.go"
		const unstable = "core/mathx/unstable.go"
		e.constDef(s, node, "notFoundPlaceholder", "notFoundPlaceholder")
		e.constDef(s, node, "expiryDeviation", "expiryDeviation")
		e.constDef(s, opt, "defaultExpiry", "defaultExpiry")
		e.constDef(s, opt, "defaultNotFoundExpiry", "defaultNotFoundExpiry")
		e.constDef(s, sqlc, "cacheSafeGapBetweenIndexAndPrimary", "safeGap")
		c06SwitchTable(s, e, cleaner, "nextDelay", "nextDelayTable")
		e.shapeDef(s, opt, "newOptions", "newOptionsShape")
		// round 3: newOptions itself — the zero-initialised Options, the loop applying the given options, and the
		// two sanity checks translated into an Int function (comparison operators, constants, which field gets
		// which default); the two option constructors (which field an option assigns)
		tr := &translator{registry: map[string]*transFunc{}, consts: map[string]string{}}
		e.translated(tr, s, opt, "newOptions", "newOptionsTail", true, "if o.Expiry")
		c06Head(s, e, opt, "newOptions", "newOptionsHead", "if o.Expiry")
		c06Assigns(s, e, opt, "WithExpiry", "withExpiryAssigns")
		c06Assigns(s, e, opt, "WithNotFoundExpiry", "withNotFoundExpiryAssigns")
		// round 3: IsNotFound (the configured errNotFound decides) and the context-free wrappers of the node, the
		// cluster and CachedConn (monc uses Get / Set; each must hand the same key / value / expiry / query on)
		c06Facts(s, e, node, "cacheNode.IsNotFound", "isNotFoundFacts", "Is")
		c06Facts(s, e, "core/stores/cache/cache.go", "cacheCluster.IsNotFound", "clusterIsNotFoundFacts", "Is")
		for _, w := range []string{"Del", "Get", "Set", "SetWithExpire", "Take", "TakeWithExpire"} {
			c06Facts(s, e, node, "cacheNode."+w, "nodeW"+w+"Facts", w+"Ctx")
			c06Facts(s, e, "core/stores/cache/cache.go", "cacheCluster."+w, "clusterW"+w+"Facts", w+"Ctx")
		}
		for _, w := range []string{"DelCache", "GetCache", "Exec", "QueryRow", "QueryRowIndex", "SetCache", "SetCacheWithExpire"} {
			c06Facts(s, e, sqlc, "CachedConn."+w, "sqlcW"+w+"Facts", w+"Ctx")
		}
		e.shapeDef(s, node, "cacheNode.doGetCache", "doGetCacheShape")
		e.shapeDef(s, node, "cacheNode.doTake", "doTakeShape")
		e.shapeDef(s, node, "cacheNode.processCache", "processCacheShape")
		e.shapeDef(s, node, "cacheNode.DelCtx", "delShape")
		e.shapeDef(s, cleaner, "clean", "cleanShape")
		e.shapeDef(s, sqlc, "CachedConn.ExecCtx", "execShape")
		e.shapeDef(s, sqlc, "CachedConn.QueryRowIndexCtx", "queryRowIndexShape")
		const flight = "core/syncx/singleflight.go"
		e.shapeDef(s, flight, "flightGroup.DoEx", "doExShape")
		e.shapeDef(s, flight, "flightGroup.createCall", "createCallShape")
		e.shapeDef(s, flight, "flightGroup.makeCall", "makeCallShape")
		c06Facts(s, e, opt, "newOptions", "newOptionsFacts")
		c06Facts(s, e, node, "NewNode", "newNodeFacts", "NewUnstable")
		c06Facts(s, e, node, "cacheNode.doGetCache", "doGetCacheFacts", "GetCtx", "processCache")
		c06Facts(s, e, node, "cacheNode.doTake", "doTakeFacts", "DoEx", "doGetCache", "query", "setCacheWithNotFound", "cacheVal")
		c06Facts(s, e, node, "cacheNode.processCache", "processCacheFacts", "DelCtx")
		c06Facts(s, e, node, "cacheNode.setCacheWithNotFound", "setCacheWithNotFoundFacts", "aroundDuration", "Ceil", "SetnxExCtx", "ttlSeconds")
		c06Facts(s, e, node, "cacheNode.SetWithExpireCtx", "setWithExpireFacts", "aroundDuration", "Ceil", "SetexCtx", "ttlSeconds")
		c06FactsOptional(s, e, node, "ttlSeconds", "ttlSecondsFacts", "Ceil")
		if fd := s.findFunc(node, "ttlSeconds"); fd != nil {
			e.stringList("ttlSecondsShape", "statement skeleton of `ttlSeconds` in "+node, s.shape(fd))
		} else {
			e.stringList("ttlSecondsShape", "`ttlSeconds` does not exist in "+node, nil)
		}
		c06Facts(s, e, node, "cacheNode.SetCtx", "setFacts", "aroundDuration", "SetWithExpireCtx")
		c06Facts(s, e, node, "cacheNode.TakeCtx", "takeFacts", "doTake", "SetCtx")
		c06Facts(s, e, node, "cacheNode.TakeWithExpireCtx", "takeWithExpireFacts", "aroundDuration", "doTake", "query", "SetWithExpireCtx")
		c06Facts(s, e, node, "cacheNode.GetCtx", "getFacts", "doGetCache")
		c06Facts(s, e, node, "cacheNode.DelCtx", "delFacts", "DelCtx", "asyncRetryDelCache")
		c06Facts(s, e, node, "cacheNode.asyncRetryDelCache", "asyncRetryFacts", "AddCleanTask", "Del")
		c06Facts(s, e, node, "cacheNode.aroundDuration", "aroundDurationFacts", "AroundDuration")
		c06Facts(s, e, cleaner, "AddCleanTask", "addCleanTaskFacts", "SetTimer")
		c06Facts(s, e, cleaner, "clean", "cleanFacts", "Schedule", "task", "nextDelay", "SetTimer")
		c06Facts(s, e, cleaner, "init", "cleanerInitFacts", "NewTimingWheel")
		c06Facts(s, e, sqlc, "CachedConn.ExecCtx", "execFacts", "exec", "DelCacheCtx")
		c06Facts(s, e, sqlc, "CachedConn.DelCacheCtx", "delCacheFacts", "DelCtx")
		c06Facts(s, e, sqlc, "CachedConn.QueryRowCtx", "queryRowFacts", "TakeCtx", "query")
		c06Facts(s, e, sqlc, "CachedConn.QueryRowIndexCtx", "queryRowIndexFacts", "TakeWithExpireCtx", "indexQuery", "SetWithExpireCtx", "keyer", "TakeCtx", "primaryQuery")
		c06Facts(s, e, sqlc, "NewNodeConn", "newNodeConnFacts", "NewNode")
		c06Facts(s, e, unstable, "Unstable.AroundDuration", "aroundFacts", "Duration", "Float64")
		c06Facts(s, e, unstable, "NewUnstable", "newUnstableFacts")
		// round 2: the cluster layer (consistent-hash dispatch per key, DelCtx grouping by node), its
		// constructors, the shared result of a flight, and the monc call sites of the same cache.Cache
		const cluster = "core/stores/cache/cache.go"
		const rds = "core/stores/redis/redis.go"
		const monc = "core/stores/monc/cachedmodel.go"
		e.constDef(s, rds, "ClusterType", "redisClusterType")
		e.constDef(s, rds, "NodeType", "redisNodeType")
		e.shapeDef(s, cluster, "New", "newShape")
		e.shapeDef(s, cluster, "cacheCluster.DelCtx", "clusterDelShape")
		c06Facts(s, e, cluster, "New", "newFacts", "TotalWeights", "NewNode", "MustNewRedis", "NewConsistentHash", "AddWithWeight")
		c06Facts(s, e, cluster, "cacheCluster.DelCtx", "clusterDelFacts", "Get", "DelCtx", "Add", "Err")
		c06IndexAssigns(s, e, cluster, "cacheCluster.DelCtx", "clusterDelGroups")
		c06Facts(s, e, cluster, "cacheCluster.GetCtx", "clusterGetFacts", "Get", "GetCtx")
		c06Facts(s, e, cluster, "cacheCluster.SetCtx", "clusterSetFacts", "Get", "SetCtx")
		c06Facts(s, e, cluster, "cacheCluster.SetWithExpireCtx", "clusterSetWithExpireFacts", "Get", "SetWithExpireCtx")
		c06Facts(s, e, cluster, "cacheCluster.TakeCtx", "clusterTakeFacts", "Get", "TakeCtx")
		c06Facts(s, e, cluster, "cacheCluster.TakeWithExpireCtx", "clusterTakeWithExpireFacts", "Get", "TakeWithExpireCtx")
		c06Facts(s, e, sqlc, "NewConn", "newConnFacts", "New")
		c06Facts(s, e, sqlc, "CachedConn.GetCacheCtx", "getCacheFacts", "GetCtx")
		c06Facts(s, e, sqlc, "CachedConn.SetCacheCtx", "setCacheFacts", "SetCtx")
		c06Facts(s, e, sqlc, "CachedConn.SetCacheWithExpireCtx", "setCacheWithExpireFacts", "SetWithExpireCtx")
		c06Facts(s, e, flight, "flightGroup.DoEx", "doExFacts", "createCall", "makeCall")
		c06Facts(s, e, flight, "flightGroup.makeCall", "makeCallFacts", "fn", "Done")
		c06Facts(s, e, flight, "flightGroup.createCall", "createCallFacts", "Wait", "Add")
		c06Facts(s, e, monc, "NewModel", "moncNewModelFacts", "New")
		c06Facts(s, e, monc, "NewNodeModel", "moncNewNodeModelFacts", "NewNode")
		c06Facts(s, e, monc, "Model.DelCache", "moncDelCacheFacts", "DelCtx")
		c06Facts(s, e, monc, "Model.GetCache", "moncGetCacheFacts", "Get")
		c06Facts(s, e, monc, "Model.SetCache", "moncSetCacheFacts", "Set")
		c06Facts(s, e, monc, "Model.FindOne", "moncFindOneFacts", "TakeCtx", "FindOne")
		for _, w := range []string{"DeleteOne", "FindOneAndDelete", "FindOneAndReplace", "FindOneAndUpdate", "InsertOne",
			"ReplaceOne", "UpdateByID", "UpdateMany", "UpdateOne"} {
			c06Facts(s, e, monc, "Model."+w, "monc"+w+"Facts", w, "DelCache")
		}
	})
}
