package main

import (
	"fmt"
	"go/ast"
	"go/constant"
	"go/parser"
	"go/token"
	"os"
	"path/filepath"
	"sort"
	"strings"
)

// ---------------------------------------------------------------------------------------------------------
// round 4: a small expression translator (Go condition / arithmetic expression -> Lean term), the classification
// of the barrier argument of the constructors, and the if-conditions of a function.

type c06Tr struct {
	s      *source
	rel    string
	consts map[string]string // source text of an expression -> Lean literal (constants of other packages)
	types  map[string]string // Lean name of a free variable -> Lean type (default: dflt)
	dflt   string
	free   []string
	err    string
}

func (t *c06Tr) v(name string) string {
	n := leanIdent(strings.NewReplacer(".", "_", "(", "_", ")", "").Replace(name))
	for _, f := range t.free {
		if f == n {
			return n
		}
	}
	t.free = append(t.free, n)
	return n
}

func (t *c06Tr) lit(v constant.Value) (string, bool) {
	switch v.Kind() {
	case constant.Int:
		return "(" + v.ExactString() + " : " + t.dflt + ")", true
	case constant.Float:
		if t.dflt == "Rat" {
			r := v.ExactString() // num/den or integer
			if i := strings.IndexByte(r, '/'); i >= 0 {
				return "((" + r[:i] + " : Rat) / " + r[i+1:] + ")", true
			}
			return "(" + r + " : Rat)", true
		}
	case constant.String:
		return leanString(constant.StringVal(v)), true
	}
	return "", false
}

func (t *c06Tr) expr(e ast.Expr) string {
	if c, ok := t.consts[t.s.src(e)]; ok {
		return c
	}
	switch x := e.(type) {
	case *ast.ParenExpr:
		return "(" + t.expr(x.X) + ")"
	case *ast.BasicLit:
		if l, ok := t.lit(constant.MakeFromLiteral(x.Value, x.Kind, 0)); ok {
			return l
		}
	case *ast.Ident:
		switch x.Name {
		case "true", "false":
			return x.Name
		}
		if v, ok := t.s.constValue(t.rel, x.Name); ok {
			if l, ok := t.lit(v); ok {
				return l
			}
		}
		return t.v(x.Name)
	case *ast.SelectorExpr:
		return t.v(t.s.src(x))
	case *ast.CallExpr:
		fn := t.s.src(x.Fun)
		switch fn {
		case "float64", "int", "int64", "time.Duration":
			// numeric conversions are the identity on the exact value (truncation is the caller's business)
			if len(x.Args) == 1 {
				return t.expr(x.Args[0])
			}
		}
		simple := true
		names := []string{fn}
		for _, a := range x.Args {
			if id, ok := a.(*ast.Ident); ok {
				names = append(names, id.Name)
			} else {
				simple = false
			}
		}
		if simple {
			return t.v(strings.Join(names, "_"))
		}
	case *ast.UnaryExpr:
		switch x.Op {
		case token.NOT:
			return "(!" + t.expr(x.X) + ")"
		case token.SUB:
			return "(-" + t.expr(x.X) + ")"
		}
	case *ast.BinaryExpr:
		a, b := t.expr(x.X), t.expr(x.Y)
		switch x.Op {
		case token.ADD, token.SUB, token.MUL:
			return "(" + a + " " + x.Op.String() + " " + b + ")"
		case token.LSS, token.GTR, token.LEQ, token.GEQ:
			op := map[token.Token]string{token.LSS: "<", token.GTR: ">", token.LEQ: "≤", token.GEQ: "≥"}[x.Op]
			return "(decide (" + a + " " + op + " " + b + "))"
		case token.EQL:
			return "(" + a + " == " + b + ")"
		case token.NEQ:
			return "(" + a + " != " + b + ")"
		case token.LAND:
			return "(" + a + " && " + b + ")"
		case token.LOR:
			return "(" + a + " || " + b + ")"
		}
	}
	t.err = "cannot translate `" + t.s.src(e) + "`"
	return "default"
}

// c06ExprDef emits `def <lean> (free variables) : <ret> := <translated expr>`; the free variables (receiver fields,
// parameters, len(x), calls on plain identifiers) become parameters in order of first use.
func c06ExprDef(s *source, e *emitter, rel, lean, ret, dflt, doc string, ex ast.Expr, consts, types map[string]string) {
	if ex == nil {
		e.errors = append(e.errors, lean+": expression not found ("+doc+")")
		e.printf("/-- MISSING %s -/\ndef %s : Unit := ()\n\n", doc, lean)
		return
	}
	t := &c06Tr{s: s, rel: rel, consts: consts, types: types, dflt: dflt}
	body := t.expr(ex)
	if t.err != "" {
		e.errors = append(e.errors, lean+": "+t.err)
		e.printf("/-- UNTRANSLATABLE %s -/\ndef %s : Unit := ()\n\n", doc, lean)
		return
	}
	var ps []string
	for _, f := range t.free {
		ty := dflt
		if x, ok := types[f]; ok {
			ty = x
		}
		ps = append(ps, "("+f+" : "+ty+")")
	}
	e.printf("/-- %s: `%s` -/\ndef %s %s : %s := %s\n\n", doc, s.src(ex), lean, strings.Join(ps, " "), ret, body)
}

// c06Conds returns the conditions of the if statements of a function in source order.
func c06Conds(fd *ast.FuncDecl) []ast.Expr {
	var out []ast.Expr
	if fd == nil {
		return nil
	}
	ast.Inspect(fd.Body, func(n ast.Node) bool {
		if i, ok := n.(*ast.IfStmt); ok {
			out = append(out, i.Cond)
		}
		return true
	})
	return out
}

func c06Cond(s *source, rel, goName string, idx int) ast.Expr {
	cs := c06Conds(s.findFunc(rel, goName))
	if idx < len(cs) {
		return cs[idx]
	}
	return nil
}

// c06FirstCallArg returns the single argument of the first call of `fun` (source text) in a function.
func c06FirstCallArg(s *source, rel, goName, fun string) ast.Expr {
	fd := s.findFunc(rel, goName)
	if fd == nil {
		return nil
	}
	var out ast.Expr
	ast.Inspect(fd.Body, func(n ast.Node) bool {
		if c, ok := n.(*ast.CallExpr); ok && out == nil && s.src(c.Fun) == fun && len(c.Args) == 1 {
			out = c.Args[0]
		}
		return true
	})
	return out
}

// c06PkgWrites counts, over the non-test files of the package directory of rel, the places where the package-level
// identifier `name` is written after its declaration: assignments, := shadowing, ++/--, & (address taken).
func c06PkgWrites(rel, name string) int {
	dir := filepath.Join(*repo, filepath.Dir(rel))
	ents, err := os.ReadDir(dir)
	if err != nil {
		return -1
	}
	n := 0
	fset := token.NewFileSet()
	for _, en := range ents {
		if en.IsDir() || !strings.HasSuffix(en.Name(), ".go") || strings.HasSuffix(en.Name(), "_test.go") {
			continue
		}
		f, err := parser.ParseFile(fset, filepath.Join(dir, en.Name()), nil, parser.SkipObjectResolution)
		if err != nil {
			return -1
		}
		ast.Inspect(f, func(nd ast.Node) bool {
			switch x := nd.(type) {
			case *ast.AssignStmt:
				for _, l := range x.Lhs {
					if id, ok := l.(*ast.Ident); ok && id.Name == name {
						n++
					}
				}
			case *ast.IncDecStmt:
				if id, ok := x.X.(*ast.Ident); ok && id.Name == name {
					n++
				}
			case *ast.UnaryExpr:
				if id, ok := x.X.(*ast.Ident); ok && x.Op == token.AND && id.Name == name {
					n++
				}
			}
			return true
		})
	}
	return n
}

// c06Classify says where a value handed on by a constructor comes from:
//   param:<p>                     a parameter of the function
//   pkgvar:<v>=<init>             a package-level variable of the file, initialised once with <init>, never written again
//   pkgvar-written:<v>            … that is written somewhere else in the package
//   expr:<src>                    anything else (e.g. a fresh syncx.NewSingleFlight())
func c06Classify(s *source, rel string, fd *ast.FuncDecl, a ast.Expr) string {
	id, ok := a.(*ast.Ident)
	if !ok {
		return "expr:" + s.src(a)
	}
	for _, f := range fd.Type.Params.List {
		for _, n := range f.Names {
			if n.Name == id.Name {
				return "param:" + id.Name
			}
		}
	}
	local := false
	ast.Inspect(fd.Body, func(n ast.Node) bool {
		if as, ok := n.(*ast.AssignStmt); ok && as.Tok == token.DEFINE {
			for _, l := range as.Lhs {
				if li, ok := l.(*ast.Ident); ok && li.Name == id.Name {
					local = true
				}
			}
		}
		return true
	})
	if local {
		return "expr:local " + id.Name
	}
	if f := s.file(rel); f != nil {
		for _, d := range f.Decls {
			gd, ok := d.(*ast.GenDecl)
			if !ok || gd.Tok != token.VAR {
				continue
			}
			for _, sp := range gd.Specs {
				vs := sp.(*ast.ValueSpec)
				for i, n := range vs.Names {
					if n.Name == id.Name && i < len(vs.Values) {
						if c06PkgWrites(rel, id.Name) != 0 {
							return "pkgvar-written:" + id.Name
						}
						return "pkgvar:" + id.Name + "=" + s.src(vs.Values[i])
					}
				}
			}
		}
	}
	return "expr:" + id.Name
}

// c06CallArgClass classifies argument number `arg` of every call of `callee` (last selector) in a function.
func c06CallArgClass(s *source, e *emitter, rel, goName, callee string, arg int) []string {
	fd := s.findFunc(rel, goName)
	if fd == nil {
		e.errors = append(e.errors, fmt.Sprintf("function %s not found in %s", goName, rel))
		return []string{"MISSING"}
	}
	var out []string
	ast.Inspect(fd.Body, func(n ast.Node) bool {
		if c, ok := n.(*ast.CallExpr); ok {
			name := ""
			switch f := c.Fun.(type) {
			case *ast.SelectorExpr:
				name = f.Sel.Name
			case *ast.Ident:
				name = f.Name
			}
			if name == callee && arg < len(c.Args) {
				out = append(out, c06Classify(s, rel, fd, c.Args[arg]))
			}
		}
		return true
	})
	return out
}

// c06LitFieldClass classifies the value of field `field` in every composite literal of type `typ` in a function.
func c06LitFieldClass(s *source, e *emitter, rel, goName, typ, field string) []string {
	fd := s.findFunc(rel, goName)
	if fd == nil {
		e.errors = append(e.errors, fmt.Sprintf("function %s not found in %s", goName, rel))
		return []string{"MISSING"}
	}
	var out []string
	ast.Inspect(fd.Body, func(n ast.Node) bool {
		if cl, ok := n.(*ast.CompositeLit); ok && cl.Type != nil && s.src(cl.Type) == typ {
			for _, el := range cl.Elts {
				if kv, ok := el.(*ast.KeyValueExpr); ok && s.src(kv.Key) == field {
					out = append(out, c06Classify(s, rel, fd, kv.Value))
				}
			}
		}
		return true
	})
	return out
}

// c06CallArgSpread is c06CallArgClass for a variadic tail: the class of argument number `arg` of every call of
// `callee`, followed by "..." when the call spreads it (f(a, opts...)); a call that has no such argument yields
// "absent" (the options are dropped).
func c06CallArgSpread(s *source, e *emitter, rel, goName, callee string, arg int) []string {
	fd := s.findFunc(rel, goName)
	if fd == nil {
		e.errors = append(e.errors, fmt.Sprintf("function %s not found in %s", goName, rel))
		return []string{"MISSING"}
	}
	var out []string
	ast.Inspect(fd.Body, func(n ast.Node) bool {
		if c, ok := n.(*ast.CallExpr); ok {
			name := ""
			switch f := c.Fun.(type) {
			case *ast.SelectorExpr:
				name = f.Sel.Name
			case *ast.Ident:
				name = f.Name
			}
			if name == callee {
				switch {
				case arg >= len(c.Args):
					out = append(out, "absent")
				case c.Ellipsis.IsValid() && arg == len(c.Args)-1:
					out = append(out, c06Classify(s, rel, fd, c.Args[arg])+"...")
				default:
					out = append(out, c06Classify(s, rel, fd, c.Args[arg]))
				}
			}
		}
		return true
	})
	return out
}

// c06AllocClass classifies how a function obtains the object it assigns to the local `name`: "fresh" for
// new(T) / &T{…} (an object nobody else holds), otherwise "other:<source>" (a pool, a cache, a parameter …).
// Only plain assignments `name = …` / `name := …` with one value are looked at; the `if c, ok := m[k]` lookups
// (two results) are not allocations.
func c06AllocClass(s *source, e *emitter, rel, goName, name string) []string {
	fd := s.findFunc(rel, goName)
	if fd == nil {
		e.errors = append(e.errors, fmt.Sprintf("function %s not found in %s", goName, rel))
		return []string{"MISSING"}
	}
	var out []string
	ast.Inspect(fd.Body, func(n ast.Node) bool {
		as, ok := n.(*ast.AssignStmt)
		if !ok || len(as.Lhs) != 1 || len(as.Rhs) != 1 {
			return true
		}
		if id, ok := as.Lhs[0].(*ast.Ident); !ok || id.Name != name {
			return true
		}
		switch r := as.Rhs[0].(type) {
		case *ast.CallExpr:
			if f, ok := r.Fun.(*ast.Ident); ok && f.Name == "new" && len(r.Args) == 1 {
				out = append(out, "fresh")
				return true
			}
		case *ast.UnaryExpr:
			if _, ok := r.X.(*ast.CompositeLit); ok && r.Op == token.AND {
				out = append(out, "fresh")
				return true
			}
		}
		out = append(out, "other:"+s.src(as.Rhs[0]))
		return true
	})
	return out
}

// c06ArgUses lists, over ALL functions of a file, the calls that receive the identifier `name` as an argument
// (`<func>:<callee>`): where an object is handed to someone else (a pool's Put, a channel send wrapper, …).
func c06ArgUses(s *source, e *emitter, rel, name string) []string {
	f := s.file(rel)
	if f == nil {
		e.errors = append(e.errors, "file not found: "+rel)
		return []string{"MISSING"}
	}
	var out []string
	for _, d := range f.Decls {
		fd, ok := d.(*ast.FuncDecl)
		if !ok || fd.Body == nil {
			continue
		}
		ast.Inspect(fd.Body, func(n ast.Node) bool {
			if c, ok := n.(*ast.CallExpr); ok {
				for _, a := range c.Args {
					if id, ok := a.(*ast.Ident); ok && id.Name == name {
						out = append(out, fd.Name.Name+":"+s.src(c.Fun))
					}
				}
			}
			return true
		})
	}
	return out
}

// c06DeferredCtx classifies the context of every call on `recv` (e.g. "c.rds") inside the function literals that
// `goName` hands to `sink` (work that runs later, outside the caller's request):
//   background        a context-free method <M> whose body is `return s.<M>Ctx(context.Background(), …)` in relFree,
//                     or an explicit context.Background() / context.TODO() first argument
//   captured:<name>   an identifier from the enclosing function (the caller's ctx)
//   other:<src>       anything else
func c06DeferredCtx(s *source, e *emitter, rel, goName, sink, recv, relFree, recvTypeFree string) []string {
	fd := s.findFunc(rel, goName)
	if fd == nil {
		e.errors = append(e.errors, fmt.Sprintf("function %s not found in %s", goName, rel))
		return []string{"MISSING"}
	}
	var out []string
	ast.Inspect(fd.Body, func(n ast.Node) bool {
		c, ok := n.(*ast.CallExpr)
		if !ok {
			return true
		}
		name := ""
		switch f := c.Fun.(type) {
		case *ast.SelectorExpr:
			name = f.Sel.Name
		case *ast.Ident:
			name = f.Name
		}
		if name != sink {
			return true
		}
		for _, a := range c.Args {
			fl, ok := a.(*ast.FuncLit)
			if !ok {
				continue
			}
			ast.Inspect(fl.Body, func(m ast.Node) bool {
				ic, ok := m.(*ast.CallExpr)
				if !ok {
					return true
				}
				sel, ok := ic.Fun.(*ast.SelectorExpr)
				if !ok || s.src(sel.X) != recv {
					return true
				}
				if strings.HasSuffix(sel.Sel.Name, "Ctx") && len(ic.Args) > 0 {
					switch src := s.src(ic.Args[0]); {
					case src == "context.Background()" || src == "context.TODO()":
						out = append(out, "background")
					default:
						if id, ok := ic.Args[0].(*ast.Ident); ok {
							out = append(out, "captured:"+id.Name)
						} else {
							out = append(out, "other:"+src)
						}
					}
					return true
				}
				// a context-free method: background iff its body hands context.Background() to the Ctx form
				free := s.findFunc(relFree, recvTypeFree+"."+sel.Sel.Name)
				cls := "other:" + s.src(ic.Fun)
				if free != nil && len(free.Body.List) == 1 {
					if rs, ok := free.Body.List[0].(*ast.ReturnStmt); ok && len(rs.Results) == 1 {
						if fc, ok := rs.Results[0].(*ast.CallExpr); ok && len(fc.Args) > 0 &&
							s.src(fc.Args[0]) == "context.Background()" && strings.HasSuffix(s.src(fc.Fun), "."+sel.Sel.Name+"Ctx") {
							cls = "background"
						}
					}
				}
				out = append(out, cls)
				return true
			})
		}
		return true
	})
	return out
}

// c06Decoders lists, in source order, the JSON decoders a function calls: every call whose selector name starts
// with "Unmarshal", as `<qualifier>.<name>` (jsonx.Unmarshal and json.Unmarshal are different callees).
func c06Decoders(s *source, e *emitter, rel, goName string) []string {
	fd := s.findFunc(rel, goName)
	if fd == nil {
		e.errors = append(e.errors, fmt.Sprintf("function %s not found in %s", goName, rel))
		return []string{"MISSING"}
	}
	var out []string
	ast.Inspect(fd.Body, func(n ast.Node) bool {
		if c, ok := n.(*ast.CallExpr); ok {
			if sel, ok := c.Fun.(*ast.SelectorExpr); ok && strings.HasPrefix(sel.Sel.Name, "Unmarshal") {
				out = append(out, s.src(sel.X)+"."+sel.Sel.Name)
			}
		}
		return true
	})
	return out
}

func c06Pairs(e *emitter, lean, doc string, keys []string, vals map[string][]string) {
	sort.Strings(keys)
	var rows []string
	for _, k := range keys {
		// every classification `kind:rest` as the two strings kind, rest
		var parts []string
		for _, v := range vals[k] {
			if i := strings.IndexByte(v, ':'); i >= 0 {
				parts = append(parts, v[:i], v[i+1:])
			} else {
				parts = append(parts, v)
			}
		}
		rows = append(rows, fmt.Sprintf("(%s, [%s])", leanString(k), strings.Join(c06Map(parts, leanString), ", ")))
	}
	e.printf("/-- %s -/\ndef %s : List (String × List String) := [%s]\n\n", doc, lean, strings.Join(rows, ", "))
}

func c06Map(l []string, f func(string) string) []string {
	out := make([]string, len(l))
	for i, x := range l {
		out[i] = f(x)
	}
	return out
}

// c06SwitchTable emits, for a function whose body is `switch x { case C: return V, true … default: return 0, false }`,
// the list of (C, V) pairs as Lean `List (Int × Int)` (constants evaluated) and the default's source.
func c06SwitchTable(s *source, e *emitter, rel, goName, lean string) {
	fd := s.findFunc(rel, goName)
	var rows []string
	dflt := "MISSING"
	ok := fd != nil && len(fd.Body.List) == 1
	if ok {
		sw, isSw := fd.Body.List[0].(*ast.SwitchStmt)
		ok = isSw
		if isSw {
			for _, c := range sw.Body.List {
				cc := c.(*ast.CaseClause)
				if len(cc.Body) != 1 {
					ok = false
					break
				}
				ret, isRet := cc.Body[0].(*ast.ReturnStmt)
				if !isRet || len(ret.Results) != 2 {
					ok = false
					break
				}
				if cc.List == nil {
					dflt = s.src(ret)
					continue
				}
				if len(cc.List) != 1 || s.src(ret.Results[1]) != "true" {
					ok = false
					break
				}
				k, ok1 := s.eval(rel, cc.List[0])
				v, ok2 := s.eval(rel, ret.Results[0])
				if !ok1 || !ok2 || k.Kind() != constant.Int || v.Kind() != constant.Int {
					ok = false
					break
				}
				rows = append(rows, fmt.Sprintf("(%s, %s)", k.ExactString(), v.ExactString()))
			}
		}
	}
	if !ok {
		e.errors = append(e.errors, fmt.Sprintf("%s in %s is not a constant switch table", goName, rel))
		rows = nil
	}
	e.printf("/-- case table of `%s` in %s (nanoseconds) -/\ndef %s : List (Int × Int) := [%s]\n\n", goName, rel, lean, strings.Join(rows, ", "))
	e.printf("/-- default case of `%s` -/\ndef %sDefault : String := %s\n\n", goName, lean, leanString(dflt))
}

// c06Facts emits the source text (whitespace-normalised) of every return statement and of every call whose
// callee's last selector is in `calls`, in syntactic order: what is returned where, and the arguments of the
// calls that carry the property (which key, which expiry, which delay).
func c06Facts(s *source, e *emitter, rel, goName, lean string, calls ...string) {
	fd := s.findFunc(rel, goName)
	if fd == nil {
		e.errors = append(e.errors, fmt.Sprintf("function %s not found in %s", goName, rel))
		e.stringList(lean, "MISSING: "+goName, []string{"MISSING"})
		return
	}
	want := map[string]bool{}
	for _, c := range calls {
		want[c] = true
	}
	var out []string
	ast.Inspect(fd.Body, func(n ast.Node) bool {
		switch x := n.(type) {
		case *ast.ReturnStmt:
			out = append(out, s.src(x))
		case *ast.CallExpr:
			name := ""
			switch f := x.Fun.(type) {
			case *ast.SelectorExpr:
				name = f.Sel.Name
			case *ast.Ident:
				name = f.Name
			}
			if want[name] {
				if _, isLit := x.Fun.(*ast.FuncLit); !isLit {
					// print the call without the bodies of function literals passed to it
					args := make([]string, len(x.Args))
					for i, a := range x.Args {
						if _, fl := a.(*ast.FuncLit); fl {
							args[i] = "func{…}"
						} else {
							args[i] = s.src(a)
						}
					}
					out = append(out, "call "+s.src(x.Fun)+"("+strings.Join(args, ", ")+")")
				}
			}
		}
		return true
	})
	e.stringList(lean, "returns and property-carrying calls of `"+goName+"` in "+rel, out)
}

// c06FactsOptional is c06Facts for a function that may not exist (a helper introduced by a proposed fix):
// an absent function yields the empty list, not an extraction error.
func c06FactsOptional(s *source, e *emitter, rel, goName, lean string, calls ...string) {
	if s.findFunc(rel, goName) == nil {
		e.stringList(lean, "`"+goName+"` does not exist in "+rel, nil)
		return
	}
	c06Facts(s, e, rel, goName, lean, calls...)
}

// c06IndexAssigns emits the source of every assignment whose left side is an index expression (map / slice
// element): what is stored under which key.
func c06IndexAssigns(s *source, e *emitter, rel, goName, lean string) {
	fd := s.findFunc(rel, goName)
	if fd == nil {
		e.errors = append(e.errors, fmt.Sprintf("function %s not found in %s", goName, rel))
		e.stringList(lean, "MISSING: "+goName, []string{"MISSING"})
		return
	}
	var out []string
	ast.Inspect(fd.Body, func(n ast.Node) bool {
		if as, ok := n.(*ast.AssignStmt); ok {
			for _, l := range as.Lhs {
				if _, isIdx := l.(*ast.IndexExpr); isIdx {
					out = append(out, s.src(as))
					break
				}
			}
		}
		return true
	})
	e.stringList(lean, "assignments to map / slice elements in `"+goName+"` in "+rel, out)
}

// c06Head emits the source of the statements of a function that come before the first statement starting
// with `untilPrefix` (how the state the translated tail works on is initialised).
func c06Head(s *source, e *emitter, rel, goName, lean, untilPrefix string) {
	fd := s.findFunc(rel, goName)
	if fd == nil {
		e.errors = append(e.errors, fmt.Sprintf("function %s not found in %s", goName, rel))
		e.stringList(lean, "MISSING: "+goName, []string{"MISSING"})
		return
	}
	var out []string
	found := false
	for _, st := range fd.Body.List {
		if strings.HasPrefix(s.src(st), untilPrefix) {
			found = true
			break
		}
		out = append(out, s.src(st))
	}
	if !found {
		e.errors = append(e.errors, fmt.Sprintf("%s: statement %q not found", goName, untilPrefix))
		out = []string{"MISSING"}
	}
	e.stringList(lean, "statements of `"+goName+"` in "+rel+" before `"+untilPrefix+"`", out)
}

// c06Assigns emits the source of every assignment in a function (function literals included).
func c06Assigns(s *source, e *emitter, rel, goName, lean string) {
	fd := s.findFunc(rel, goName)
	if fd == nil {
		e.errors = append(e.errors, fmt.Sprintf("function %s not found in %s", goName, rel))
		e.stringList(lean, "MISSING: "+goName, []string{"MISSING"})
		return
	}
	var out []string
	ast.Inspect(fd.Body, func(n ast.Node) bool {
		if as, ok := n.(*ast.AssignStmt); ok {
			out = append(out, s.src(as))
		}
		return true
	})
	e.stringList(lean, "assignments in `"+goName+"` in "+rel, out)
}

func init() {
	register("C06", func(s *source, e *emitter) {
		const node = "core/stores/cache/cachenode.go"
		const opt = "core/stores/cache/cacheopt.go"
		const cleaner = "core/stores/cache/cleaner.go"
		const sqlc = "core/stores/sqlc/cachedsql.go"
		const unstable = "core/mathx/unstable.go"
		e.constDef(s, node, "notFoundPlaceholder", "notFoundPlaceholder")
		e.constDef(s, node, "expiryDeviation", "expiryDeviation")
		e.constDef(s, opt, "defaultExpiry", "defaultExpiry")
		e.constDef(s, opt, "defaultNotFoundExpiry", "defaultNotFoundExpiry")
		e.constDef(s, sqlc, "cacheSafeGapBetweenIndexAndPrimary", "safeGap")
		c06SwitchTable(s, e, cleaner, "nextDelay", "nextDelayTable")
		e.shapeDef(s, opt, "newOptions", "newOptionsShape")
		// round 3: newOptions itself — the zero-initialised Options, the loop applying the given options, and the
		// two sanity checks translated into an Int function (comparison operators, constants, which field gets
		// which default); the two option constructors (which field an option assigns)
		tr := &translator{registry: map[string]*transFunc{}, consts: map[string]string{}}
		e.translated(tr, s, opt, "newOptions", "newOptionsTail", true, "if o.Expiry")
		c06Head(s, e, opt, "newOptions", "newOptionsHead", "if o.Expiry")
		c06Assigns(s, e, opt, "WithExpiry", "withExpiryAssigns")
		c06Assigns(s, e, opt, "WithNotFoundExpiry", "withNotFoundExpiryAssigns")
		// round 3: IsNotFound (the configured errNotFound decides) and the context-free wrappers of the node, the
		// cluster and CachedConn (monc uses Get / Set; each must hand the same key / value / expiry / query on)
		c06Facts(s, e, node, "cacheNode.IsNotFound", "isNotFoundFacts", "Is")
		c06Facts(s, e, "core/stores/cache/cache.go", "cacheCluster.IsNotFound", "clusterIsNotFoundFacts", "Is")
		for _, w := range []string{"Del", "Get", "Set", "SetWithExpire", "Take", "TakeWithExpire"} {
			c06Facts(s, e, node, "cacheNode."+w, "nodeW"+w+"Facts", w+"Ctx")
			c06Facts(s, e, "core/stores/cache/cache.go", "cacheCluster."+w, "clusterW"+w+"Facts", w+"Ctx")
		}
		for _, w := range []string{"DelCache", "GetCache", "Exec", "QueryRow", "QueryRowIndex", "SetCache", "SetCacheWithExpire"} {
			c06Facts(s, e, sqlc, "CachedConn."+w, "sqlcW"+w+"Facts", w+"Ctx")
		}
		e.shapeDef(s, node, "cacheNode.doGetCache", "doGetCacheShape")
		e.shapeDef(s, node, "cacheNode.doTake", "doTakeShape")
		e.shapeDef(s, node, "cacheNode.processCache", "processCacheShape")
		e.shapeDef(s, node, "cacheNode.DelCtx", "delShape")
		e.shapeDef(s, cleaner, "clean", "cleanShape")
		e.shapeDef(s, sqlc, "CachedConn.ExecCtx", "execShape")
		e.shapeDef(s, sqlc, "CachedConn.QueryRowIndexCtx", "queryRowIndexShape")
		const flight = "core/syncx/singleflight.go"
		e.shapeDef(s, flight, "flightGroup.DoEx", "doExShape")
		e.shapeDef(s, flight, "flightGroup.createCall", "createCallShape")
		e.shapeDef(s, flight, "flightGroup.makeCall", "makeCallShape")
		c06Facts(s, e, opt, "newOptions", "newOptionsFacts")
		c06Facts(s, e, node, "NewNode", "newNodeFacts", "NewUnstable")
		c06Facts(s, e, node, "cacheNode.doGetCache", "doGetCacheFacts", "GetCtx", "processCache")
		c06Facts(s, e, node, "cacheNode.doTake", "doTakeFacts", "DoEx", "doGetCache", "query", "setCacheWithNotFound", "cacheVal")
		c06Facts(s, e, node, "cacheNode.processCache", "processCacheFacts", "DelCtx")
		c06Facts(s, e, node, "cacheNode.setCacheWithNotFound", "setCacheWithNotFoundFacts", "aroundDuration", "Ceil", "SetnxExCtx", "ttlSeconds")
		c06Facts(s, e, node, "cacheNode.SetWithExpireCtx", "setWithExpireFacts", "aroundDuration", "Ceil", "SetexCtx", "ttlSeconds")
		c06FactsOptional(s, e, node, "ttlSeconds", "ttlSecondsFacts", "Ceil")
		if fd := s.findFunc(node, "ttlSeconds"); fd != nil {
			e.stringList("ttlSecondsShape", "statement skeleton of `ttlSeconds` in "+node, s.shape(fd))
		} else {
			e.stringList("ttlSecondsShape", "`ttlSeconds` does not exist in "+node, nil)
		}
		c06Facts(s, e, node, "cacheNode.SetCtx", "setFacts", "aroundDuration", "SetWithExpireCtx")
		c06Facts(s, e, node, "cacheNode.TakeCtx", "takeFacts", "doTake", "SetCtx")
		c06Facts(s, e, node, "cacheNode.TakeWithExpireCtx", "takeWithExpireFacts", "aroundDuration", "doTake", "query", "SetWithExpireCtx")
		c06Facts(s, e, node, "cacheNode.GetCtx", "getFacts", "doGetCache")
		c06Facts(s, e, node, "cacheNode.DelCtx", "delFacts", "DelCtx", "asyncRetryDelCache")
		c06Facts(s, e, node, "cacheNode.asyncRetryDelCache", "asyncRetryFacts", "AddCleanTask", "Del")
		c06Facts(s, e, node, "cacheNode.aroundDuration", "aroundDurationFacts", "AroundDuration")
		c06Facts(s, e, cleaner, "AddCleanTask", "addCleanTaskFacts", "SetTimer")
		c06Facts(s, e, cleaner, "clean", "cleanFacts", "Schedule", "task", "nextDelay", "SetTimer")
		c06Facts(s, e, cleaner, "init", "cleanerInitFacts", "NewTimingWheel")
		c06Facts(s, e, sqlc, "CachedConn.ExecCtx", "execFacts", "exec", "DelCacheCtx")
		c06Facts(s, e, sqlc, "CachedConn.DelCacheCtx", "delCacheFacts", "DelCtx")
		c06Facts(s, e, sqlc, "CachedConn.QueryRowCtx", "queryRowFacts", "TakeCtx", "query")
		c06Facts(s, e, sqlc, "CachedConn.QueryRowIndexCtx", "queryRowIndexFacts", "TakeWithExpireCtx", "indexQuery", "SetWithExpireCtx", "keyer", "TakeCtx", "primaryQuery")
		c06Facts(s, e, sqlc, "NewNodeConn", "newNodeConnFacts", "NewNode")
		c06Facts(s, e, unstable, "Unstable.AroundDuration", "aroundFacts", "Duration", "Float64")
		c06Facts(s, e, unstable, "NewUnstable", "newUnstableFacts")
		// round 2: the cluster layer (consistent-hash dispatch per key, DelCtx grouping by node), its
		// constructors, the shared result of a flight, and the monc call sites of the same cache.Cache
		const cluster = "core/stores/cache/cache.go"
		const rds = "core/stores/redis/redis.go"
		const monc = "core/stores/monc/cachedmodel.go"
		e.constDef(s, rds, "ClusterType", "redisClusterType")
		e.constDef(s, rds, "NodeType", "redisNodeType")
		e.shapeDef(s, cluster, "New", "newShape")
		e.shapeDef(s, cluster, "cacheCluster.DelCtx", "clusterDelShape")
		c06Facts(s, e, cluster, "New", "newFacts", "TotalWeights", "NewNode", "MustNewRedis", "NewConsistentHash", "AddWithWeight")
		c06Facts(s, e, cluster, "cacheCluster.DelCtx", "clusterDelFacts", "Get", "DelCtx", "Add", "Err")
		c06IndexAssigns(s, e, cluster, "cacheCluster.DelCtx", "clusterDelGroups")
		c06Facts(s, e, cluster, "cacheCluster.GetCtx", "clusterGetFacts", "Get", "GetCtx")
		c06Facts(s, e, cluster, "cacheCluster.SetCtx", "clusterSetFacts", "Get", "SetCtx")
		c06Facts(s, e, cluster, "cacheCluster.SetWithExpireCtx", "clusterSetWithExpireFacts", "Get", "SetWithExpireCtx")
		c06Facts(s, e, cluster, "cacheCluster.TakeCtx", "clusterTakeFacts", "Get", "TakeCtx")
		c06Facts(s, e, cluster, "cacheCluster.TakeWithExpireCtx", "clusterTakeWithExpireFacts", "Get", "TakeWithExpireCtx")
		c06Facts(s, e, sqlc, "NewConn", "newConnFacts", "New")
		c06Facts(s, e, sqlc, "CachedConn.GetCacheCtx", "getCacheFacts", "GetCtx")
		c06Facts(s, e, sqlc, "CachedConn.SetCacheCtx", "setCacheFacts", "SetCtx")
		c06Facts(s, e, sqlc, "CachedConn.SetCacheWithExpireCtx", "setCacheWithExpireFacts", "SetWithExpireCtx")
		c06Facts(s, e, flight, "flightGroup.DoEx", "doExFacts", "createCall", "makeCall")
		c06Facts(s, e, flight, "flightGroup.makeCall", "makeCallFacts", "fn", "Done")
		c06Facts(s, e, flight, "flightGroup.createCall", "createCallFacts", "Wait", "Add")
		c06Facts(s, e, monc, "NewModel", "moncNewModelFacts", "New")
		c06Facts(s, e, monc, "NewNodeModel", "moncNewNodeModelFacts", "NewNode")
		c06Facts(s, e, monc, "Model.DelCache", "moncDelCacheFacts", "DelCtx")
		c06Facts(s, e, monc, "Model.GetCache", "moncGetCacheFacts", "Get")
		c06Facts(s, e, monc, "Model.SetCache", "moncSetCacheFacts", "Set")
		c06Facts(s, e, monc, "Model.FindOne", "moncFindOneFacts", "TakeCtx", "FindOne")
		for _, w := range []string{"DeleteOne", "FindOneAndDelete", "FindOneAndReplace", "FindOneAndUpdate", "InsertOne",
			"ReplaceOne", "UpdateByID", "UpdateMany", "UpdateOne"} {
			c06Facts(s, e, monc, "Model."+w, "monc"+w+"Facts", w, "DelCache")
		}
		// round 4: several instances — where the barrier of every constructor comes from (classified, not as text):
		// the shared-barrier constructors hand the package-level variable on (initialised once, never written again),
		// cache.New hands its parameter to every NewNode, NewNode stores its parameter, the with-cache constructors
		// keep the cache they are given
		c06Pairs(e, "sqlcCtorBarriers", "barrier argument of the cache constructor called by each sqlc constructor", []string{"NewConn", "NewNodeConn"},
			map[string][]string{"NewConn": c06CallArgClass(s, e, sqlc, "NewConn", "New", 1), "NewNodeConn": c06CallArgClass(s, e, sqlc, "NewNodeConn", "NewNode", 1)})
		c06Pairs(e, "moncCtorBarriers", "barrier argument of the cache constructor called by each monc constructor", []string{"NewModel", "NewNodeModel"},
			map[string][]string{"NewModel": c06CallArgClass(s, e, monc, "NewModel", "New", 1), "NewNodeModel": c06CallArgClass(s, e, monc, "NewNodeModel", "NewNode", 1)})
		e.stringList("cacheNewBarrierArgs", "barrier argument of every NewNode call in cache.New", c06CallArgClass(s, e, cluster, "New", "NewNode", 1))
		e.stringList("newNodeBarrierField", "value of the field `barrier` of the cacheNode literal in NewNode", c06LitFieldClass(s, e, node, "NewNode", "cacheNode", "barrier"))
		e.stringList("newConnWithCacheField", "value of the field `cache` of the CachedConn literal in NewConnWithCache", c06LitFieldClass(s, e, sqlc, "NewConnWithCache", "CachedConn", "cache"))
		e.stringList("newConnPassesCache", "cache argument of NewConnWithCache in NewConn / NewNodeConn",
			append(c06CallArgClass(s, e, sqlc, "NewConn", "NewConnWithCache", 1), c06CallArgClass(s, e, sqlc, "NewNodeConn", "NewConnWithCache", 1)...))
		e.stringList("moncNewModelField", "value of the field `cache` of the Model literal in newModel", c06LitFieldClass(s, e, monc, "newModel", "Model", "cache"))
		e.stringList("moncWithCachePasses", "cache argument handed on by NewModelWithCache / NewModel / NewNodeModel",
			append(append(c06CallArgClass(s, e, monc, "NewModelWithCache", "newModel", 3), c06CallArgClass(s, e, monc, "NewModel", "NewModelWithCache", 3)...),
				c06CallArgClass(s, e, monc, "NewNodeModel", "NewModelWithCache", 3)...))
		c06Facts(s, e, monc, "MustNewModel", "moncMustNewModelFacts", "NewModel")
		c06Facts(s, e, monc, "MustNewNodeModel", "moncMustNewNodeModelFacts", "NewNodeModel")
		c06Facts(s, e, flight, "NewSingleFlight", "newSingleFlightFacts")
		// round 5: the call OBJECT of a flight (how createCall obtains it, who else gets hold of it) and the
		// forwarding of the caller's options at every hop constructor -> cache.New / cache.NewNode -> newOptions
		e.stringList("createCallAlloc", "how flightGroup.createCall obtains the call object it registers", c06AllocClass(s, e, flight, "flightGroup.createCall", "c"))
		e.stringList("callObjectHandedTo", "calls in "+flight+" that receive the call object `c` as an argument", c06ArgUses(s, e, flight, "c"))
		c06Pairs(e, "optsForwarding", "the options argument at every constructor hop (class of the value, `...` = spread)",
			[]string{"cache.New", "cache.NewNode", "sqlc.NewConn", "sqlc.NewNodeConn", "monc.NewModel", "monc.NewNodeModel", "monc.MustNewModel", "monc.MustNewNodeModel"},
			map[string][]string{
				"cache.New":               c06CallArgSpread(s, e, cluster, "New", "NewNode", 4),
				"cache.NewNode":           c06CallArgSpread(s, e, node, "NewNode", "newOptions", 0),
				"sqlc.NewConn":            c06CallArgSpread(s, e, sqlc, "NewConn", "New", 4),
				"sqlc.NewNodeConn":        c06CallArgSpread(s, e, sqlc, "NewNodeConn", "NewNode", 4),
				"monc.NewModel":           c06CallArgSpread(s, e, monc, "NewModel", "New", 4),
				"monc.NewNodeModel":       c06CallArgSpread(s, e, monc, "NewNodeModel", "NewNode", 4),
				"monc.MustNewModel":       c06CallArgSpread(s, e, monc, "MustNewModel", "NewModel", 4),
				"monc.MustNewNodeModel":   c06CallArgSpread(s, e, monc, "MustNewNodeModel", "NewNodeModel", 4),
			})
		// round 5b: the context of the Redis command the cleaner's retry issues (work left behind by a Ctx entry point)
		e.stringList("retryDelCtx", "context of the calls on c.rds inside the closure asyncRetryDelCache hands to AddCleanTask",
			c06DeferredCtx(s, e, node, "cacheNode.asyncRetryDelCache", "AddCleanTask", "c.rds", rds, "Redis"))
		// round 5e: the JSON decoder on every decode path of a cached read (follower of a shared flight: the tail of
		// doTake; cache hit: processCache), and what jsonx.Unmarshal is (a decoder with UseNumber)
		const jsonxF = "core/jsonx/json.go"
		e.stringList("doTakeDecoders", "decoders called by cacheNode.doTake (the follower's decode of the shared value)", c06Decoders(s, e, node, "cacheNode.doTake"))
		e.stringList("processCacheDecoders", "decoders called by cacheNode.processCache (the cache hit's decode)", c06Decoders(s, e, node, "cacheNode.processCache"))
		c06Facts(s, e, jsonxF, "Unmarshal", "jsonxUnmarshalFacts", "unmarshalUseNumber")
		c06Facts(s, e, jsonxF, "unmarshalUseNumber", "jsonxUseNumberFacts", "UseNumber", "Decode")
		e.stringList("newNodeOptionFields", "where the expiries of the cacheNode literal in NewNode come from",
			append(c06LitFieldClass(s, e, node, "NewNode", "cacheNode", "expiry"), c06LitFieldClass(s, e, node, "NewNode", "cacheNode", "notFoundExpiry")...))
		c06Facts(s, e, node, "cacheNode.String", "nodeStringFacts")
		// round 4: decision-making conditions on the path, TRANSLATED to Lean functions (operators, constants, operands)
		cst := map[string]string{}
		if v, ok := s.constValue(rds, "ClusterType"); ok && v.Kind() == constant.String {
			cst["redis.ClusterType"] = leanString(constant.StringVal(v))
		}
		str := map[string]string{"c_rds_Type": "String", "data": "String"}
		c06ExprDef(s, e, node, "delCtxCondEmpty", "Bool", "Int", "cacheNode.DelCtx, 1st condition", c06Cond(s, node, "cacheNode.DelCtx", 0), cst, str)
		c06ExprDef(s, e, node, "delCtxCondLoop", "Bool", "Int", "cacheNode.DelCtx, 2nd condition (per-key loop)", c06Cond(s, node, "cacheNode.DelCtx", 1), cst, str)
		c06ExprDef(s, e, node, "setWithExpireCond", "Bool", "Int", "cacheNode.SetWithExpireCtx, fall back to the configured expiry", c06Cond(s, node, "cacheNode.SetWithExpireCtx", 1), cst, str)
		c06ExprDef(s, e, node, "ttlSecondsCond", "Bool", "Int", "ttlSeconds, keep the rounded seconds", c06Cond(s, node, "ttlSeconds", 0), cst, str)
		c06ExprDef(s, e, node, "doGetCacheCondEmpty", "Bool", "Int", "doGetCache, empty value = miss", c06Cond(s, node, "cacheNode.doGetCache", 1), cst, str)
		c06ExprDef(s, e, node, "doGetCacheCondPlaceholder", "Bool", "Int", "doGetCache, the not-found marker", c06Cond(s, node, "cacheNode.doGetCache", 2), cst, str)
		c06ExprDef(s, e, cluster, "newCondFatal", "Bool", "Int", "cache.New, no usable node", c06Cond(s, cluster, "New", 0), cst, str)
		c06ExprDef(s, e, cluster, "newCondSingle", "Bool", "Int", "cache.New, a single node = plain cacheNode", c06Cond(s, cluster, "New", 1), cst, str)
		c06ExprDef(s, e, unstable, "newUnstableCondLow", "Bool", "Rat", "NewUnstable, clamp below", c06Cond(s, unstable, "NewUnstable", 0), cst, str)
		c06ExprDef(s, e, unstable, "newUnstableCondHigh", "Bool", "Rat", "NewUnstable, clamp above", c06Cond(s, unstable, "NewUnstable", 1), cst, str)
		c06Assigns(s, e, unstable, "NewUnstable", "newUnstableAssigns")
		c06ExprDef(s, e, unstable, "aroundExpr", "Rat", "Rat", "Unstable.AroundDuration, the jittered duration before truncation", c06FirstCallArg(s, unstable, "Unstable.AroundDuration", "time.Duration"), cst, str)
		c06ExprDef(s, e, unstable, "aroundIntExpr", "Rat", "Rat", "Unstable.AroundInt, the jittered value before truncation", c06FirstCallArg(s, unstable, "Unstable.AroundInt", "int64"), cst, str)
	})
}
