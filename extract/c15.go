package main

import (
	"go/ast"
	"go/token"
	"strings"
)

// C15 — core/hash/consistenthash.go.
//
// Beyond constants and skeletons, the emitter lifts the three pieces of integer arithmetic of the
// file out of their functions (the statements are taken from the AST as they are and wrapped into a
// synthetic `func(...) int`, which the shared translator turns into a Lean `Int` function):
//   newReplicas      NewCustomConsistentHash: `if replicas < minReplicas { replicas = minReplicas }`
//   clampReplicas    AddWithReplicas:         `if replicas > h.replicas { replicas = h.replicas }`
//   weightReplicas   AddWithWeight:           `replicas := h.replicas * weight / TopWeight`
// and the expressions that decide which bytes are hashed and how slices are searched/ordered.

func c15Ident(n string) *ast.Ident { return &ast.Ident{Name: n} }

// c15Synth builds `func name(params... int) int { stmts; return ret }`.
func c15Synth(name string, params []string, stmts []ast.Stmt, ret ast.Expr) *ast.FuncDecl {
	fl := &ast.FieldList{}
	for _, p := range params {
		fl.List = append(fl.List, &ast.Field{Names: []*ast.Ident{c15Ident(p)}, Type: c15Ident("int")})
	}
	body := append([]ast.Stmt{}, stmts...)
	body = append(body, &ast.ReturnStmt{Results: []ast.Expr{ret}})
	return &ast.FuncDecl{
		Name: c15Ident(name),
		Type: &ast.FuncType{Params: fl, Results: &ast.FieldList{List: []*ast.Field{{Type: c15Ident("int")}}}},
		Body: &ast.BlockStmt{List: body},
	}
}

// c15Stmt finds the first top-level statement of fd whose normalised source starts with prefix.
func c15Stmt(s *source, fd *ast.FuncDecl, prefix string) ast.Stmt {
	if fd == nil {
		return nil
	}
	for _, st := range fd.Body.List {
		if strings.HasPrefix(s.src(st), prefix) {
			return st
		}
	}
	return nil
}

func (e *emitter) c15Arith(t *translator, s *source, rel, goName, prefix, leanName string, params []string, retVar string) {
	fd := s.findFunc(rel, goName)
	st := c15Stmt(s, fd, prefix)
	if st == nil {
		e.errors = append(e.errors, "statement `"+prefix+"` not found in "+goName)
		e.printf("/-- MISSING: `%s` in %s -/\ndef %s : Unit := ()\n\n", prefix, goName, leanName)
		return
	}
	var syn *ast.FuncDecl
	if as, ok := st.(*ast.AssignStmt); ok && as.Tok == token.DEFINE && len(as.Rhs) == 1 {
		syn = c15Synth(leanName, params, nil, as.Rhs[0])
	} else {
		syn = c15Synth(leanName, params, []ast.Stmt{st}, c15Ident(retVar))
	}
	def, err := t.translateFunc(syn, leanName, leanName, false, 0, nil)
	if err != nil {
		e.errors = append(e.errors, err.Error())
	}
	e.printf("/-- translated from `%s` of `%s` in %s -/\n%s\n", s.src(st), goName, rel, def)
}

// c15Exprs collects, in source order, what the property depends on inside one function:
//   hash:<arg>      every argument handed to h.hashFunc
//   search:<body>   the predicate of every sort.Search
//   less:<body>     the comparison of every sort.Slice
//   mod:<expr>      every `%` expression
//   fmt:<call>      every fmt.Sprintf call
//   call:<call>     calls between the functions of the file (arguments matter: Add passes h.replicas)
//   set:<stmt>      assignments to / deletions from the receiver's fields
//   ret:<exprs>     return statements with results (outside function literals)
func c15Exprs(s *source, fd *ast.FuncDecl) []string {
	var out []string
	if fd == nil {
		return []string{"MISSING"}
	}
	lambda := func(e ast.Expr) string {
		if fl, ok := e.(*ast.FuncLit); ok && len(fl.Body.List) == 1 {
			if r, ok := fl.Body.List[0].(*ast.ReturnStmt); ok && len(r.Results) == 1 {
				return s.src(r.Results[0])
			}
		}
		return s.src(e)
	}
	ast.Inspect(fd.Body, func(n ast.Node) bool {
		switch x := n.(type) {
		case *ast.FuncLit:
			// predicates are reported through search:/less:
			for _, st := range x.Body.List {
				if _, ok := st.(*ast.ReturnStmt); !ok {
					out = append(out, "lit:"+s.src(st))
				}
			}
			return false
		case *ast.ReturnStmt:
			if len(x.Results) > 0 {
				out = append(out, "ret:"+s.src(x))
			}
		case *ast.AssignStmt:
			if len(x.Lhs) == 1 && strings.HasPrefix(s.src(x.Lhs[0]), "h.") {
				out = append(out, "set:"+s.src(x))
			}
		case *ast.CallExpr:
			fn := s.src(x.Fun)
			switch {
			case fn == "delete":
				out = append(out, "set:"+s.src(x))
			case fn == "h.AddWithReplicas" || fn == "h.Remove" || fn == "NewCustomConsistentHash" || fn == "lang.Repr" ||
				fn == "h.removeRingNode" || fn == "insertRingNode" || fn == "h.addNode" || fn == "h.removeNode" ||
				fn == "h.containsNode" || fn == "murmur3.Sum64" || fn == "h.removeLocked":
				out = append(out, "call:"+s.src(x))
			case fn == "h.hashFunc" && len(x.Args) == 1:
				out = append(out, "hash:"+s.src(x.Args[0]))
			case fn == "sort.Search" && len(x.Args) == 2:
				out = append(out, "search:"+s.src(x.Args[0])+":"+lambda(x.Args[1]))
				return false
			case fn == "sort.Slice" && len(x.Args) == 2:
				out = append(out, "less:"+s.src(x.Args[0])+":"+lambda(x.Args[1]))
				return false
			case fn == "fmt.Sprintf":
				out = append(out, "fmt:"+s.src(x))
			}
		case *ast.BinaryExpr:
			if x.Op == token.REM {
				out = append(out, "mod:"+s.src(x))
			}
		}
		return true
	})
	return out
}

// c15Users: how the users named by the property's anchors build the ring and dispatch a key:
//   <func>:<call>   every call of hash.NewConsistentHash / <x>.AddWithWeight / <x>.dispatcher.Get / .Add / .Remove /
//                   .AddWithReplicas on a dispatcher, with the function it occurs in
//   <func>:range:<header>, <func>:if:<cond>  loops and conditions of the constructor
func c15Users(s *source, rel string, ctor string) []string {
	f := s.file(rel)
	if f == nil {
		return []string{"MISSING " + rel}
	}
	var out []string
	for _, d := range f.Decls {
		fd, ok := d.(*ast.FuncDecl)
		if !ok || fd.Body == nil {
			continue
		}
		name := fd.Name.Name
		ast.Inspect(fd.Body, func(n ast.Node) bool {
			switch x := n.(type) {
			case *ast.CallExpr:
				fn := s.src(x.Fun)
				if fn == "hash.NewConsistentHash" || fn == "hash.NewCustomConsistentHash" ||
					strings.HasSuffix(fn, "ispatcher.AddWithWeight") || strings.HasSuffix(fn, "ispatcher.Get") ||
					strings.HasSuffix(fn, "ispatcher.Add") || strings.HasSuffix(fn, "ispatcher.AddWithReplicas") ||
					strings.HasSuffix(fn, "ispatcher.Remove") {
					out = append(out, name+":"+s.src(x))
				}
			case *ast.RangeStmt:
				if name == ctor {
					out = append(out, name+":range:"+s.src(x.Key)+","+s.src(x.Value)+":="+s.src(x.X))
				}
			case *ast.IfStmt:
				if name == ctor {
					out = append(out, name+":if:"+s.src(x.Cond))
				}
			case *ast.AssignStmt:
				if name == ctor && len(x.Lhs) == 1 && s.src(x.Lhs[0]) == "cn" {
					out = append(out, name+":"+s.src(x))
				}
			}
			return true
		})
	}
	return out
}


// c15ReprSwitch reads the type switch of lang.reprOfValue: per case clause the Go type(s), and the returned
// expression decomposed into the function called and the source of every argument, e.g.
//   case uint8: return strconv.FormatUint(uint64(vt), 10)   ->   ("uint8", "strconv.FormatUint", ["uint64(vt)", "10"])
// The Lean side (GoZero/C15/ReprTie.lean) INTERPRETS this table (conversion, formatting function, base, bit size)
// on every Go value and proves the result equal to the model's `reprOf`. Emits also the switch header.
func (e *emitter) c15ReprSwitch(s *source, rel, goName, leanName string) {
	fd := s.findFunc(rel, goName)
	var ts *ast.TypeSwitchStmt
	if fd != nil {
		for _, st := range fd.Body.List {
			if x, ok := st.(*ast.TypeSwitchStmt); ok {
				ts = x
				break
			}
		}
	}
	if ts == nil {
		e.errors = append(e.errors, "type switch of "+goName+" not found in "+rel)
		e.printf("def %s : List (String × String × List String) := []\ndef %sHeader : String := \"MISSING\"\n\n", leanName, leanName)
		return
	}
	e.printf("/-- header of the type switch of `%s` in %s -/\ndef %sHeader : String := %s\n\n", goName, rel, leanName, leanString(s.src(ts.Assign)))
	e.printf("/-- cases of the type switch of `%s` in %s, in source order: (types, function, arguments) -/\ndef %s : List (String × String × List String) := [", goName, rel, leanName)
	for i, c := range ts.Body.List {
		cc := c.(*ast.CaseClause)
		var types []string
		for _, t := range cc.List {
			types = append(types, s.src(t))
		}
		ty := strings.Join(types, ",")
		if cc.List == nil {
			ty = "default"
		}
		fn, args := "?", []string{}
		if len(cc.Body) == 1 {
			if r, ok := cc.Body[0].(*ast.ReturnStmt); ok && len(r.Results) == 1 {
				if call, ok := r.Results[0].(*ast.CallExpr); ok {
					fn = s.src(call.Fun)
					for _, a := range call.Args {
						args = append(args, s.src(a))
					}
				} else {
					fn = s.src(r.Results[0])
				}
			}
		}
		if len(cc.Body) != 1 || fn == "?" {
			fn = "?"
			for _, st := range cc.Body {
				args = append(args, s.src(st))
			}
		}
		if i > 0 {
			e.printf(",")
		}
		e.printf("\n  (%s, %s, [", leanString(ty), leanString(fn))
		for j, a := range args {
			if j > 0 {
				e.printf(", ")
			}
			e.printf("%s", leanString(a))
		}
		e.printf("])")
	}
	e.printf("]\n\n")
}

// c15ReprFlow: the statements of lang.Repr in order, with conditions: nil test, the Stringer type switch, the
// pointer-dereference loop, the final call.
func c15ReprFlow(s *source, fd *ast.FuncDecl) []string {
	if fd == nil {
		return []string{"MISSING"}
	}
	var out []string
	for _, st := range fd.Body.List {
		switch x := st.(type) {
		case *ast.IfStmt:
			out = append(out, "if "+s.src(x.Cond))
			for _, b := range x.Body.List {
				out = append(out, "  "+s.src(b))
			}
		case *ast.TypeSwitchStmt:
			out = append(out, "switch "+s.src(x.Assign))
			for _, c := range x.Body.List {
				cc := c.(*ast.CaseClause)
				var types []string
				for _, t := range cc.List {
					types = append(types, s.src(t))
				}
				if cc.List == nil {
					types = []string{"default"}
				}
				out = append(out, "  case "+strings.Join(types, ","))
				for _, b := range cc.Body {
					out = append(out, "    "+s.src(b))
				}
			}
		case *ast.ForStmt:
			h := "for "
			if x.Init != nil || x.Post != nil {
				h += "<init/post> "
			}
			if x.Cond != nil {
				h += s.src(x.Cond)
			}
			out = append(out, h)
			for _, b := range x.Body.List {
				out = append(out, "  "+s.src(b))
			}
		default:
			out = append(out, s.src(st))
		}
	}
	return out
}

// ---- decision conditions, lifted into Lean functions (round 4) -------------------------------------------------
//
// c15Subst returns a copy of e in which every sub-expression whose normalised source is a key of m is replaced by
// the identifier m[src] (so `h.keys[i] >= hash` becomes `k >= x`, an integer condition the shared translator
// understands). Anything the copy does not understand is returned as it is (and the translator fails loudly).
func c15Subst(s *source, e ast.Expr, m map[string]string) ast.Expr {
	if n, ok := m[s.src(e)]; ok {
		return c15Ident(n)
	}
	switch x := e.(type) {
	case *ast.BinaryExpr:
		return &ast.BinaryExpr{X: c15Subst(s, x.X, m), Op: x.Op, Y: c15Subst(s, x.Y, m)}
	case *ast.ParenExpr:
		return &ast.ParenExpr{X: c15Subst(s, x.X, m)}
	case *ast.UnaryExpr:
		return &ast.UnaryExpr{Op: x.Op, X: c15Subst(s, x.X, m)}
	}
	return e
}

// c15FindExpr returns the first expression inside fd (function literals included) for which pick says yes.
func c15FindExpr(fd *ast.FuncDecl, pick func(ast.Expr) bool) ast.Expr {
	var found ast.Expr
	if fd == nil {
		return nil
	}
	ast.Inspect(fd.Body, func(n ast.Node) bool {
		if found != nil {
			return false
		}
		if e, ok := n.(ast.Expr); ok && pick(e) {
			found = e
			return false
		}
		return true
	})
	return found
}

// c15Lift emits `def <leanName> (params…) : Int`: for a boolean expression 1 / 0 (`if cond { return 1 }; return 0`),
// for an integer expression the expression itself.
func (e *emitter) c15Lift(t *translator, s *source, what string, expr ast.Expr, isBool bool, leanName string, params []string, m map[string]string) {
	if expr == nil {
		e.errors = append(e.errors, "expression for "+leanName+" ("+what+") not found")
		e.printf("/-- MISSING: %s -/\ndef %s : Unit := ()\n\n", what, leanName)
		return
	}
	sub := c15Subst(s, expr, m)
	var syn *ast.FuncDecl
	if isBool {
		syn = c15Synth(leanName, params, []ast.Stmt{&ast.IfStmt{Cond: sub, Body: &ast.BlockStmt{List: []ast.Stmt{
			&ast.ReturnStmt{Results: []ast.Expr{&ast.BasicLit{Kind: token.INT, Value: "1"}}}}}}},
			&ast.BasicLit{Kind: token.INT, Value: "0"})
	} else {
		syn = c15Synth(leanName, params, nil, sub)
	}
	def, err := t.translateFunc(syn, leanName, leanName, false, 0, nil)
	if err != nil {
		e.errors = append(e.errors, leanName+": "+err.Error())
	}
	e.printf("/-- lifted from `%s` (%s) -/\n%s\n", s.src(expr), what, def)
}

// searchPred: the body `return <pred>` of the func literal handed to the n-th sort.Search of fd
func c15SearchPred(s *source, fd *ast.FuncDecl, nth int) ast.Expr {
	var found ast.Expr
	if fd == nil {
		return nil
	}
	k := 0
	ast.Inspect(fd.Body, func(n ast.Node) bool {
		c, ok := n.(*ast.CallExpr)
		if !ok || found != nil {
			return found == nil
		}
		fn := s.src(c.Fun)
		if (fn == "sort.Search" || fn == "sort.Slice") && len(c.Args) == 2 {
			if fl, ok := c.Args[1].(*ast.FuncLit); ok && len(fl.Body.List) == 1 {
				if r, ok := fl.Body.List[0].(*ast.ReturnStmt); ok && len(r.Results) == 1 {
					if k == nth {
						found = r.Results[0]
					}
					k++
				}
			}
		}
		return true
	})
	return found
}

func c15IfCond(s *source, fd *ast.FuncDecl, prefix string) ast.Expr {
	var found ast.Expr
	if fd == nil {
		return nil
	}
	ast.Inspect(fd.Body, func(n ast.Node) bool {
		if x, ok := n.(*ast.IfStmt); ok && found == nil && strings.HasPrefix(s.src(x.Cond), prefix) {
			found = x.Cond
		}
		return found == nil
	})
	return found
}

func c15ForCond(fd *ast.FuncDecl) ast.Expr {
	var found ast.Expr
	if fd == nil {
		return nil
	}
	ast.Inspect(fd.Body, func(n ast.Node) bool {
		if x, ok := n.(*ast.ForStmt); ok && found == nil {
			found = x.Cond
		}
		return found == nil
	})
	return found
}

func c15Rem(fd *ast.FuncDecl, nth int) ast.Expr {
	k := 0
	return c15FindExpr(fd, func(e ast.Expr) bool {
		if b, ok := e.(*ast.BinaryExpr); ok && b.Op == token.REM {
			k++
			return k-1 == nth
		}
		return false
	})
}

func (e *emitter) c15Conditions(t *translator, s *source) {
	const f = "core/hash/consistenthash.go"
	get := s.findFunc(f, "ConsistentHash.Get")
	rem := s.findFunc(f, "ConsistentHash.Remove")
	if fd := s.findFunc(f, "ConsistentHash.removeLocked"); fd != nil {
		rem = fd // fixes/C15-add-single-critical-section.patch
	}
	add := s.findFunc(f, "ConsistentHash.AddWithReplicas")
	rrn := s.findFunc(f, "ConsistentHash.removeRingNode")
	irn := s.findFunc(f, "insertRingNode")
	// Get
	e.c15Lift(t, s, "Get: empty ring", c15IfCond(s, get, "len(h.ring)"), true, "condGetEmpty", []string{"nr"}, map[string]string{"len(h.ring)": "nr"})
	e.c15Lift(t, s, "Get: search predicate", c15SearchPred(s, get, 0), true, "condGetSearch", []string{"k", "x"}, map[string]string{"h.keys[i]": "k", "hash": "x"})
	wrap := c15Rem(get, 0)
	wm := map[string]string{"len(h.keys)": "n"}
	if b, ok := wrap.(*ast.BinaryExpr); ok {
		wm[s.src(b.X)] = "idx"
	}
	e.c15Lift(t, s, "Get: wrap-around of the search result", wrap, false, "exprGetWrap", []string{"idx", "n"}, wm)
	e.c15Lift(t, s, "Get: position inside a collision bucket", c15Rem(get, 1), false, "exprGetInner", []string{"hv", "n"},
		map[string]string{"innerIndex": "hv", "uint64(len(nodes))": "n"})
	// Get: `switch len(nodes) { case 0: … case 1: … default: … }` — the tag and the case constants
	{
		tag, cases, hasDefault := "MISSING", []string{}, false
		if get != nil {
			ast.Inspect(get.Body, func(n ast.Node) bool {
				if sw, ok := n.(*ast.SwitchStmt); ok && tag == "MISSING" {
					tag = s.src(sw.Tag)
					for _, c := range sw.Body.List {
						cc := c.(*ast.CaseClause)
						if cc.List == nil {
							hasDefault = true
						}
						for _, v := range cc.List {
							if cv, ok := s.eval(f, v); ok {
								cases = append(cases, cv.ExactString())
							} else {
								cases = append(cases, "-999999999")
							}
						}
					}
				}
				return true
			})
		}
		e.printf("/-- tag of the switch in `Get` -/\ndef getSwitchTag : String := %s\n\n", leanString(tag))
		e.printf("/-- case constants of the switch in `Get`, in order; default clause present: %v -/\ndef getSwitchCases : List Int := [%s]\ndef getSwitchHasDefault : Bool := %v\n\n", hasDefault, strings.Join(cases, ", "), hasDefault)
	}
	// Remove
	e.c15Lift(t, s, "Remove: loop bound", c15ForCond(rem), true, "condRemoveLoop", []string{"i", "r"}, map[string]string{"h.replicas": "r"})
	e.c15Lift(t, s, "Remove: search predicate", c15SearchPred(s, rem, 0), true, "condRemoveSearch", []string{"k", "x"}, map[string]string{"h.keys[i]": "k", "hash": "x"})
	e.c15Lift(t, s, "Remove: is the found key the hash", c15IfCond(s, rem, "index <"), true, "condRemoveFound", []string{"index", "n", "k", "x"},
		map[string]string{"len(h.keys)": "n", "h.keys[index]": "k", "hash": "x"})
	// removeRingNode
	e.c15Lift(t, s, "removeRingNode: entry of another node", c15IfCond(s, rrn, "repr(x)"), true, "condRingNodeOther", []string{"a", "b"},
		map[string]string{"repr(x)": "a", "nodeRepr": "b"})
	e.c15Lift(t, s, "removeRingNode: bucket keeps other nodes", c15IfCond(s, rrn, "len(nodes)"), true, "condRingNodeKeep", []string{"n"}, map[string]string{"len(nodes)": "n"})
	// AddWithReplicas / insertRingNode
	e.c15Lift(t, s, "AddWithReplicas: loop bound", c15ForCond(add), true, "condAddLoop", []string{"i", "replicas"}, map[string]string{})
	e.c15Lift(t, s, "AddWithReplicas: key order", c15SearchPred(s, add, 0), true, "condKeyLess", []string{"a", "b"}, map[string]string{"h.keys[i]": "a", "h.keys[j]": "b"})
	e.c15Lift(t, s, "insertRingNode: first entry with a greater repr", c15SearchPred(s, irn, 0), true, "condInsertBefore", []string{"a", "b"},
		map[string]string{"repr(nodes[i])": "a", "nodeRepr": "b"})
	// users
	cnew := s.findFunc("core/stores/cache/cache.go", "New")
	e.c15Lift(t, s, "cache.New: no usable node", c15IfCond(s, cnew, "len(c) == 0"), true, "condCacheNoNode", []string{"n", "tw"}, map[string]string{"len(c)": "n", "TotalWeights(c)": "tw"})
	e.c15Lift(t, s, "cache.New: single node, no ring", c15IfCond(s, cnew, "len(c) == 1"), true, "condCacheSingle", []string{"n"}, map[string]string{"len(c)": "n"})
	knew := s.findFunc("core/stores/kv/store.go", "NewStore")
	e.c15Lift(t, s, "kv.NewStore: no usable node", c15IfCond(s, knew, "len(c) == 0"), true, "condKvNoNode", []string{"n", "tw"}, map[string]string{"len(c)": "n", "cache.TotalWeights(c)": "tw"})
	tw := s.findFunc("core/stores/cache/util.go", "TotalWeights")
	e.c15Lift(t, s, "TotalWeights: negative weight counts as zero", c15IfCond(s, tw, "node.Weight"), true, "condNegWeight", []string{"w"}, map[string]string{"node.Weight": "w"})
}

// c15DispatchArgs: for every method of recvType in rel, the argument of each call of `callee`
// (`cs.getRedis(key)`): the argument list as written.
func c15DispatchArgs(s *source, rel, callee string) []string {
	f := s.file(rel)
	if f == nil {
		return []string{"MISSING " + rel}
	}
	var out []string
	for _, d := range f.Decls {
		fd, ok := d.(*ast.FuncDecl)
		if !ok || fd.Body == nil {
			continue
		}
		ast.Inspect(fd.Body, func(n ast.Node) bool {
			if c, ok := n.(*ast.CallExpr); ok && s.src(c.Fun) == callee {
				var args []string
				for _, a := range c.Args {
					args = append(args, s.src(a))
				}
				out = append(out, strings.Join(args, ","))
			}
			return true
		})
	}
	return out
}


// ---- round 5: the users' entry points -------------------------------------------------------------------------------

// c15SubstStmt: c15Subst for the statements of a loop body (if / assignment / block)
func c15SubstStmt(s *source, st ast.Stmt, m map[string]string) ast.Stmt {
	switch x := st.(type) {
	case *ast.IfStmt:
		n := &ast.IfStmt{Cond: c15Subst(s, x.Cond, m), Body: c15SubstStmt(s, x.Body, m).(*ast.BlockStmt)}
		if x.Else != nil {
			n.Else = c15SubstStmt(s, x.Else, m)
		}
		return n
	case *ast.BlockStmt:
		b := &ast.BlockStmt{}
		for _, y := range x.List {
			b.List = append(b.List, c15SubstStmt(s, y, m))
		}
		return b
	case *ast.AssignStmt:
		n := &ast.AssignStmt{Tok: x.Tok}
		for _, l := range x.Lhs {
			n.Lhs = append(n.Lhs, c15Subst(s, l, m))
		}
		for _, r := range x.Rhs {
			n.Rhs = append(n.Rhs, c15Subst(s, r, m))
		}
		return n
	}
	return st
}

// c15TotalWeightsStep: the body of the loop of cache.TotalWeights as `func(weights, w int) int` (node.Weight ↦ w)
func (e *emitter) c15TotalWeightsStep(t *translator, s *source) {
	fd := s.findFunc("core/stores/cache/util.go", "TotalWeights")
	var loop *ast.RangeStmt
	if fd != nil {
		for _, st := range fd.Body.List {
			if r, ok := st.(*ast.RangeStmt); ok {
				loop = r
			}
		}
	}
	if loop == nil {
		e.errors = append(e.errors, "loop of TotalWeights not found")
		e.printf("def totalWeightsStep : Unit := ()\n\n")
		return
	}
	var body []ast.Stmt
	for _, st := range loop.Body.List {
		body = append(body, c15SubstStmt(s, st, map[string]string{"node.Weight": "w"}))
	}
	syn := c15Synth("totalWeightsStep", []string{"weights", "w"}, body, c15Ident("weights"))
	def, err := t.translateFunc(syn, "totalWeightsStep", "totalWeightsStep", false, 0, nil)
	if err != nil {
		e.errors = append(e.errors, "totalWeightsStep: "+err.Error())
	}
	e.printf("/-- translated from the loop body of `TotalWeights` (`%s`), node.Weight ↦ w -/\n%s\n", s.src(loop.Body), def)
	var frame []string
	for _, st := range fd.Body.List {
		if r, ok := st.(*ast.RangeStmt); ok {
			frame = append(frame, "range "+s.src(r.Key)+","+s.src(r.Value)+":="+s.src(r.X))
		} else {
			frame = append(frame, s.src(st))
		}
	}
	e.stringList("totalWeightsFrame", "TotalWeights around its loop: the accumulator starts at 0, every entry is visited, the sum is returned", frame)
}

// c15Methods: for every method of recv in rel (in source order): name, the names of its string parameters (a variadic
// one with the suffix "..."), and — when the body is the single statement `return <call>(args…)` — the callee and its
// arguments as written.
func (e *emitter) c15Methods(s *source, rel, recv, leanName string) {
	f := s.file(rel)
	e.printf("/-- methods of `%s` in %s: (name, string parameters, callee of a delegating body or \"\", its arguments) -/\ndef %s : List (String × List String × List String × String × List String) := [", recv, rel, leanName)
	first := true
	if f == nil {
		e.errors = append(e.errors, "file "+rel+" not found")
	} else {
		for _, d := range f.Decls {
			fd, ok := d.(*ast.FuncDecl)
			if !ok || fd.Recv == nil || len(fd.Recv.List) != 1 || fd.Body == nil {
				continue
			}
			if strings.TrimPrefix(s.src(fd.Recv.List[0].Type), "*") != recv {
				continue
			}
			var strs []string
			for _, p := range fd.Type.Params.List {
				ty := s.src(p.Type)
				if ty != "string" && ty != "...string" {
					continue
				}
				for _, n := range p.Names {
					if ty == "...string" {
						strs = append(strs, n.Name+"...")
					} else {
						strs = append(strs, n.Name)
					}
				}
			}
			callee, args := "", []string{}
			if len(fd.Body.List) == 1 {
				if r, ok := fd.Body.List[0].(*ast.ReturnStmt); ok && len(r.Results) == 1 {
					if c, ok := r.Results[0].(*ast.CallExpr); ok {
						callee = s.src(c.Fun)
						for _, a := range c.Args {
							x := s.src(a)
							if c.Ellipsis.IsValid() && a == c.Args[len(c.Args)-1] {
								x += "..."
							}
							args = append(args, x)
						}
					}
				}
			}
			// all parameter names in order (what a delegating body has to forward)
			var all []string
			for _, p := range fd.Type.Params.List {
				for _, n := range p.Names {
					if strings.HasPrefix(s.src(p.Type), "...") {
						all = append(all, n.Name+"...")
					} else {
						all = append(all, n.Name)
					}
				}
			}
			if !first {
				e.printf(",")
			}
			first = false
			q := func(xs []string) string {
				var o []string
				for _, x := range xs {
					o = append(o, leanString(x))
				}
				return "[" + strings.Join(o, ", ") + "]"
			}
			e.printf("\n  (%s, %s, %s, %s, %s)", leanString(fd.Name.Name), q(all), q(strs), leanString(callee), q(args))
		}
	}
	e.printf("]\n\n")
}

// c15BranchBody: the statements inside the `if` of fd whose condition starts with prefix
func c15BranchBody(s *source, fd *ast.FuncDecl, prefix string) []string {
	var out []string
	if fd == nil {
		return []string{"MISSING"}
	}
	ast.Inspect(fd.Body, func(n ast.Node) bool {
		if x, ok := n.(*ast.IfStmt); ok && out == nil && strings.HasPrefix(s.src(x.Cond), prefix) {
			for _, st := range x.Body.List {
				out = append(out, s.src(st))
			}
		}
		return out == nil
	})
	if out == nil {
		return []string{"MISSING"}
	}
	return out
}

// ---- round 5e: delegating wrappers as functions --------------------------------------------------------------------

// c15DelegStmts rewrites the body of a delegating wrapper into integer code: the call `callee(node, X)` becomes
// `return X` (the forwarded argument), a bare `return` (the wrapper gives up WITHOUT delegating) becomes
// `return noCall`; everything else (assignments, if-chains) is kept for the translator.
func c15DelegStmts(s *source, list []ast.Stmt, callee string, argIdx int, noCall string) []ast.Stmt {
	var out []ast.Stmt
	for _, st := range list {
		switch x := st.(type) {
		case *ast.ExprStmt:
			if c, ok := x.X.(*ast.CallExpr); ok && s.src(c.Fun) == callee && len(c.Args) > argIdx {
				out = append(out, &ast.ReturnStmt{Results: []ast.Expr{c.Args[argIdx]}})
				continue
			}
			out = append(out, st)
		case *ast.ReturnStmt:
			if len(x.Results) == 0 {
				out = append(out, &ast.ReturnStmt{Results: []ast.Expr{&ast.UnaryExpr{Op: token.SUB, X: &ast.BasicLit{Kind: token.INT, Value: noCall}}}})
				continue
			}
			out = append(out, st)
		case *ast.IfStmt:
			n := &ast.IfStmt{Init: x.Init, Cond: x.Cond, Body: &ast.BlockStmt{List: c15DelegStmts(s, x.Body.List, callee, argIdx, noCall)}}
			if b, ok := x.Else.(*ast.BlockStmt); ok {
				n.Else = &ast.BlockStmt{List: c15DelegStmts(s, b.List, callee, argIdx, noCall)}
			} else if x.Else != nil {
				n.Else = x.Else
			}
			out = append(out, n)
		default:
			out = append(out, st)
		}
	}
	return out
}

// c15Deleg emits `def <leanName> (params…) : Int`: the argument the wrapper hands to callee, or -noCall when it returns
// without calling it, for all arguments.
func (e *emitter) c15Deleg(t *translator, s *source, rel, goName, callee string, argIdx int, leanName string, params []string) {
	fd := s.findFunc(rel, goName)
	if fd == nil {
		e.errors = append(e.errors, "function "+goName+" not found")
		e.printf("def %s : Unit := ()\n\n", leanName)
		return
	}
	body := c15DelegStmts(s, fd.Body.List, callee, argIdx, "4611686018427387904")
	// a wrapper that falls off its end without delegating does not delegate either
	syn := c15Synth(leanName, params, body, &ast.UnaryExpr{Op: token.SUB, X: &ast.BasicLit{Kind: token.INT, Value: "4611686018427387904"}})
	def, err := t.translateFunc(syn, leanName, leanName, false, 0, nil)
	if err != nil {
		e.errors = append(e.errors, leanName+": "+err.Error())
	}
	e.printf("/-- `%s` as a function: argument %d of its call of `%s` (-2^62: returns without the call) -/\n%s\n", goName, argIdx, callee, def)
}

func init() {
	register("C15", func(s *source, e *emitter) {
		const f = "core/hash/consistenthash.go"
		e.constDef(s, f, "TopWeight", "topWeight")
		e.constDef(s, f, "minReplicas", "minReplicas")
		e.constDef(s, f, "prime", "prime")
		t := &translator{registry: map[string]*transFunc{}, consts: map[string]string{}}
		e.c15Arith(t, s, f, "NewCustomConsistentHash", "if replicas < minReplicas", "newReplicas", []string{"replicas"}, "replicas")
		e.c15Arith(t, s, f, "ConsistentHash.AddWithReplicas", "if replicas > h.replicas", "clampReplicas", []string{"replicas"}, "replicas")
		e.c15Arith(t, s, f, "ConsistentHash.AddWithWeight", "replicas := ", "weightReplicas", []string{"weight"}, "replicas")
		if st := c15Stmt(s, s.findFunc(f, "ConsistentHash.AddWithWeight"), "replicas := "); st != nil {
			e.stringList("weightStmt", "the weight formula as written", []string{s.src(st)})
		} else {
			e.stringList("weightStmt", "the weight formula as written", []string{"MISSING"})
		}
		for _, fn := range [][2]string{
			{"NewConsistentHash", "newDefault"}, {"NewCustomConsistentHash", "newCustom"}, {"ConsistentHash.Add", "add"},
			{"ConsistentHash.AddWithReplicas", "addWithReplicas"}, {"ConsistentHash.AddWithWeight", "addWithWeight"},
			{"ConsistentHash.Remove", "remove"}, {"ConsistentHash.removeRingNode", "removeRingNode"},
			{"insertRingNode", "insertRingNode"}, {"ConsistentHash.Get", "get"}, {"innerRepr", "innerRepr"}, {"repr", "repr"},
		} {
			fd := s.findFunc(f, fn[0])
			if fd == nil {
				e.errors = append(e.errors, "function "+fn[0]+" not found in "+f)
			}
			e.shapeDef(s, f, fn[0], fn[1]+"Shape")
			e.stringList(fn[1]+"Exprs", "hashed bytes, search predicates, orderings, `%` of `"+fn[0]+"`", c15Exprs(s, fd))
		}
		// fixes/C15-add-single-critical-section.patch moves the body of Remove into removeLocked (absent before)
		if fd := s.findFunc(f, "ConsistentHash.removeLocked"); fd != nil {
			e.shapeDef(s, f, "ConsistentHash.removeLocked", "removeLockedShape")
			e.stringList("removeLockedExprs", "hashed bytes, search predicates of `removeLocked`", c15Exprs(s, fd))
		} else {
			e.stringList("removeLockedShape", "`removeLocked` does not exist in this tree", []string{"ABSENT"})
			e.stringList("removeLockedExprs", "`removeLocked` does not exist in this tree", []string{"ABSENT"})
		}
		// the users of the ring
		e.stringList("cacheUsers", "ring construction and dispatch in core/stores/cache/cache.go", c15Users(s, "core/stores/cache/cache.go", "New"))
		e.stringList("kvUsers", "ring construction and dispatch in core/stores/kv/store.go", c15Users(s, "core/stores/kv/store.go", "NewStore"))
		e.stringList("kvDispatchArgs", "argument of every cs.getRedis call in core/stores/kv/store.go, per method", c15DispatchArgs(s, "core/stores/kv/store.go", "cs.getRedis"))
		e.stringList("kvGetRedisBody", "getRedis", func() []string {
			fd := s.findFunc("core/stores/kv/store.go", "clusterStore.getRedis")
			var b []string
			if fd != nil {
				for _, st := range fd.Body.List {
					b = append(b, s.src(st))
				}
			}
			return b
		}())
		e.shapeDef(s, "core/stores/cache/cachenode.go", "cacheNode.String", "cacheNodeStringShape")
		e.stringList("cacheNodeStringExprs", "repr of a cache node", c15Exprs(s, s.findFunc("core/stores/cache/cachenode.go", "cacheNode.String")))
		e.stringList("redisStringExprs", "repr of a redis node", c15Exprs(s, s.findFunc("core/stores/redis/redis.go", "Redis.String")))
		e.stringList("totalWeightsExprs", "TotalWeights", c15Exprs(s, s.findFunc("core/stores/cache/util.go", "TotalWeights")))
		e.shapeDef(s, "core/stores/cache/util.go", "TotalWeights", "totalWeightsShape")
		// decision conditions on the property's path, as Lean functions
		e.c15Conditions(t, s)
		// round 5e: the delegating wrappers of the ring as functions of their arguments
		e.c15Deleg(t, s, f, "ConsistentHash.AddWithWeight", "h.AddWithReplicas", 1, "addWithWeightCall", []string{"weight"})
		e.c15Deleg(t, s, f, "ConsistentHash.Add", "h.AddWithReplicas", 1, "addCall", []string{})
		// round 5: TotalWeights as arithmetic, the branches of the constructors, every entry point with its parameters
		e.c15TotalWeightsStep(t, s)
		e.stringList("cacheFatalBranch", "cache.New: what happens without nodes / weights", c15BranchBody(s, s.findFunc("core/stores/cache/cache.go", "New"), "len(c) == 0"))
		e.stringList("cacheSingleBranch", "cache.New: the single-node shortcut", c15BranchBody(s, s.findFunc("core/stores/cache/cache.go", "New"), "len(c) == 1"))
		e.stringList("kvFatalBranch", "kv.NewStore: what happens without nodes / weights", c15BranchBody(s, s.findFunc("core/stores/kv/store.go", "NewStore"), "len(c) == 0"))
		e.c15Methods(s, "core/stores/kv/store.go", "clusterStore", "kvMethods")
		e.c15Methods(s, "core/stores/cache/cache.go", "cacheCluster", "cacheMethods")
		// the three helpers of the `nodes` set
		for _, fn := range [][2]string{{"ConsistentHash.addNode", "addNode"}, {"ConsistentHash.containsNode", "containsNode"}, {"ConsistentHash.removeNode", "removeNode"}} {
			fd := s.findFunc(f, fn[0])
			var body []string
			if fd == nil {
				e.errors = append(e.errors, "function "+fn[0]+" not found in "+f)
			} else {
				for _, st := range fd.Body.List {
					body = append(body, s.src(st))
				}
			}
			e.stringList(fn[1]+"Body", "statements of `"+fn[0]+"`", body)
		}
		// lang.Repr: the identity of nodes and keys
		const lf = "core/lang/lang.go"
		e.stringList("langReprFlow", "statements of `lang.Repr` in order", c15ReprFlow(s, s.findFunc(lf, "Repr")))
		e.c15ReprSwitch(s, lf, "reprOfValue", "reprSwitch")
		// the default hash
		e.stringList("hashExprs", "what `Hash` computes", c15Exprs(s, s.findFunc("core/hash/hash.go", "Hash")))
	})
}
