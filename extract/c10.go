package main

import (
	"go/ast"
)

// chanMakes lists every `make(chan …)` expression of a function, in source order, as printed source
// (the capacity of a channel decides whether a send can block: the shape extractor drops `make`).
func (s *source) chanMakes(fd *ast.FuncDecl) []string {
	var out []string
	ast.Inspect(fd.Body, func(n ast.Node) bool {
		if c, ok := n.(*ast.CallExpr); ok {
			if id, ok := c.Fun.(*ast.Ident); ok && id.Name == "make" && len(c.Args) > 0 {
				if _, ok := c.Args[0].(*ast.ChanType); ok {
					out = append(out, s.src(c))
				}
			}
		}
		return true
	})
	return out
}

func (e *emitter) chanMakesDef(s *source, rel, goName, leanName string) {
	fd := s.findFunc(rel, goName)
	if fd == nil {
		e.errors = append(e.errors, "function "+goName+" not found in "+rel)
		e.stringList(leanName, "MISSING: "+goName+" in "+rel, []string{"MISSING"})
		return
	}
	e.stringList(leanName, "channel constructions of `"+goName+"` in "+rel, s.chanMakes(fd))
}

// assignedTo lists the printed right-hand sides assigned (`:=`, `=`, `var x =`) to identifier `name`
// anywhere in the function, in source order.
func (s *source) assignedTo(fd *ast.FuncDecl, name string) []string {
	var out []string
	ast.Inspect(fd.Body, func(n ast.Node) bool {
		if a, ok := n.(*ast.AssignStmt); ok && len(a.Lhs) == len(a.Rhs) {
			for i, l := range a.Lhs {
				if id, ok := l.(*ast.Ident); ok && id.Name == name {
					out = append(out, s.src(a.Rhs[i]))
				}
			}
		}
		return true
	})
	return out
}

func (e *emitter) assignedDef(s *source, rel, goName, ident, leanName string) {
	fd := s.findFunc(rel, goName)
	if fd == nil {
		e.errors = append(e.errors, "function "+goName+" not found in "+rel)
		e.stringList(leanName, "MISSING: "+goName+" in "+rel, []string{"MISSING"})
		return
	}
	e.stringList(leanName, "values assigned to `"+ident+"` in `"+goName+"` ("+rel+")", s.assignedTo(fd, ident))
}

func init() {
	register("C10", func(s *source, e *emitter) {
		const f = "core/mr/mapreduce.go"
		e.constDef(s, f, "minWorkers", "minWorkers")
		e.constDef(s, f, "defaultWorkers", "defaultWorkers")
		e.shapeDef(s, f, "MapReduce", "mapReduceShape")
		e.shapeDef(s, f, "MapReduceVoid", "mapReduceVoidShape")
		e.shapeDef(s, f, "ForEach", "forEachShape")
		e.shapeDef(s, f, "WithWorkers", "withWorkersShape")
		e.shapeDef(s, f, "buildSource", "buildSourceShape")
		e.shapeDef(s, f, "drain", "drainShape")
		e.shapeDef(s, f, "executeMappers", "executeMappersShape")
		e.shapeDef(s, f, "mapReduceWithPanicChan", "mapReduceWithPanicChanShape")
		e.shapeDef(s, f, "once", "onceShape")
		e.shapeDef(s, f, "guardedWriter.Write", "guardedWriteShape")
		e.shapeDef(s, f, "newOnceChan", "newOnceChanShape")
		e.shapeDef(s, f, "onceChan.write", "onceChanWriteShape")
		e.shapeDef(s, f, "onceChan.repanic", "onceChanRepanicShape")
		e.chanMakesDef(s, f, "newOnceChan", "newOnceChanMakes")
		e.chanMakesDef(s, f, "ForEach", "forEachMakes")
		e.chanMakesDef(s, f, "MapReduce", "mapReduceMakes")
		e.chanMakesDef(s, f, "MapReduceChan", "mapReduceChanMakes")
		e.chanMakesDef(s, f, "buildSource", "buildSourceMakes")
		e.chanMakesDef(s, f, "executeMappers", "executeMappersMakes")
		e.chanMakesDef(s, f, "mapReduceWithPanicChan", "mapReduceWithPanicChanMakes")
		e.assignedDef(s, f, "MapReduce", "panicChan", "mapReducePanicChan")
		e.assignedDef(s, f, "MapReduceChan", "panicChan", "mapReduceChanPanicChan")
		e.assignedDef(s, f, "ForEach", "panicChan", "forEachPanicChan")
		e.assignedDef(s, f, "mapReduceWithPanicChan", "err", "callerErrAssignments")
		e.assignedDef(s, f, "mapReduceWithPanicChan", "val", "callerValAssignments")
		const g = "core/errorx/atomicerror.go"
		e.shapeDef(s, g, "AtomicError.Set", "atomicErrorSetShape")
		e.shapeDef(s, g, "AtomicError.Load", "atomicErrorLoadShape")
	})
}
