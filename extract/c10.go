package main

import (
	"fmt"
	"go/ast"
	"go/token"
	"os"
	"path/filepath"
	"strings"
)

// chanMakes lists every `make(chan …)` expression of a function, in source order, as printed source
// (the capacity of a channel decides whether a send can block: the shape extractor drops `make`).
func (s *source) chanMakes(fd *ast.FuncDecl) []string {
	var out []string
	ast.Inspect(fd.Body, func(n ast.Node) bool {
		if c, ok := n.(*ast.CallExpr); ok {
			if id, ok := c.Fun.(*ast.Ident); ok && id.Name == "make" && len(c.Args) > 0 {
				if _, ok := c.Args[0].(*ast.ChanType); ok {
					out = append(out, s.src(c))
				}
			}
		}
		return true
	})
	return out
}

func (e *emitter) chanMakesDef(s *source, rel, goName, leanName string) {
	fd := s.findFunc(rel, goName)
	if fd == nil {
		e.errors = append(e.errors, "function "+goName+" not found in "+rel)
		e.stringList(leanName, "MISSING: "+goName+" in "+rel, []string{"MISSING"})
		return
	}
	e.stringList(leanName, "channel constructions of `"+goName+"` in "+rel, s.chanMakes(fd))
}

// assignedTo lists the printed right-hand sides assigned (`:=`, `=`, `var x =`) to identifier `name`
// anywhere in the function, in source order.
func (s *source) assignedTo(fd *ast.FuncDecl, name string) []string {
	var out []string
	ast.Inspect(fd.Body, func(n ast.Node) bool {
		if a, ok := n.(*ast.AssignStmt); ok && len(a.Lhs) == len(a.Rhs) {
			for i, l := range a.Lhs {
				if id, ok := l.(*ast.Ident); ok && id.Name == name {
					out = append(out, s.src(a.Rhs[i]))
				}
			}
		}
		return true
	})
	return out
}

func (e *emitter) assignedDef(s *source, rel, goName, ident, leanName string) {
	fd := s.findFunc(rel, goName)
	if fd == nil {
		e.errors = append(e.errors, "function "+goName+" not found in "+rel)
		e.stringList(leanName, "MISSING: "+goName+" in "+rel, []string{"MISSING"})
		return
	}
	e.stringList(leanName, "values assigned to `"+ident+"` in `"+goName+"` ("+rel+")", s.assignedTo(fd, ident))
}


// ---------------------------------------------------------------- round 4: a small Go -> Lean translator for the
// decision-making conditions on the property's path (errors are `Option Nat`: nil = none; ints are `Int`).
// Anything outside the fragment makes the translation fail loudly: the definition becomes a `Unit` marker and the
// Tie obligation about it no longer type-checks.

type c10Env struct {
	s      *source
	idents map[string]string // Go identifier / printed expression -> Lean term
}

type c10Fail struct{ msg string }

func c10Failf(format string, a ...any) { panic(c10Fail{fmt.Sprintf(format, a...)}) }

func (v *c10Env) expr(x ast.Expr) string {
	if t, ok := v.idents[v.s.src(x)]; ok {
		return t
	}
	switch n := x.(type) {
	case *ast.ParenExpr:
		return "(" + v.expr(n.X) + ")"
	case *ast.Ident:
		switch n.Name {
		case "nil":
			return "none"
		case "true", "false":
			return n.Name
		}
		c10Failf("unknown identifier %s", n.Name)
	case *ast.BasicLit:
		if n.Kind == token.INT {
			return n.Value
		}
	case *ast.TypeAssertExpr:
		return v.expr(n.X)
	case *ast.UnaryExpr:
		if n.Op == token.NOT {
			return "(!" + v.expr(n.X) + ")"
		}
	case *ast.BinaryExpr:
		a, b := v.expr(n.X), v.expr(n.Y)
		switch n.Op {
		case token.NEQ:
			return "(" + a + " != " + b + ")"
		case token.EQL:
			return "(" + a + " == " + b + ")"
		case token.LSS:
			return "(decide (" + a + " < " + b + "))"
		case token.LEQ:
			return "(decide (" + a + " ≤ " + b + "))"
		case token.GTR:
			return "(decide (" + a + " > " + b + "))"
		case token.GEQ:
			return "(decide (" + a + " ≥ " + b + "))"
		case token.LAND:
			return "(" + a + " && " + b + ")"
		case token.LOR:
			return "(" + a + " || " + b + ")"
		case token.ADD:
			return "(" + a + " + " + b + ")"
		case token.SUB:
			return "(" + a + " - " + b + ")"
		}
	case *ast.CallExpr:
		fn := v.s.src(n.Fun)
		switch {
		case fn == "errors.Is" && len(n.Args) == 2:
			return "(errorsIs " + v.expr(n.Args[0]) + " " + v.expr(n.Args[1]) + ")"
		case fn == "atomic.LoadInt32" && len(n.Args) == 1:
			if u, ok := n.Args[0].(*ast.UnaryExpr); ok && u.Op == token.AND {
				return v.expr(u.X)
			}
		}
	}
	c10Failf("expression outside the fragment: %s", v.s.src(x))
	return ""
}

// c10Def emits `def name params : ty := body()`; a failing translation becomes a marker.
func (e *emitter) c10Def(name, doc, params, ty string, body func() string) {
	defer func() {
		if p := recover(); p != nil {
			f, ok := p.(c10Fail)
			if !ok {
				panic(p)
			}
			e.errors = append(e.errors, name+": "+f.msg)
			e.printf("/-- TRANSLATION FAILED: %s -/\ndef %s : Unit := ()\n\n", f.msg, name)
		}
	}()
	b := body()
	e.printf("/-- %s -/\ndef %s %s : %s :=\n  %s\n\n", doc, name, params, ty, b)
}

func c10Func(s *source, rel, name string) *ast.FuncDecl {
	fd := s.findFunc(rel, name)
	if fd == nil {
		c10Failf("function %s not found in %s", name, rel)
	}
	return fd
}

// c10Lits lists the function literals of a node in source order.
func c10Lits(n ast.Node) []*ast.FuncLit {
	var out []*ast.FuncLit
	ast.Inspect(n, func(x ast.Node) bool {
		if l, ok := x.(*ast.FuncLit); ok {
			out = append(out, l)
		}
		return true
	})
	return out
}

func c10FirstIf(list []ast.Stmt) *ast.IfStmt {
	for _, st := range list {
		if i, ok := st.(*ast.IfStmt); ok {
			return i
		}
	}
	c10Failf("no if statement")
	return nil
}

// c10OnlyCallArg: the block is exactly one call statement of the named function; returns its i-th argument.
func c10OnlyCallArg(s *source, b *ast.BlockStmt, fn string, i int) ast.Expr {
	if len(b.List) == 1 {
		if es, ok := b.List[0].(*ast.ExprStmt); ok {
			if c, ok := es.X.(*ast.CallExpr); ok && s.src(c.Fun) == fn && len(c.Args) > i {
				return c.Args[i]
			}
		}
	}
	c10Failf("expected a single call of %s, got %s", fn, s.src(b))
	return nil
}

// c10OnlyAssign: the block is exactly one assignment `lhs = rhs`; returns lhs name and rhs.
func c10OnlyAssign(s *source, b *ast.BlockStmt) (string, ast.Expr) {
	if len(b.List) == 1 {
		if a, ok := b.List[0].(*ast.AssignStmt); ok && len(a.Lhs) == 1 && len(a.Rhs) == 1 && a.Tok == token.ASSIGN {
			return s.src(a.Lhs[0]), a.Rhs[0]
		}
	}
	c10Failf("expected a single assignment, got %s", s.src(b))
	return "", nil
}

func c10Else(i *ast.IfStmt) *ast.BlockStmt {
	b, ok := i.Else.(*ast.BlockStmt)
	if !ok {
		c10Failf("else block expected")
	}
	return b
}

func (e *emitter) c10Semantic(s *source) {
	const f = "core/mr/mapreduce.go"
	const g = "core/errorx/atomicerror.go"
	errs := map[string]string{"ErrCancelWithNil": "(some errCancelWithNil)", "ErrReduceNoOutput": "(some errReduceNoOutput)",
		"context.DeadlineExceeded": "(some errDeadline)"}
	// the error path is rendered twice from the same syntax: over error CODES (`Option Nat`, suffix "") and over error
	// VALUES with the private wrapper (`Option GErr`, suffix "W": round 5c)
	sfx, ety := "", "Option Nat"
	env := func(m map[string]string) *c10Env {
		v := &c10Env{s: s, idents: map[string]string{}}
		for k, x := range errs {
			v.idents[k] = x
		}
		for k, x := range m {
			v.idents[k] = x
		}
		return v
	}
	e.printf("/-- error codes of the translation (a convention of the extractor, equal to `Spec.encErr`) -/\ndef errCancelWithNil : Nat := 0\ndef errDeadline : Nat := 1\ndef errReduceNoOutput : Nat := 2\n\n")
	e.printf("/-- `errors.Is(err, target)` over codes: the same value, or a USER error whose value is / wraps the target — the codes of the harness: user error 111 (code 111+4) IS `ErrReduceNoOutput`, 112 (code 112+4) wraps it (`Spec.isNoOutput`) -/\ndef errorsIs (err target : Option Nat) : Bool :=\n  err == target || (target == some errReduceNoOutput && (err == some 115 || err == some 116))\n\n")

	e.c10Def("withWorkers", "`WithWorkers(workers)`: the value stored into opts.workers", "(workers : Int)", "Int", func() string {
		lits := c10Lits(c10Func(s, f, "WithWorkers").Body)
		if len(lits) != 1 {
			c10Failf("one function literal expected")
		}
		v := env(map[string]string{"workers": "workers", "minWorkers": "minWorkers"})
		i := c10FirstIf(lits[0].Body.List)
		l1, r1 := c10OnlyAssign(s, i.Body)
		l2, r2 := c10OnlyAssign(s, c10Else(i))
		if l1 != "opts.workers" || l2 != "opts.workers" || len(lits[0].Body.List) != 1 {
			c10Failf("both branches must assign opts.workers and nothing else")
		}
		return "if " + v.expr(i.Cond) + " then " + v.expr(r1) + " else " + v.expr(r2)
	})
	e.c10Def("dispatcherLoopCond", "the loop condition of `executeMappers` (the dispatcher goes on handing out items)", "(failed : Int)", "Bool", func() string {
		var cond ast.Expr
		for _, st := range c10Func(s, f, "executeMappers").Body.List {
			if fs, ok := st.(*ast.ForStmt); ok {
				cond = fs.Cond
			}
		}
		if cond == nil {
			c10Failf("no for loop with a condition")
		}
		return env(map[string]string{"failed": "failed"}).expr(cond)
	})
	e.c10Def("failedDelta", "what a recovered mapper panic adds to `failed`", "", "Int", func() string {
		var out string
		ast.Inspect(c10Func(s, f, "executeMappers").Body, func(n ast.Node) bool {
			if c, ok := n.(*ast.CallExpr); ok && s.src(c.Fun) == "atomic.AddInt32" && len(c.Args) == 2 && s.src(c.Args[0]) == "&failed" {
				out = env(nil).expr(c.Args[1])
			}
			return true
		})
		if out == "" {
			c10Failf("atomic.AddInt32(&failed, …) not found")
		}
		return out
	})
	mr := func() *ast.FuncDecl { return c10Func(s, f, "mapReduceWithPanicChan") }
	// the caller's select
	var sel *ast.SelectStmt
	findSel := func() {
		for _, st := range mr().Body.List {
			if x, ok := st.(*ast.SelectStmt); ok {
				sel = x
			}
		}
		if sel == nil {
			c10Failf("the caller's select not found")
		}
	}
	errPath := func() {
	e.c10Def("atomicErrorSet"+sfx, "`AtomicError.Set(err)` as new content of the cell (`cur` = content before)", "(cur err : "+ety+")", ety, func() string {
		fd := c10Func(s, g, "AtomicError.Set")
		if len(fd.Body.List) != 1 {
			c10Failf("one statement expected")
		}
		i := c10FirstIf(fd.Body.List)
		if i.Else != nil || i.Init != nil {
			c10Failf("plain if expected")
		}
		v := env(map[string]string{"err": "err"})
		return "if " + v.expr(i.Cond) + " then " + v.expr(c10OnlyCallArg(s, i.Body, "ae.err.Store", 0)) + " else cur"
	})
	e.c10Def("atomicErrorLoad"+sfx, "`AtomicError.Load()` (`cur` = content of the cell)", "(cur : "+ety+")", ety, func() string {
		fd := c10Func(s, g, "AtomicError.Load")
		if len(fd.Body.List) != 2 {
			c10Failf("two statements expected")
		}
		i := c10FirstIf(fd.Body.List[:1])
		as, ok := i.Init.(*ast.AssignStmt)
		if !ok || len(as.Lhs) != 1 || len(as.Rhs) != 1 || s.src(as.Rhs[0]) != "ae.err.Load()" || i.Else != nil {
			c10Failf("`if v := ae.err.Load(); …` expected")
		}
		name := s.src(as.Lhs[0])
		v := env(map[string]string{name: "v"})
		ret := func(st ast.Stmt) ast.Expr {
			r, ok := st.(*ast.ReturnStmt)
			if !ok || len(r.Results) != 1 {
				c10Failf("return of one value expected")
			}
			return r.Results[0]
		}
		if len(i.Body.List) != 1 {
			c10Failf("one statement in the if body expected")
		}
		return "let v := cur; if " + v.expr(i.Cond) + " then " + v.expr(ret(i.Body.List[0])) + " else " + v.expr(ret(fd.Body.List[1]))
	})
	e.c10Def("cancelRecords"+sfx, "what `cancel(err)` stores into retErr (the function handed to `once`)", "(err : "+ety+")", ety, func() string {
		var lit *ast.FuncLit
		ast.Inspect(mr().Body, func(n ast.Node) bool {
			if c, ok := n.(*ast.CallExpr); ok && s.src(c.Fun) == "once" && len(c.Args) == 1 {
				lit, _ = c.Args[0].(*ast.FuncLit)
			}
			return true
		})
		if lit == nil || len(lit.Body.List) != 3 {
			c10Failf("once(func(err error){ if…; drain; finish })")
		}
		i := c10FirstIf(lit.Body.List[:1])
		v := env(map[string]string{"err": "err"})
		return "if " + v.expr(i.Cond) + " then atomicErrorSet"+sfx+" none " + v.expr(c10OnlyCallArg(s, i.Body, "retErr.Set", 0)) +
			" else atomicErrorSet"+sfx+" none " + v.expr(c10OnlyCallArg(s, c10Else(i), "retErr.Set", 0))
	})
	e.c10Def("callerOutput"+sfx, "the caller's `case v, ok := <-output` branch as (val, err)", "(retErr : "+ety+") (ok : Bool) (v : Nat)", "Nat × "+ety, func() string {
		findSel()
		for _, cl := range sel.Body.List {
			cc := cl.(*ast.CommClause)
			if cc.Comm == nil || s.src(cc.Comm) != "v, ok := <-output" {
				continue
			}
			if len(cc.Body) != 1 {
				c10Failf("one statement in the output case expected")
			}
			i := c10FirstIf(cc.Body)
			as, okk := i.Init.(*ast.AssignStmt)
			if !okk || s.src(as) != "e := retErr.Load()" {
				c10Failf("`if e := retErr.Load(); …` expected")
			}
			vv := env(map[string]string{"e": "e", "ok": "ok", "v": "v"})
			branch := func(b *ast.BlockStmt) string {
				l, r := c10OnlyAssign(s, b)
				switch l {
				case "err":
					return "(0, " + vv.expr(r) + ")"
				case "val":
					return "(" + vv.expr(r) + ", none)"
				}
				c10Failf("assignment to %s", l)
				return ""
			}
			i2, okk := i.Else.(*ast.IfStmt)
			if !okk || i2.Init != nil {
				c10Failf("else-if expected")
			}
			return "let e := atomicErrorLoad"+sfx+" retErr; if " + vv.expr(i.Cond) + " then " + branch(i.Body) + " else if " + vv.expr(i2.Cond) +
				" then " + branch(i2.Body) + " else " + branch(c10Else(i2))
		}
		c10Failf("output case not found")
		return ""
	})
	}
	errPath()
	e.c10Def("callerCtxCase", "the caller's context case: (argument of cancel, returned err)", "", "Option Nat × Option Nat", func() string {
		findSel()
		for _, cl := range sel.Body.List {
			cc := cl.(*ast.CommClause)
			if cc.Comm == nil || s.src(cc.Comm) != "<-options.ctx.Done()" {
				continue
			}
			if len(cc.Body) != 2 {
				c10Failf("two statements in the context case expected")
			}
			arg := c10OnlyCallArg(s, &ast.BlockStmt{List: cc.Body[:1]}, "cancel", 0)
			l, r := c10OnlyAssign(s, &ast.BlockStmt{List: cc.Body[1:]})
			if l != "err" {
				c10Failf("assignment to err expected")
			}
			return "(" + env(nil).expr(arg) + ", " + env(nil).expr(r) + ")"
		}
		c10Failf("context case not found")
		return ""
	})
	e.c10Def("voidReturn", "what `MapReduceVoid` returns for the error of `MapReduce` (`fromCancel` = the error carries the mark of `markCancel`: the type assertion `err.(cancelError)` succeeds)", "(fromCancel : Bool) (err : Option Nat)", "Option Nat", func() string {
		fd := c10Func(s, f, "MapReduceVoid")
		if len(fd.Body.List) != 4 {
			c10Failf("four statements expected: call, if marked, if no output, return")
		}
		retOf := func(st ast.Stmt) ast.Expr {
			r, ok := st.(*ast.ReturnStmt)
			if !ok || len(r.Results) != 1 {
				c10Failf("return of one value expected")
			}
			return r.Results[0]
		}
		i0, ok0 := fd.Body.List[1].(*ast.IfStmt)
		if !ok0 || i0.Init == nil || s.src(i0.Init) != "ce, ok := err.(cancelError)" || i0.Else != nil || len(i0.Body.List) != 1 {
			c10Failf("`if ce, ok := err.(cancelError); ok { return ce.error }` expected")
		}
		// ce.error is the error that was handed to cancel: the same code as `err` in the model's domain
		v0 := env(map[string]string{"ok": "fromCancel", "ce.error": "err"})
		i := c10FirstIf(fd.Body.List[2:3])
		v := env(map[string]string{"err": "err"})
		if len(i.Body.List) != 1 || i.Else != nil || i.Init != nil {
			c10Failf("if … { return x }; return y expected")
		}
		return "if " + v0.expr(i0.Cond) + " then " + v0.expr(retOf(i0.Body.List[0])) + " else if " + v.expr(i.Cond) + " then " +
			v.expr(retOf(i.Body.List[0])) + " else " + v.expr(retOf(fd.Body.List[3]))
	})
	e.c10Def("markCancelArg", "`markCancel(cancel)(err)`: (what is handed to the real cancel, whether it carries the mark)", "(err : Option Nat)", "Option Nat × Bool", func() string {
		lits := c10Lits(c10Func(s, f, "markCancel").Body)
		if len(lits) != 1 || len(lits[0].Body.List) != 2 {
			c10Failf("return func(err error) { if …; cancel(err) } expected")
		}
		i := c10FirstIf(lits[0].Body.List[:1])
		l, r := c10OnlyAssign(s, i.Body)
		cl, okc := r.(*ast.CompositeLit)
		if l != "err" || i.Else != nil || !okc || s.src(cl.Type) != "cancelError" || len(cl.Elts) != 1 || s.src(cl.Elts[0]) != "err" {
			c10Failf("`if err != nil { err = cancelError{err} }` expected")
		}
		arg := c10OnlyCallArg(s, &ast.BlockStmt{List: lits[0].Body.List[1:]}, "cancel", 0)
		if s.src(arg) != "err" {
			c10Failf("cancel(err) expected")
		}
		return "if " + env(map[string]string{"err": "err"}).expr(i.Cond) + " then (err, true) else (err, false)"
	})
	for _, fn := range []string{"Finish", "FinishVoid"} {
		fn := fn
		lo := strings.ToLower(fn[:1]) + fn[1:]
		e.c10Def(lo+"EmptyGuard", "`"+fn+"` returns at once (n = len(fns))", "(n : Int)", "Bool", func() string {
			i := c10FirstIf(c10Func(s, f, fn).Body.List[:1])
			return env(map[string]string{"len(fns)": "n"}).expr(i.Cond)
		})
		e.c10Def(lo+"WorkersArg", "the argument of the `WithWorkers` option `"+fn+"` passes (n = len(fns))", "(n : Int)", "Int", func() string {
			var out string
			ast.Inspect(c10Func(s, f, fn).Body, func(n ast.Node) bool {
				if c, ok := n.(*ast.CallExpr); ok && s.src(c.Fun) == "WithWorkers" && len(c.Args) == 1 {
					out = env(map[string]string{"len(fns)": "n"}).expr(c.Args[0])
				}
				return true
			})
			if out == "" {
				c10Failf("no WithWorkers option")
			}
			return out
		})
	}
	e.c10Def("finishMapperCancel", "the mapper of `Finish`: which error it passes to cancel (`none` = it does not cancel) for the result of fn()", "(err : Option Nat)", "Option (Option Nat)", func() string {
		lits := c10Lits(c10Func(s, f, "Finish").Body)
		if len(lits) != 3 || len(lits[1].Body.List) != 1 {
			c10Failf("three function literals expected, the mapper with one statement")
		}
		i := c10FirstIf(lits[1].Body.List)
		if i.Init == nil || s.src(i.Init) != "err := fn()" || i.Else != nil {
			c10Failf("`if err := fn(); …` expected")
		}
		v := env(map[string]string{"err": "err"})
		return "if " + v.expr(i.Cond) + " then some " + v.expr(c10OnlyCallArg(s, i.Body, "cancel", 0)) + " else none"
	})
	// round 5c: the same path over error VALUES: `cancelError` is the wrapper it is
	e.printf("/-- a Go error value: a code, or the private wrapper `cancelError{inner}` -/\ninductive GErr\n  | code (k : Nat)\n  | marked (inner : GErr)\n  deriving DecidableEq, Repr\n\n")
	e.printf("/-- `errors.Is` on values: `cancelError` embeds the error INTERFACE (no Unwrap method is promoted), so a wrapped value never matches a sentinel -/\ndef errorsIsW (err : Option GErr) (target : Option GErr) : Bool :=\n  match err, target with\n  | some (.code k), some (.code t) => errorsIs (some k) (some t)\n  | _, _ => false\n\n")
	sfx, ety = "W", "Option GErr"
	errs["ErrCancelWithNil"], errs["ErrReduceNoOutput"], errs["context.DeadlineExceeded"] =
		"(some (GErr.code errCancelWithNil))", "(some (GErr.code errReduceNoOutput))", "(some (GErr.code errDeadline))"
	errPath()
	e.c10Def("markCancelW", "`markCancel(cancel)(err)` over values: what is handed to the real cancel", "(err : Option GErr)", "Option GErr", func() string {
		lits := c10Lits(c10Func(s, f, "markCancel").Body)
		if len(lits) != 1 || len(lits[0].Body.List) != 2 {
			c10Failf("return func(err error) { if …; cancel(err) } expected")
		}
		i := c10FirstIf(lits[0].Body.List[:1])
		l, r := c10OnlyAssign(s, i.Body)
		cl, okc := r.(*ast.CompositeLit)
		if l != "err" || i.Else != nil || !okc || s.src(cl.Type) != "cancelError" || len(cl.Elts) != 1 || s.src(cl.Elts[0]) != "err" {
			c10Failf("`if err != nil { err = cancelError{err} }` expected")
		}
		if s.src(c10OnlyCallArg(s, &ast.BlockStmt{List: lits[0].Body.List[1:]}, "cancel", 0)) != "err" {
			c10Failf("cancel(err) expected")
		}
		return "if " + env(map[string]string{"err": "err"}).expr(i.Cond) + " then err.map GErr.marked else err"
	})
	e.c10Def("voidReturnW", "`MapReduceVoid`'s return over values: `err.(cancelError)` succeeds exactly for a wrapped value, whose inner error is returned", "(err : Option GErr)", "Option GErr", func() string {
		fd := c10Func(s, f, "MapReduceVoid")
		if len(fd.Body.List) != 4 {
			c10Failf("four statements expected")
		}
		retOf := func(st ast.Stmt) ast.Expr {
			r, ok := st.(*ast.ReturnStmt)
			if !ok || len(r.Results) != 1 {
				c10Failf("return of one value expected")
			}
			return r.Results[0]
		}
		i0, ok0 := fd.Body.List[1].(*ast.IfStmt)
		if !ok0 || i0.Init == nil || s.src(i0.Init) != "ce, ok := err.(cancelError)" || s.src(i0.Cond) != "ok" || i0.Else != nil ||
			len(i0.Body.List) != 1 || s.src(retOf(i0.Body.List[0])) != "ce.error" {
			c10Failf("`if ce, ok := err.(cancelError); ok { return ce.error }` expected")
		}
		i := c10FirstIf(fd.Body.List[2:3])
		v := env(map[string]string{"err": "err"})
		if len(i.Body.List) != 1 || i.Else != nil || i.Init != nil {
			c10Failf("if … { return x }; return y expected")
		}
		return "match err with\n  | some (.marked inner) => some inner\n  | _ => if " + strings.ReplaceAll(v.expr(i.Cond), "errorsIs ", "errorsIsW ") + " then " +
			v.expr(retOf(i.Body.List[0])) + " else " + v.expr(retOf(fd.Body.List[3]))
	})
	errs["ErrCancelWithNil"], errs["ErrReduceNoOutput"], errs["context.DeadlineExceeded"] = "(some errCancelWithNil)", "(some errReduceNoOutput)", "(some errDeadline)"
	sfx, ety = "", "Option Nat"

	// the defaults and the option plumbing (skeletons)
	var fields []string
	ast.Inspect(c10Func0(s, f, "newOptions"), func(n ast.Node) bool {
		if kv, ok := n.(*ast.KeyValueExpr); ok {
			fields = append(fields, s.src(kv.Key)+": "+s.src(kv.Value))
		}
		return true
	})
	e.stringList("newOptionsFields", "the defaults `newOptions` builds (a fresh struct per call)", fields)
	var rets []string
	ast.Inspect(c10Func0(s, f, "newOptions"), func(n ast.Node) bool {
		if r, ok := n.(*ast.ReturnStmt); ok && len(r.Results) == 1 {
			if u, ok := r.Results[0].(*ast.UnaryExpr); ok {
				if _, ok := u.X.(*ast.CompositeLit); ok && u.Op == token.AND {
					rets = append(rets, "&literal")
					return true
				}
			}
			rets = append(rets, s.src(r.Results[0]))
		}
		return true
	})
	e.stringList("newOptionsReturns", "what `newOptions` returns: the address of a fresh composite literal", rets)
	var pkgVars []string
	if file := s.file(f); file != nil {
		for _, d := range file.Decls {
			if gd, ok := d.(*ast.GenDecl); ok && gd.Tok == token.VAR {
				for _, sp := range gd.Specs {
					for _, nm := range sp.(*ast.ValueSpec).Names {
						pkgVars = append(pkgVars, nm.Name)
					}
				}
			}
		}
	}
	e.stringList("packageVars", "package-level variables of core/mr/mapreduce.go (state that would persist between calls)", pkgVars)
}

// c10KV lists `key: value` of every keyed composite-literal element of a function, in source order (which argument /
// option / channel is forwarded into which field); function literals are abbreviated.
func (e *emitter) c10KV(s *source, rel, goName, leanName string) {
	var out []string
	ast.Inspect(c10Func0(s, rel, goName), func(n ast.Node) bool {
		if kv, ok := n.(*ast.KeyValueExpr); ok {
			v := s.src(kv.Value)
			if _, ok := kv.Value.(*ast.FuncLit); ok {
				v = "func"
			}
			out = append(out, s.src(kv.Key)+": "+v)
		}
		return true
	})
	e.stringList(leanName, "fields forwarded by the composite literals of `"+goName+"` in "+rel, out)
}

// c10CallArgs lists the printed argument lists of every call of `callee` in a function (function literals abbreviated).
func (e *emitter) c10CallArgs(s *source, rel, goName, callee, leanName string) {
	var out []string
	ast.Inspect(c10Func0(s, rel, goName), func(n ast.Node) bool {
		if c, ok := n.(*ast.CallExpr); ok && s.src(c.Fun) == callee {
			var as []string
			for _, a := range c.Args {
				if _, ok := a.(*ast.FuncLit); ok {
					as = append(as, "func")
				} else {
					as = append(as, s.src(a))
				}
			}
			if c.Ellipsis.IsValid() {
				as[len(as)-1] += "..."
			}
			out = append(out, strings.Join(as, ", "))
		}
		return true
	})
	e.stringList(leanName, "arguments of the calls of `"+callee+"` in `"+goName+"` ("+rel+")", out)
}

// c10Stores lists `lhs = rhs` for every assignment to a selector expression in a function.
func (e *emitter) c10Stores(s *source, rel, goName, leanName string) {
	var out []string
	ast.Inspect(c10Func0(s, rel, goName), func(n ast.Node) bool {
		if a, ok := n.(*ast.AssignStmt); ok && len(a.Lhs) == len(a.Rhs) {
			for i, l := range a.Lhs {
				if _, ok := l.(*ast.SelectorExpr); ok {
					out = append(out, s.src(l)+" = "+s.src(a.Rhs[i]))
				}
			}
		}
		return true
	})
	e.stringList(leanName, "stores to fields in `"+goName+"` ("+rel+")", out)
}

// ---------------------------------------------------------------- round 5: the ORDER OF EFFECTS as a typed list
//
// The cleanup paths of the pipeline (cancel, finish, the deferred functions of the generator / dispatcher / worker /
// reducer goroutines and of the caller, the caller's panic and context cases) are straight-line sequences of channel
// closes, drains, wait-group calls and panic hand-overs.  Their order is what the model's step tables encode (and what
// the seeded changes C10-2 and C10-4 broke).  They are extracted as lists over the inductive type `Eff`; a statement
// outside the vocabulary becomes `Eff.other "<source>"` and breaks the Tie.

const c10EffDecl = `/-- one effect of a cleanup path (round 5: typed, in source order) -/
inductive Eff
  | retErrSet            -- retErr.Set(err) / retErr.Set(ErrCancelWithNil) (both branches of ` + "`if err != nil`" + `)
  | drainSource | drainCollector | drainOutput
  | finish               -- finish()
  | closeDone | closeOutput | closeCollector | closeSource
  | wgWait | wgDone | poolRelease
  | recoverBegin | recoverEnd      -- if r := recover(); r != nil { … }
  | failedInc | panicWrite         -- atomic.AddInt32(&failed, 1) / panicChan.write(r)
  | rangeOutputPanic               -- for range output { panic("more than one element …") }
  | repanic | panicV               -- panicChan.repanic() / panic(v)
  | cancelDeadline | errDeadline   -- cancel(context.DeadlineExceeded) / err = context.DeadlineExceeded
  | callUser (f : String)          -- the call of the user function
  | other (src : String)
  deriving DecidableEq, Repr

`

func c10EffOfCall(src string) string {
	switch src {
	case "drain(source)", "drain(mCtx.source)":
		return ".drainSource"
	case "drain(collector)":
		return ".drainCollector"
	case "drain(output)":
		return ".drainOutput"
	case "finish()":
		return ".finish"
	case "close(done)":
		return ".closeDone"
	case "close(output)":
		return ".closeOutput"
	case "close(mCtx.collector)":
		return ".closeCollector"
	case "close(source)":
		return ".closeSource"
	case "wg.Wait()":
		return ".wgWait"
	case "wg.Done()":
		return ".wgDone"
	case "atomic.AddInt32(&failed, 1)":
		return ".failedInc"
	case "panicChan.write(r)", "mCtx.panicChan.write(r)":
		return ".panicWrite"
	case "panicChan.repanic()":
		return ".repanic"
	case "panic(v)":
		return ".panicV"
	case "cancel(context.DeadlineExceeded)":
		return ".cancelDeadline"
	case "generate(source)":
		return ".callUser \"generate\""
	case "mCtx.mapper(item, writer)":
		return ".callUser \"mapper\""
	case "reducer(collector, writer, cancel)":
		return ".callUser \"reducer\""
	}
	return ""
}

func (s *source) c10Effects(list []ast.Stmt) []string {
	var out []string
	other := func(n ast.Node) { out = append(out, ".other "+leanStr(s.src(n))) }
	for _, st := range list {
		switch x := st.(type) {
		case *ast.ExprStmt:
			if u, ok := x.X.(*ast.UnaryExpr); ok && u.Op == token.ARROW && s.src(u.X) == "pool" {
				out = append(out, ".poolRelease")
				continue
			}
			if c, ok := x.X.(*ast.CallExpr); ok {
				if e := c10EffOfCall(s.src(c)); e != "" {
					out = append(out, e)
					continue
				}
				// closeOnce.Do(func(){…}) / once.Do(func(){…}): the effects of the literal
				if (s.src(c.Fun) == "closeOnce.Do") && len(c.Args) == 1 {
					if l, ok := c.Args[0].(*ast.FuncLit); ok {
						out = append(out, s.c10Effects(l.Body.List)...)
						continue
					}
				}
			}
			other(st)
		case *ast.IfStmt:
			if x.Init != nil && s.src(x.Init) == "r := recover()" && s.src(x.Cond) == "r != nil" && x.Else == nil {
				out = append(out, ".recoverBegin")
				out = append(out, s.c10Effects(x.Body.List)...)
				out = append(out, ".recoverEnd")
				continue
			}
			if x.Init == nil && s.src(x.Cond) == "err != nil" && x.Else != nil {
				if eb, ok := x.Else.(*ast.BlockStmt); ok && len(x.Body.List) == 1 && len(eb.List) == 1 &&
					strings.HasPrefix(s.src(x.Body.List[0]), "retErr.Set(") && strings.HasPrefix(s.src(eb.List[0]), "retErr.Set(") {
					out = append(out, ".retErrSet")
					continue
				}
			}
			other(st)
		case *ast.RangeStmt:
			if s.src(x.X) == "output" && len(x.Body.List) == 1 && strings.HasPrefix(s.src(x.Body.List[0]), "panic(") {
				out = append(out, ".rangeOutputPanic")
				continue
			}
			other(st)
		case *ast.AssignStmt:
			if s.src(x) == "err = context.DeadlineExceeded" {
				out = append(out, ".errDeadline")
				continue
			}
			other(st)
		default:
			other(st)
		}
	}
	return out
}

func leanStr(x string) string {
	x = strings.ReplaceAll(x, "\\", "\\\\")
	x = strings.ReplaceAll(x, "\"", "\\\"")
	x = strings.ReplaceAll(x, "\n", " ")
	x = strings.ReplaceAll(x, "\t", "")
	return "\"" + x + "\""
}

func (e *emitter) c10EffDef(name, doc string, get func() []ast.Stmt, s *source) {
	e.c10Def(name, doc, "", "List Eff", func() string {
		return "[" + strings.Join(s.c10Effects(get()), ", ") + "]"
	})
}

// c10DeferLit: the body of the first `defer func(){…}()` directly in the statement list.
func c10DeferLit(list []ast.Stmt) []ast.Stmt {
	for _, st := range list {
		if d, ok := st.(*ast.DeferStmt); ok {
			if l, ok := d.Call.Fun.(*ast.FuncLit); ok {
				return l.Body.List
			}
		}
	}
	c10Failf("no deferred function literal")
	return nil
}

// c10GoLits: the bodies of the `go func(){…}()` statements found anywhere in the node, in source order.
func c10GoLits(n ast.Node) [][]ast.Stmt {
	var out [][]ast.Stmt
	ast.Inspect(n, func(x ast.Node) bool {
		if g, ok := x.(*ast.GoStmt); ok {
			if l, ok := g.Call.Fun.(*ast.FuncLit); ok {
				out = append(out, l.Body.List)
			}
		}
		return true
	})
	return out
}

// c10GoDirective: the `go` line of go.mod as (major, minor) — since go 1.21 `panic(nil)` is recovered as a non-nil
// *runtime.PanicNilError, so `if r := recover(); r != nil` does not miss it.
func c10GoDirective() (int, int) {
	b, err := os.ReadFile(filepath.Join(*repo, "go.mod"))
	if err != nil {
		c10Failf("go.mod: %v", err)
	}
	for _, ln := range strings.Split(string(b), "\n") {
		f := strings.Fields(ln)
		if len(f) == 2 && f[0] == "go" {
			var a, c int
			if n, _ := fmt.Sscanf(f[1], "%d.%d", &a, &c); n == 2 {
				return a, c
			}
		}
	}
	c10Failf("no go directive in go.mod")
	return 0, 0
}

func (e *emitter) c10EffectLists(s *source) {
	const f = "core/mr/mapreduce.go"
	e.printf("%s", c10EffDecl)
	e.c10Def("goDirective", "the `go` directive of go.mod (major, minor)", "", "Nat × Nat", func() string {
		a, c := c10GoDirective()
		return fmt.Sprintf("(%d, %d)", a, c)
	})
	// the statements of the three goroutine bodies OUTSIDE the deferred function: the call of the user function only
	nonDeferred := func(body []ast.Stmt) []ast.Stmt {
		var rest []ast.Stmt
		for _, st := range body {
			if _, ok := st.(*ast.DeferStmt); !ok {
				rest = append(rest, st)
			}
		}
		return rest
	}
	for _, g := range []struct{ name, fn string }{{"reducerGoBody", "mapReduceWithPanicChan"}, {"workerGoBody", "executeMappers"}, {"generatorGoBody", "buildSource"}} {
		g := g
		e.c10EffDef(g.name, "the goroutine body of `"+g.fn+"` outside its deferred function, and the deferred function comes FIRST (so it also runs on runtime.Goexit)", func() []ast.Stmt {
			gl := c10GoLits(c10Func(s, f, g.fn).Body)
			if len(gl) != 1 || len(gl[0]) == 0 {
				c10Failf("one go func(){…}() expected")
			}
			if _, ok := gl[0][0].(*ast.DeferStmt); !ok {
				c10Failf("the deferred function must be the first statement of the goroutine")
			}
			return nonDeferred(gl[0])
		}, s)
	}
	mr := func() *ast.FuncDecl { return c10Func(s, f, "mapReduceWithPanicChan") }
	litArgOf := func(fd *ast.FuncDecl, callee string) *ast.FuncLit {
		var lit *ast.FuncLit
		ast.Inspect(fd.Body, func(n ast.Node) bool {
			if c, ok := n.(*ast.CallExpr); ok && s.src(c.Fun) == callee && len(c.Args) == 1 && lit == nil {
				lit, _ = c.Args[0].(*ast.FuncLit)
			}
			return true
		})
		if lit == nil {
			c10Failf("%s(func…) not found", callee)
		}
		return lit
	}
	e.c10EffDef("cancelEffects", "`cancel` (the function handed to `once`): record the error, THEN drain the source, THEN finish", func() []ast.Stmt {
		return litArgOf(mr(), "once").Body.List
	}, s)
	// round 5b: HOW the cancel closure is made: wrapped into once(…) (idempotent after the first call) or bare
	e.printf("/-- how a closure is made: handed to `once(…)` (runs for the first call only) or used as it is -/\ninductive Wrap\n  | onceOf (body : List Eff)\n  | bare (body : List Eff)\n  | other (src : String)\n  deriving DecidableEq, Repr\n\n")
	e.c10Def("cancelDef", "the definition of `cancel` in mapReduceWithPanicChan", "", "Wrap", func() string {
		for _, st := range mr().Body.List {
			a, ok := st.(*ast.AssignStmt)
			if !ok || len(a.Lhs) != 1 || len(a.Rhs) != 1 || s.src(a.Lhs[0]) != "cancel" {
				continue
			}
			if c, ok := a.Rhs[0].(*ast.CallExpr); ok && len(c.Args) == 1 {
				if l, ok := c.Args[0].(*ast.FuncLit); ok && s.src(c.Fun) == "once" {
					return ".onceOf [" + strings.Join(s.c10Effects(l.Body.List), ", ") + "]"
				}
			}
			if l, ok := a.Rhs[0].(*ast.FuncLit); ok {
				return ".bare [" + strings.Join(s.c10Effects(l.Body.List), ", ") + "]"
			}
			return ".other " + leanStr(s.src(a.Rhs[0]))
		}
		c10Failf("cancel := … not found")
		return ""
	})
	e.c10Def("onceIsSyncOnce", "`once(fn)` = a fresh sync.Once per call of `once`, the returned function runs `fn(err)` under `once.Do`", "", "Bool", func() string {
		fd := s.findFunc(f, "once")
		if fd == nil || len(fd.Body.List) != 2 {
			return "false"
		}
		ok := s.src(fd.Body.List[0]) == "once := new(sync.Once)"
		r, isRet := fd.Body.List[1].(*ast.ReturnStmt)
		if !isRet || len(r.Results) != 1 {
			return "false"
		}
		l, isLit := r.Results[0].(*ast.FuncLit)
		if !isLit || len(l.Body.List) != 1 {
			return "false"
		}
		es, isE := l.Body.List[0].(*ast.ExprStmt)
		if !isE {
			return "false"
		}
		c, isC := es.X.(*ast.CallExpr)
		if !isC || s.src(c.Fun) != "once.Do" || len(c.Args) != 1 {
			return "false"
		}
		in, isIn := c.Args[0].(*ast.FuncLit)
		if !isIn || len(in.Body.List) != 1 || s.src(in.Body.List[0]) != "fn(err)" || !ok {
			return "false"
		}
		return "true"
	})
	e.c10EffDef("finishEffects", "`finish` (under closeOnce): close(done), then close(output)", func() []ast.Stmt {
		var fin *ast.FuncLit
		for _, st := range mr().Body.List {
			if a, ok := st.(*ast.AssignStmt); ok && len(a.Lhs) == 1 && s.src(a.Lhs[0]) == "finish" {
				fin, _ = a.Rhs[0].(*ast.FuncLit)
			}
		}
		if fin == nil {
			c10Failf("finish := func(){…} not found")
		}
		return fin.Body.List
	}, s)
	e.c10EffDef("callerDeferEffects", "the caller's deferred function: wait for the reducer goroutine (output closed), then re-raise a captured panic", func() []ast.Stmt {
		return c10DeferLit(mr().Body.List)
	}, s)
	e.c10EffDef("reducerGoEffects", "the reducer goroutine: [deferred: drain collector, hand over a panic, finish] after the user reducer", func() []ast.Stmt {
		gl := c10GoLits(mr().Body)
		if len(gl) != 1 {
			c10Failf("one go func(){…}() expected in mapReduceWithPanicChan")
		}
		body := gl[0]
		var rest []ast.Stmt
		for _, st := range body {
			if _, ok := st.(*ast.DeferStmt); !ok {
				rest = append(rest, st)
			}
		}
		return append(rest, c10DeferLit(body)...)
	}, s)
	sel := func(comm string) []ast.Stmt {
		for _, st := range mr().Body.List {
			if x, ok := st.(*ast.SelectStmt); ok {
				for _, cl := range x.Body.List {
					cc := cl.(*ast.CommClause)
					if cc.Comm != nil && s.src(cc.Comm) == comm {
						return cc.Body
					}
				}
			}
		}
		c10Failf("select case %s not found", comm)
		return nil
	}
	e.c10EffDef("callerPanicCaseEffects", "the caller's panic case: drain output (so that the deferred range does not panic), then re-raise", func() []ast.Stmt {
		return sel("v := <-panicChan.channel")
	}, s)
	e.c10EffDef("callerCtxCaseEffects", "the caller's context case: cancel(DeadlineExceeded), then err = DeadlineExceeded", func() []ast.Stmt {
		return sel("<-options.ctx.Done()")
	}, s)
	em := func() *ast.FuncDecl { return c10Func(s, f, "executeMappers") }
	e.c10EffDef("dispatcherDeferEffects", "executeMappers' deferred function: wait for the workers, close the collector, drain the source", func() []ast.Stmt {
		return c10DeferLit(em().Body.List)
	}, s)
	e.c10EffDef("workerGoEffects", "one worker goroutine: the mapper, then [deferred: count + hand over a panic, wg.Done, release the pool slot]", func() []ast.Stmt {
		gl := c10GoLits(em().Body)
		if len(gl) != 1 {
			c10Failf("one go func(){…}() expected in executeMappers")
		}
		var rest []ast.Stmt
		for _, st := range gl[0] {
			if _, ok := st.(*ast.DeferStmt); !ok {
				rest = append(rest, st)
			}
		}
		return append(rest, c10DeferLit(gl[0])...)
	}, s)
	e.c10EffDef("generatorGoEffects", "the generator goroutine: generate, then [deferred: hand over a panic, close the source]", func() []ast.Stmt {
		gl := c10GoLits(c10Func(s, f, "buildSource").Body)
		if len(gl) != 1 {
			c10Failf("one go func(){…}() expected in buildSource")
		}
		var rest []ast.Stmt
		for _, st := range gl[0] {
			if _, ok := st.(*ast.DeferStmt); !ok {
				rest = append(rest, st)
			}
		}
		return append(rest, c10DeferLit(gl[0])...)
	}, s)
}

// ---------------------------------------------------------------- round 5e: WHERE the per-call state comes from (typed)
//
// Every piece of state of one call (panic channel, options, output / collector / done, retErr, closeOnce, the
// sync.Once of cancel) must be allocated BY that call: the model starts every call from `init c` (empty panic buffer, no
// recorded error, nothing closed).  A pooled / package-level / recycled object (seeded C10-9: the onceChan from a
// sync.Pool) makes the state of an earlier call visible in a later one.

const c10AllocDecl = `/-- where a piece of per-call state comes from -/
inductive Alloc
  | makeChan (cap : String)           -- make(chan T[, cap]) in the function itself
  | localVar (ty : String)            -- var x T (zero value, in the function itself)
  | newOf (ty : String)               -- new(T)
  | addrOfLiteral (fields : List (String × String))  -- &T{field: value, …} (a fresh literal)
  | freshCall (fn : String)           -- x := fn(…), fn tied separately
  | other (src : String)
  deriving DecidableEq, Repr

/-- a package-level variable: an error sentinel built by errors.New (immutable), or anything else (shared state) -/
inductive PkgVar
  | sentinel (name : String)
  | shared (name : String) (src : String)
  deriving DecidableEq, Repr

`

func (s *source) c10AllocOf(x ast.Expr) string {
	switch n := x.(type) {
	case *ast.CallExpr:
		fn := s.src(n.Fun)
		switch {
		case fn == "make" && len(n.Args) >= 1:
			if _, ok := n.Args[0].(*ast.ChanType); ok {
				c := "0"
				if len(n.Args) == 2 {
					c = s.src(n.Args[1])
				}
				return ".makeChan " + leanStr(c)
			}
		case fn == "new" && len(n.Args) == 1:
			return ".newOf " + leanStr(s.src(n.Args[0]))
		default:
			if id, ok := n.Fun.(*ast.Ident); ok {
				return ".freshCall " + leanStr(id.Name)
			}
		}
	case *ast.UnaryExpr:
		if cl, ok := n.X.(*ast.CompositeLit); ok && n.Op == token.AND {
			var fs []string
			for _, el := range cl.Elts {
				kv, ok := el.(*ast.KeyValueExpr)
				if !ok {
					return ".other " + leanStr(s.src(x))
				}
				fs = append(fs, "("+leanStr(s.src(kv.Key))+", "+leanStr(s.src(kv.Value))+")")
			}
			return ".addrOfLiteral [" + strings.Join(fs, ", ") + "]"
		}
	}
	return ".other " + leanStr(s.src(x))
}

// c10StateOf: the allocation site of the named local of a function (`x := …`, `var x T`), first definition.
func (s *source) c10StateOf(fd *ast.FuncDecl, name string) string {
	out := ""
	ast.Inspect(fd.Body, func(n ast.Node) bool {
		if out != "" {
			return false
		}
		switch x := n.(type) {
		case *ast.AssignStmt:
			if x.Tok == token.DEFINE && len(x.Lhs) == len(x.Rhs) {
				for i, l := range x.Lhs {
					if s.src(l) == name {
						out = s.c10AllocOf(x.Rhs[i])
					}
				}
			}
		case *ast.DeclStmt:
			if gd, ok := x.Decl.(*ast.GenDecl); ok && gd.Tok == token.VAR {
				for _, sp := range gd.Specs {
					vs := sp.(*ast.ValueSpec)
					for i, nm := range vs.Names {
						if nm.Name == name {
							if len(vs.Values) > i {
								out = s.c10AllocOf(vs.Values[i])
							} else {
								out = ".localVar " + leanStr(s.src(vs.Type))
							}
						}
					}
				}
			}
		}
		return true
	})
	if out == "" {
		out = ".other \"undefined\""
	}
	return out
}

func (e *emitter) c10AllocSites(s *source) {
	const f = "core/mr/mapreduce.go"
	e.printf("%s", c10AllocDecl)
	site := func(lean, doc, fn string, names ...string) {
		e.c10Def(lean, doc, "", "List (String × Alloc)", func() string {
			fd := c10Func(s, f, fn)
			var out []string
			for _, nm := range names {
				out = append(out, "("+leanStr(nm)+", "+s.c10StateOf(fd, nm)+")")
			}
			return "[" + strings.Join(out, ", ") + "]"
		})
	}
	site("coreState", "the state of one call made in `mapReduceWithPanicChan`", "mapReduceWithPanicChan", "options", "output", "collector", "done", "retErr", "closeOnce")
	site("mapReduceState", "`MapReduce`: its panic channel and source", "MapReduce", "panicChan", "source")
	site("mapReduceChanState", "`MapReduceChan`: its panic channel", "MapReduceChan", "panicChan")
	site("forEachState", "`ForEach`: its state", "ForEach", "options", "panicChan", "source", "collector", "done")
	site("executeMappersState", "`executeMappers`: pool", "executeMappers", "pool")
	site("buildSourceState", "`buildSource`", "buildSource", "source")
	site("buildOptionsState", "`buildOptions`", "buildOptions", "options")
	site("onceState", "`once`", "once", "once")
	e.c10Def("newOnceChanAlloc", "what `newOnceChan` returns", "", "Alloc", func() string {
		fd := c10Func(s, f, "newOnceChan")
		if len(fd.Body.List) != 1 {
			c10Failf("one return statement expected")
		}
		r, ok := fd.Body.List[0].(*ast.ReturnStmt)
		if !ok || len(r.Results) != 1 {
			c10Failf("return of one value expected")
		}
		return s.c10AllocOf(r.Results[0])
	})
	e.c10Def("newOptionsAlloc", "what `newOptions` returns", "", "Alloc", func() string {
		fd := c10Func(s, f, "newOptions")
		if len(fd.Body.List) != 1 {
			c10Failf("one return statement expected")
		}
		r, ok := fd.Body.List[0].(*ast.ReturnStmt)
		if !ok || len(r.Results) != 1 {
			c10Failf("return of one value expected")
		}
		return s.c10AllocOf(r.Results[0])
	})
	e.c10Def("packageState", "the package-level variables of core/mr/mapreduce.go", "", "List PkgVar", func() string {
		var out []string
		file := s.file(f)
		if file == nil {
			c10Failf("file not found")
		}
		for _, d := range file.Decls {
			gd, ok := d.(*ast.GenDecl)
			if !ok || gd.Tok != token.VAR {
				continue
			}
			for _, sp := range gd.Specs {
				vs := sp.(*ast.ValueSpec)
				for i, nm := range vs.Names {
					src := ""
					if len(vs.Values) > i {
						src = s.src(vs.Values[i])
						if c, ok := vs.Values[i].(*ast.CallExpr); ok && s.src(c.Fun) == "errors.New" {
							out = append(out, ".sentinel "+leanStr(nm.Name))
							continue
						}
					}
					out = append(out, ".shared "+leanStr(nm.Name)+" "+leanStr(src))
				}
			}
		}
		return "[" + strings.Join(out, ", ") + "]"
	})
}

func c10Func0(s *source, rel, name string) ast.Node {
	fd := s.findFunc(rel, name)
	if fd == nil {
		return &ast.BlockStmt{}
	}
	return fd.Body
}

func init() {
	register("C10", func(s *source, e *emitter) {
		const f = "core/mr/mapreduce.go"
		e.constDef(s, f, "minWorkers", "minWorkers")
		e.constDef(s, f, "defaultWorkers", "defaultWorkers")
		e.shapeDef(s, f, "MapReduce", "mapReduceShape")
		e.shapeDef(s, f, "MapReduceVoid", "mapReduceVoidShape")
		e.shapeDef(s, f, "ForEach", "forEachShape")
		e.shapeDef(s, f, "WithWorkers", "withWorkersShape")
		e.shapeDef(s, f, "buildSource", "buildSourceShape")
		e.shapeDef(s, f, "drain", "drainShape")
		e.shapeDef(s, f, "executeMappers", "executeMappersShape")
		e.shapeDef(s, f, "mapReduceWithPanicChan", "mapReduceWithPanicChanShape")
		e.shapeDef(s, f, "once", "onceShape")
		e.shapeDef(s, f, "guardedWriter.Write", "guardedWriteShape")
		e.shapeDef(s, f, "newOnceChan", "newOnceChanShape")
		e.shapeDef(s, f, "onceChan.write", "onceChanWriteShape")
		e.shapeDef(s, f, "onceChan.repanic", "onceChanRepanicShape")
		e.chanMakesDef(s, f, "newOnceChan", "newOnceChanMakes")
		e.chanMakesDef(s, f, "ForEach", "forEachMakes")
		e.chanMakesDef(s, f, "MapReduce", "mapReduceMakes")
		e.chanMakesDef(s, f, "MapReduceChan", "mapReduceChanMakes")
		e.chanMakesDef(s, f, "buildSource", "buildSourceMakes")
		e.chanMakesDef(s, f, "executeMappers", "executeMappersMakes")
		e.chanMakesDef(s, f, "mapReduceWithPanicChan", "mapReduceWithPanicChanMakes")
		e.assignedDef(s, f, "MapReduce", "panicChan", "mapReducePanicChan")
		e.assignedDef(s, f, "MapReduceChan", "panicChan", "mapReduceChanPanicChan")
		e.assignedDef(s, f, "ForEach", "panicChan", "forEachPanicChan")
		e.assignedDef(s, f, "mapReduceWithPanicChan", "err", "callerErrAssignments")
		e.assignedDef(s, f, "mapReduceWithPanicChan", "val", "callerValAssignments")
		const g = "core/errorx/atomicerror.go"
		e.shapeDef(s, g, "AtomicError.Set", "atomicErrorSetShape")
		e.shapeDef(s, g, "AtomicError.Load", "atomicErrorLoadShape")
		e.shapeDef(s, f, "MapReduceChan", "mapReduceChanShape")
		e.shapeDef(s, f, "Finish", "finishShape")
		e.shapeDef(s, f, "FinishVoid", "finishVoidShape")
		e.shapeDef(s, f, "WithContext", "withContextShape")
		e.shapeDef(s, f, "buildOptions", "buildOptionsShape")
		e.shapeDef(s, f, "newOptions", "newOptionsShape")
		e.shapeDef(s, f, "newGuardedWriter", "newGuardedWriterShape")
		e.assignedDef(s, f, "buildOptions", "options", "buildOptionsInit")
		e.c10Stores(s, f, "WithContext", "withContextStores")
		e.c10KV(s, f, "newGuardedWriter", "newGuardedWriterFields")
		e.c10KV(s, f, "ForEach", "forEachFields")
		e.c10KV(s, f, "mapReduceWithPanicChan", "mapReduceWithPanicChanFields")
		e.c10CallArgs(s, f, "mapReduceWithPanicChan", "newGuardedWriter", "callerWriterArgs")
		e.c10CallArgs(s, f, "executeMappers", "newGuardedWriter", "mapperWriterArgs")
		e.c10CallArgs(s, f, "mapReduceWithPanicChan", "buildOptions", "callerBuildOptionsArgs")
		e.c10CallArgs(s, f, "ForEach", "buildOptions", "forEachBuildOptionsArgs")
		e.c10CallArgs(s, f, "MapReduce", "mapReduceWithPanicChan", "mapReduceForwardArgs")
		e.c10CallArgs(s, f, "MapReduce", "buildSource", "mapReduceBuildSourceArgs")
		e.c10CallArgs(s, f, "ForEach", "buildSource", "forEachBuildSourceArgs")
		e.c10CallArgs(s, f, "MapReduceChan", "mapReduceWithPanicChan", "mapReduceChanForwardArgs")
		e.c10CallArgs(s, f, "MapReduceVoid", "MapReduce", "mapReduceVoidForwardArgs")
		e.c10CallArgs(s, f, "MapReduceVoid", "mapper", "mapReduceVoidMapperArgs")
		e.c10CallArgs(s, f, "MapReduceVoid", "reducer", "mapReduceVoidReducerArgs")
		e.shapeDef(s, f, "markCancel", "markCancelShape")
		e.c10CallArgs(s, f, "mapReduceWithPanicChan", "reducer", "reducerCallArgs")
		e.c10CallArgs(s, f, "mapReduceWithPanicChan", "mapper", "mapperCallArgs")
		e.c10CallArgs(s, f, "mapReduceWithPanicChan", "drain", "callerDrainArgs")
		e.c10CallArgs(s, f, "executeMappers", "drain", "dispatcherDrainArgs")
		e.c10CallArgs(s, f, "executeMappers", "mCtx.mapper", "dispatcherMapperArgs")
		e.c10CallArgs(s, f, "executeMappers", "wg.Add", "dispatcherWgAddArgs")
		e.c10Semantic(s)
		e.c10EffectLists(s)
		e.c10AllocSites(s)
	})
}
