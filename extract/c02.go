package main

// C02 emitter: adaptive shedder + rolling window.
//
// Besides the shared constDef / translated / shapeDef this file has a small translator of Go
// float64 expressions into *exact* Lean `Rat` expressions (float rounding is not modelled; the
// correspondence run bounds the difference) and finders that pick one expression out of a
// function (n-th assignment to a name, n-th if condition, n-th return value, a call argument,
// a composite literal field), so that Tie.lean can prove each formula equal to the model's.

import (
	"fmt"
	"go/ast"
	"go/build"
	"go/constant"
	"go/parser"
	"go/token"
	"path/filepath"
	"strings"
)

type c02Ctx struct {
	s     *source
	rel   string
	free  []string
	kinds map[string]string
}

type c02Err struct{ msg string }

func c02Fail(format string, a ...any) { panic(c02Err{fmt.Sprintf(format, a...)}) }

func (c *c02Ctx) use(name, kind string) string {
	name = leanIdent(name)
	if k, ok := c.kinds[name]; ok {
		if k != kind {
			c02Fail("variable %s used as %s and %s", name, k, kind)
		}
		return name
	}
	c.kinds[name] = kind
	c.free = append(c.free, name)
	return name
}

// varName: as.avgFlying -> avgFlying, b.Sum -> Sum, p.start -> start, x -> x
func c02VarName(e ast.Expr) (string, bool) {
	switch x := e.(type) {
	case *ast.Ident:
		return x.Name, true
	case *ast.SelectorExpr:
		if _, ok := x.X.(*ast.Ident); ok {
			return x.Sel.Name, true
		}
		if in, ok := x.X.(*ast.SelectorExpr); ok {
			if _, ok := in.X.(*ast.Ident); ok {
				return in.Sel.Name + "_" + x.Sel.Name, true
			}
		}
	}
	return "", false
}

func (c *c02Ctx) constRat(v constant.Value) string {
	if v.Kind() == constant.Int {
		return "(" + v.ExactString() + " : Rat)"
	}
	num, den := constant.Num(v), constant.Denom(v)
	return "((" + num.ExactString() + " : Rat) / " + den.ExactString() + ")"
}

func (c *c02Ctx) knownConst(e ast.Expr) (constant.Value, bool) {
	switch x := e.(type) {
	case *ast.BasicLit:
		v := constant.MakeFromLiteral(x.Value, x.Kind, 0)
		return v, v.Kind() == constant.Int || v.Kind() == constant.Float
	case *ast.Ident:
		return c.s.constValue(c.rel, x.Name)
	case *ast.SelectorExpr:
		if id, ok := x.X.(*ast.Ident); ok && id.Name == "time" {
			if u, ok := timeUnits[x.Sel.Name]; ok {
				return constant.MakeInt64(u), true
			}
		}
		if id, ok := x.X.(*ast.Ident); ok && id.Name == "http" && strings.HasPrefix(x.Sel.Name, "Status") {
			return c02StdConst("net/http/status.go", x.Sel.Name)
		}
	}
	return nil, false
}

// c02StdConst reads an integer constant of the Go standard library (the toolchain the extractor was built with).
func c02StdConst(rel, name string) (constant.Value, bool) {
	f, err := parser.ParseFile(token.NewFileSet(), filepath.Join(build.Default.GOROOT, "src", rel), nil, parser.SkipObjectResolution)
	if err != nil {
		return nil, false
	}
	for _, d := range f.Decls {
		gd, ok := d.(*ast.GenDecl)
		if !ok || gd.Tok != token.CONST {
			continue
		}
		for _, sp := range gd.Specs {
			vs := sp.(*ast.ValueSpec)
			for i, n := range vs.Names {
				if n.Name == name && i < len(vs.Values) {
					if bl, ok := vs.Values[i].(*ast.BasicLit); ok && bl.Kind == token.INT {
						return constant.MakeFromLiteral(bl.Value, bl.Kind, 0), true
					}
				}
			}
		}
	}
	return nil, false
}

func c02CallName(s *source, call *ast.CallExpr) string { return s.src(call.Fun) }

// intExpr: an int64 / time.Duration valued expression as a Lean Int expression.
func (c *c02Ctx) intExpr(e ast.Expr) string {
	if v, ok := c.knownConst(e); ok && v.Kind() == constant.Int {
		return "(" + v.ExactString() + " : Int)"
	}
	switch x := e.(type) {
	case *ast.ParenExpr:
		return c.intExpr(x.X)
	case *ast.Ident, *ast.SelectorExpr:
		n, ok := c02VarName(x)
		if !ok {
			c02Fail("unsupported int operand %s", c.s.src(e))
		}
		return c.use(n, "Int")
	case *ast.UnaryExpr:
		if x.Op == token.SUB {
			return "(-" + c.intExpr(x.X) + ")"
		}
	case *ast.BinaryExpr:
		switch x.Op {
		case token.ADD, token.SUB, token.MUL:
			return "(" + c.intExpr(x.X) + " " + x.Op.String() + " " + c.intExpr(x.Y) + ")"
		case token.QUO:
			return "(Int.tdiv " + c.intExpr(x.X) + " " + c.intExpr(x.Y) + ")"
		case token.REM:
			return "(Int.tmod " + c.intExpr(x.X) + " " + c.intExpr(x.Y) + ")"
		case token.SHR:
			// x >> k with a constant k: arithmetic shift (floor division by 2^k)
			if v, ok := c.knownConst(x.Y); ok && v.Kind() == constant.Int {
				return "(Int.shiftRight " + c.intExpr(x.X) + " " + v.ExactString() + ")"
			}
		}
	case *ast.CallExpr:
		fn := c02CallName(c.s, x)
		switch {
		case (fn == "int64" || fn == "int" || fn == "time.Duration") && len(x.Args) == 1:
			if inner, ok := x.Args[0].(*ast.CallExpr); ok {
				switch c02CallName(c.s, inner) {
				case "math.Ceil":
					return "(goCeil " + c.ratExpr(inner.Args[0]) + ")"
				case "math.Round":
					return "(goRound " + c.ratExpr(inner.Args[0]) + ")"
				}
			}
			if strings.Contains(c.s.src(x.Args[0]), "float64(") {
				// int64(<float64 expression>): truncation towards zero
				return "(goTrunc " + c.ratExpr(x.Args[0]) + ")"
			}
			return c.intExpr(x.Args[0])
		case fn == "timex.Since" && len(x.Args) == 1:
			return "(" + c.use("now", "Int") + " - " + c.intExpr(x.Args[0]) + ")"
		case fn == "timex.Now" && len(x.Args) == 0:
			return c.use("now", "Int")
		case fn == "stat.CpuUsage" && len(x.Args) == 0:
			return c.use("cpu", "Int")
		case fn == "atomic.LoadInt64" && len(x.Args) == 1:
			if u, ok := x.Args[0].(*ast.UnaryExpr); ok && u.Op == token.AND {
				return c.intExpr(u.X)
			}
		case len(x.Args) == 0:
			// niladic method of the receiver: as.maxPass() -> variable maxPass
			if n, ok := c02VarName(x.Fun); ok {
				return c.use(n, "Int")
			}
		}
	}
	c02Fail("unsupported int expression %s", c.s.src(e))
	return ""
}

// ratExpr: a float64 valued expression as an exact Lean Rat expression.
func (c *c02Ctx) ratExpr(e ast.Expr) string {
	if v, ok := c.knownConst(e); ok {
		return c.constRat(v)
	}
	switch x := e.(type) {
	case *ast.ParenExpr:
		return c.ratExpr(x.X)
	case *ast.Ident, *ast.SelectorExpr:
		n, ok := c02VarName(x)
		if !ok {
			c02Fail("unsupported operand %s", c.s.src(e))
		}
		return c.use(n, "Rat")
	case *ast.UnaryExpr:
		if x.Op == token.SUB {
			return "(-" + c.ratExpr(x.X) + ")"
		}
	case *ast.BinaryExpr:
		switch x.Op {
		case token.ADD, token.SUB, token.MUL, token.QUO:
			return "(" + c.ratExpr(x.X) + " " + x.Op.String() + " " + c.ratExpr(x.Y) + ")"
		}
	case *ast.CallExpr:
		fn := c02CallName(c.s, x)
		switch {
		case fn == "float64" && len(x.Args) == 1:
			return "((" + c.intExpr(x.Args[0]) + " : Int) : Rat)"
		case fn == "math.Round" && len(x.Args) == 1:
			return "((goRound " + c.ratExpr(x.Args[0]) + " : Int) : Rat)"
		case fn == "math.Ceil" && len(x.Args) == 1:
			return "((goCeil " + c.ratExpr(x.Args[0]) + " : Int) : Rat)"
		case fn == "mathx.AtLeast" && len(x.Args) == 2:
			return "(atLeast " + c.ratExpr(x.Args[0]) + " " + c.ratExpr(x.Args[1]) + ")"
		case fn == "mathx.Between" && len(x.Args) == 3:
			return "(between " + c.ratExpr(x.Args[0]) + " " + c.ratExpr(x.Args[1]) + " " + c.ratExpr(x.Args[2]) + ")"
		case len(x.Args) == 0:
			if n, ok := c02VarName(x.Fun); ok {
				return c.use(n, "Rat")
			}
		}
	}
	c02Fail("unsupported float expression %s", c.s.src(e))
	return ""
}

// boolExpr: comparisons of float (mode "Rat") or integer (mode "Int") operands, &&, ||, !.
func (c *c02Ctx) boolExpr(e ast.Expr, mode string) string {
	switch x := e.(type) {
	case *ast.ParenExpr:
		return c.boolExpr(x.X, mode)
	case *ast.UnaryExpr:
		if x.Op == token.NOT {
			return "(!" + c.boolExpr(x.X, mode) + ")"
		}
	case *ast.Ident, *ast.SelectorExpr:
		n, ok := c02VarName(x)
		if ok {
			return c.use(n, "Bool")
		}
	case *ast.CallExpr:
		if len(x.Args) == 0 {
			if n, ok := c02VarName(x.Fun); ok {
				return c.use(n, "Bool")
			}
			// as.droppedRecently.True() -> droppedRecently_True
		}
		if c02CallName(c.s, x) == "errors.Is" && len(x.Args) == 2 {
			// errors.Is(err, context.DeadlineExceeded) -> the Bool variable errorsIs_err_context_DeadlineExceeded
			// (subject and target are part of the name: Tie.lean binds it by name)
			name := "errorsIs_" + strings.NewReplacer(".", "_", " ", "").Replace(c.s.src(x.Args[0])+"."+c.s.src(x.Args[1]))
			return c.use(name, "Bool")
		}
	case *ast.BinaryExpr:
		switch x.Op {
		case token.LAND:
			return "(" + c.boolExpr(x.X, mode) + " && " + c.boolExpr(x.Y, mode) + ")"
		case token.LOR:
			return "(" + c.boolExpr(x.X, mode) + " || " + c.boolExpr(x.Y, mode) + ")"
		case token.LSS, token.LEQ, token.GTR, token.GEQ, token.EQL, token.NEQ:
			op := map[token.Token]string{token.LSS: "<", token.LEQ: "≤", token.GTR: ">", token.GEQ: "≥", token.EQL: "=", token.NEQ: "≠"}[x.Op]
			if mode == "Rat" {
				return "(decide (" + c.ratExpr(x.X) + " " + op + " " + c.ratExpr(x.Y) + "))"
			}
			return "(decide (" + c.intExpr(x.X) + " " + op + " " + c.intExpr(x.Y) + "))"
		}
	}
	c02Fail("unsupported condition %s", c.s.src(e))
	return ""
}

// ---- finders ---------------------------------------------------------------------------------

func c02Nth[T ast.Node](fd *ast.FuncDecl, n int, pred func(T) bool) (res T, ok bool) {
	i := 0
	ast.Inspect(fd.Body, func(nd ast.Node) bool {
		if ok {
			return false
		}
		if x, is := nd.(T); is && pred(x) {
			if i == n {
				res, ok = x, true
				return false
			}
			i++
		}
		return true
	})
	return
}

type c02Pick func(s *source, fd *ast.FuncDecl) (ast.Expr, bool)

func pickAssign(lhs string, n int) c02Pick {
	return func(s *source, fd *ast.FuncDecl) (ast.Expr, bool) {
		a, ok := c02Nth(fd, n, func(a *ast.AssignStmt) bool { return len(a.Lhs) == 1 && len(a.Rhs) == 1 && s.src(a.Lhs[0]) == lhs })
		if !ok {
			return nil, false
		}
		return a.Rhs[0], true
	}
}

func pickIf(n int) c02Pick {
	return func(s *source, fd *ast.FuncDecl) (ast.Expr, bool) {
		a, ok := c02Nth(fd, n, func(a *ast.IfStmt) bool { return true })
		if !ok {
			return nil, false
		}
		return a.Cond, true
	}
}

func pickReturn(n int) c02Pick {
	return func(s *source, fd *ast.FuncDecl) (ast.Expr, bool) {
		a, ok := c02Nth(fd, n, func(a *ast.ReturnStmt) bool { return len(a.Results) >= 1 })
		if !ok {
			return nil, false
		}
		return a.Results[0], true
	}
}

func pickReturnResult(n, idx int) c02Pick {
	return func(s *source, fd *ast.FuncDecl) (ast.Expr, bool) {
		a, ok := c02Nth(fd, n, func(a *ast.ReturnStmt) bool { return len(a.Results) > idx })
		if !ok {
			return nil, false
		}
		return a.Results[idx], true
	}
}

func pickCallArg(callee string, n, arg int) c02Pick {
	return func(s *source, fd *ast.FuncDecl) (ast.Expr, bool) {
		a, ok := c02Nth(fd, n, func(a *ast.CallExpr) bool { return s.src(a.Fun) == callee && len(a.Args) > arg })
		if !ok {
			return nil, false
		}
		return a.Args[arg], true
	}
}

func pickField(key string) c02Pick {
	return func(s *source, fd *ast.FuncDecl) (ast.Expr, bool) {
		a, ok := c02Nth(fd, 0, func(a *ast.KeyValueExpr) bool { return s.src(a.Key) == key })
		if !ok {
			return nil, false
		}
		return a.Value, true
	}
}

func pickIndex(n int) c02Pick {
	return func(s *source, fd *ast.FuncDecl) (ast.Expr, bool) {
		a, ok := c02Nth(fd, n, func(a *ast.IndexExpr) bool { return true })
		if !ok {
			return nil, false
		}
		return a.Index, true
	}
}

func pickVar(name string) c02Pick {
	return func(s *source, fd *ast.FuncDecl) (ast.Expr, bool) {
		a, ok := c02Nth(fd, 0, func(a *ast.ValueSpec) bool { return len(a.Names) == 1 && a.Names[0].Name == name && len(a.Values) == 1 })
		if !ok {
			return nil, false
		}
		return a.Values[0], true
	}
}

// exprDef emits `def lean (free…) : ty := <expr>` for the picked expression. mode: "Rat", "Int",
// "BoolRat" (float comparison), "BoolInt" (integer comparison).
func (e *emitter) c02Expr(s *source, rel, goName, lean, mode string, pick c02Pick) {
	fd := s.findFunc(rel, goName)
	bad := func(msg string) {
		e.errors = append(e.errors, fmt.Sprintf("%s (%s): %s", lean, goName, msg))
		e.printf("/-- MISSING: %s -/\ndef %s : Unit := ()\n\n", msg, lean)
	}
	if fd == nil {
		bad("function not found in " + rel)
		return
	}
	ex, ok := pick(s, fd)
	if !ok {
		bad("expression not found")
		return
	}
	c := &c02Ctx{s: s, rel: rel, kinds: map[string]string{}}
	var body, ty string
	func() {
		defer func() {
			if p := recover(); p != nil {
				if ce, is := p.(c02Err); is {
					body = ""
					bad(ce.msg)
					return
				}
				panic(p)
			}
		}()
		switch mode {
		case "Rat":
			body, ty = c.ratExpr(ex), "Rat"
		case "Int":
			body, ty = c.intExpr(ex), "Int"
		case "BoolRat":
			body, ty = c.boolExpr(ex, "Rat"), "Bool"
		default:
			body, ty = c.boolExpr(ex, "Int"), "Bool"
		}
	}()
	if body == "" {
		return
	}
	var params []string
	for _, f := range c.free {
		params = append(params, "("+f+" : "+c.kinds[f]+")")
	}
	e.printf("/-- `%s` in `%s`, %s -/\ndef %s %s : %s :=\n  %s\n\n", s.src(ex), goName, rel, lean, strings.Join(params, " "), ty, body)
}

// textDef emits the source text of a picked expression (for facts that are not arithmetic).
func (e *emitter) c02Text(s *source, rel, goName, lean string, pick c02Pick) {
	fd := s.findFunc(rel, goName)
	if fd == nil {
		e.errors = append(e.errors, fmt.Sprintf("%s: function %s not found in %s", lean, goName, rel))
		e.printf("def %s : String := \"MISSING\"\n\n", lean)
		return
	}
	ex, ok := pick(s, fd)
	if !ok {
		e.errors = append(e.errors, fmt.Sprintf("%s: expression not found in %s", lean, goName))
		e.printf("def %s : String := \"MISSING\"\n\n", lean)
		return
	}
	e.printf("/-- source text in `%s`, %s -/\ndef %s : String := %s\n\n", goName, rel, lean, leanString(s.src(ex)))
}

// textOpt is textDef for a statement that may legitimately be absent (emits "" then): used for a guard that
// exists only in the patched form of a function.
func (e *emitter) c02TextOpt(s *source, rel, goName, lean string, pick c02Pick) {
	fd := s.findFunc(rel, goName)
	if fd == nil {
		e.errors = append(e.errors, fmt.Sprintf("%s: function %s not found in %s", lean, goName, rel))
		e.printf("def %s : String := \"MISSING\"\n\n", lean)
		return
	}
	txt := ""
	if ex, ok := pick(s, fd); ok {
		txt = s.src(ex)
	}
	e.printf("/-- source text in `%s`, %s (empty: no such statement) -/\ndef %s : String := %s\n\n", goName, rel, lean, leanString(txt))
}

// funcLitOfVar wraps the function literal bound to a package variable as a FuncDecl.
func c02VarFunc(s *source, rel, name string) *ast.FuncDecl {
	f := s.file(rel)
	if f == nil {
		return nil
	}
	for _, d := range f.Decls {
		gd, ok := d.(*ast.GenDecl)
		if !ok || gd.Tok != token.VAR {
			continue
		}
		for _, sp := range gd.Specs {
			vs := sp.(*ast.ValueSpec)
			for i, n := range vs.Names {
				if n.Name == name && i < len(vs.Values) {
					if fl, ok := vs.Values[i].(*ast.FuncLit); ok {
						return &ast.FuncDecl{Name: ast.NewIdent(name), Type: fl.Type, Body: fl.Body}
					}
				}
			}
		}
	}
	return nil
}

// shapeKeep emits the skeleton of a function restricted to control structure and the calls
// whose text contains one of the given fragments (so that logging / metrics edits do not matter).
func (e *emitter) c02ShapeKeep(s *source, rel, goName, lean string, keep ...string) {
	fd := s.findFunc(rel, goName)
	if fd == nil {
		e.errors = append(e.errors, fmt.Sprintf("function %s not found in %s", goName, rel))
		e.stringList(lean, "MISSING: "+goName+" in "+rel, []string{"MISSING"})
		return
	}
	var out []string
	for _, tok := range s.shape(fd) {
		if strings.HasPrefix(tok, "call ") && tok != "call func" {
			ok := false
			for _, k := range keep {
				if strings.Contains(tok, k) {
					ok = true
				}
			}
			if !ok {
				continue
			}
		}
		out = append(out, tok)
	}
	e.stringList(lean, "skeleton of `"+goName+"` in "+rel+" (control structure + calls mentioning "+strings.Join(keep, ", ")+")", out)
}


// c02DeferFunc returns the n-th deferred function literal inside a function, wrapped as a FuncDecl.
func c02DeferFunc(s *source, rel, goName string, n int) *ast.FuncDecl {
	fd := s.findFunc(rel, goName)
	if fd == nil {
		return nil
	}
	d, ok := c02Nth(fd, n, func(d *ast.DeferStmt) bool { _, is := d.Call.Fun.(*ast.FuncLit); return is })
	if !ok {
		return nil
	}
	fl := d.Call.Fun.(*ast.FuncLit)
	return &ast.FuncDecl{Name: ast.NewIdent(goName + "_defer"), Type: fl.Type, Body: fl.Body}
}

// c02StmtCalls lists what a statement list does at its top level: the callee of every call statement, "x = callee" /
// "x := callee" for assignments from a call, "return", "defer", "if <cond>" (not descended into).
func c02StmtCalls(s *source, list []ast.Stmt, skip ...string) []string {
	var out []string
	for _, st := range list {
		tok := ""
		switch x := st.(type) {
		case *ast.ExprStmt:
			if call, ok := x.X.(*ast.CallExpr); ok {
				tok = "call " + s.src(call.Fun)
			}
		case *ast.AssignStmt:
			if len(x.Rhs) == 1 {
				if call, ok := x.Rhs[0].(*ast.CallExpr); ok {
					var l []string
					for _, e := range x.Lhs {
						l = append(l, s.src(e))
					}
					tok = strings.Join(l, ",") + " " + x.Tok.String() + " " + s.src(call.Fun)
				}
			}
		case *ast.ReturnStmt:
			tok = "return"
		case *ast.DeferStmt:
			tok = "defer"
		case *ast.IfStmt:
			tok = "if " + s.src(x.Cond)
		case *ast.DeclStmt:
			continue
		}
		if tok == "" {
			tok = "stmt " + s.src(st)
		}
		drop := false
		for _, k := range skip {
			if strings.Contains(tok, k) {
				drop = true
			}
		}
		if !drop {
			out = append(out, tok)
		}
	}
	return out
}

// c02IfBranches emits, for the n-th if statement of fd, the condition (translated, Int mode) and the top-level calls of
// its then- and else-branch.
func (e *emitter) c02IfBranches(s *source, rel string, fd *ast.FuncDecl, n int, lean string, skip ...string) {
	if fd == nil {
		e.errors = append(e.errors, lean+": function not found in "+rel)
		e.stringList(lean+"Then", "MISSING", []string{"MISSING"})
		e.stringList(lean+"Else", "MISSING", []string{"MISSING"})
		return
	}
	ifs, ok := c02Nth(fd, n, func(a *ast.IfStmt) bool { return true })
	if !ok {
		e.errors = append(e.errors, lean+": if statement not found in "+fd.Name.Name)
		e.stringList(lean+"Then", "MISSING", []string{"MISSING"})
		e.stringList(lean+"Else", "MISSING", []string{"MISSING"})
		return
	}
	e.stringList(lean+"Then", "then-branch of `if "+s.src(ifs.Cond)+"` in "+fd.Name.Name+", "+rel, c02StmtCalls(s, ifs.Body.List, skip...))
	var els []string
	if b, ok := ifs.Else.(*ast.BlockStmt); ok {
		els = c02StmtCalls(s, b.List, skip...)
	}
	e.stringList(lean+"Else", "else-branch of `if "+s.src(ifs.Cond)+"` in "+fd.Name.Name+", "+rel, els)
}

// c02ExprFd is c02Expr for an already located function (a deferred literal, a function-valued variable).
func (e *emitter) c02ExprFd(s *source, rel string, fd *ast.FuncDecl, lean, mode string, pick c02Pick) {
	if fd == nil {
		e.errors = append(e.errors, lean+": function not found in "+rel)
		e.printf("/-- MISSING -/\ndef %s : Unit := ()\n\n", lean)
		return
	}
	f := s.file(rel)
	f.Decls = append(f.Decls, fd)
	e.c02Expr(s, rel, fd.Name.Name, lean, mode, pick)
	f.Decls = f.Decls[:len(f.Decls)-1]
}

// innermost function literal (by nesting depth n) whose body is given to handler wrappers: SheddingHandler returns
// func(next) http.Handler { return http.HandlerFunc(func(w, r) {...}) } -- the request function is the literal that
// contains the call `shedder.Allow`.
func c02FuncLitWith(s *source, rel, goName, callee string) *ast.FuncDecl {
	fd := s.findFunc(rel, goName)
	if fd == nil {
		return nil
	}
	var best *ast.FuncLit
	ast.Inspect(fd.Body, func(nd ast.Node) bool {
		if fl, ok := nd.(*ast.FuncLit); ok {
			direct := false
			for _, st := range fl.Body.List {
				ast.Inspect(st, func(m ast.Node) bool {
					if _, isLit := m.(*ast.FuncLit); isLit {
						return false
					}
					if call, ok := m.(*ast.CallExpr); ok && s.src(call.Fun) == callee {
						direct = true
					}
					return true
				})
			}
			if direct {
				best = fl
			}
		}
		return true
	})
	if best == nil {
		return nil
	}
	return &ast.FuncDecl{Name: ast.NewIdent(goName + "_request"), Type: best.Type, Body: best.Body}
}

func pickFieldN(key string, n int) c02Pick {
	return func(s *source, fd *ast.FuncDecl) (ast.Expr, bool) {
		a, ok := c02Nth(fd, n, func(a *ast.KeyValueExpr) bool { return s.src(a.Key) == key })
		if !ok {
			return nil, false
		}
		return a.Value, true
	}
}

// ---- round 5: whole function bodies as Lean functions ------------------------------------------------------------
//
// c02BodyFn translates the body of a Go function made of if-statements (with or without else, with or without an early
// return), plain statements (calls, assignments, declarations) and returns into ONE Lean function
//
//	def <lean> {σ : Type} (c0 c1 … : σ → Bool) (e0 e1 … : σ → σ) (s : σ) : σ × String
//
// in which every condition / effect statement of the source is an ATOM (c_i / e_j, numbered in order of first appearance,
// equal source text = same atom) and the result is the final state paired with the source text of the return
// expression that was reached ("" = fell off the end). The control structure, the order of the effects and the early
// returns are those of the Go source; the atoms' source texts are emitted next to it as <lean>Conds / <lean>Effects. The
// Tie gives each atom its meaning in the model (by position, pinned by the text list) and proves the function equal to
// the model's definition for ALL states. Statements whose text contains one of `skip` are left out (log lines).
func (e *emitter) c02BodyFn(s *source, rel, goName, lean string, skip ...string) {
	fd := s.findFunc(rel, goName)
	if fd == nil || fd.Body == nil {
		e.errors = append(e.errors, fmt.Sprintf("%s: function %s not found in %s", lean, goName, rel))
		e.printf("def %s : Unit := ()\n\n", lean)
		e.stringList(lean+"Conds", "MISSING", []string{"MISSING"})
		e.stringList(lean+"Effects", "MISSING", []string{"MISSING"})
		return
	}
	norm := func(n ast.Node) string { return strings.Join(strings.Fields(s.src(n)), " ") }
	var conds, effs []string
	idx := func(l *[]string, t string) int {
		for i, x := range *l {
			if x == t {
				return i
			}
		}
		*l = append(*l, t)
		return len(*l) - 1
	}
	unsupported := ""
	var emit func(list []ast.Stmt, depth int) string
	emit = func(list []ast.Stmt, depth int) string {
		ind := strings.Repeat("  ", depth)
		if len(list) == 0 {
			return ind + "(s, \"\")"
		}
		st, rest := list[0], list[1:]
		txt := norm(st)
		if _, isIf := st.(*ast.IfStmt); !isIf {
			for _, k := range skip {
				if strings.Contains(txt, k) {
					return emit(rest, depth)
				}
			}
		}
		switch x := st.(type) {
		case *ast.ReturnStmt:
			var rs []string
			for _, r := range x.Results {
				rs = append(rs, norm(r))
			}
			return ind + "(s, " + leanString(strings.Join(rs, ", ")) + ")"
		case *ast.IfStmt:
			if x.Init != nil {
				unsupported = "if with init statement"
				return ind + "(s, \"\")"
			}
			c := idx(&conds, norm(x.Cond))
			var els []ast.Stmt
			switch b := x.Else.(type) {
			case *ast.BlockStmt:
				els = b.List
			case *ast.IfStmt:
				els = []ast.Stmt{b}
			}
			thenL := append(append([]ast.Stmt{}, x.Body.List...), rest...)
			elseL := append(append([]ast.Stmt{}, els...), rest...)
			return fmt.Sprintf("%sif c%d s then\n%s\n%selse\n%s", ind, c, emit(thenL, depth+1), ind, emit(elseL, depth+1))
		case *ast.ExprStmt, *ast.AssignStmt, *ast.DeclStmt, *ast.IncDecStmt:
			k := idx(&effs, txt)
			return fmt.Sprintf("%slet s := e%d s\n%s", ind, k, emit(rest, depth))
		default:
			unsupported = fmt.Sprintf("%T", st)
			return ind + "(s, \"\")"
		}
	}
	body := emit(fd.Body.List, 1)
	if unsupported != "" {
		e.errors = append(e.errors, fmt.Sprintf("%s (%s): statement outside the translated subset: %s", lean, goName, unsupported))
	}
	var ps []string
	for i := range conds {
		ps = append(ps, fmt.Sprintf("c%d", i))
	}
	cp, ep := "", ""
	if len(ps) > 0 {
		cp = " (" + strings.Join(ps, " ") + " : σ → Bool)"
	}
	ps = nil
	for i := range effs {
		ps = append(ps, fmt.Sprintf("e%d", i))
	}
	if len(ps) > 0 {
		ep = " (" + strings.Join(ps, " ") + " : σ → σ)"
	}
	e.printf("/-- body of `%s`, %s: control structure, order of effects and returns translated; atoms are parameters -/\ndef %s {σ : Type}%s%s (s : σ) : σ × String :=\n%s\n\n", goName, rel, lean, cp, ep, body)
	e.stringList(lean+"Conds", "condition atoms c0, c1, … of "+lean, conds)
	e.stringList(lean+"Effects", "effect atoms e0, e1, … of "+lean, effs)
}

// c02CallArgs emits, for the value of a struct-literal field that is a call, the callee and the argument list as typed data:
// (callee, [arg0, arg1, …]) with whitespace-normalised source texts.
func (e *emitter) c02CallArgs(s *source, rel, goName, lean string, pick c02Pick) {
	fd := s.findFunc(rel, goName)
	var call *ast.CallExpr
	if fd != nil {
		if ex, ok := pick(s, fd); ok {
			call, _ = ex.(*ast.CallExpr)
		}
	}
	if call == nil {
		e.errors = append(e.errors, fmt.Sprintf("%s: call not found in %s (%s)", lean, goName, rel))
		e.printf("def %s : String × List String := (\"MISSING\", [])\n\n", lean)
		return
	}
	var args []string
	for _, a := range call.Args {
		args = append(args, leanString(strings.Join(strings.Fields(s.src(a)), " ")))
	}
	e.printf("/-- call in `%s`, %s: callee and arguments in order -/\ndef %s : String × List String := (%s, [%s])\n\n", goName, rel, lean,
		leanString(strings.Join(strings.Fields(s.src(call.Fun)), " ")), strings.Join(args, ", "))
}

const c02Prelude = `/-- meaning given to math.Ceil / math.Round (half away from zero) / mathx.AtLeast / mathx.Between on exact values -/
def goCeil (x : Rat) : Int := x.ceil
def goRound (x : Rat) : Int := if 0 ≤ x then (x + 1 / 2).floor else -((-x + 1 / 2).floor)
/-- int64(x) of a float64: truncation towards zero -/
def goTrunc (x : Rat) : Int := if 0 ≤ x then x.floor else x.ceil
def atLeast (x lower : Rat) : Rat := if x < lower then lower else x
def between (x lower upper : Rat) : Rat := if x < lower then lower else if x > upper then upper else x

`

func init() {
	register("C02", func(s *source, e *emitter) {
		const f = "core/load/adaptiveshedder.go"
		const rw = "core/collection/rollingwindow.go"
		e.printf("%s", c02Prelude)
		for _, c := range []string{"defaultBuckets", "defaultWindow", "defaultCpuThreshold", "defaultMinRt", "flyingBeta",
			"coolOffDuration", "cpuMax", "millisecondsPerSecond", "overloadFactorLowerBound"} {
			e.constDef(s, f, c, c)
		}

		// ---- adaptiveshedder.go: formulas
		e.c02Expr(s, f, "NewAdaptiveShedder", "bucketDurationExpr", "Int", pickAssign("bucketDuration", 0))
		e.c02Expr(s, f, "NewAdaptiveShedder", "windowScaleExpr", "Rat", pickField("windowScale"))
		e.c02Expr(s, f, "adaptiveShedder.Allow", "allowFlyingDelta", "Int", pickCallArg("as.addFlying", 0, 0))
		e.c02Text(s, f, "adaptiveShedder.Allow", "allowPromiseStart", pickField("start"))
		e.c02Expr(s, f, "adaptiveShedder.addFlying", "addFlyingUpdatesAvgIf", "BoolInt", pickIf(0))
		e.c02Expr(s, f, "adaptiveShedder.addFlying", "avgUpdateExpr", "Rat", pickAssign("as.avgFlying", 0))
		e.c02Expr(s, f, "adaptiveShedder.highThru", "limitExpr", "Rat", pickAssign("maxFlight", 0))
		e.c02Expr(s, f, "adaptiveShedder.highThru", "highThruExpr", "BoolRat", pickReturn(0))
		e.c02Expr(s, f, "adaptiveShedder.maxFlight", "maxFlightRawExpr", "Rat", pickAssign("maxFlight", 0))
		e.c02Expr(s, f, "adaptiveShedder.maxFlight", "maxFlightExpr", "Rat", pickReturn(0))
		e.c02Expr(s, f, "adaptiveShedder.maxPass", "maxPassInit", "Int", pickVar("result"))
		e.c02Expr(s, f, "adaptiveShedder.maxPass", "maxPassTakes", "BoolInt", pickIf(0))
		e.c02Text(s, f, "adaptiveShedder.maxPass", "maxPassAssign", pickAssign("result", 0))
		e.c02Expr(s, f, "adaptiveShedder.minRt", "minRtInit", "Rat", pickAssign("result", 0))
		e.c02Expr(s, f, "adaptiveShedder.minRt", "minRtSkips", "BoolInt", pickIf(0))
		e.c02Expr(s, f, "adaptiveShedder.minRt", "minRtAvgExpr", "Rat", pickAssign("avg", 0))
		e.c02Expr(s, f, "adaptiveShedder.minRt", "minRtTakes", "BoolRat", pickIf(1))
		e.c02Text(s, f, "adaptiveShedder.minRt", "minRtAssign", pickAssign("result", 1))
		e.c02Expr(s, f, "adaptiveShedder.overloadFactor", "factorRawExpr", "Rat", pickAssign("factor", 0))
		e.c02Expr(s, f, "adaptiveShedder.overloadFactor", "factorExpr", "Rat", pickReturn(0))
		e.c02TextOpt(s, f, "adaptiveShedder.overloadFactor", "factorNanGuard", pickIf(0))
		e.c02TextOpt(s, f, "adaptiveShedder.overloadFactor", "factorNanValue", pickAssign("factor", 1))
		e.c02ShapeKeep(s, f, "adaptiveShedder.overloadFactor", "overloadFactorShape", "stat.CpuUsage", "math.IsNaN", "mathx.Between")
		e.c02Expr(s, f, "adaptiveShedder.stillHot", "stillHotWithin", "BoolInt", pickIf(2))
		e.c02Expr(s, f, "adaptiveShedder.stillHot", "stillHotUnset", "BoolInt", pickIf(1))
		e.c02Expr(s, f, "promise.Pass", "passRtExpr", "Rat", pickAssign("rt", 0))
		e.c02Expr(s, f, "promise.Pass", "passRtRecorded", "Int", pickCallArg("p.shedder.rtCounter.Add", 0, 0))
		e.c02Expr(s, f, "promise.Pass", "passCounted", "Int", pickCallArg("p.shedder.passCounter.Add", 0, 0))
		e.c02Expr(s, f, "promise.Pass", "passFlyingDelta", "Int", pickCallArg("p.shedder.addFlying", 0, 0))
		e.c02Expr(s, f, "promise.Fail", "failFlyingDelta", "Int", pickCallArg("p.shedder.addFlying", 0, 0))
		if fd := c02VarFunc(s, f, "systemOverloadChecker"); fd != nil {
			ex, ok := pickReturn(0)(s, fd)
			if ok {
				e.printf("/-- the default `systemOverloadChecker` -/\ndef defaultCheckerExpr : String := %s\n\n", leanString(s.src(ex)))
			} else {
				e.errors = append(e.errors, "systemOverloadChecker: no return expression")
			}
		} else {
			e.errors = append(e.errors, "systemOverloadChecker: not a function literal variable")
			e.printf("def defaultCheckerExpr : String := \"MISSING\"\n\n")
		}

		// ---- adaptiveshedder.go: statement skeletons
		e.shapeDef(s, f, "NewAdaptiveShedder", "newShape")
		e.c02Text(s, f, "NewAdaptiveShedder", "newWhenDisabled", pickReturn(0))
		e.c02Text(s, f, "NewAdaptiveShedder", "newPassCounter", pickField("passCounter"))
		e.c02Text(s, f, "NewAdaptiveShedder", "newRtCounter", pickField("rtCounter"))
		e.c02Text(s, f, "NewAdaptiveShedder", "newCpuThreshold", pickField("cpuThreshold"))
		e.shapeDef(s, f, "adaptiveShedder.Allow", "allowShape")
		e.shapeDef(s, f, "adaptiveShedder.addFlying", "addFlyingShape")
		e.shapeDef(s, f, "adaptiveShedder.highThru", "highThruShape")
		e.c02ShapeKeep(s, f, "adaptiveShedder.shouldDrop", "shouldDropShape", "as.stillHot", "as.systemOverloaded", "as.highThru", "droppedRecently", "overloadTime")
		e.shapeDef(s, f, "adaptiveShedder.stillHot", "stillHotShape")
		e.shapeDef(s, f, "adaptiveShedder.systemOverloaded", "systemOverloadedShape")
		e.shapeDef(s, f, "adaptiveShedder.maxPass", "maxPassShape")
		e.shapeDef(s, f, "adaptiveShedder.minRt", "minRtShape")
		e.shapeDef(s, f, "promise.Pass", "passShape")
		e.shapeDef(s, f, "promise.Fail", "failShape")

		// ---- rollingwindow.go
		e.c02Expr(s, rw, "RollingWindow.span", "spanOffsetExpr", "Int", pickAssign("offset", 0))
		e.c02Expr(s, rw, "RollingWindow.span", "spanInRange", "BoolInt", pickIf(0))
		e.shapeDef(s, rw, "RollingWindow.span", "spanShape")
		e.c02Expr(s, rw, "RollingWindow.updateOffset", "updateSkips", "BoolInt", pickIf(0))
		e.c02Expr(s, rw, "RollingWindow.updateOffset", "resetIndexExpr", "Int", pickCallArg("rw.win.resetBucket", 0, 0))
		e.c02Expr(s, rw, "RollingWindow.updateOffset", "newOffsetExpr", "Int", pickAssign("rw.offset", 0))
		e.c02Expr(s, rw, "RollingWindow.updateOffset", "newLastTimeExpr", "Int", pickAssign("rw.lastTime", 0))
		e.shapeDef(s, rw, "RollingWindow.updateOffset", "updateOffsetShape")
		e.shapeDef(s, rw, "RollingWindow.Add", "rwAddShape")
		e.c02Expr(s, rw, "RollingWindow.Reduce", "reduceIgnoresCurrent", "BoolInt", pickIf(0))
		e.c02Expr(s, rw, "RollingWindow.Reduce", "reduceDiffIgnoring", "Int", pickAssign("diff", 0))
		e.c02Expr(s, rw, "RollingWindow.Reduce", "reduceDiff", "Int", pickAssign("diff", 1))
		e.c02Expr(s, rw, "RollingWindow.Reduce", "reduceRuns", "BoolInt", pickIf(1))
		e.c02Expr(s, rw, "RollingWindow.Reduce", "reduceStartExpr", "Int", pickAssign("offset", 0))
		e.shapeDef(s, rw, "RollingWindow.Reduce", "reduceShape")
		e.c02Expr(s, rw, "window.add", "winAddIndex", "Int", pickIndex(0))
		e.c02Expr(s, rw, "window.reduce", "winReduceIndex", "Int", pickIndex(0))
		e.c02Expr(s, rw, "window.resetBucket", "winResetIndex", "Int", pickIndex(0))
		e.shapeDef(s, rw, "window.reduce", "winReduceShape")
		t := &translator{registry: map[string]*transFunc{}, consts: map[string]string{}}
		e.translated(t, s, rw, "Bucket.Add", "bucketAdd", true, "")
		e.translated(t, s, rw, "Bucket.Reset", "bucketReset", true, "")
		e.shapeDef(s, rw, "NewRollingWindow", "newRollingWindowShape")
		e.shapeDef(s, rw, "IgnoreCurrentBucket", "ignoreCurrentShape")

		// ---- the other anchors
		e.shapeDef(s, "core/load/nopshedder.go", "nopShedder.Allow", "nopAllowShape")
		e.c02Text(s, "core/load/nopshedder.go", "nopShedder.Allow", "nopAllowReturns", pickReturn(0))
		e.c02Text(s, "core/load/nopshedder.go", "nopShedder.Allow", "nopAllowError", pickReturnResult(0, 1))
		e.shapeDef(s, "core/load/nopshedder.go", "nopPromise.Pass", "nopPassShape")
		e.shapeDef(s, "core/load/nopshedder.go", "nopPromise.Fail", "nopFailShape")
		e.shapeDef(s, "core/load/sheddergroup.go", "ShedderGroup.GetShedder", "getShedderShape")
		e.shapeDef(s, "core/stat/usage.go", "CpuUsage", "cpuUsageShape")
		e.shapeDef(s, "core/mathx/range.go", "AtLeast", "atLeastShape")
		e.shapeDef(s, "core/mathx/range.go", "Between", "betweenShape")
		e.c02ShapeKeep(s, "rest/handler/sheddinghandler.go", "SheddingHandler", "sheddingHandlerShape", "shedder.Allow", "promise.", "ServeHTTP", "WriteHeader")
		e.c02ShapeKeep(s, "zrpc/internal/serverinterceptors/sheddinginterceptor.go", "UnarySheddingInterceptor", "sheddingInterceptorShape", "shedder.Allow", "promise.", "call handler", "status.Error")
		// ---- round 4: construction, options, group, default checker, sampler, call sites
		e.c02Expr(s, f, "NewAdaptiveShedder", "newDefaultWindow", "Int", pickFieldN("window", 0))
		e.c02Expr(s, f, "NewAdaptiveShedder", "newDefaultBuckets", "Int", pickFieldN("buckets", 0))
		e.c02Expr(s, f, "NewAdaptiveShedder", "newDefaultThreshold", "Int", pickFieldN("cpuThreshold", 0))
		e.c02Text(s, f, "NewAdaptiveShedder", "newThresholdForwarded", pickFieldN("cpuThreshold", 1))
		e.c02Text(s, f, "NewAdaptiveShedder", "newEnabledGuard", pickIf(0))
		e.c02Text(s, f, "NewAdaptiveShedder", "newOptionApplied", pickCallArg("opt", 0, 0))
		e.c02Text(s, f, "NewAdaptiveShedder", "newPassCounterSize", pickCallArg("collection.NewRollingWindow[int64, *collection.Bucket[int64]]", 0, 1))
		e.c02Text(s, f, "NewAdaptiveShedder", "newPassCounterInterval", pickCallArg("collection.NewRollingWindow[int64, *collection.Bucket[int64]]", 0, 2))
		e.c02Text(s, f, "WithBuckets", "withBucketsSets", pickAssign("opts.buckets", 0))
		e.c02Text(s, f, "WithCpuThreshold", "withThresholdSets", pickAssign("opts.cpuThreshold", 0))
		e.c02Text(s, f, "WithWindow", "withWindowSets", pickAssign("opts.window", 0))
		e.c02Text(s, f, "Disable", "disableSets", pickCallArg("enabled.Set", 0, 0))
		e.shapeDef(s, f, "Disable", "disableShape")
		if fd := c02VarFunc(s, f, "systemOverloadChecker"); fd != nil {
			e.c02ExprFd(s, f, fd, "defaultCheckerCond", "BoolInt", pickReturn(0))
		} else {
			e.printf("def defaultCheckerCond : Unit := ()\n\n")
		}
		e.c02Text(s, f, "adaptiveShedder.systemOverloaded", "checkerArgument", pickCallArg("systemOverloadChecker", 0, 0))
		const grp = "core/load/sheddergroup.go"
		e.c02Text(s, grp, "NewShedderGroup", "groupStoresOptions", pickFieldN("options", 0))
		e.c02Text(s, grp, "ShedderGroup.GetShedder", "groupKeyForwarded", pickCallArg("g.manager.GetResource", 0, 0))
		e.c02Text(s, grp, "ShedderGroup.GetShedder", "groupOptionsForwarded", pickCallArg("NewAdaptiveShedder", 0, 0))
		e.c02Text(s, grp, "ShedderGroup.GetShedder", "groupReturns", pickReturn(1))
		const us = "core/stat/usage.go"
		e.constDef(s, us, "beta", "cpuBeta")
		e.constDef(s, us, "cpuRefreshInterval", "cpuRefreshInterval")
		e.c02Expr(s, us, "init", "cpuEmaExpr", "Int", pickAssign("usage", 0))
		e.c02Text(s, us, "init", "cpuEmaPrev", pickAssign("prevUsage", 0))
		e.c02Text(s, us, "init", "cpuEmaCur", pickAssign("curUsage", 0))
		e.c02Text(s, us, "init", "cpuEmaStored", pickCallArg("atomic.StoreInt64", 0, 1))
		e.c02Text(s, us, "init", "cpuEmaStoredTo", pickCallArg("atomic.StoreInt64", 0, 0))
		e.c02Text(s, us, "CpuUsage", "cpuUsageLoads", pickCallArg("atomic.LoadInt64", 0, 0))
		const ss = "core/load/sheddingstat.go"
		for _, m := range []string{"Total", "Pass", "Drop"} {
			e.c02Text(s, ss, "SheddingStat.Increment"+m, "statIncrement"+m+"Field", pickCallArg("atomic.AddInt64", 0, 0))
			e.c02Expr(s, ss, "SheddingStat.Increment"+m, "statIncrement"+m+"Delta", "Int", pickCallArg("atomic.AddInt64", 0, 1))
		}
		const hh = "rest/handler/sheddinghandler.go"
		hreq := c02FuncLitWith(s, hh, "SheddingHandler", "shedder.Allow")
		hdef := c02DeferFunc(s, hh, "SheddingHandler", 0)
		e.c02ExprFd(s, hh, hdef, "httpFailCond", "BoolInt", pickIf(0))
		e.c02IfBranches(s, hh, hdef, 0, "httpDefer")
		e.c02IfBranches(s, hh, hreq, 0, "httpRefused", "logc.")
		e.c02ExprFd(s, hh, hreq, "httpRefusedStatus", "Int", pickCallArg("w.WriteHeader", 0, 0))
		if hreq != nil {
			e.stringList("httpRequestSteps", "top-level statements of the request function of SheddingHandler", c02StmtCalls(s, hreq.Body.List))
		} else {
			e.errors = append(e.errors, "SheddingHandler: request function not found")
			e.stringList("httpRequestSteps", "MISSING", []string{"MISSING"})
		}
		e.c02Text(s, hh, "SheddingHandler", "httpNilGuard", pickIf(0))
		e.c02Expr(s, "rest/internal/response/withcoderesponsewriter.go", "NewWithCodeResponseWriter", "cwInitialCode", "Int", pickFieldN("Code", 0))
		e.c02Text(s, "rest/internal/response/withcoderesponsewriter.go", "WithCodeResponseWriter.WriteHeader", "cwWriteHeaderStores", pickAssign("w.Code", 0))
		const ri = "zrpc/internal/serverinterceptors/sheddinginterceptor.go"
		rreq := c02FuncLitWith(s, ri, "UnarySheddingInterceptor", "shedder.Allow")
		rdef := c02DeferFunc(s, ri, "UnarySheddingInterceptor", 0)
		e.c02ExprFd(s, ri, rdef, "rpcFailCond", "BoolInt", pickIf(0))
		e.c02IfBranches(s, ri, rdef, 0, "rpcDefer")
		e.c02IfBranches(s, ri, rreq, 0, "rpcRefused")
		e.c02Text(s, ri, "UnarySheddingInterceptor", "rpcRefusedCode", pickCallArg("status.Error", 0, 0))
		e.c02Text(s, ri, "UnarySheddingInterceptor", "rpcRefusedMessage", pickCallArg("status.Error", 0, 1))
		if rreq != nil {
			e.stringList("rpcRequestSteps", "top-level statements of the interceptor function", c02StmtCalls(s, rreq.Body.List))
		} else {
			e.errors = append(e.errors, "UnarySheddingInterceptor: request function not found")
			e.stringList("rpcRequestSteps", "MISSING", []string{"MISSING"})
		}
		e.c02Text(s, ri, "UnarySheddingInterceptor", "rpcHandlerCall", pickReturn(1))

		// ---- round 5: whole function bodies (control structure + order of effects + returns) as Lean functions
		e.c02BodyFn(s, f, "adaptiveShedder.stillHot", "stillHotFn")
		e.c02BodyFn(s, f, "adaptiveShedder.systemOverloaded", "systemOverloadedFn")
		e.c02BodyFn(s, f, "adaptiveShedder.shouldDrop", "shouldDropFn", "flying :=", "avgFlying", "msg", "logx.")
		e.c02BodyFn(s, f, "adaptiveShedder.Allow", "allowFn")
		e.c02BodyFn(s, f, "adaptiveShedder.addFlying", "addFlyingFn")
		e.c02BodyFn(s, f, "promise.Pass", "passFn")
		e.c02BodyFn(s, f, "promise.Fail", "failFn")
		e.c02BodyFn(s, f, "Disable", "disableFn")
		e.c02BodyFn(s, "core/load/nopshedder.go", "nopShedder.Allow", "nopAllowFn")
		e.c02BodyFn(s, "core/load/nopshedder.go", "nopPromise.Pass", "nopPassFn")
		e.c02BodyFn(s, "core/load/nopshedder.go", "nopPromise.Fail", "nopFailFn")
		e.c02BodyFn(s, "core/load/nopshedder.go", "newNopShedder", "newNopShedderFn")
		e.c02BodyFn(s, "core/load/sheddergroup.go", "nopCloser.Close", "nopCloserCloseFn")
		e.c02BodyFn(s, "core/mathx/range.go", "AtLeast", "atLeastFn")
		e.c02BodyFn(s, "core/mathx/range.go", "Between", "betweenFn")
		e.c02BodyFn(s, "core/stat/usage.go", "CpuUsage", "cpuUsageFn")
		// ---- round 5c: where the services build their shedders
		const eng = "rest/engine.go"
		e.constDef(s, eng, "topCpuUsage", "topCpuUsage")
		e.c02Expr(s, eng, "newEngine", "engineSheddingIf", "BoolInt", pickIf(0))
		e.c02Expr(s, eng, "newEngine", "engineThreshold", "Int", pickCallArg("load.WithCpuThreshold", 0, 0))
		e.c02Expr(s, eng, "newEngine", "enginePriorityThreshold", "Int", pickCallArg("load.WithCpuThreshold", 1, 0))
		e.c02Text(s, eng, "newEngine", "engineShedderBuilt", pickAssign("svr.shedder", 0))
		e.c02Text(s, eng, "newEngine", "enginePriorityBuilt", pickAssign("svr.priorityShedder", 0))
		e.c02BodyFn(s, eng, "engine.getShedder", "engineGetShedderFn")
		e.c02Text(s, eng, "engine.buildChainWithNativeMiddlewares", "routeShedderArg", pickCallArg("handler.SheddingHandler", 0, 0))
		if fd := s.findFunc(eng, "engine.buildChainWithNativeMiddlewares"); fd != nil {
			guard := "MISSING"
			ast.Inspect(fd.Body, func(n ast.Node) bool {
				if ifs, ok := n.(*ast.IfStmt); ok && strings.Contains(s.src(ifs.Body), "handler.SheddingHandler") {
					guard = s.src(ifs.Cond)
				}
				return true
			})
			e.printf("/-- the condition under which a route's chain gets the shedding middleware -/\ndef routeSheddingGuard : String := %s\n\n", leanString(guard))
		} else {
			e.errors = append(e.errors, "engine.buildChainWithNativeMiddlewares not found")
			e.printf("def routeSheddingGuard : String := \"MISSING\"\n\n")
		}
		const zs = "zrpc/server.go"
		if fd := s.findFunc(zs, "setupUnaryInterceptors"); fd != nil {
			guard, built, passed := "MISSING", "MISSING", "MISSING"
			ast.Inspect(fd.Body, func(n ast.Node) bool {
				if ifs, ok := n.(*ast.IfStmt); ok && strings.Contains(s.src(ifs.Body), "UnarySheddingInterceptor") {
					guard = s.src(ifs.Cond)
					for _, st := range c02StmtCalls(s, ifs.Body.List) {
						_ = st
					}
					ast.Inspect(ifs.Body, func(m ast.Node) bool {
						if call, ok := m.(*ast.CallExpr); ok {
							switch s.src(call.Fun) {
							case "load.NewAdaptiveShedder":
								built = strings.Join(strings.Fields(s.src(call)), " ")
							case "serverinterceptors.UnarySheddingInterceptor":
								if len(call.Args) > 0 {
									passed = s.src(call.Args[0])
								}
							}
						}
						return true
					})
				}
				return true
			})
			e.stringList("rpcServerShedderBuilt", "zrpc/server.go setupUnaryInterceptors: guard, constructor call, first argument of UnarySheddingInterceptor", []string{guard, built, passed})
		} else {
			e.errors = append(e.errors, "setupUnaryInterceptors not found in zrpc/server.go")
			e.stringList("rpcServerShedderBuilt", "MISSING", []string{"MISSING"})
		}
		// the two rolling windows of NewAdaptiveShedder as typed argument lists
		e.c02CallArgs(s, f, "NewAdaptiveShedder", "newPassCounterCall", pickField("passCounter"))
		e.c02CallArgs(s, f, "NewAdaptiveShedder", "newRtCounterCall", pickField("rtCounter"))
	})
}
