package main

func init() {
	register("C02", func(s *source, e *emitter) {
		const f = "core/load/adaptiveshedder.go"
		e.constDef(s, f, "defaultBuckets", "defaultBuckets")
		e.constDef(s, f, "defaultWindow", "defaultWindow")
		e.constDef(s, f, "defaultCpuThreshold", "defaultCpuThreshold")
		e.constDef(s, f, "defaultMinRt", "defaultMinRt")
		e.constDef(s, f, "flyingBeta", "flyingBeta")
		e.constDef(s, f, "coolOffDuration", "coolOffDuration")
		e.constDef(s, f, "cpuMax", "cpuMax")
		e.constDef(s, f, "millisecondsPerSecond", "millisecondsPerSecond")
		e.constDef(s, f, "overloadFactorLowerBound", "overloadFactorLowerBound")
	})
}
