package main

import (
	"go/ast"
	"strings"
)

// C04 — timeout wrappers.  Emitted:
//   * the constants of the REST timeout handler (499, "Request Timeout", exemption header names/values),
//   * checkedTimeout (per-route override) translated to a Lean Int function,
//   * the statement skeletons of the four wrappers and of timeoutWriter's methods,
//   * the "context flow" statements of each wrapper: the source text of the statements that create the
//     derived context and hand it to the work (so `WithTimeout(context.Background(), …)` instead of
//     `WithTimeout(<incoming>, …)`, or handing the *incoming* ctx to the work, breaks a Tie obligation).

// c04FuncLit returns the n-th (0-based, pre-order) function literal inside fd whose parameter count is nparams
// (nparams < 0: any).
func c04FuncLit(fd *ast.FuncDecl, nparams int, nth int) *ast.FuncLit {
	var found *ast.FuncLit
	i := 0
	ast.Inspect(fd.Body, func(n ast.Node) bool {
		if found != nil {
			return false
		}
		if fl, ok := n.(*ast.FuncLit); ok {
			np := 0
			for _, f := range fl.Type.Params.List {
				if len(f.Names) == 0 {
					np++
				} else {
					np += len(f.Names)
				}
			}
			if nparams < 0 || np == nparams {
				if i == nth {
					found = fl
					return false
				}
				i++
			}
		}
		return true
	})
	return found
}

// c04Flow lists, in source order, the text of every simple statement (assignment, expression statement,
// return, go/defer call) under `body` that contains one of the keys.
func c04Flow(s *source, body *ast.BlockStmt, keys []string) []string {
	var out []string
	ast.Inspect(body, func(n ast.Node) bool {
		switch x := n.(type) {
		case *ast.AssignStmt, *ast.ExprStmt, *ast.ReturnStmt, *ast.SendStmt:
			// skip statements that merely contain a function literal (their inner statements are visited)
			hasLit := false
			ast.Inspect(x, func(m ast.Node) bool {
				if _, ok := m.(*ast.FuncLit); ok {
					hasLit = true
				}
				return !hasLit
			})
			if hasLit {
				return true
			}
			txt := s.src(x)
			for _, k := range keys {
				if strings.Contains(txt, k) {
					out = append(out, txt)
					break
				}
			}
			return false
		}
		return true
	})
	return out
}

func (e *emitter) c04Shape(s *source, rel, goName, lean string, lit func(fd *ast.FuncDecl) *ast.BlockStmt) *ast.BlockStmt {
	fd := s.findFunc(rel, goName)
	if fd == nil {
		e.errors = append(e.errors, "function "+goName+" not found in "+rel)
		e.stringList(lean, "MISSING: "+goName, []string{"MISSING"})
		return nil
	}
	body := fd.Body
	if lit != nil {
		body = lit(fd)
		if body == nil {
			e.errors = append(e.errors, "closure of "+goName+" not found in "+rel)
			e.stringList(lean, "MISSING closure: "+goName, []string{"MISSING"})
			return nil
		}
	}
	var out []string
	s.shapeBlock(body.List, &out)
	e.stringList(lean, "synchronisation skeleton of `"+goName+"` in "+rel, out)
	return body
}

func (e *emitter) c04FlowDef(s *source, body *ast.BlockStmt, lean, doc string, keys []string) {
	if body == nil {
		e.stringList(lean, "MISSING: "+doc, []string{"MISSING"})
		return
	}
	e.stringList(lean, doc, c04Flow(s, body, keys))
}


// c04Detail lists every statement of a block with its control structure: `if <cond> {` … `}` [`else {` … `}`],
// `range <x> {` … `}`, `for <cond> {` … `}`, and the source text of every simple statement.  For small functions
// whose every statement matters to the property (option setters, addRoutes, Flush).
func c04Detail(s *source, list []ast.Stmt, out *[]string) {
	for _, st := range list {
		switch x := st.(type) {
		case *ast.IfStmt:
			hdr := "if "
			if x.Init != nil {
				hdr += s.src(x.Init) + "; "
			}
			*out = append(*out, hdr+s.src(x.Cond)+" {")
			c04Detail(s, x.Body.List, out)
			*out = append(*out, "}")
			if x.Else != nil {
				*out = append(*out, "else {")
				if b, ok := x.Else.(*ast.BlockStmt); ok {
					c04Detail(s, b.List, out)
				} else {
					c04Detail(s, []ast.Stmt{x.Else}, out)
				}
				*out = append(*out, "}")
			}
		case *ast.RangeStmt:
			*out = append(*out, "range "+s.src(x.X)+" {")
			c04Detail(s, x.Body.List, out)
			*out = append(*out, "}")
		case *ast.ForStmt:
			hdr := "for"
			if x.Cond != nil {
				hdr += " " + s.src(x.Cond)
			}
			*out = append(*out, hdr+" {")
			c04Detail(s, x.Body.List, out)
			*out = append(*out, "}")
		case *ast.BlockStmt:
			c04Detail(s, x.List, out)
		default:
			*out = append(*out, s.src(st))
		}
	}
}

// c04Guarded lists, in source order, every simple statement under `list` that contains one of the keys, prefixed by
// the conditions / range headers it is nested in ("if A { range xs { stmt").
func c04Guarded(s *source, list []ast.Stmt, guard string, keys []string, out *[]string) {
	for _, st := range list {
		switch x := st.(type) {
		case *ast.IfStmt:
			g := guard + "if " + s.src(x.Cond) + " { "
			if x.Init != nil {
				c04Guarded(s, []ast.Stmt{x.Init}, guard, keys, out)
			}
			c04Guarded(s, x.Body.List, g, keys, out)
			if x.Else != nil {
				ge := guard + "if !(" + s.src(x.Cond) + ") { "
				if b, ok := x.Else.(*ast.BlockStmt); ok {
					c04Guarded(s, b.List, ge, keys, out)
				} else {
					c04Guarded(s, []ast.Stmt{x.Else}, ge, keys, out)
				}
			}
		case *ast.RangeStmt:
			c04Guarded(s, x.Body.List, guard+"range "+s.src(x.X)+" { ", keys, out)
		case *ast.ForStmt:
			c04Guarded(s, x.Body.List, guard+"for { ", keys, out)
		case *ast.BlockStmt:
			c04Guarded(s, x.List, guard, keys, out)
		default:
			txt := s.src(st)
			for _, k := range keys {
				if strings.Contains(txt, k) {
					*out = append(*out, guard+txt)
					break
				}
			}
		}
	}
}

func (e *emitter) c04DetailDef(s *source, rel, goName, lean string, lit func(fd *ast.FuncDecl) *ast.BlockStmt) {
	fd := s.findFunc(rel, goName)
	if fd == nil {
		e.errors = append(e.errors, "function "+goName+" not found in "+rel)
		e.stringList(lean, "MISSING: "+goName, []string{"MISSING"})
		return
	}
	body := fd.Body
	if lit != nil {
		if body = lit(fd); body == nil {
			e.errors = append(e.errors, "closure of "+goName+" not found in "+rel)
			e.stringList(lean, "MISSING closure: "+goName, []string{"MISSING"})
			return
		}
	}
	var out []string
	c04Detail(s, body.List, &out)
	e.stringList(lean, "statements of `"+goName+"` in "+rel, out)
}

func (e *emitter) c04GuardedDef(s *source, rel, goName, lean string, keys []string) {
	fd := s.findFunc(rel, goName)
	if fd == nil {
		e.errors = append(e.errors, "function "+goName+" not found in "+rel)
		e.stringList(lean, "MISSING: "+goName, []string{"MISSING"})
		return
	}
	var out []string
	c04Guarded(s, fd.Body.List, "", keys, &out)
	e.stringList(lean, "guarded statements of `"+goName+"` in "+rel+" mentioning "+strings.Join(keys, " / "), out)
}

func init() {
	register("C04", func(s *source, e *emitter) {
		const th = "rest/handler/timeouthandler.go"
		const eng = "rest/engine.go"
		const srv = "zrpc/internal/serverinterceptors/timeoutinterceptor.go"
		const cli = "zrpc/internal/clientinterceptors/timeoutinterceptor.go"
		const fx = "core/fx/timeout.go"

		e.constDef(s, th, "statusClientClosedRequest", "statusClientClosedRequest")
		e.constDef(s, th, "reason", "reason")
		e.constDef(s, th, "headerUpgrade", "headerUpgrade")
		e.constDef(s, th, "valueWebsocket", "valueWebsocket")
		e.constDef(s, th, "headerAccept", "headerAccept")
		e.constDef(s, th, "valueSSE", "valueSSE")

		t := &translator{registry: map[string]*transFunc{}, consts: map[string]string{"time.Millisecond": "1000000"}}
		e.translated(t, s, eng, "engine.checkedTimeout", "checkedTimeout", false, "")


		// REST engine wiring: which duration reaches TimeoutHandler for a route
		const srvgo = "rest/server.go"
		lit1 := func(fd *ast.FuncDecl) *ast.BlockStmt {
			if fl := c04FuncLit(fd, 1, 0); fl != nil {
				return fl.Body
			}
			return nil
		}
		e.c04DetailDef(s, srvgo, "WithTimeout", "withTimeoutOpt", lit1)
		e.c04DetailDef(s, srvgo, "WithSSE", "withSSEOpt", lit1)
		e.c04DetailDef(s, srvgo, "Server.AddRoutes", "serverAddRoutes", nil)
		e.c04DetailDef(s, eng, "engine.addRoutes", "engAddRoutes", nil)
		e.c04GuardedDef(s, eng, "newEngine", "engNewTimeout", []string{"timeout"})
		e.c04GuardedDef(s, eng, "engine.buildChainWithNativeMiddlewares", "engTimeoutWiring", []string{"TimeoutHandler", "Timeout"})
		e.c04GuardedDef(s, eng, "engine.bindRoute", "engBindRouteChain", []string{"chn"})
		e.c04GuardedDef(s, eng, "engine.bindFeaturedRoutes", "engBindFeatured", []string{"bindRoute("})
		e.c04GuardedDef(s, eng, "engine.bindRoutes", "engBindRoutes", []string{"bindFeaturedRoutes("})

		// zrpc wiring: configuration -> interceptors
		e.c04GuardedDef(s, "zrpc/server.go", "setupUnaryInterceptors", "zrpcSrvWiring", []string{"UnaryTimeoutInterceptor"})
		e.c04GuardedDef(s, "zrpc/client.go", "NewClient", "zrpcCliConf", []string{"WithTimeout(", "options..."})
		e.c04DetailDef(s, "zrpc/client.go", "WithCallTimeout", "zrpcWithCallTimeout", nil)
		e.c04DetailDef(s, "zrpc/internal/client.go", "WithTimeout", "zrpcCliWithTimeoutOpt", lit1)
		e.c04GuardedDef(s, "zrpc/internal/client.go", "client.buildDialOptions", "zrpcCliDialOptions", []string{"cliOpts"})
		e.c04GuardedDef(s, "zrpc/internal/client.go", "client.buildUnaryInterceptors", "zrpcCliWiring", []string{"TimeoutInterceptor"})

		// the default error path of the timeout branch, and the pass-through methods of timeoutWriter
		e.c04GuardedDef(s, "rest/httpx/responses.go", "ErrorCtx", "httpxErrorCtx", []string{"doHandleError"})
		e.c04GuardedDef(s, "rest/httpx/responses.go", "doHandleError", "httpxDefaultError", []string{"fn(w, err)"})
		e.c04DetailDef(s, th, "timeoutWriter.Hijack", "twHijackDetail", nil)
		e.c04DetailDef(s, th, "timeoutWriter.Push", "twPushDetail", nil)

		// REST
		b := e.c04Shape(s, th, "TimeoutHandler", "timeoutHandlerCtorShape", nil)
		_ = b
		b = e.c04Shape(s, th, "timeoutHandler.ServeHTTP", "serveHTTPShape", nil)
		e.c04FlowDef(s, b, "serveHTTPFlow", "context/writer flow of timeoutHandler.ServeHTTP",
			[]string{"context.WithTimeout", "WithContext(", "ServeHTTP(", "ErrorCtx(", "timedOut", "w.Write", "dst[k]", "WriteString", "&timeoutWriter", "make(chan", "panicChan <-", "close(done)", "panic(p)"})
		e.c04Shape(s, th, "timeoutWriter.Write", "twWriteShape", nil)
		e.c04Shape(s, th, "timeoutWriter.WriteHeader", "twWriteHeaderShape", nil)
		e.c04Shape(s, th, "timeoutWriter.writeHeaderLocked", "twWriteHeaderLockedShape", nil)
		e.c04Shape(s, th, "timeoutWriter.Flush", "twFlushShape", nil)
		e.c04DetailDef(s, th, "timeoutWriter.Flush", "twFlushDetail", nil)
		e.c04Shape(s, th, "timeoutWriter.Header", "twHeaderShape", nil)

		// zRPC server: the interceptor closure (4 parameters)
		lit4 := func(fd *ast.FuncDecl) *ast.BlockStmt {
			if fl := c04FuncLit(fd, 4, 0); fl != nil {
				return fl.Body
			}
			return nil
		}
		b = e.c04Shape(s, srv, "UnaryTimeoutInterceptor", "srvShape", lit4)
		e.c04FlowDef(s, b, "srvFlow", "context/result flow of the UnaryTimeoutInterceptor closure",
			[]string{"context.WithTimeout", "getTimeoutByUnaryServerInfo", "handler(", "return", "ctx.Err()", "status.Error"})
		e.c04Shape(s, srv, "getTimeoutByUnaryServerInfo", "srvMethodTimeoutShape", nil)
		e.c04Shape(s, srv, "buildMethodTimeouts", "srvBuildMethodTimeoutsShape", nil)

		// zRPC client: the interceptor closure (variadic opts counts as one parameter: 7)
		lit7 := func(fd *ast.FuncDecl) *ast.BlockStmt {
			if fl := c04FuncLit(fd, 7, 0); fl != nil {
				return fl.Body
			}
			return nil
		}
		b = e.c04Shape(s, cli, "TimeoutInterceptor", "cliShape", lit7)
		e.c04FlowDef(s, b, "cliFlow", "context flow of the client TimeoutInterceptor closure",
			[]string{"context.WithTimeout", "getTimeoutFromCallOptions", "invoker(", "return"})
		e.c04Shape(s, cli, "getTimeoutFromCallOptions", "cliCallOptionShape", nil)

		// fx
		fd := s.findFunc(fx, "DoWithTimeout")
		e.c04Shape(s, fx, "DoWithTimeout", "fxShape", nil)
		if fd != nil {
			e.c04FlowDef(s, fd.Body, "fxFlow", "context/result flow of fx.DoWithTimeout",
				[]string{"context.WithTimeout", "context.Background", "opt()", "fn()", "return", "ctx.Err()"})
		} else {
			e.stringList("fxFlow", "MISSING", []string{"MISSING"})
		}
	})
}
