package main

import (
	"fmt"
	"go/ast"
	"go/token"
	"strings"
)

// C04 — timeout wrappers.  Emitted:
//   * the constants of the REST timeout handler (499, "Request Timeout", exemption header names/values),
//   * checkedTimeout (per-route override) translated to a Lean Int function,
//   * the statement skeletons of the four wrappers and of timeoutWriter's methods,
//   * the "context flow" statements of each wrapper: the source text of the statements that create the
//     derived context and hand it to the work (so `WithTimeout(context.Background(), …)` instead of
//     `WithTimeout(<incoming>, …)`, or handing the *incoming* ctx to the work, breaks a Tie obligation).

// c04FuncLit returns the n-th (0-based, pre-order) function literal inside fd whose parameter count is nparams
// (nparams < 0: any).
func c04FuncLit(fd *ast.FuncDecl, nparams int, nth int) *ast.FuncLit {
	var found *ast.FuncLit
	i := 0
	ast.Inspect(fd.Body, func(n ast.Node) bool {
		if found != nil {
			return false
		}
		if fl, ok := n.(*ast.FuncLit); ok {
			np := 0
			for _, f := range fl.Type.Params.List {
				if len(f.Names) == 0 {
					np++
				} else {
					np += len(f.Names)
				}
			}
			if nparams < 0 || np == nparams {
				if i == nth {
					found = fl
					return false
				}
				i++
			}
		}
		return true
	})
	return found
}

// c04Flow lists, in source order, the text of every simple statement (assignment, expression statement,
// return, go/defer call) under `body` that contains one of the keys.
func c04Flow(s *source, body *ast.BlockStmt, keys []string) []string {
	var out []string
	ast.Inspect(body, func(n ast.Node) bool {
		switch x := n.(type) {
		case *ast.AssignStmt, *ast.ExprStmt, *ast.ReturnStmt, *ast.SendStmt:
			// skip statements that merely contain a function literal (their inner statements are visited)
			hasLit := false
			ast.Inspect(x, func(m ast.Node) bool {
				if _, ok := m.(*ast.FuncLit); ok {
					hasLit = true
				}
				return !hasLit
			})
			if hasLit {
				return true
			}
			txt := s.src(x)
			for _, k := range keys {
				if strings.Contains(txt, k) {
					out = append(out, txt)
					break
				}
			}
			return false
		}
		return true
	})
	return out
}

func (e *emitter) c04Shape(s *source, rel, goName, lean string, lit func(fd *ast.FuncDecl) *ast.BlockStmt) *ast.BlockStmt {
	fd := s.findFunc(rel, goName)
	if fd == nil {
		e.errors = append(e.errors, "function "+goName+" not found in "+rel)
		e.stringList(lean, "MISSING: "+goName, []string{"MISSING"})
		return nil
	}
	body := fd.Body
	if lit != nil {
		body = lit(fd)
		if body == nil {
			e.errors = append(e.errors, "closure of "+goName+" not found in "+rel)
			e.stringList(lean, "MISSING closure: "+goName, []string{"MISSING"})
			return nil
		}
	}
	var out []string
	s.shapeBlock(body.List, &out)
	e.stringList(lean, "synchronisation skeleton of `"+goName+"` in "+rel, out)
	return body
}

func (e *emitter) c04FlowDef(s *source, body *ast.BlockStmt, lean, doc string, keys []string) {
	if body == nil {
		e.stringList(lean, "MISSING: "+doc, []string{"MISSING"})
		return
	}
	e.stringList(lean, doc, c04Flow(s, body, keys))
}


// c04Detail lists every statement of a block with its control structure: `if <cond> {` … `}` [`else {` … `}`],
// `range <x> {` … `}`, `for <cond> {` … `}`, and the source text of every simple statement.  For small functions
// whose every statement matters to the property (option setters, addRoutes, Flush).
func c04Detail(s *source, list []ast.Stmt, out *[]string) {
	for _, st := range list {
		switch x := st.(type) {
		case *ast.IfStmt:
			hdr := "if "
			if x.Init != nil {
				hdr += s.src(x.Init) + "; "
			}
			*out = append(*out, hdr+s.src(x.Cond)+" {")
			c04Detail(s, x.Body.List, out)
			*out = append(*out, "}")
			if x.Else != nil {
				*out = append(*out, "else {")
				if b, ok := x.Else.(*ast.BlockStmt); ok {
					c04Detail(s, b.List, out)
				} else {
					c04Detail(s, []ast.Stmt{x.Else}, out)
				}
				*out = append(*out, "}")
			}
		case *ast.RangeStmt:
			*out = append(*out, "range "+s.src(x.X)+" {")
			c04Detail(s, x.Body.List, out)
			*out = append(*out, "}")
		case *ast.ForStmt:
			hdr := "for"
			if x.Cond != nil {
				hdr += " " + s.src(x.Cond)
			}
			*out = append(*out, hdr+" {")
			c04Detail(s, x.Body.List, out)
			*out = append(*out, "}")
		case *ast.BlockStmt:
			c04Detail(s, x.List, out)
		default:
			*out = append(*out, s.src(st))
		}
	}
}

// c04Guarded lists, in source order, every simple statement under `list` that contains one of the keys, prefixed by
// the conditions / range headers it is nested in ("if A { range xs { stmt").
func c04Guarded(s *source, list []ast.Stmt, guard string, keys []string, out *[]string) {
	for _, st := range list {
		switch x := st.(type) {
		case *ast.IfStmt:
			g := guard + "if " + s.src(x.Cond) + " { "
			if x.Init != nil {
				c04Guarded(s, []ast.Stmt{x.Init}, guard, keys, out)
			}
			c04Guarded(s, x.Body.List, g, keys, out)
			if x.Else != nil {
				ge := guard + "if !(" + s.src(x.Cond) + ") { "
				if b, ok := x.Else.(*ast.BlockStmt); ok {
					c04Guarded(s, b.List, ge, keys, out)
				} else {
					c04Guarded(s, []ast.Stmt{x.Else}, ge, keys, out)
				}
			}
		case *ast.RangeStmt:
			c04Guarded(s, x.Body.List, guard+"range "+s.src(x.X)+" { ", keys, out)
		case *ast.ForStmt:
			c04Guarded(s, x.Body.List, guard+"for { ", keys, out)
		case *ast.BlockStmt:
			c04Guarded(s, x.List, guard, keys, out)
		default:
			txt := s.src(st)
			for _, k := range keys {
				if strings.Contains(txt, k) {
					*out = append(*out, guard+txt)
					break
				}
			}
		}
	}
}

func (e *emitter) c04DetailDef(s *source, rel, goName, lean string, lit func(fd *ast.FuncDecl) *ast.BlockStmt) {
	fd := s.findFunc(rel, goName)
	if fd == nil {
		e.errors = append(e.errors, "function "+goName+" not found in "+rel)
		e.stringList(lean, "MISSING: "+goName, []string{"MISSING"})
		return
	}
	body := fd.Body
	if lit != nil {
		if body = lit(fd); body == nil {
			e.errors = append(e.errors, "closure of "+goName+" not found in "+rel)
			e.stringList(lean, "MISSING closure: "+goName, []string{"MISSING"})
			return
		}
	}
	var out []string
	c04Detail(s, body.List, &out)
	e.stringList(lean, "statements of `"+goName+"` in "+rel, out)
}

func (e *emitter) c04GuardedDef(s *source, rel, goName, lean string, keys []string) {
	fd := s.findFunc(rel, goName)
	if fd == nil {
		e.errors = append(e.errors, "function "+goName+" not found in "+rel)
		e.stringList(lean, "MISSING: "+goName, []string{"MISSING"})
		return
	}
	var out []string
	c04Guarded(s, fd.Body.List, "", keys, &out)
	e.stringList(lean, "guarded statements of `"+goName+"` in "+rel+" mentioning "+strings.Join(keys, " / "), out)
}


// ---------------------------------------------------------------------------------------------------------------
// c04sem: a small Go -> Lean translator for the DECISION-MAKING part of the timeout wrappers: which timeout is selected,
// under which condition the wrapper wraps, and which context reaches the work / the select.  Values:
//   time.Duration -> Int,  context.Context -> Option Int (its deadline),  method names -> Nat ("" = 0),
//   map[string]time.Duration -> List (Nat × Int) with mapGet/mapSet,  grpc.CallOption -> Option Int (some t = TimeoutCallOption{t}),
//   fx.DoOption -> Option Int (the deadline of the context it returns),  request headers -> String → String.
// A function body becomes one Lean expression: the value returned (value mode) or the expression that reaches the SINK
// (the context argument of handler(...) / invoker(...) / ServeHTTP(tw, r), or the context whose Done() is selected).
// Anything outside the subset fails loudly (extraction error + a `Unit` definition that breaks the Tie).
type c04sem struct {
	s      *source
	sink   func(n ast.Node) ast.Expr // the sink expression inside n, or nil
	fields map[string]string         // struct field -> Lean projection suffix ("" = the value itself)
	funcs  map[string]bool           // translated functions that may be called
	thunks map[string]bool           // identifiers whose call `x()` is the value x itself
}

type c04semErr struct{ msg string }

func (c *c04sem) fail(format string, a ...any) { panic(c04semErr{fmt.Sprintf(format, a...)}) }

func (c *c04sem) selector(e ast.Expr) string {
	switch x := e.(type) {
	case *ast.Ident:
		return x.Name
	case *ast.SelectorExpr:
		return c.selector(x.X) + "." + x.Sel.Name
	}
	c.fail("unsupported selector %s", c.s.src(e))
	return ""
}

func (c *c04sem) ex(e ast.Expr) string {
	switch x := e.(type) {
	case *ast.ParenExpr:
		return c.ex(x.X)
	case *ast.Ident:
		return leanIdent(x.Name)
	case *ast.BasicLit:
		if x.Kind == token.INT {
			return x.Value
		}
		if x.Kind == token.STRING && x.Value == `""` {
			return "0" // the empty method name
		}
		c.fail("unsupported literal %s", x.Value)
	case *ast.SelectorExpr:
		if suf, ok := c.fields[x.Sel.Name]; ok {
			if suf == "" {
				return c.ex(x.X)
			}
			return "(" + c.ex(x.X) + ")" + suf
		}
		return leanIdent(c.selector(x))
	case *ast.UnaryExpr:
		if x.Op == token.NOT {
			return "(!" + c.ex(x.X) + ")"
		}
		if x.Op == token.SUB {
			return "(-" + c.ex(x.X) + ")"
		}
	case *ast.BinaryExpr:
		a, b := c.ex(x.X), c.ex(x.Y)
		switch x.Op {
		case token.EQL:
			return "(" + a + " == " + b + ")"
		case token.NEQ:
			return "(" + a + " != " + b + ")"
		case token.LSS, token.LEQ, token.GTR, token.GEQ:
			op := map[token.Token]string{token.LSS: "<", token.LEQ: "≤", token.GTR: ">", token.GEQ: "≥"}[x.Op]
			return "(decide (" + a + " " + op + " " + b + "))"
		case token.LAND:
			return "(" + a + " && " + b + ")"
		case token.LOR:
			return "(" + a + " || " + b + ")"
		case token.ADD, token.SUB, token.MUL:
			return "(" + a + " " + x.Op.String() + " " + b + ")"
		}
	case *ast.CallExpr:
		fn := ""
		if _, ok := x.Fun.(*ast.FuncLit); !ok {
			fn = c.selector(x.Fun)
		}
		switch {
		case fn == "context.WithTimeout" && len(x.Args) == 2:
			return "(wt " + c.ex(x.Args[0]) + " now " + c.ex(x.Args[1]) + ")"
		case fn == "context.Background" && len(x.Args) == 0:
			return "(none : Option Int)"
		case strings.HasSuffix(fn, ".Context") && len(x.Args) == 0:
			return leanIdent(strings.TrimSuffix(fn, ".Context") + ".ctx")
		case strings.HasSuffix(fn, ".Header.Get") && len(x.Args) == 1:
			return "(" + leanIdent(strings.TrimSuffix(fn, ".Header.Get")+".hdr") + " " + c.ex(x.Args[0]) + ")"
		case fn == "make" && len(x.Args) >= 1 && (c.s.src(x.Args[0]) == "methodTimeouts" || strings.HasPrefix(c.s.src(x.Args[0]), "map[")):
			return "([] : List (Nat × Int))"
		case c.thunks[fn] && len(x.Args) == 0:
			return leanIdent(fn)
		case c.funcs[fn]:
			parts := []string{fn}
			for _, a := range x.Args {
				parts = append(parts, c.ex(a))
			}
			return "(" + strings.Join(parts, " ") + ")"
		}
		c.fail("unsupported call %s", c.s.src(x))
	}
	c.fail("unsupported expression %s", c.s.src(e))
	return ""
}

func (c *c04sem) findSink(n ast.Node) ast.Expr {
	if c.sink == nil || n == nil {
		return nil
	}
	var found ast.Expr
	ast.Inspect(n, func(m ast.Node) bool {
		if found != nil || m == nil {
			return false
		}
		if e := c.sink(m); e != nil {
			found = e
			return false
		}
		return true
	})
	return found
}

func c04Terminates(list []ast.Stmt) bool {
	if len(list) == 0 {
		return false
	}
	_, ok := list[len(list)-1].(*ast.ReturnStmt)
	return ok
}

// st translates a statement list; k is the expression to yield when the list runs out ("" = that is an error).
func (c *c04sem) st(list []ast.Stmt, k string) string {
	if len(list) == 0 {
		if k == "" {
			c.fail("statement list ends without a value")
		}
		return k
	}
	head, rest := list[0], list[1:]
	switch x := head.(type) {
	case *ast.DeferStmt, *ast.DeclStmt:
		if c.findSink(x) == nil {
			return c.st(rest, k)
		}
	case *ast.AssignStmt:
		if c.findSink(x) == nil {
			// m[k] = v
			if ix, ok := x.Lhs[0].(*ast.IndexExpr); ok && len(x.Lhs) == 1 && x.Tok == token.ASSIGN {
				m := c.ex(ix.X)
				return fmt.Sprintf("let %s := mapSet %s %s %s\n  %s", m, m, c.ex(ix.Index), c.ex(x.Rhs[0]), c.st(rest, k))
			}
			if len(x.Rhs) == 1 && (x.Tok == token.ASSIGN || x.Tok == token.DEFINE) {
				// r = r.WithContext(ctx): the request's context becomes ctx
				if call, ok := x.Rhs[0].(*ast.CallExpr); ok && len(x.Lhs) == 1 {
					if sel, ok := call.Fun.(*ast.SelectorExpr); ok && sel.Sel.Name == "WithContext" && len(call.Args) == 1 &&
						c.s.src(sel.X) == c.s.src(x.Lhs[0]) {
						return fmt.Sprintf("let %s := %s\n  %s", leanIdent(c.s.src(sel.X)+".ctx"), c.ex(call.Args[0]), c.st(rest, k))
					}
				}
				lhs, ok := x.Lhs[0].(*ast.Ident)
				if ok {
					if v, ok := c.try(x.Rhs[0]); ok {
						return fmt.Sprintf("let %s := %s\n  %s", leanIdent(lhs.Name), v, c.st(rest, k))
					}
					return c.st(rest, k) // a value outside the subset (channel, writer, …): not bound; a later use breaks the build
				}
			}
			c.fail("unsupported assignment %s", c.s.src(x))
		}
	case *ast.IfStmt:
		thenList := x.Body.List
		if !c04Terminates(thenList) {
			thenList = append(append([]ast.Stmt{}, thenList...), rest...)
		}
		elseList := rest
		if x.Else != nil {
			if b, ok := x.Else.(*ast.BlockStmt); ok {
				elseList = b.List
			} else {
				elseList = []ast.Stmt{x.Else}
			}
			if !c04Terminates(elseList) {
				elseList = append(append([]ast.Stmt{}, elseList...), rest...)
			}
		}
		if x.Init != nil {
			// if v, ok := m[key]; ok { … }
			as, ok := x.Init.(*ast.AssignStmt)
			cond, ok2 := x.Cond.(*ast.Ident)
			if ok && ok2 && len(as.Lhs) == 2 && len(as.Rhs) == 1 && c.s.src(as.Lhs[1]) == cond.Name {
				if ix, ok := as.Rhs[0].(*ast.IndexExpr); ok {
					return fmt.Sprintf("match mapGet %s %s with\n  | some %s => %s\n  | none => %s", c.ex(ix.X), c.ex(ix.Index),
						c.ex(as.Lhs[0]), c.st(thenList, k), c.st(elseList, k))
				}
			}
			c.fail("unsupported if-initialiser %s", c.s.src(x.Init))
		}
		return fmt.Sprintf("if %s then\n  (%s)\n  else\n  (%s)", c.ex(x.Cond), c.st(thenList, k), c.st(elseList, k))
	case *ast.RangeStmt:
		if c.findSink(x) == nil {
			v := "_"
			if x.Value != nil {
				v = c.ex(x.Value)
			}
			// for _, v := range xs { if o, ok := v.(T); ok { return E } }
			if len(x.Body.List) == 1 {
				if ifs, ok := x.Body.List[0].(*ast.IfStmt); ok && ifs.Init != nil && ifs.Else == nil {
					if as, ok := ifs.Init.(*ast.AssignStmt); ok && len(as.Lhs) == 2 && len(as.Rhs) == 1 {
						if ta, ok := as.Rhs[0].(*ast.TypeAssertExpr); ok && c.s.src(ifs.Cond) == c.s.src(as.Lhs[1]) &&
							c.s.src(ta.X) == c.s.src(x.Value) && c.s.src(ta.Type) == "TimeoutCallOption" && c04Terminates(ifs.Body.List) {
							return fmt.Sprintf("match (%s).findSome? (fun %s => match %s with | some %s => some (%s) | none => none) with\n  | some r => r\n  | none => %s",
								c.ex(x.X), v, v, c.ex(as.Lhs[0]), c.st(ifs.Body.List, ""), c.st(rest, k))
						}
					}
				}
			}
			// a loop that updates ONE outer variable: a left fold
			var target string
			ast.Inspect(x.Body, func(n ast.Node) bool {
				if as, ok := n.(*ast.AssignStmt); ok && as.Tok == token.ASSIGN && len(as.Lhs) == 1 {
					t := ""
					switch l := as.Lhs[0].(type) {
					case *ast.Ident:
						t = l.Name
					case *ast.IndexExpr:
						t = c.s.src(l.X)
					}
					if t == "" || (target != "" && target != t) {
						target = "?"
					} else {
						target = t
					}
				}
				return true
			})
			if target == "" || target == "?" {
				c.fail("unsupported loop %s", c.s.src(x))
			}
			t := leanIdent(target)
			return fmt.Sprintf("let %s := (%s).foldl (fun %s %s => %s) %s\n  %s", t, c.ex(x.X), t, v, c.st(x.Body.List, t), t, c.st(rest, k))
		}
	case *ast.ReturnStmt:
		if c.sink == nil {
			if len(x.Results) != 1 {
				c.fail("unsupported return %s", c.s.src(x))
			}
			return c.ex(x.Results[0])
		}
		// return func(…) { … }: the closure's body is what runs per call
		if len(x.Results) == 1 {
			if fl, ok := x.Results[0].(*ast.FuncLit); ok {
				return c.st(fl.Body.List, k)
			}
		}
	}
	if e := c.findSink(head); e != nil {
		return c.ex(e)
	}
	switch head.(type) {
	case *ast.ExprStmt, *ast.GoStmt, *ast.SelectStmt, *ast.ReturnStmt:
		if _, isRet := head.(*ast.ReturnStmt); isRet {
			c.fail("return without the sink: %s", c.s.src(head))
		}
		return c.st(rest, k)
	}
	c.fail("unsupported statement %s", c.s.src(head))
	return ""
}

func (c *c04sem) try(e ast.Expr) (s string, ok bool) {
	defer func() {
		if r := recover(); r != nil {
			if _, is := r.(c04semErr); is {
				s, ok = "", false
				return
			}
			panic(r)
		}
	}()
	return c.ex(e), true
}

// c04SemDef emits `def <lean> <sig> := <translation of the body of goName>`.
func (e *emitter) c04SemDef(c *c04sem, rel, goName, lean, sig string, sink func(n ast.Node) ast.Expr) {
	fd := c.s.findFunc(rel, goName)
	if fd == nil {
		e.errors = append(e.errors, "function "+goName+" not found in "+rel)
		e.printf("/-- MISSING: %s in %s -/\ndef %s : Unit := ()\n\n", goName, rel, lean)
		return
	}
	c.sink = sink
	var body string
	func() {
		defer func() {
			if r := recover(); r != nil {
				te, ok := r.(c04semErr)
				if !ok {
					panic(r)
				}
				e.errors = append(e.errors, goName+" ("+lean+"): "+te.msg)
				body = ""
			}
		}()
		body = c.st(fd.Body.List, "")
	}()
	if body == "" {
		e.printf("/-- UNTRANSLATABLE: %s in %s -/\ndef %s : Unit := ()\n\n", goName, rel, lean)
		return
	}
	e.printf("/-- translated (c04sem) from `%s` in %s -/\ndef %s %s :=\n  %s\n\n", goName, rel, lean, sig, body)
}

// sink: argument `arg` of a call of `fn`
func c04SinkCallArg(s *source, fn string, arg int) func(n ast.Node) ast.Expr {
	return func(n ast.Node) ast.Expr {
		if call, ok := n.(*ast.CallExpr); ok && len(call.Args) > arg {
			if _, lit := call.Fun.(*ast.FuncLit); !lit && s.src(call.Fun) == fn {
				return call.Args[arg]
			}
		}
		return nil
	}
}

// sink: the context of the request that is argument 1 of h.handler.ServeHTTP(·, r)
func c04SinkServeHTTP(s *source) func(n ast.Node) ast.Expr {
	return func(n ast.Node) ast.Expr {
		if call, ok := n.(*ast.CallExpr); ok && len(call.Args) == 2 && s.src(call.Fun) == "h.handler.ServeHTTP" {
			return &ast.CallExpr{Fun: &ast.SelectorExpr{X: call.Args[1], Sel: ast.NewIdent("Context")}}
		}
		return nil
	}
}

// sink: the context X of `case <-X.Done():` of a select
func c04SinkSelectDone(s *source) func(n ast.Node) ast.Expr {
	return func(n ast.Node) ast.Expr {
		cc, ok := n.(*ast.CommClause)
		if !ok || cc.Comm == nil {
			return nil
		}
		es, ok := cc.Comm.(*ast.ExprStmt)
		if !ok {
			return nil
		}
		if u, ok := es.X.(*ast.UnaryExpr); ok && u.Op == token.ARROW {
			if call, ok := u.X.(*ast.CallExpr); ok {
				if sel, ok := call.Fun.(*ast.SelectorExpr); ok && sel.Sel.Name == "Done" {
					return sel.X
				}
			}
		}
		return nil
	}
}

// c04CapturedWrites: names assigned (=, op=, ++/--) inside the per-call closure (or, lit == nil, the function) that are
// declared outside it — state that survives the call.  Name based: a name declared anywhere inside counts as local.
func c04CapturedWrites(s *source, body *ast.BlockStmt, params *ast.FieldList) []string {
	local := map[string]bool{}
	if params != nil {
		for _, f := range params.List {
			for _, n := range f.Names {
				local[n.Name] = true
			}
		}
	}
	ast.Inspect(body, func(n ast.Node) bool {
		switch x := n.(type) {
		case *ast.AssignStmt:
			if x.Tok == token.DEFINE {
				for _, l := range x.Lhs {
					if id, ok := l.(*ast.Ident); ok {
						local[id.Name] = true
					}
				}
			}
		case *ast.ValueSpec:
			for _, id := range x.Names {
				local[id.Name] = true
			}
		case *ast.RangeStmt:
			if x.Tok == token.DEFINE {
				for _, l := range []ast.Expr{x.Key, x.Value} {
					if id, ok := l.(*ast.Ident); ok {
						local[id.Name] = true
					}
				}
			}
		case *ast.FuncLit:
			for _, f := range x.Type.Params.List {
				for _, n := range f.Names {
					local[n.Name] = true
				}
			}
		}
		return true
	})
	var out []string
	base := func(e ast.Expr) string {
		for {
			switch x := e.(type) {
			case *ast.Ident:
				return x.Name
			case *ast.SelectorExpr:
				e = x.X
			case *ast.IndexExpr:
				e = x.X
			case *ast.StarExpr:
				e = x.X
			case *ast.ParenExpr:
				e = x.X
			default:
				return "?" + s.src(e)
			}
		}
	}
	note := func(e ast.Expr, stmt ast.Node) {
		b := base(e)
		if b == "_" || local[b] {
			// a field / element of a local may still be shared (tw.timedOut): only plain captured names are reported
			return
		}
		out = append(out, s.src(stmt))
	}
	ast.Inspect(body, func(n ast.Node) bool {
		switch x := n.(type) {
		case *ast.AssignStmt:
			if x.Tok != token.DEFINE {
				for _, l := range x.Lhs {
					note(l, x)
				}
			}
		case *ast.IncDecStmt:
			note(x.X, x)
		}
		return true
	})
	return out
}

func (e *emitter) c04CapturedDef(s *source, rel, goName, lean string, nparams int) {
	fd := s.findFunc(rel, goName)
	if fd == nil {
		e.errors = append(e.errors, "function "+goName+" not found in "+rel)
		e.stringList(lean, "MISSING: "+goName, []string{"MISSING"})
		return
	}
	body, params := fd.Body, fd.Type.Params
	if nparams >= 0 {
		fl := c04FuncLit(fd, nparams, 0)
		if fl == nil {
			e.errors = append(e.errors, "closure of "+goName+" not found in "+rel)
			e.stringList(lean, "MISSING closure: "+goName, []string{"MISSING"})
			return
		}
		body, params = fl.Body, fl.Type.Params
	}
	e.stringList(lean, "assignments inside the per-call body of `"+goName+"` ("+rel+") to names declared outside it (state surviving the call)",
		c04CapturedWrites(s, body, params))
}

// c04TimeoutHandlerDt: `TimeoutHandler(duration)`: `if <cond> { return func(next) { return next } }; return func(next) {
// return &timeoutHandler{ handler: next, dt: <E> } }`  ->  `if cond then none else some E`
func (e *emitter) c04TimeoutHandlerDt(c *c04sem, rel string) {
	const lean = "timeoutHandlerDt"
	fd := c.s.findFunc(rel, "TimeoutHandler")
	var body string
	func() {
		defer func() {
			if r := recover(); r != nil {
				te, ok := r.(c04semErr)
				if !ok {
					panic(r)
				}
				e.errors = append(e.errors, "TimeoutHandler: "+te.msg)
				body = ""
			}
		}()
		if fd == nil {
			c.fail("not found")
		}
		if len(fd.Body.List) != 1 {
			c.fail("not a single return")
		}
		ret0, ok := fd.Body.List[0].(*ast.ReturnStmt)
		if !ok || len(ret0.Results) != 1 {
			c.fail("not a single return")
		}
		fl, ok := ret0.Results[0].(*ast.FuncLit)
		if !ok || len(fl.Type.Params.List) != 1 || len(fl.Type.Params.List[0].Names) != 1 {
			c.fail("middleware is not a func(next)")
		}
		next := fl.Type.Params.List[0].Names[0].Name
		val := func(r *ast.ReturnStmt) string {
			if len(r.Results) != 1 {
				c.fail("unsupported return")
			}
			if id, ok := r.Results[0].(*ast.Ident); ok && id.Name == next {
				return "none"
			}
			if u, ok := r.Results[0].(*ast.UnaryExpr); ok && u.Op == token.AND {
				if cl, ok := u.X.(*ast.CompositeLit); ok && c.s.src(cl.Type) == "timeoutHandler" {
					dt, handler := "", ""
					for _, el := range cl.Elts {
						if kv, ok := el.(*ast.KeyValueExpr); ok {
							switch c.s.src(kv.Key) {
							case "dt":
								dt = c.ex(kv.Value)
							case "handler":
								handler = c.s.src(kv.Value)
							}
						}
					}
					if dt != "" && handler == next {
						return "some " + dt
					}
				}
			}
			c.fail("unsupported middleware result %s", c.s.src(r))
			return ""
		}
		var wrapOf func(list []ast.Stmt) string
		wrapOf = func(list []ast.Stmt) string {
			if len(list) == 0 {
				c.fail("no return")
			}
			switch x := list[0].(type) {
			case *ast.IfStmt:
				if x.Init != nil || x.Else != nil || !c04Terminates(x.Body.List) {
					c.fail("unsupported if")
				}
				return fmt.Sprintf("if %s then (%s) else (%s)", c.ex(x.Cond), wrapOf(x.Body.List), wrapOf(list[1:]))
			case *ast.ReturnStmt:
				return val(x)
			}
			c.fail("unsupported statement %s", c.s.src(list[0]))
			return ""
		}
		body = wrapOf(fl.Body.List)
	}()
	if body == "" {
		e.printf("/-- UNTRANSLATABLE: TimeoutHandler -/\ndef %s : Unit := ()\n\n", lean)
		return
	}
	e.printf("/-- translated (c04sem) from `TimeoutHandler` in %s: the `dt` of the wrapper, `none` = no wrapper -/\ndef %s (duration : Int) : Option Int :=\n  %s\n\n", rel, lean, body)
}

// c04PackageVars: the package-level `var` names of a file (other than `_`): state that outlives a call / a request
// (a sync.Pool of writers, a cached context, a shared buffer).  The timeout wrappers have none.
func (e *emitter) c04PackageVars(s *source, rel, lean string) {
	f := s.file(rel)
	if f == nil {
		e.errors = append(e.errors, "file "+rel+" not found")
		e.stringList(lean, "MISSING: "+rel, []string{"MISSING"})
		return
	}
	out := []string{}
	for _, d := range f.Decls {
		gd, ok := d.(*ast.GenDecl)
		if !ok || gd.Tok != token.VAR {
			continue
		}
		for _, sp := range gd.Specs {
			vs := sp.(*ast.ValueSpec)
			for i, n := range vs.Names {
				if n.Name != "_" {
					item := n.Name
					if i < len(vs.Values) {
						item += " = " + s.src(vs.Values[i])
					}
					out = append(out, item)
				}
			}
		}
	}
	e.stringList(lean, "package-level variables of "+rel+" (state that outlives a call)", out)
}

// ---------------------------------------------------------------------------------------------------------------
// c04glue: the zrpc CONFIGURATION glue as Lean decision functions (round 5c).  Values: a ClientOption is `Option Int`
// (`some t` = WithTimeout(t), `none` = any other option), interceptor installation is `Option <arguments>`.

// glueEx: c04sem.ex plus time.Duration(x) conversions, time.Millisecond and variadic arguments.
func (c *c04sem) glueEx(e ast.Expr) string {
	switch x := e.(type) {
	case *ast.ParenExpr:
		return c.glueEx(x.X)
	case *ast.CallExpr:
		if c.s.src(x.Fun) == "time.Duration" && len(x.Args) == 1 {
			return c.glueEx(x.Args[0])
		}
	case *ast.SelectorExpr:
		if u, ok := timeUnits[x.Sel.Name]; ok && c.s.src(x.X) == "time" {
			return fmt.Sprint(u)
		}
	case *ast.BinaryExpr:
		switch x.Op {
		case token.MUL, token.ADD, token.SUB:
			return "(" + c.glueEx(x.X) + " " + x.Op.String() + " " + c.glueEx(x.Y) + ")"
		case token.LAND:
			return "(" + c.glueEx(x.X) + " && " + c.glueEx(x.Y) + ")"
		case token.LOR:
			return "(" + c.glueEx(x.X) + " || " + c.glueEx(x.Y) + ")"
		}
	}
	return c.ex(e)
}

func (e *emitter) c04GlueGuard(lean, goName string, f func(c *c04sem) string, c *c04sem, sig string) {
	var body string
	func() {
		defer func() {
			if r := recover(); r != nil {
				te, ok := r.(c04semErr)
				if !ok {
					panic(r)
				}
				e.errors = append(e.errors, goName+" ("+lean+"): "+te.msg)
				body = ""
			}
		}()
		body = f(c)
	}()
	if body == "" {
		e.printf("/-- UNTRANSLATABLE: %s -/\ndef %s : Unit := ()\n\n", goName, lean)
		return
	}
	e.printf("/-- translated (c04glue) from `%s` -/\ndef %s %s :=\n  %s\n\n", goName, lean, sig, body)
}

// c04GlueInstall: the function installs interceptors with top-level `if cond { … F(args) … }` statements; the ONE statement
// that mentions `target` becomes `if cond then some (args…) else none`.  The target anywhere else (nested, twice, in a
// loop, unconditional) is outside the subset.
func (e *emitter) c04GlueInstall(c *c04sem, rel, goName, lean, sig, target string) {
	e.c04GlueGuard(lean, goName, func(c *c04sem) string {
		fd := c.s.findFunc(rel, goName)
		if fd == nil {
			c.fail("not found in %s", rel)
		}
		out := ""
		for _, st := range fd.Body.List {
			if !strings.Contains(c.s.src(st), target) {
				continue
			}
			ifs, ok := st.(*ast.IfStmt)
			if !ok || ifs.Init != nil || ifs.Else != nil || len(ifs.Body.List) != 1 || out != "" {
				c.fail("%s is not installed by exactly one plain `if cond { install }`: %s", target, c.s.src(st))
			}
			var call *ast.CallExpr
			n := 0
			ast.Inspect(ifs.Body.List[0], func(m ast.Node) bool {
				if ce, ok := m.(*ast.CallExpr); ok && strings.HasSuffix(c.s.src(ce.Fun), target) {
					call = ce
					n++
				}
				return true
			})
			if call == nil || n != 1 {
				c.fail("no single call of %s in %s", target, c.s.src(ifs.Body.List[0]))
			}
			var args []string
			for _, a := range call.Args {
				args = append(args, c.glueEx(a))
			}
			out = fmt.Sprintf("if %s then some (%s) else none", c.glueEx(ifs.Cond), strings.Join(args, ", "))
		}
		if out == "" {
			c.fail("%s is never installed", target)
		}
		return out
	}, c, sig)
}

// c04GlueOptList: `var opts []ClientOption; [if cond {] opts = append(opts, X) [}] …; opts = append(opts, options...)`.
// X = WithTimeout(e) -> [some e]; any other X -> [none]; an untranslatable condition guarding a non-timeout option is the
// environment `other k` (k-th such condition): the Tie quantifies over it.
func (e *emitter) c04GlueOptList(c *c04sem, rel, goName, lean, sig, list string) {
	e.c04GlueGuard(lean, goName, func(c *c04sem) string {
		fd := c.s.findFunc(rel, goName)
		if fd == nil {
			c.fail("not found in %s", rel)
		}
		nOther := 0
		var lets []string
		elem := func(st ast.Stmt) (string, bool) {
			as, ok := st.(*ast.AssignStmt)
			if !ok || len(as.Lhs) != 1 || len(as.Rhs) != 1 || c.s.src(as.Lhs[0]) != list {
				return "", false
			}
			call, ok := as.Rhs[0].(*ast.CallExpr)
			if !ok || c.s.src(call.Fun) != "append" || len(call.Args) != 2 || c.s.src(call.Args[0]) != list {
				c.fail("unsupported assignment to %s: %s", list, c.s.src(st))
			}
			if call.Ellipsis.IsValid() {
				return c.glueEx(call.Args[1]), true
			}
			if inner, ok := call.Args[1].(*ast.CallExpr); ok && c.s.src(inner.Fun) == "WithTimeout" && len(inner.Args) == 1 {
				return "[some " + c.glueEx(inner.Args[0]) + "]", true
			}
			if strings.Contains(c.s.src(call.Args[1]), "Timeout") {
				c.fail("option mentions Timeout but is not WithTimeout(e): %s", c.s.src(st))
			}
			return "[none]", true
		}
		for _, st := range fd.Body.List {
			if !strings.Contains(c.s.src(st), list) {
				continue
			}
			switch x := st.(type) {
			case *ast.DeclStmt:
				continue
			case *ast.AssignStmt:
				// opts := make([]ClientOption, 0, n): an empty list (a pre-sized allocation)
				if mk, ok := x.Rhs[0].(*ast.CallExpr); ok && len(x.Lhs) == 1 && c.s.src(x.Lhs[0]) == list && c.s.src(mk.Fun) == "make" &&
					len(lets) == 0 && (len(mk.Args) < 2 || c.s.src(mk.Args[1]) == "0") {
					continue
				}
				if el, ok := elem(x); ok {
					lets = append(lets, el)
					continue
				}
				if strings.Contains(c.s.src(x.Rhs[0]), list) && c.s.src(x.Lhs[0]) != list {
					continue // a use of the list (handed on): pinned by the forwarded-arguments Tie
				}
			case *ast.IfStmt:
				if x.Init == nil && x.Else == nil && len(x.Body.List) == 1 {
					if el, ok := elem(x.Body.List[0]); ok {
						cond := ""
						if el == "[none]" {
							// an option that does not touch the timeout: its condition is the environment
							cond = fmt.Sprintf("other %d", nOther)
							nOther++
						} else {
							tr := false
							if cond, tr = c.tryGlue(x.Cond); !tr {
								c.fail("untranslatable condition guards a timeout option: %s", c.s.src(x))
							}
						}
						lets = append(lets, fmt.Sprintf("(if %s then %s else [])", cond, el))
						continue
					}
				}
				if !strings.Contains(c.s.src(x.Body), list+" =") {
					continue
				}
			case *ast.ReturnStmt, *ast.ExprStmt:
				continue
			}
			c.fail("unsupported statement on %s: %s", list, c.s.src(st))
		}
		return "([] : List (Option Int)) ++ " + strings.Join(lets, " ++ ")
	}, c, sig)
}

func (c *c04sem) tryGlue(e ast.Expr) (s string, ok bool) {
	defer func() {
		if r := recover(); r != nil {
			if _, is := r.(c04semErr); is {
				s, ok = "", false
				return
			}
			panic(r)
		}
	}()
	return c.glueEx(e), true
}

// c04GlueDial: buildDialOptions: `var cliOpts ClientOptions; for _, opt := range opts { opt(&cliOpts) }` and the argument of
// `c.buildUnaryInterceptors(·)`; with `WithTimeout(timeout)`'s body `options.Timeout = <e>` as the effect of `some timeout`.
func (e *emitter) c04GlueDial(c *c04sem, rel string) {
	e.c04GlueGuard("cliGlueApplyOpt", "WithTimeout (zrpc/internal/client.go)", func(c *c04sem) string {
		fd := c.s.findFunc(rel, "WithTimeout")
		if fd == nil {
			c.fail("not found")
		}
		fl := c04FuncLit(fd, 1, 0)
		if fl == nil || len(fl.Body.List) != 1 {
			c.fail("WithTimeout is not a one-statement option")
		}
		as, ok := fl.Body.List[0].(*ast.AssignStmt)
		if !ok || len(as.Lhs) != 1 || !strings.HasSuffix(c.s.src(as.Lhs[0]), ".Timeout") || as.Tok != token.ASSIGN {
			c.fail("WithTimeout does not assign .Timeout: %s", c.s.src(fl.Body.List[0]))
		}
		return "match opt with\n  | some timeout => " + c.glueEx(as.Rhs[0]) + "\n  | none => options_Timeout"
	}, c, "(options_Timeout : Int) (opt : Option Int) : Int")
	e.c04GlueGuard("cliGlueDialTimeout", "client.buildDialOptions", func(c *c04sem) string {
		fd := c.s.findFunc(rel, "client.buildDialOptions")
		if fd == nil {
			c.fail("not found")
		}
		zero, loop, arg := false, false, ""
		for _, st := range fd.Body.List {
			txt := c.s.src(st)
			switch x := st.(type) {
			case *ast.DeclStmt:
				if txt == "var cliOpts ClientOptions" {
					zero = true
				}
			case *ast.RangeStmt:
				if strings.Contains(txt, "cliOpts") {
					if !zero || loop || arg != "" || c.s.src(x.X) != "opts" || x.Value == nil || len(x.Body.List) != 1 ||
						c.s.src(x.Body.List[0]) != c.s.src(x.Value)+"(&cliOpts)" {
						c.fail("unsupported option loop %s", txt)
					}
					loop = true
				}
			default:
				if strings.Contains(txt, "cliOpts.Timeout") || strings.Contains(txt, "buildUnaryInterceptors") {
					n := 0
					ast.Inspect(st, func(m ast.Node) bool {
						if ce, ok := m.(*ast.CallExpr); ok && c.s.src(ce.Fun) == "c.buildUnaryInterceptors" && len(ce.Args) == 1 {
							arg = c.glueEx(ce.Args[0])
							n++
						}
						return true
					})
					if n != 1 || !loop {
						c.fail("unsupported use of cliOpts.Timeout: %s", txt)
					}
				} else if strings.Contains(txt, "cliOpts =") || strings.Contains(txt, "&cliOpts") {
					c.fail("cliOpts changed outside the option loop: %s", txt)
				}
			}
		}
		if arg == "" {
			c.fail("buildUnaryInterceptors is not called")
		}
		return "let cliOpts_Timeout := opts.foldl (fun cliOpts_Timeout opt => cliGlueApplyOpt cliOpts_Timeout opt) 0\n  " + arg
	}, c, "(opts : List (Option Int)) : Int")
}

// c04Forwarding: the calls of `callee` inside fn as a typed list: (callee, [argument expressions; a variadic one ends in ...]).
func (e *emitter) c04Forwarding(s *source, lean string, sites [][3]string) {
	e.printf("/-- forwarded argument lists of the delegating entry points: (function, callee, arguments) -/\ndef %s : List (String × String × List String) := [", lean)
	first := true
	for _, site := range sites {
		rel, fn, callee := site[0], site[1], site[2]
		fd := s.findFunc(rel, fn)
		if fd == nil {
			e.errors = append(e.errors, "function "+fn+" not found in "+rel)
			continue
		}
		ast.Inspect(fd.Body, func(n ast.Node) bool {
			call, ok := n.(*ast.CallExpr)
			if !ok || s.src(call.Fun) != callee {
				return true
			}
			var args []string
			for i, a := range call.Args {
				t := s.src(a)
				if call.Ellipsis.IsValid() && i == len(call.Args)-1 {
					t += "..."
				}
				args = append(args, leanString(t))
			}
			if !first {
				e.printf(",")
			}
			first = false
			e.printf("\n  (%s, %s, [%s])", leanString(fn), leanString(callee), strings.Join(args, ", "))
			return true
		})
	}
	e.printf("]\n\n")
}

func (e *emitter) c04Glue(s *source) {
	e.printf("/-! ### c04glue: the zrpc configuration glue, translated -/\n\n")
	c := &c04sem{s: s, fields: map[string]string{}, funcs: map[string]bool{}, thunks: map[string]bool{}}
	e.c04GlueInstall(c, "zrpc/server.go", "setupUnaryInterceptors", "srvGlueTimeoutIcpt",
		"(c_Timeout : Int) (c_MethodTimeouts : List (Nat × Int)) : Option (Int × List (Nat × Int))", "UnaryTimeoutInterceptor")
	e.c04GlueInstall(c, "zrpc/internal/client.go", "client.buildUnaryInterceptors", "cliGlueTimeoutIcpt",
		"(c_middlewares_Timeout : Bool) (timeout : Int) : Option Int", "TimeoutInterceptor")
	e.c04GlueOptList(c, "zrpc/client.go", "NewClient", "cliGlueConfOpts",
		"(c_Timeout : Int) (options : List (Option Int)) (other : Nat → Bool) : List (Option Int)", "opts")
	e.c04GlueDial(c, "zrpc/internal/client.go")
	e.c04GuardedDef(s, "zrpc/internal/client.go", "NewClient", "zrpcCliInternalNew", []string{"opts"})
	e.c04GuardedDef(s, "zrpc/internal/client.go", "client.dial", "zrpcCliDial", []string{"buildDialOptions", "options..."})
	e.c04Forwarding(s, "zrpcForwarding", [][3]string{
		{"zrpc/client.go", "NewClient", "internal.NewClient"},
		{"zrpc/internal/client.go", "NewClient", "append"},
		{"zrpc/internal/client.go", "NewClient", "cli.dial"},
		{"zrpc/internal/client.go", "client.dial", "c.buildDialOptions"},
		{"zrpc/internal/client.go", "client.dial", "grpc.DialContext"},
		{"zrpc/client.go", "WithCallTimeout", "clientinterceptors.WithCallTimeout"},
		{"rest/server.go", "Server.AddRoute", "s.AddRoutes"},
	})
}

func (e *emitter) c04Semantic(s *source) {
	const th = "rest/handler/timeouthandler.go"
	const srv = "zrpc/internal/serverinterceptors/timeoutinterceptor.go"
	const cli = "zrpc/internal/clientinterceptors/timeoutinterceptor.go"
	const fx = "core/fx/timeout.go"
	e.printf(`/-! ### c04sem: the decision-making part of the wrappers, translated -/

/-- meaning of context.WithTimeout(parent, t) at time now on deadlines (trusted; proven equal to the model's in TieSem) -/
def wt (parent : Option Int) (now t : Int) : Option Int :=
  match parent with
  | none => some (now + t)
  | some p => some (if p ≤ now + t then p else now + t)

/-- v, ok := m[k] -/
def mapGet (m : List (Nat × Int)) (k : Nat) : Option Int := (m.find? (fun p => p.1 == k)).map (·.2)

/-- m[k] = v -/
def mapSet (m : List (Nat × Int)) (k : Nat) (v : Int) : List (Nat × Int) := m.filter (fun p => p.1 != k) ++ [(k, v)]

`)
	c := &c04sem{s: s, fields: map[string]string{"FullMethod": ".1", "Timeout": ".2", "timeout": ""},
		funcs: map[string]bool{}, thunks: map[string]bool{"opt": true}}
	const tbl = "List (Nat × Int)"
	e.c04SemDef(c, srv, "getTimeoutByUnaryServerInfo", "getTimeoutByUnaryServerInfo",
		"(method : Nat) (timeouts : "+tbl+") (defaultTimeout : Int) : Int", nil)
	e.c04SemDef(c, srv, "buildMethodTimeouts", "buildMethodTimeouts", "(timeouts : "+tbl+") : "+tbl, nil)
	c.funcs["getTimeoutByUnaryServerInfo"], c.funcs["buildMethodTimeouts"] = true, true
	srvSig := "(timeout : Int) (methodTimeouts : " + tbl + ") (ctx : Option Int) (now : Int) (info_FullMethod : Nat) : Option Int"
	c.fields = map[string]string{}
	e.c04SemDef(c, srv, "UnaryTimeoutInterceptor", "srvHandlerCtx", srvSig, c04SinkCallArg(s, "handler", 0))
	e.c04SemDef(c, srv, "UnaryTimeoutInterceptor", "srvSelectCtx", srvSig, c04SinkSelectDone(s))
	e.c04CapturedDef(s, srv, "UnaryTimeoutInterceptor", "srvCapturedWrites", 4)

	c.fields = map[string]string{"timeout": ""}
	e.c04SemDef(c, cli, "getTimeoutFromCallOptions", "getTimeoutFromCallOptions", "(opts : List (Option Int)) (defaultTimeout : Int) : Int", nil)
	c.funcs["getTimeoutFromCallOptions"] = true
	e.c04SemDef(c, cli, "TimeoutInterceptor", "cliInvokerCtx", "(timeout : Int) (ctx : Option Int) (now : Int) (opts : List (Option Int)) : Option Int",
		c04SinkCallArg(s, "invoker", 0))
	e.c04CapturedDef(s, cli, "TimeoutInterceptor", "cliCapturedWrites", 7)
	e.c04DetailDef(s, cli, "WithCallTimeout", "cliWithCallTimeout", nil)

	e.c04SemDef(c, fx, "DoWithTimeout", "fxSelectCtx", "(timeout : Int) (opts : List (Option Int)) (now : Int) : Option Int", c04SinkSelectDone(s))
	e.c04CapturedDef(s, fx, "DoWithTimeout", "fxCapturedWrites", -1)
	e.c04DetailDef(s, fx, "WithContext", "fxWithContext", func(fd *ast.FuncDecl) *ast.BlockStmt {
		if fl := c04FuncLit(fd, 0, 0); fl != nil {
			return fl.Body
		}
		return nil
	})

	e.c04TimeoutHandlerDt(c, th)
	e.c04SemDef(c, th, "timeoutHandler.ServeHTTP", "restHandlerCtx",
		"(h_dt : Int) (r_hdr : String → String) (r_ctx : Option Int) (now : Int) : Option Int", c04SinkServeHTTP(s))
	e.c04CapturedDef(s, th, "timeoutHandler.ServeHTTP", "restCapturedWrites", -1)
	e.c04PackageVars(s, th, "restPackageVars")
	e.c04PackageVars(s, srv, "srvPackageVars")
	e.c04PackageVars(s, cli, "cliPackageVars")
	e.c04PackageVars(s, fx, "fxPackageVars")
}

func init() {
	register("C04", func(s *source, e *emitter) {
		const th = "rest/handler/timeouthandler.go"
		const eng = "rest/engine.go"
		const srv = "zrpc/internal/serverinterceptors/timeoutinterceptor.go"
		const cli = "zrpc/internal/clientinterceptors/timeoutinterceptor.go"
		const fx = "core/fx/timeout.go"

		e.constDef(s, th, "statusClientClosedRequest", "statusClientClosedRequest")
		e.constDef(s, th, "reason", "reason")
		e.constDef(s, th, "headerUpgrade", "headerUpgrade")
		e.constDef(s, th, "valueWebsocket", "valueWebsocket")
		e.constDef(s, th, "headerAccept", "headerAccept")
		e.constDef(s, th, "valueSSE", "valueSSE")

		t := &translator{registry: map[string]*transFunc{}, consts: map[string]string{"time.Millisecond": "1000000"}}
		e.translated(t, s, eng, "engine.checkedTimeout", "checkedTimeout", false, "")


		// REST engine wiring: which duration reaches TimeoutHandler for a route
		const srvgo = "rest/server.go"
		lit1 := func(fd *ast.FuncDecl) *ast.BlockStmt {
			if fl := c04FuncLit(fd, 1, 0); fl != nil {
				return fl.Body
			}
			return nil
		}
		e.c04DetailDef(s, srvgo, "WithTimeout", "withTimeoutOpt", lit1)
		e.c04DetailDef(s, srvgo, "WithSSE", "withSSEOpt", lit1)
		e.c04DetailDef(s, srvgo, "Server.AddRoutes", "serverAddRoutes", nil)
		e.c04DetailDef(s, srvgo, "Server.AddRoute", "serverAddRoute", nil)
		e.c04DetailDef(s, eng, "engine.addRoutes", "engAddRoutes", nil)
		e.c04GuardedDef(s, eng, "newEngine", "engNewTimeout", []string{"timeout"})
		e.c04GuardedDef(s, eng, "engine.buildChainWithNativeMiddlewares", "engTimeoutWiring", []string{"TimeoutHandler", "Timeout"})
		e.c04GuardedDef(s, eng, "engine.bindRoute", "engBindRouteChain", []string{"chn"})
		e.c04GuardedDef(s, eng, "engine.bindFeaturedRoutes", "engBindFeatured", []string{"bindRoute("})
		e.c04GuardedDef(s, eng, "engine.bindRoutes", "engBindRoutes", []string{"bindFeaturedRoutes("})

		// zrpc wiring: configuration -> interceptors
		e.c04GuardedDef(s, "zrpc/server.go", "setupUnaryInterceptors", "zrpcSrvWiring", []string{"UnaryTimeoutInterceptor"})
		e.c04GuardedDef(s, "zrpc/client.go", "NewClient", "zrpcCliConf", []string{"WithTimeout(", "options..."})
		e.c04DetailDef(s, "zrpc/client.go", "WithCallTimeout", "zrpcWithCallTimeout", nil)
		e.c04DetailDef(s, "zrpc/internal/client.go", "WithTimeout", "zrpcCliWithTimeoutOpt", lit1)
		e.c04GuardedDef(s, "zrpc/internal/client.go", "client.buildDialOptions", "zrpcCliDialOptions", []string{"cliOpts"})
		e.c04GuardedDef(s, "zrpc/internal/client.go", "client.buildUnaryInterceptors", "zrpcCliWiring", []string{"TimeoutInterceptor"})

		// the default error path of the timeout branch, and the pass-through methods of timeoutWriter
		e.c04GuardedDef(s, "rest/httpx/responses.go", "ErrorCtx", "httpxErrorCtx", []string{"doHandleError"})
		e.c04GuardedDef(s, "rest/httpx/responses.go", "doHandleError", "httpxDefaultError", []string{"fn(w, err)"})
		e.c04DetailDef(s, th, "timeoutWriter.Hijack", "twHijackDetail", nil)
		e.c04DetailDef(s, th, "timeoutWriter.Push", "twPushDetail", nil)

		// REST
		b := e.c04Shape(s, th, "TimeoutHandler", "timeoutHandlerCtorShape", nil)
		_ = b
		b = e.c04Shape(s, th, "timeoutHandler.ServeHTTP", "serveHTTPShape", nil)
		e.c04FlowDef(s, b, "serveHTTPFlow", "context/writer flow of timeoutHandler.ServeHTTP",
			[]string{"context.WithTimeout", "WithContext(", "ServeHTTP(", "ErrorCtx(", "timedOut", "w.Write", "dst[k]", "WriteString", "&timeoutWriter", "make(chan", "panicChan <-", "close(done)", "panic(p)"})
		e.c04Shape(s, th, "timeoutWriter.Write", "twWriteShape", nil)
		e.c04Shape(s, th, "timeoutWriter.WriteHeader", "twWriteHeaderShape", nil)
		e.c04Shape(s, th, "timeoutWriter.writeHeaderLocked", "twWriteHeaderLockedShape", nil)
		e.c04Shape(s, th, "timeoutWriter.Flush", "twFlushShape", nil)
		e.c04DetailDef(s, th, "timeoutWriter.Flush", "twFlushDetail", nil)
		e.c04Shape(s, th, "timeoutWriter.Header", "twHeaderShape", nil)

		// zRPC server: the interceptor closure (4 parameters)
		lit4 := func(fd *ast.FuncDecl) *ast.BlockStmt {
			if fl := c04FuncLit(fd, 4, 0); fl != nil {
				return fl.Body
			}
			return nil
		}
		b = e.c04Shape(s, srv, "UnaryTimeoutInterceptor", "srvShape", lit4)
		e.c04FlowDef(s, b, "srvFlow", "context/result flow of the UnaryTimeoutInterceptor closure",
			[]string{"context.WithTimeout", "getTimeoutByUnaryServerInfo", "handler(", "return", "ctx.Err()", "status.Error"})
		e.c04Shape(s, srv, "getTimeoutByUnaryServerInfo", "srvMethodTimeoutShape", nil)
		e.c04Shape(s, srv, "buildMethodTimeouts", "srvBuildMethodTimeoutsShape", nil)

		// zRPC client: the interceptor closure (variadic opts counts as one parameter: 7)
		lit7 := func(fd *ast.FuncDecl) *ast.BlockStmt {
			if fl := c04FuncLit(fd, 7, 0); fl != nil {
				return fl.Body
			}
			return nil
		}
		b = e.c04Shape(s, cli, "TimeoutInterceptor", "cliShape", lit7)
		e.c04FlowDef(s, b, "cliFlow", "context flow of the client TimeoutInterceptor closure",
			[]string{"context.WithTimeout", "getTimeoutFromCallOptions", "invoker(", "return"})
		e.c04Shape(s, cli, "getTimeoutFromCallOptions", "cliCallOptionShape", nil)

		// fx
		fd := s.findFunc(fx, "DoWithTimeout")
		e.c04Shape(s, fx, "DoWithTimeout", "fxShape", nil)
		if fd != nil {
			e.c04FlowDef(s, fd.Body, "fxFlow", "context/result flow of fx.DoWithTimeout",
				[]string{"context.WithTimeout", "context.Background", "opt()", "fn()", "return", "ctx.Err()"})
		} else {
			e.stringList("fxFlow", "MISSING", []string{"MISSING"})
		}
		e.c04Semantic(s)
		e.c04Glue(s)
	})
}
