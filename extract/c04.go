package main

import (
	"go/ast"
	"strings"
)

// C04 — timeout wrappers.  Emitted:
//   * the constants of the REST timeout handler (499, "Request Timeout", exemption header names/values),
//   * checkedTimeout (per-route override) translated to a Lean Int function,
//   * the statement skeletons of the four wrappers and of timeoutWriter's methods,
//   * the "context flow" statements of each wrapper: the source text of the statements that create the
//     derived context and hand it to the work (so `WithTimeout(context.Background(), …)` instead of
//     `WithTimeout(<incoming>, …)`, or handing the *incoming* ctx to the work, breaks a Tie obligation).

// c04FuncLit returns the n-th (0-based, pre-order) function literal inside fd whose parameter count is nparams
// (nparams < 0: any).
func c04FuncLit(fd *ast.FuncDecl, nparams int, nth int) *ast.FuncLit {
	var found *ast.FuncLit
	i := 0
	ast.Inspect(fd.Body, func(n ast.Node) bool {
		if found != nil {
			return false
		}
		if fl, ok := n.(*ast.FuncLit); ok {
			np := 0
			for _, f := range fl.Type.Params.List {
				if len(f.Names) == 0 {
					np++
				} else {
					np += len(f.Names)
				}
			}
			if nparams < 0 || np == nparams {
				if i == nth {
					found = fl
					return false
				}
				i++
			}
		}
		return true
	})
	return found
}

// c04Flow lists, in source order, the text of every simple statement (assignment, expression statement,
// return, go/defer call) under `body` that contains one of the keys.
func c04Flow(s *source, body *ast.BlockStmt, keys []string) []string {
	var out []string
	ast.Inspect(body, func(n ast.Node) bool {
		switch x := n.(type) {
		case *ast.AssignStmt, *ast.ExprStmt, *ast.ReturnStmt, *ast.SendStmt:
			// skip statements that merely contain a function literal (their inner statements are visited)
			hasLit := false
			ast.Inspect(x, func(m ast.Node) bool {
				if _, ok := m.(*ast.FuncLit); ok {
					hasLit = true
				}
				return !hasLit
			})
			if hasLit {
				return true
			}
			txt := s.src(x)
			for _, k := range keys {
				if strings.Contains(txt, k) {
					out = append(out, txt)
					break
				}
			}
			return false
		}
		return true
	})
	return out
}

func (e *emitter) c04Shape(s *source, rel, goName, lean string, lit func(fd *ast.FuncDecl) *ast.BlockStmt) *ast.BlockStmt {
	fd := s.findFunc(rel, goName)
	if fd == nil {
		e.errors = append(e.errors, "function "+goName+" not found in "+rel)
		e.stringList(lean, "MISSING: "+goName, []string{"MISSING"})
		return nil
	}
	body := fd.Body
	if lit != nil {
		body = lit(fd)
		if body == nil {
			e.errors = append(e.errors, "closure of "+goName+" not found in "+rel)
			e.stringList(lean, "MISSING closure: "+goName, []string{"MISSING"})
			return nil
		}
	}
	var out []string
	s.shapeBlock(body.List, &out)
	e.stringList(lean, "synchronisation skeleton of `"+goName+"` in "+rel, out)
	return body
}

func (e *emitter) c04FlowDef(s *source, body *ast.BlockStmt, lean, doc string, keys []string) {
	if body == nil {
		e.stringList(lean, "MISSING: "+doc, []string{"MISSING"})
		return
	}
	e.stringList(lean, doc, c04Flow(s, body, keys))
}

func init() {
	register("C04", func(s *source, e *emitter) {
		const th = "rest/handler/timeouthandler.go"
		const eng = "rest/engine.go"
		const srv = "zrpc/internal/serverinterceptors/timeoutinterceptor.go"
		const cli = "zrpc/internal/clientinterceptors/timeoutinterceptor.go"
		const fx = "core/fx/timeout.go"

		e.constDef(s, th, "statusClientClosedRequest", "statusClientClosedRequest")
		e.constDef(s, th, "reason", "reason")
		e.constDef(s, th, "headerUpgrade", "headerUpgrade")
		e.constDef(s, th, "valueWebsocket", "valueWebsocket")
		e.constDef(s, th, "headerAccept", "headerAccept")
		e.constDef(s, th, "valueSSE", "valueSSE")

		t := &translator{registry: map[string]*transFunc{}, consts: map[string]string{"time.Millisecond": "1000000"}}
		e.translated(t, s, eng, "engine.checkedTimeout", "checkedTimeout", false, "")

		// REST
		b := e.c04Shape(s, th, "TimeoutHandler", "timeoutHandlerCtorShape", nil)
		_ = b
		b = e.c04Shape(s, th, "timeoutHandler.ServeHTTP", "serveHTTPShape", nil)
		e.c04FlowDef(s, b, "serveHTTPFlow", "context/writer flow of timeoutHandler.ServeHTTP",
			[]string{"context.WithTimeout", "WithContext(", "ServeHTTP(", "ErrorCtx(", "timedOut", "w.Write", "dst[k]", "WriteString", "&timeoutWriter"})
		e.c04Shape(s, th, "timeoutWriter.Write", "twWriteShape", nil)
		e.c04Shape(s, th, "timeoutWriter.WriteHeader", "twWriteHeaderShape", nil)
		e.c04Shape(s, th, "timeoutWriter.writeHeaderLocked", "twWriteHeaderLockedShape", nil)
		e.c04Shape(s, th, "timeoutWriter.Flush", "twFlushShape", nil)
		e.c04Shape(s, th, "timeoutWriter.Header", "twHeaderShape", nil)

		// zRPC server: the interceptor closure (4 parameters)
		lit4 := func(fd *ast.FuncDecl) *ast.BlockStmt {
			if fl := c04FuncLit(fd, 4, 0); fl != nil {
				return fl.Body
			}
			return nil
		}
		b = e.c04Shape(s, srv, "UnaryTimeoutInterceptor", "srvShape", lit4)
		e.c04FlowDef(s, b, "srvFlow", "context/result flow of the UnaryTimeoutInterceptor closure",
			[]string{"context.WithTimeout", "getTimeoutByUnaryServerInfo", "handler(", "return", "ctx.Err()", "status.Error"})
		e.c04Shape(s, srv, "getTimeoutByUnaryServerInfo", "srvMethodTimeoutShape", nil)
		e.c04Shape(s, srv, "buildMethodTimeouts", "srvBuildMethodTimeoutsShape", nil)

		// zRPC client: the interceptor closure (variadic opts counts as one parameter: 7)
		lit7 := func(fd *ast.FuncDecl) *ast.BlockStmt {
			if fl := c04FuncLit(fd, 7, 0); fl != nil {
				return fl.Body
			}
			return nil
		}
		b = e.c04Shape(s, cli, "TimeoutInterceptor", "cliShape", lit7)
		e.c04FlowDef(s, b, "cliFlow", "context flow of the client TimeoutInterceptor closure",
			[]string{"context.WithTimeout", "getTimeoutFromCallOptions", "invoker(", "return"})
		e.c04Shape(s, cli, "getTimeoutFromCallOptions", "cliCallOptionShape", nil)

		// fx
		fd := s.findFunc(fx, "DoWithTimeout")
		e.c04Shape(s, fx, "DoWithTimeout", "fxShape", nil)
		if fd != nil {
			e.c04FlowDef(s, fd.Body, "fxFlow", "context/result flow of fx.DoWithTimeout",
				[]string{"context.WithTimeout", "context.Background", "opt()", "fn()", "return", "ctx.Err()"})
		} else {
			e.stringList("fxFlow", "MISSING", []string{"MISSING"})
		}
	})
}
