package main

// C20 — goctl .api parser / formatter (tools/goctl/pkg/parser/api). Extracted on every run:
//   * the keyword / method tables and literal texts the parser compares token texts with,
//   * the lookahead skeleton of every parser function (the ordered peek/expect/advance calls with their
//     expected-token arguments, the parse* calls and the branch conditions),
//   * the write skeleton of every Format method (branch conditions, Write/WriteText/NewLine calls with the
//     node lists and options),
//   * the character -> token table of the scanner.

import (
	"go/ast"
	"go/printer"
	"go/token"
	"sort"
	"strconv"
	"strings"
)

const c20Dir = "tools/goctl/pkg/parser/api/"

// c20Skeleton walks a function body in source order and lists branch conditions and the calls whose
// callee name (last selector component) is in `keep` (with their argument text).
func c20Skeleton(s *source, fd *ast.FuncDecl, keep func(name string) bool) []string {
	var out []string
	var walkStmt func(st ast.Stmt)
	var walkExpr func(e ast.Expr)
	walkExpr = func(e ast.Expr) {
		if e == nil {
			return
		}
		ast.Inspect(e, func(n ast.Node) bool {
			c, ok := n.(*ast.CallExpr)
			if !ok {
				return true
			}
			name := ""
			switch f := c.Fun.(type) {
			case *ast.Ident:
				name = f.Name
			case *ast.SelectorExpr:
				name = f.Sel.Name
			}
			if keep(name) {
				var args []string
				for _, a := range c.Args {
					args = append(args, s.src(a))
				}
				out = append(out, name+"("+strings.Join(args, ", ")+")")
				return false
			}
			return true
		})
	}
	walkBlock := func(b *ast.BlockStmt) {
		if b == nil {
			return
		}
		for _, st := range b.List {
			walkStmt(st)
		}
	}
	walkStmt = func(st ast.Stmt) {
		switch x := st.(type) {
		case *ast.IfStmt:
			if x.Init != nil {
				walkStmt(x.Init)
			}
			out = append(out, "if "+s.src(x.Cond)+" {")
			walkBlock(x.Body)
			if x.Else != nil {
				out = append(out, "} else {")
				switch el := x.Else.(type) {
				case *ast.BlockStmt:
					walkBlock(el)
				default:
					walkStmt(el)
				}
			}
			out = append(out, "}")
		case *ast.ForStmt:
			cond := ""
			if x.Cond != nil {
				cond = s.src(x.Cond)
			}
			out = append(out, "for "+cond+" {")
			walkBlock(x.Body)
			out = append(out, "}")
		case *ast.RangeStmt:
			out = append(out, "range "+s.src(x.X)+" {")
			walkBlock(x.Body)
			out = append(out, "}")
		case *ast.SwitchStmt:
			tag := ""
			if x.Tag != nil {
				tag = s.src(x.Tag)
			}
			out = append(out, "switch "+tag+" {")
			for _, cc := range x.Body.List {
				c := cc.(*ast.CaseClause)
				var es []string
				for _, e := range c.List {
					es = append(es, s.src(e))
				}
				if c.List == nil {
					out = append(out, "default:")
				} else {
					out = append(out, "case "+strings.Join(es, ", ")+":")
				}
				for _, b := range c.Body {
					walkStmt(b)
				}
			}
			out = append(out, "}")
		case *ast.TypeSwitchStmt:
			out = append(out, "typeswitch {")
			for _, cc := range x.Body.List {
				c := cc.(*ast.CaseClause)
				var es []string
				for _, e := range c.List {
					es = append(es, s.src(e))
				}
				if c.List == nil {
					out = append(out, "default:")
				} else {
					out = append(out, "case "+strings.Join(es, ", ")+":")
				}
				for _, b := range c.Body {
					walkStmt(b)
				}
			}
			out = append(out, "}")
		case *ast.BlockStmt:
			walkBlock(x)
		case *ast.ReturnStmt:
			for _, r := range x.Results {
				walkExpr(r)
			}
			if len(x.Results) == 1 {
				if id, ok := x.Results[0].(*ast.Ident); ok && id.Name == "nil" {
					out = append(out, "return nil")
				}
			}
		case *ast.ExprStmt:
			walkExpr(x.X)
		case *ast.AssignStmt:
			for _, r := range x.Rhs {
				walkExpr(r)
			}
		case *ast.DeclStmt:
			if gd, ok := x.Decl.(*ast.GenDecl); ok {
				for _, sp := range gd.Specs {
					if vs, ok := sp.(*ast.ValueSpec); ok {
						for _, v := range vs.Values {
							walkExpr(v)
						}
					}
				}
			}
		case *ast.BranchStmt:
			out = append(out, x.Tok.String())
		case *ast.DeferStmt:
			walkExpr(x.Call)
		}
	}
	walkBlock(fd.Body)
	return out
}

func c20ParserCall(name string) bool {
	switch name {
	case "advanceIfPeekTokenIs", "peekTokenIs", "peekTokenIsNot", "notExpectPeekToken", "expectPeekToken",
		"notExpectPeekTokenGotComment", "curTokenIs", "curTokenIsKeyword", "curTokenIsNotEof", "nextToken",
		"expectIdentError", "appendStmt", "Line":
		return true
	}
	return strings.HasPrefix(name, "parse")
}

func c20FormatCall(name string) bool {
	switch name {
	case "Write", "WriteText", "NewLine", "IsZeroString", "ContainsStruct", "IsAnonymous", "Format",
		"transferNilInfixNode", "transfer2TokenNode", "transferTokenNode", "Fprint", "Fprintf":
		return true
	}
	return false
}

func (e *emitter) c20Skel(s *source, rel, goName, lean string, keep func(string) bool) {
	fd := s.findFunc(rel, goName)
	if fd == nil {
		e.errors = append(e.errors, "function "+goName+" not found in "+rel)
		e.stringList(lean, "MISSING: "+goName+" in "+rel, []string{"MISSING"})
		return
	}
	e.stringList(lean, "skeleton of `"+goName+"` in "+rel, c20Skeleton(s, fd, keep))
}

// c20MapKeys lists the string keys of a package-level map literal.
func c20MapKeys(s *source, rel, name string) ([]string, bool) {
	f := s.file(rel)
	if f == nil {
		return nil, false
	}
	for _, d := range f.Decls {
		gd, ok := d.(*ast.GenDecl)
		if !ok || gd.Tok != token.VAR {
			continue
		}
		for _, sp := range gd.Specs {
			vs := sp.(*ast.ValueSpec)
			for i, n := range vs.Names {
				if n.Name != name || i >= len(vs.Values) {
					continue
				}
				cl, ok := vs.Values[i].(*ast.CompositeLit)
				if !ok {
					return nil, false
				}
				var out []string
				for _, el := range cl.Elts {
					var lit ast.Expr = el
					if kv, ok := el.(*ast.KeyValueExpr); ok {
						lit = kv.Key
					}
					bl, ok := lit.(*ast.BasicLit)
					if !ok || bl.Kind != token.STRING {
						return nil, false
					}
					v, err := strconv.Unquote(bl.Value)
					if err != nil {
						return nil, false
					}
					out = append(out, v)
				}
				return out, true
			}
		}
	}
	return nil, false
}

// c20ScannerTable lists `case '<c>': <first call / return>` of Scanner.NextToken's switch.
func c20ScannerTable(s *source, rel string) ([]string, bool) {
	fd := s.findFunc(rel, "Scanner.NextToken")
	if fd == nil {
		return nil, false
	}
	var out []string
	for _, st := range fd.Body.List {
		sw, ok := st.(*ast.SwitchStmt)
		if !ok {
			continue
		}
		for _, cc := range sw.Body.List {
			c := cc.(*ast.CaseClause)
			var es []string
			for _, e := range c.List {
				es = append(es, s.src(e))
			}
			head := "default"
			if c.List != nil {
				head = strings.Join(es, ",")
			}
			body := ""
			if len(c.Body) > 0 {
				if r, ok := c.Body[len(c.Body)-1].(*ast.ReturnStmt); ok && len(c.Body) == 1 {
					body = s.src(r)
				} else {
					body = "…"
				}
			}
			out = append(out, head+" => "+body)
		}
	}
	return out, len(out) > 0
}

// c20Full renders a function body statement by statement (source text with collapsed white space, control
// structures as header / body / "}"). Used for the small methods in which every token matters: which field a
// HasLeadingCommentGroup / CommentGroup / End / Pos method looks at, the line and comment logic of
// Writer.write, transfer*TokenNode, Parser.nextToken and the scanner's comment functions.
func c20Full(s0 *source, fd *ast.FuncDecl) []string {
	s := c20Texter{s0}
	var out []string
	var walkStmt func(st ast.Stmt)
	walkBlock := func(b *ast.BlockStmt) {
		if b == nil {
			return
		}
		for _, st := range b.List {
			walkStmt(st)
		}
	}
	clause := func(cc ast.Stmt) {
		c := cc.(*ast.CaseClause)
		var es []string
		for _, e := range c.List {
			es = append(es, s.src(e))
		}
		if c.List == nil {
			out = append(out, "default:")
		} else {
			out = append(out, "case "+strings.Join(es, ", ")+":")
		}
		for _, b := range c.Body {
			walkStmt(b)
		}
	}
	walkStmt = func(st ast.Stmt) {
		switch x := st.(type) {
		case *ast.IfStmt:
			h := "if "
			if x.Init != nil {
				h += s.src(x.Init) + "; "
			}
			out = append(out, h+s.src(x.Cond)+" {")
			walkBlock(x.Body)
			if x.Else != nil {
				out = append(out, "} else {")
				switch el := x.Else.(type) {
				case *ast.BlockStmt:
					walkBlock(el)
				default:
					walkStmt(el)
				}
			}
			out = append(out, "}")
		case *ast.ForStmt:
			h := "for "
			if x.Init != nil {
				h += s.src(x.Init) + "; "
			}
			if x.Cond != nil {
				h += s.src(x.Cond)
			}
			if x.Post != nil {
				h += "; " + s.src(x.Post)
			}
			out = append(out, h+" {")
			walkBlock(x.Body)
			out = append(out, "}")
		case *ast.RangeStmt:
			k, v := "_", "_"
			if x.Key != nil {
				k = s.src(x.Key)
			}
			if x.Value != nil {
				v = s.src(x.Value)
			}
			out = append(out, "range "+k+", "+v+" := "+s.src(x.X)+" {")
			walkBlock(x.Body)
			out = append(out, "}")
		case *ast.SwitchStmt:
			tag := ""
			if x.Tag != nil {
				tag = s.src(x.Tag)
			}
			out = append(out, "switch "+tag+" {")
			for _, cc := range x.Body.List {
				clause(cc)
			}
			out = append(out, "}")
		case *ast.TypeSwitchStmt:
			out = append(out, "typeswitch "+s.src(x.Assign)+" {")
			for _, cc := range x.Body.List {
				clause(cc)
			}
			out = append(out, "}")
		case *ast.BlockStmt:
			walkBlock(x)
		default:
			out = append(out, s.src(st))
		}
	}
	walkBlock(fd.Body)
	return out
}

// c20Texter: source text of a node, literal-preserving in exact mode
type c20Texter struct{ s *source }

func (t c20Texter) src(n ast.Node) string {
	if c20ExactMode {
		return c20Exact(t.s, n)
	}
	return t.s.src(n)
}

func (e *emitter) c20FullDef(s *source, rel, goName, lean string) {
	fd := s.findFunc(rel, goName)
	if fd == nil {
		e.errors = append(e.errors, "function "+goName+" not found in "+rel)
		e.stringList(lean, "MISSING: "+goName+" in "+rel, []string{"MISSING"})
		return
	}
	e.stringList(lean, "body of `"+goName+"` in "+rel, c20Full(s, fd))
}

// c20Accessors: the comment / position accessors of one ast node type, one block per method that exists.
var c20AccessorNames = []string{"HasHeadCommentGroup", "HasLeadingCommentGroup", "CommentGroup", "End", "Pos",
	"ContainsStruct", "IsAnonymous", "IsZeroString", "Equal", "Valid", "List", "Join"}

func (e *emitter) c20Accessors(s *source, rel, recv, lean string) {
	var out []string
	for _, m := range c20AccessorNames {
		fd := s.findFunc(rel, recv+"."+m)
		if fd == nil {
			continue
		}
		out = append(out, m+" {")
		out = append(out, c20Full(s, fd)...)
		out = append(out, "}")
	}
	if len(out) == 0 {
		e.errors = append(e.errors, "no accessor of "+recv+" found in "+rel)
	}
	e.stringList(lean, "comment / position accessors of `"+recv+"` in "+rel, out)
}


// ---------------------------------------------------------------- round 4: the scanner, token.go, format.File, AST.Format

// c20Exact prints a node with white space collapsed OUTSIDE string / rune literals only (s.src collapses it
// everywhere, so `"\n "` and `"\n  "` would be the same text).
func c20Exact(s *source, n ast.Node) string {
	var b strings.Builder
	printer.Fprint(&b, s.fset, n)
	in := []rune(b.String())
	var out []rune
	var q rune // open literal delimiter
	sp := false
	for i := 0; i < len(in); i++ {
		r := in[i]
		if q != 0 {
			out = append(out, r)
			if r == '\\' && q != '`' && i+1 < len(in) {
				i++
				out = append(out, in[i])
				continue
			}
			if r == q {
				q = 0
			}
			continue
		}
		if r == ' ' || r == '\t' || r == '\n' || r == '\r' {
			sp = true
			continue
		}
		if sp && len(out) > 0 {
			out = append(out, ' ')
		}
		sp = false
		if r == '"' || r == '`' || r == '\'' {
			q = r
		}
		out = append(out, r)
	}
	return string(out)
}

// c20Pred translates a rune predicate of the scanner (`return <bool expr over b>`, optionally preceded by
// `if <cond> { return true }` and by ifs without return, whose effect is not part of the value) into a Lean
// function `Nat -> Bool`. Subset: && || ! ( ) comparisons of the parameter with rune / int literals, calls of
// other predicates `s.isX(b)`.
func c20Pred(s *source, fd *ast.FuncDecl) (string, bool) {
	if fd.Type.Params == nil || len(fd.Type.Params.List) != 1 || len(fd.Type.Params.List[0].Names) != 1 {
		return "", false
	}
	param := fd.Type.Params.List[0].Names[0].Name
	ok := true
	var tr func(e ast.Expr) string
	lit := func(e ast.Expr) (string, bool) {
		bl, isLit := e.(*ast.BasicLit)
		if !isLit {
			return "", false
		}
		switch bl.Kind {
		case token.CHAR:
			r, _, _, err := strconv.UnquoteChar(bl.Value[1:len(bl.Value)-1], '\'')
			if err != nil {
				return "", false
			}
			return strconv.Itoa(int(r)), true
		case token.INT:
			return bl.Value, true
		}
		return "", false
	}
	tr = func(e ast.Expr) string {
		switch x := e.(type) {
		case *ast.ParenExpr:
			return "(" + tr(x.X) + ")"
		case *ast.UnaryExpr:
			if x.Op == token.NOT {
				return "(!" + tr(x.X) + ")"
			}
		case *ast.BinaryExpr:
			switch x.Op {
			case token.LAND:
				return "(" + tr(x.X) + " && " + tr(x.Y) + ")"
			case token.LOR:
				return "(" + tr(x.X) + " || " + tr(x.Y) + ")"
			case token.GEQ, token.LEQ, token.EQL, token.NEQ, token.LSS, token.GTR:
				id, isID := x.X.(*ast.Ident)
				v, isLit := lit(x.Y)
				if isID && id.Name == param && isLit {
					op := map[token.Token]string{token.GEQ: "≥", token.LEQ: "≤", token.EQL: "=", token.NEQ: "≠", token.LSS: "<", token.GTR: ">"}[x.Op]
					return "decide (" + param + " " + op + " " + v + ")"
				}
			}
		case *ast.CallExpr:
			if sel, isSel := x.Fun.(*ast.SelectorExpr); isSel && len(x.Args) == 1 {
				if id, isID := x.Args[0].(*ast.Ident); isID && id.Name == param {
					return "sc_" + sel.Sel.Name + " " + param
				}
			}
		}
		ok = false
		return "false"
	}
	var ors []string
	for i, st := range fd.Body.List {
		switch x := st.(type) {
		case *ast.IfStmt:
			if len(x.Body.List) == 1 {
				if r, isRet := x.Body.List[0].(*ast.ReturnStmt); isRet {
					if len(r.Results) == 1 && s.src(r.Results[0]) == "true" && x.Else == nil {
						ors = append(ors, tr(x.Cond))
						continue
					}
					return "", false
				}
			}
			// an if without return: no influence on the value (pinned by the full statement list)
			hasRet := false
			ast.Inspect(x, func(n ast.Node) bool {
				if _, isRet := n.(*ast.ReturnStmt); isRet {
					hasRet = true
				}
				return true
			})
			if hasRet {
				return "", false
			}
		case *ast.ReturnStmt:
			if i != len(fd.Body.List)-1 || len(x.Results) != 1 {
				return "", false
			}
			ors = append(ors, tr(x.Results[0]))
		default:
			return "", false
		}
	}
	if !ok || len(ors) == 0 {
		return "", false
	}
	return "fun " + param + " => " + strings.Join(ors, " || "), true
}

func (e *emitter) c20PredDef(s *source, rel, goName, lean string) {
	fd := s.findFunc(rel, goName)
	if fd != nil {
		if body, ok := c20Pred(s, fd); ok {
			e.printf("/-- `%s` in %s, translated -/\ndef %s : Nat → Bool := %s\n\n", goName, rel, lean, body)
			return
		}
	}
	e.errors = append(e.errors, "predicate "+goName+" in "+rel+" is outside the translated subset")
	e.printf("def %s : Nat → Bool := fun _ => false\n\n", lean)
}

// c20RuneCases: for a `switch s.ch` in the function, the rune cases (as numbers) whose body is `return <call>`
// with the given callee / token type; emitted as (rune, what) pairs.
func c20RuneCases(s *source, fd *ast.FuncDecl, what func(body []ast.Stmt) (string, bool)) ([][2]string, bool) {
	var out [][2]string
	found := false
	ast.Inspect(fd.Body, func(n ast.Node) bool {
		sw, ok := n.(*ast.SwitchStmt)
		if !ok || found || sw.Tag == nil || s.src(sw.Tag) != "s.ch" {
			return true
		}
		found = true
		for _, cc := range sw.Body.List {
			c := cc.(*ast.CaseClause)
			w, ok := what(c.Body)
			if !ok {
				continue
			}
			for _, ce := range c.List {
				bl, isLit := ce.(*ast.BasicLit)
				if !isLit {
					continue
				}
				v := bl.Value
				if bl.Kind == token.CHAR {
					r, _, _, err := strconv.UnquoteChar(v[1:len(v)-1], '\'')
					if err != nil {
						continue
					}
					v = strconv.Itoa(int(r))
				}
				out = append(out, [2]string{v, w})
			}
		}
		return false
	})
	return out, found
}

func (e *emitter) c20PairList(lean, doc string, ps [][2]string) {
	e.printf("/-- %s -/\ndef %s : List (Nat × String) := [", doc, lean)
	for i, p := range ps {
		if i > 0 {
			e.printf(", ")
		}
		e.printf("(%s, %s)", p[0], strconv.Quote(p[1]))
	}
	e.printf("]\n\n")
}

// ---- the duration family, statement by statement, as Lean functions List Char -> Bool × List Char
// (true = DURATION, the runes not yet read; false = ILLEGAL at the head of the returned list)

type c20Dur struct {
	s  *source
	ok bool
}

func (d *c20Dur) cond(e ast.Expr) string {
	switch x := e.(type) {
	case *ast.BinaryExpr:
		if x.Op == token.LOR {
			return "(" + d.cond(x.X) + " || " + d.cond(x.Y) + ")"
		}
		if (x.Op == token.NEQ || x.Op == token.EQL) && d.s.src(x.X) == "s.ch" {
			if bl, ok := x.Y.(*ast.BasicLit); ok {
				v := bl.Value
				if bl.Kind == token.CHAR {
					r, _, _, err := strconv.UnquoteChar(v[1:len(v)-1], '\'')
					if err == nil {
						v = strconv.Itoa(int(r))
					}
				}
				if x.Op == token.NEQ {
					return "((sc_cur cs).toNat != " + v + ")"
				}
				return "((sc_cur cs).toNat == " + v + ")"
			}
		}
	case *ast.UnaryExpr:
		if x.Op == token.NOT && d.s.src(x.X) == "s.isDigit(s.ch)" {
			return "(!sc_isDigit (sc_cur cs).toNat)"
		}
	}
	d.ok = false
	return "false"
}

func (d *c20Dur) ret(r *ast.ReturnStmt) string {
	if len(r.Results) != 1 {
		d.ok = false
		return "(false, cs)"
	}
	txt := d.s.src(r.Results[0])
	switch {
	case txt == "s.illegalToken()":
		return "(false, cs)"
	case strings.HasPrefix(txt, "token.Token{ Type: token.DURATION,") || strings.HasPrefix(txt, "token.Token{Type: token.DURATION,"):
		return "(true, cs)"
	case strings.HasPrefix(txt, "s.scan") && strings.HasSuffix(txt, "(bgPos)"):
		return "sc_" + strings.TrimSuffix(strings.TrimPrefix(txt, "s."), "(bgPos)") + " cs"
	}
	d.ok = false
	return "(false, cs)"
}

// block translates a statement list; every path must end in a return.
func (d *c20Dur) block(list []ast.Stmt) string {
	if len(list) == 0 {
		d.ok = false
		return "(false, cs)"
	}
	st, rest := list[0], list[1:]
	switch x := st.(type) {
	case *ast.ExprStmt:
		if d.s.src(x.X) == "s.readRune()" {
			return "let cs := cs.tail; " + d.block(rest)
		}
	case *ast.ForStmt:
		if x.Init == nil && x.Post == nil && x.Cond != nil && d.s.src(x.Cond) == "s.isDigit(s.ch)" &&
			len(x.Body.List) == 1 && d.s.src(x.Body.List[0]) == "s.readRune()" {
			return "let cs := cs.dropWhile (fun c => sc_isDigit c.toNat); " + d.block(rest)
		}
	case *ast.IfStmt:
		if x.Init == nil && x.Else == nil {
			return "if " + d.cond(x.Cond) + " then (" + d.block(x.Body.List) + ") else (" + d.block(rest) + ")"
		}
	case *ast.ReturnStmt:
		if len(rest) == 0 {
			return d.ret(x)
		}
	case *ast.SwitchStmt:
		if x.Tag != nil && d.s.src(x.Tag) == "s.ch" && len(rest) == 0 {
			dflt := ""
			var arms []string
			for _, cc := range x.Body.List {
				c := cc.(*ast.CaseClause)
				if c.List == nil {
					dflt = d.block(c.Body)
					continue
				}
				var cs []string
				for _, ce := range c.List {
					bl, ok := ce.(*ast.BasicLit)
					if !ok || bl.Kind != token.CHAR {
						d.ok = false
						continue
					}
					r, _, _, _ := strconv.UnquoteChar(bl.Value[1:len(bl.Value)-1], '\'')
					cs = append(cs, "(sc_cur cs).toNat == "+strconv.Itoa(int(r)))
				}
				arms = append(arms, "if "+strings.Join(cs, " || ")+" then ("+d.block(c.Body)+") else ")
			}
			if dflt == "" {
				d.ok = false
			}
			return strings.Join(arms, "") + "(" + dflt + ")"
		}
	}
	d.ok = false
	return "(false, cs)"
}

func (e *emitter) c20DurDef(s *source, rel, goName string) {
	lean := "sc_" + strings.TrimPrefix(goName, "Scanner.")
	fd := s.findFunc(rel, goName)
	if fd != nil {
		d := &c20Dur{s: s, ok: true}
		body := d.block(fd.Body.List)
		if d.ok {
			e.printf("/-- `%s` in %s, translated statement by statement -/\ndef %s (cs : List Char) : Bool × List Char :=\n  %s\n\n", goName, rel, lean, body)
			return
		}
	}
	e.errors = append(e.errors, "function "+goName+" in "+rel+" is outside the translated subset")
	e.printf("def %s (cs : List Char) : Bool × List Char := (false, cs)\n\n", lean)
}

func c20Round4(s *source, e *emitter) {
	sc := c20Dir + "scanner/scanner.go"
	for _, p := range []string{"isDigit", "isLetter", "isIdentifierLetter", "isWhiteSpace"} {
		e.c20PredDef(s, sc, "Scanner."+p, "sc_"+p)
	}
	if fd := s.findFunc(sc, "Scanner.scanIntOrDuration"); fd != nil {
		ps, ok := c20RuneCases(s, fd, func(b []ast.Stmt) (string, bool) {
			if len(b) == 1 && s.src(b[0]) == "return s.scanDuration(position)" {
				return "scanDuration", true
			}
			return "", false
		})
		if !ok {
			e.errors = append(e.errors, "switch s.ch of scanIntOrDuration not found")
		}
		e.c20PairList("sc_durStart", "runes that scanIntOrDuration hands to scanDuration", ps)
	} else {
		e.errors = append(e.errors, "Scanner.scanIntOrDuration not found")
		e.c20PairList("sc_durStart", "MISSING", nil)
	}
	if fd := s.findFunc(sc, "Scanner.NextToken"); fd != nil {
		ps, ok := c20RuneCases(s, fd, func(b []ast.Stmt) (string, bool) {
			if len(b) == 1 {
				t := s.src(b[0])
				if strings.HasPrefix(t, "return s.newToken(token.") && strings.HasSuffix(t, "), nil") {
					return strings.TrimSuffix(strings.TrimPrefix(t, "return s.newToken(token."), "), nil"), true
				}
			}
			return "", false
		})
		if !ok {
			e.errors = append(e.errors, "switch s.ch of NextToken not found")
		}
		e.c20PairList("sc_single", "NextToken: rune -> single-rune token (newToken)", ps)
	} else {
		e.errors = append(e.errors, "Scanner.NextToken not found")
		e.c20PairList("sc_single", "MISSING", nil)
	}
	e.printf("/-- `s.ch`: the head of the runes not yet read, 0 behind the last one -/\ndef sc_cur (cs : List Char) : Char := match cs with | [] => Char.ofNat 0 | c :: _ => c\n\n")
	for _, fn := range []string{"scanNanosecond", "scanMicrosecond", "scanMillisecond", "scanSecond", "scanMinute",
		"scanMillisecondOrMinute", "scanHour", "scanDuration"} {
		e.c20DurDef(s, sc, "Scanner."+fn)
	}
	for _, fn := range []string{"NextToken", "newToken", "readRune", "peekRune", "scanString", "scanAt", "scanIntOrDuration",
		"illegalToken", "scanIdent", "scanLetterSet", "newPosition", "positionAt", "lineCount"} {
		e.c20ExactDef(s, sc, "Scanner."+fn, "x_Scanner_"+fn)
	}
	e.c20ExactDef(s, sc, "NewScanner", "x_NewScanner")
	tk := c20Dir + "token/token.go"
	for _, fn := range []string{"Token.Is", "Token.IsType", "Token.Line", "Token.Fork", "Token.Valid", "Token.IsComment", "Token.IsDocument"} {
		e.c20ExactDef(s, tk, fn, "x_"+strings.ReplaceAll(fn, ".", "_"))
	}
	e.c20ExactDef(s, tk, "LookupKeyword", "x_LookupKeyword")
	e.c20ExactDef(s, tk, "NewIllegalToken", "x_NewIllegalToken")
	e.c20ExactDef(s, c20Dir+"format/format.go", "File", "x_fmt_File")
	e.c20ExactDef(s, c20Dir+"ast/ast.go", "AST.Format", "x_AST_Format")
	e.c20ExactDef(s, c20Dir+"ast/ast.go", "peekOne", "x_peekOne")
	e.c20ExactDef(s, c20Dir+"ast/writer.go", "Writer.write", "x_Writer_write")
	e.c20ExactDef(s, c20Dir+"ast/writer.go", "Writer.WriteText", "x_Writer_WriteText")
	e.c20ExactDef(s, c20Dir+"ast/writer.go", "Writer.Flush", "x_Writer_Flush")
	e.c20ExactDef(s, c20Dir+"ast/writer.go", "withNode", "x_withNode")
	for _, fn := range []string{"Parser.Parse", "Parser.CheckErrors", "Parser.curTokenIsKeyword", "Parser.peekTokenIs", "Parser.expectPeekToken", "New",
		"Parser.curTokenIs", "Parser.curTokenIsNot", "Parser.curTokenIsNotEof", "Parser.peekTokenIsNot", "Parser.advanceIfPeekTokenIs",
		"Parser.notExpectPeekToken", "Parser.notExpectPeekTokenGotComment", "Parser.expectIdentError", "isNil", "Parser.appendStmt", "Parser.hasNoErrors"} {
		e.c20ExactDef(s, c20Dir+"parser/parser.go", fn, "x_"+strings.ReplaceAll(fn, ".", "_"))
	}
}


// ---------------------------------------------------------------- round 5
//
// AST.Format: the two bounds conditions of the look-ahead behind an import literal, TRANSLATED to Lean functions over
// Int (next, len(a.Stmts), idx); the decision table of its `switch e.(type)`; the calls of the delegating entry points
// format.File / format.Source with their forwarded argument lists and what happens to the error of each.

// c20IntExpr translates an integer expression over the identifiers in vars, `len(a.Stmts)` (as "len") and integer
// literals with + and -.
func c20IntExpr(s *source, e ast.Expr, vars map[string]bool) (string, bool) {
	switch x := e.(type) {
	case *ast.ParenExpr:
		t, ok := c20IntExpr(s, x.X, vars)
		return "(" + t + ")", ok
	case *ast.Ident:
		if vars[x.Name] {
			return x.Name, true
		}
	case *ast.BasicLit:
		if x.Kind == token.INT {
			return "(" + x.Value + " : Int)", true
		}
	case *ast.CallExpr:
		if id, ok := x.Fun.(*ast.Ident); ok && id.Name == "len" && len(x.Args) == 1 && s.src(x.Args[0]) == "a.Stmts" {
			return "len", true
		}
	case *ast.BinaryExpr:
		if x.Op == token.ADD || x.Op == token.SUB {
			l, ok1 := c20IntExpr(s, x.X, vars)
			r, ok2 := c20IntExpr(s, x.Y, vars)
			return "(" + l + " " + x.Op.String() + " " + r + ")", ok1 && ok2
		}
	}
	return "0", false
}

// c20IntCond translates a comparison / && / || / ! of integer expressions.
func c20IntCond(s *source, e ast.Expr, vars map[string]bool) (string, bool) {
	switch x := e.(type) {
	case *ast.ParenExpr:
		t, ok := c20IntCond(s, x.X, vars)
		return "(" + t + ")", ok
	case *ast.UnaryExpr:
		if x.Op == token.NOT {
			t, ok := c20IntCond(s, x.X, vars)
			return "(!" + t + ")", ok
		}
	case *ast.BinaryExpr:
		switch x.Op {
		case token.LAND, token.LOR:
			l, ok1 := c20IntCond(s, x.X, vars)
			r, ok2 := c20IntCond(s, x.Y, vars)
			return "(" + l + " " + x.Op.String() + " " + r + ")", ok1 && ok2
		case token.GEQ, token.LEQ, token.EQL, token.NEQ, token.LSS, token.GTR:
			op := map[token.Token]string{token.GEQ: "≥", token.LEQ: "≤", token.EQL: "=", token.NEQ: "≠", token.LSS: "<", token.GTR: ">"}[x.Op]
			l, ok1 := c20IntExpr(s, x.X, vars)
			r, ok2 := c20IntExpr(s, x.Y, vars)
			return "decide (" + l + " " + op + " " + r + ")", ok1 && ok2
		}
	}
	return "false", false
}

// c20AstFormat: the range loop of AST.Format.
func c20AstFormat(s *source, e *emitter) {
	rel := c20Dir + "ast/ast.go"
	fail := func(msg string) {
		e.errors = append(e.errors, "AST.Format: "+msg)
		e.printf("def af_loopGuard (next len idx : Int) : Bool := false\n\ndef af_lookGuard (next len idx : Int) : Bool := false\n\n")
		e.printf("def af_lookTarget : String := \"MISSING\"\n\ndef af_loopRest : String := \"MISSING\"\n\ndef af_nextInit : String := \"MISSING\"\n\n")
		e.printf("def af_cases : List (String × String) := []\n\ndef af_prologue : List String := []\n\n")
	}
	fd := s.findFunc(rel, "AST.Format")
	if fd == nil {
		fail("not found")
		return
	}
	var rng *ast.RangeStmt
	for _, st := range fd.Body.List {
		if r, ok := st.(*ast.RangeStmt); ok && s.src(r.X) == "a.Stmts" {
			rng = r
		}
	}
	if rng == nil || rng.Key == nil || s.src(rng.Key) != "idx" {
		fail("`for idx, e := range a.Stmts` not found")
		return
	}
	var sw *ast.TypeSwitchStmt
	var prologue []string
	for _, st := range rng.Body.List {
		if t, ok := st.(*ast.TypeSwitchStmt); ok {
			sw = t
			continue
		}
		if sw != nil {
			prologue = append(prologue, "AFTER-SWITCH "+c20Exact(s, st))
			continue
		}
		prologue = append(prologue, c20Exact(s, st))
	}
	if sw == nil {
		fail("type switch not found")
		return
	}
	vars := map[string]bool{"next": true, "idx": true}
	var cases [][2]string
	loopG, lookG, target, rest, nextInit := "", "", "", "", ""
	ok := true
	for _, c := range sw.Body.List {
		cc := c.(*ast.CaseClause)
		var names []string
		for _, t := range cc.List {
			names = append(names, strings.TrimPrefix(s.src(t), "*"))
		}
		if len(names) == 0 {
			names = []string{"default"}
		}
		what := ""
		nl := 0
		plain := true
		for _, st := range cc.Body {
			if s.src(st) == "fw.NewLine()" {
				nl++
			} else {
				plain = false
			}
		}
		if plain {
			what = strconv.Itoa(nl)
		} else {
			// the look-ahead: next := <init>; for <guard> && a.Stmts[next].Format() == NilIndent { next++ };
			// if <guard> { _, ok := a.Stmts[next].(*T); if !ok { fw.NewLine() } }
			what = "look"
			if len(cc.Body) != 3 {
				ok = false
				continue
			}
			as, ok1 := cc.Body[0].(*ast.AssignStmt)
			fr, ok2 := cc.Body[1].(*ast.ForStmt)
			is, ok3 := cc.Body[2].(*ast.IfStmt)
			if !ok1 || !ok2 || !ok3 || fr.Init != nil || fr.Post != nil || is.Else != nil || is.Init != nil {
				ok = false
				continue
			}
			if len(as.Lhs) == 1 && s.src(as.Lhs[0]) == "next" && len(as.Rhs) == 1 {
				t, okx := c20IntExpr(s, as.Rhs[0], vars)
				nextInit = t
				ok = ok && okx
			} else {
				ok = false
			}
			be, isB := fr.Cond.(*ast.BinaryExpr)
			if !isB || be.Op != token.LAND {
				ok = false
				continue
			}
			g, okg := c20IntCond(s, be.X, vars)
			loopG = g
			ok = ok && okg
			rest = c20Exact(s, be.Y) + " { " + c20Exact(s, fr.Body) + " }"
			g2, okg2 := c20IntCond(s, is.Cond, vars)
			lookG = g2
			ok = ok && okg2
			target = c20Exact(s, is.Body)
		}
		for _, n := range names {
			cases = append(cases, [2]string{n, what})
		}
	}
	if !ok || loopG == "" || lookG == "" {
		fail("the look-ahead of the ImportLiteralStmt case is outside the translated subset")
		return
	}
	e.printf("/-- AST.Format, look-ahead behind an import literal: the bounds condition of the `for` (left operand of &&), translated -/\n")
	e.printf("def af_loopGuard (next len idx : Int) : Bool := %s\n\n", loopG)
	e.printf("/-- AST.Format: the bounds condition of the `if` in front of `a.Stmts[next]`, translated -/\n")
	e.printf("def af_lookGuard (next len idx : Int) : Bool := %s\n\n", lookG)
	e.printf("/-- AST.Format: `next := …`, translated -/\ndef af_nextInit (idx : Int) : Int := %s\n\n", nextInit)
	e.printf("/-- AST.Format: right operand of the `for` condition and the loop body -/\ndef af_loopRest : String := %s\n\n", leanString(rest))
	e.printf("/-- AST.Format: what is done with a.Stmts[next] -/\ndef af_lookTarget : String := %s\n\n", leanString(target))
	e.printf("/-- AST.Format: `switch e.(type)`: dynamic type -> number of fw.NewLine() calls, or `look` -/\ndef af_cases : List (String × String) := [")
	for i, c := range cases {
		if i > 0 {
			e.printf(", ")
		}
		e.printf("(%s, %s)", leanString(c[0]), leanString(c[1]))
	}
	e.printf("]\n\n")
	e.stringList("af_prologue", "AST.Format: the statements of the loop body around the type switch", prologue)
}

// c20Calls: the calls of a delegating function in source order, each with its forwarded argument list and with what
// the function does with the call's error: `return-err` (if err != nil { return err }), `returned` (the call is the
// operand of the return statement), `ignored`.
func c20Calls(s *source, e *emitter, rel, goName, lean string, keep func(name string) bool) {
	fd := s.findFunc(rel, goName)
	type call struct {
		name string
		args []string
		err  string
	}
	var calls []call
	if fd == nil {
		e.errors = append(e.errors, "function "+goName+" not found in "+rel)
	} else {
		var visitExpr func(n ast.Node, err string)
		visitExpr = func(n ast.Node, err string) {
			ast.Inspect(n, func(x ast.Node) bool {
				c, ok := x.(*ast.CallExpr)
				if !ok {
					return true
				}
				name := s.src(c.Fun)
				if !keep(name) {
					return true
				}
				var args []string
				for _, a := range c.Args {
					args = append(args, c20Exact(s, a))
				}
				calls = append(calls, call{name, args, err})
				return true
			})
		}
		retErr := func(st ast.Stmt) bool {
			is, ok := st.(*ast.IfStmt)
			return ok && s.src(is.Cond) == "err != nil" && len(is.Body.List) == 1 && s.src(is.Body.List[0]) == "return err"
		}
		list := fd.Body.List
		for i, st := range list {
			switch x := st.(type) {
			case *ast.IfStmt:
				if x.Init != nil && s.src(x.Cond) == "err != nil" && len(x.Body.List) == 1 && s.src(x.Body.List[0]) == "return err" {
					visitExpr(x.Init, "return-err")
					continue
				}
				if retErr(st) {
					continue
				}
				visitExpr(st, "ignored")
			case *ast.ReturnStmt:
				visitExpr(st, "returned")
			default:
				err := "ignored"
				if as, ok := st.(*ast.AssignStmt); ok && len(as.Lhs) > 0 && s.src(as.Lhs[len(as.Lhs)-1]) == "err" && i+1 < len(list) && retErr(list[i+1]) {
					err = "return-err"
				}
				visitExpr(st, err)
			}
		}
	}
	e.printf("/-- calls of `%s` in %s: (callee, forwarded arguments, what happens to its error) -/\ndef %s : List (String × List String × String) := [", goName, rel, lean)
	for i, c := range calls {
		if i > 0 {
			e.printf(",")
		}
		e.printf("\n  (%s, [", leanString(c.name))
		for j, a := range c.args {
			if j > 0 {
				e.printf(", ")
			}
			e.printf("%s", leanString(a))
		}
		e.printf("], %s)", leanString(c.err))
	}
	e.printf("]\n\n")
}

func c20Round5(s *source, e *emitter) {
	c20AstFormat(s, e)
	all := func(string) bool { return true }
	c20Calls(s, e, c20Dir+"format/format.go", "File", "calls_File", all)
	c20Calls(s, e, c20Dir+"format/format.go", "Source", "calls_Source", all)
}


// ---------------------------------------------------------------- round 5e: package-level tables stay constant
//
// The model treats token.HttpMethods / token.keywords as constants. Two facts make that true for the code, both extracted
// as typed lists over ALL functions of the given files:
//   spreadSites: call sites that pass a package-level slice of ANOTHER package with `...` (the callee receives the
//                table itself, not a copy), with the name of the enclosing function;
//   paramWrites: writes through a slice / variadic parameter or a local alias of one (x := p[a:b], x := p):
//                p[i] = v, append(p…, …) (may write in place), copy(p, …), sort.*(p…).
// While paramWrites is empty, no callee can change a table that a spread site hands to it.

func c20SliceParams(fd *ast.FuncDecl) map[string]bool {
	al := map[string]bool{}
	if fd.Type.Params == nil {
		return al
	}
	for _, f := range fd.Type.Params.List {
		_, isEll := f.Type.(*ast.Ellipsis)
		at, isArr := f.Type.(*ast.ArrayType)
		if isEll || (isArr && at.Len == nil) {
			for _, n := range f.Names {
				al[n.Name] = true
			}
		}
	}
	return al
}

func c20AliasBase(e ast.Expr, al map[string]bool) (string, bool) {
	switch x := e.(type) {
	case *ast.Ident:
		return x.Name, al[x.Name]
	case *ast.SliceExpr:
		return c20AliasBase(x.X, al)
	case *ast.ParenExpr:
		return c20AliasBase(x.X, al)
	}
	return "", false
}

func c20TableFacts(s *source, e *emitter, rels []string) {
	var spreads, writes [][2]string
	for _, rel := range rels {
		f := s.file(rel)
		if f == nil {
			e.errors = append(e.errors, "file "+rel+" not found")
			continue
		}
		pkgs := map[string]bool{}
		for _, im := range f.Imports {
			pth := strings.Trim(im.Path.Value, "\"")
			base := pth[strings.LastIndex(pth, "/")+1:]
			if im.Name != nil {
				base = im.Name.Name
			}
			pkgs[base] = true
		}
		for _, d := range f.Decls {
			fd, ok := d.(*ast.FuncDecl)
			if !ok || fd.Body == nil {
				continue
			}
			name := fd.Name.Name
			if r := recvTypeName(fd); r != "" {
				name = r + "." + name
			}
			al := c20SliceParams(fd)
			ast.Inspect(fd.Body, func(n ast.Node) bool {
				switch x := n.(type) {
				case *ast.AssignStmt:
					// aliases: y := p / p[a:b]
					if len(x.Lhs) == len(x.Rhs) {
						for i, r := range x.Rhs {
							if _, isAl := c20AliasBase(r, al); isAl {
								if id, isID := x.Lhs[i].(*ast.Ident); isID {
									al[id.Name] = true
								}
							}
						}
					}
					for _, l := range x.Lhs {
						if ix, isIx := l.(*ast.IndexExpr); isIx {
							if _, isAl := c20AliasBase(ix.X, al); isAl {
								writes = append(writes, [2]string{name, c20Exact(s, x)})
							}
						}
					}
				case *ast.CallExpr:
					fn := s.src(x.Fun)
					if x.Ellipsis.IsValid() && len(x.Args) > 0 {
						if sel, isSel := x.Args[len(x.Args)-1].(*ast.SelectorExpr); isSel {
							if pk, isID := sel.X.(*ast.Ident); isID && pkgs[pk.Name] {
								spreads = append(spreads, [2]string{name, c20Exact(s, x)})
							}
						}
					}
					if (fn == "append" || fn == "copy" || strings.HasPrefix(fn, "sort.") || strings.HasPrefix(fn, "slices.Sort") || fn == "slices.Reverse") && len(x.Args) > 0 {
						if _, isAl := c20AliasBase(x.Args[0], al); isAl {
							writes = append(writes, [2]string{name, c20Exact(s, x)})
						}
					}
				}
				return true
			})
		}
	}
	emit := func(lean, doc string, ps [][2]string) {
		e.printf("/-- %s -/\ndef %s : List (String × String) := [", doc, lean)
		for i, p := range ps {
			if i > 0 {
				e.printf(",")
			}
			e.printf("\n  (%s, %s)", leanString(p[0]), leanString(p[1]))
		}
		e.printf("]\n\n")
	}
	emit("spreadSites", "call sites that hand a package-level slice of another package to a variadic callee (enclosing function, call)", spreads)
	emit("paramWrites", "writes through a slice / variadic parameter or a local alias of one (function, statement)", writes)
}

// c20FullExact is c20Full with literal-preserving source text.
func (e *emitter) c20ExactDef(s *source, rel, goName, lean string) {
	fd := s.findFunc(rel, goName)
	if fd == nil {
		e.errors = append(e.errors, "function "+goName+" not found in "+rel)
		e.stringList(lean, "MISSING: "+goName+" in "+rel, []string{"MISSING"})
		return
	}
	c20ExactMode = true
	items := c20Full(s, fd)
	c20ExactMode = false
	e.stringList(lean, "body of `"+goName+"` in "+rel+" (literals verbatim)", items)
}

var c20ExactMode bool

func init() {
	register("C20", func(s *source, e *emitter) {
		tok := c20Dir + "token/token.go"
		prs := c20Dir + "parser/parser.go"
		for _, c := range []string{"Syntax", "Info", "Service", "Returns", "Any", "TypeKeyword", "MapKeyword", "ImportKeyword"} {
			e.constDef(s, tok, c, "tok"+c)
		}
		e.constDef(s, prs, "idAPI", "idAPI")
		for _, c := range []string{"NilIndent", "WhiteSpace", "Indent", "NewLine"} {
			e.constDef(s, c20Dir+"ast/writer.go", c, "w"+c)
		}
		if ks, ok := c20MapKeys(s, tok, "keywords"); ok {
			sort.Strings(ks)
			e.stringList("keywords", "keys of token.keywords (sorted)", ks)
		} else {
			e.errors = append(e.errors, "token.keywords not found")
			e.stringList("keywords", "MISSING", nil)
		}
		if ks, ok := c20MapKeys(s, tok, "HttpMethods"); ok {
			e.stringList("httpMethods", "token.HttpMethods", ks)
		} else {
			e.errors = append(e.errors, "token.HttpMethods not found")
			e.stringList("httpMethods", "MISSING", nil)
		}
		if t, ok := c20ScannerTable(s, c20Dir+"scanner/scanner.go"); ok {
			e.stringList("scannerTable", "switch of Scanner.NextToken", t)
		} else {
			e.errors = append(e.errors, "Scanner.NextToken switch not found")
			e.stringList("scannerTable", "MISSING", nil)
		}
		for _, fn := range []string{"Parse", "parseStmt", "parseService", "parseServiceItemsStmt", "parseServiceItemStmt",
			"parseRouteStmt", "parseBodyStmt", "parseBodyExpr", "parsePathExpr", "parsePathItem", "parseServiceNameExpr",
			"parseAtDocStmt", "parseAtDocGroupStmt", "parseAtDocLiteralStmt", "parseAtHandlerStmt", "parseAtServerStmt",
			"parseTypeStmt", "parseTypeLiteralStmt", "parseTypeGroupStmt", "parseTypeExprList", "parseTypeExpr",
			"parseDataType", "parseStructDataType", "parseElemExprList", "parseElemExpr", "parseAnyDataType",
			"parsePointerDataType", "parseInterfaceDataType", "parseMapDataType", "parseArrayDataType", "parseSliceDataType",
			"parseImportStmt", "parseImportLiteralStmt", "parseImportGroupStmt", "parseInfoStmt",
			"parseAtServerKVExpression", "parseKVExpression", "parseSyntaxStmt", "nextToken"} {
			e.c20Skel(s, prs, "Parser."+fn, "p_"+fn, c20ParserCall)
		}
		type fm struct{ file, recv string }
		fms := []fm{
			{"ast/ast.go", "AST"}, {"ast/ast.go", "TokenNode"},
			{"ast/syntaxstatement.go", "SyntaxStmt"}, {"ast/infostatement.go", "InfoStmt"},
			{"ast/importstatement.go", "ImportLiteralStmt"}, {"ast/importstatement.go", "ImportGroupStmt"},
			{"ast/kvexpression.go", "KVExpr"},
			{"ast/typestatement.go", "TypeLiteralStmt"}, {"ast/typestatement.go", "TypeGroupStmt"},
			{"ast/typestatement.go", "TypeExpr"}, {"ast/typestatement.go", "ElemExpr"},
			{"ast/typestatement.go", "ArrayDataType"}, {"ast/typestatement.go", "MapDataType"},
			{"ast/typestatement.go", "PointerDataType"}, {"ast/typestatement.go", "SliceDataType"},
			{"ast/typestatement.go", "StructDataType"},
			{"ast/servicestatement.go", "AtServerStmt"}, {"ast/servicestatement.go", "AtDocLiteralStmt"},
			{"ast/servicestatement.go", "AtDocGroupStmt"}, {"ast/servicestatement.go", "ServiceStmt"},
			{"ast/servicestatement.go", "ServiceNameExpr"}, {"ast/servicestatement.go", "AtHandlerStmt"},
			{"ast/servicestatement.go", "ServiceItemStmt"}, {"ast/servicestatement.go", "RouteStmt"},
			{"ast/servicestatement.go", "PathExpr"}, {"ast/servicestatement.go", "BodyStmt"},
			{"ast/servicestatement.go", "BodyExpr"},
		}
		for _, f := range fms {
			e.c20Skel(s, c20Dir+f.file, f.recv+".Format", "f_"+f.recv, c20FormatCall)
		}
		// every method of every node type that Writer.write consults (HasHeadCommentGroup, HasLeadingCommentGroup,
		// Pos, End; Format is tied above), and what they delegate to
		for _, f := range append([]fm{{"ast/comment.go", "CommentStmt"}, {"ast/comment.go", "CommentGroup"},
			{"ast/typestatement.go", "AnyDataType"}, {"ast/typestatement.go", "BaseDataType"},
			{"ast/typestatement.go", "InterfaceDataType"}}, fms...) {
			if f.recv == "AST" {
				continue
			}
			e.c20Accessors(s, c20Dir+f.file, f.recv, "acc_"+f.recv)
		}
		for _, fn := range []string{"AnyDataType.Format", "BaseDataType.Format", "InterfaceDataType.Format", "CommentStmt.Format", "TokenNode.Format"} {
			file := "ast/typestatement.go"
			switch fn {
			case "CommentStmt.Format":
				file = "ast/comment.go"
			case "TokenNode.Format":
				file = "ast/ast.go"
			}
			e.c20FullDef(s, c20Dir+file, fn, "full_"+strings.ReplaceAll(fn, ".", "_"))
		}
		for _, fn := range []string{"transfer2TokenNode", "transferNilInfixNode", "transferTokenNode", "Writer.write", "Writer.Write",
			"Writer.NewLine", "ignoreHeadComment", "ignoreLeadingComment", "ignoreComment", "withTokenNodePrefix",
			"expectSameLine", "expectIndentInfix", "NewWriter", "NewBufferWriter"} {
			e.c20FullDef(s, c20Dir+"ast/writer.go", fn, "full_"+strings.ReplaceAll(fn, ".", "_"))
		}
		for _, fn := range []string{"Parser.nextToken", "Parser.curTokenNode", "Parser.getNode", "Parser.init"} {
			e.c20FullDef(s, prs, fn, "full_"+strings.ReplaceAll(fn, ".", "_"))
		}
		for _, fn := range []string{"Scanner.scanLineComment", "Scanner.scanDocument", "Scanner.skipWhiteSpace", "Scanner.isWhiteSpace"} {
			e.c20FullDef(s, c20Dir+"scanner/scanner.go", fn, "full_"+strings.ReplaceAll(fn, ".", "_"))
		}
		e.c20FullDef(s, c20Dir+"format/format.go", "Source", "full_fmt_Source")
		e.c20Skel(s, c20Dir+"ast/writer.go", "Writer.write", "w_write", c20FormatCall)
		e.c20Skel(s, c20Dir+"ast/writer.go", "Writer.WriteText", "w_WriteText", c20FormatCall)
		e.c20Skel(s, c20Dir+"format/format.go", "Source", "fmt_Source", func(n string) bool {
			return n == "New" || n == "Parse" || n == "CheckErrors" || n == "Format"
		})
		c20Round4(s, e)
		c20Round5(s, e)
		c20TableFacts(s, e, []string{c20Dir + "parser/parser.go", c20Dir + "scanner/scanner.go", c20Dir + "token/token.go", c20Dir + "format/format.go", c20Dir + "ast/ast.go", c20Dir + "ast/writer.go"})
	})
}
