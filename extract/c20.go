package main

// C20 — goctl .api parser / formatter (tools/goctl/pkg/parser/api). Extracted on every run:
//   * the keyword / method tables and literal texts the parser compares token texts with,
//   * the lookahead skeleton of every parser function (the ordered peek/expect/advance calls with their
//     expected-token arguments, the parse* calls and the branch conditions),
//   * the write skeleton of every Format method (branch conditions, Write/WriteText/NewLine calls with the
//     node lists and options),
//   * the character -> token table of the scanner.

import (
	"go/ast"
	"go/token"
	"sort"
	"strconv"
	"strings"
)

const c20Dir = "tools/goctl/pkg/parser/api/"

// c20Skeleton walks a function body in source order and lists branch conditions and the calls whose
// callee name (last selector component) is in `keep` (with their argument text).
func c20Skeleton(s *source, fd *ast.FuncDecl, keep func(name string) bool) []string {
	var out []string
	var walkStmt func(st ast.Stmt)
	var walkExpr func(e ast.Expr)
	walkExpr = func(e ast.Expr) {
		if e == nil {
			return
		}
		ast.Inspect(e, func(n ast.Node) bool {
			c, ok := n.(*ast.CallExpr)
			if !ok {
				return true
			}
			name := ""
			switch f := c.Fun.(type) {
			case *ast.Ident:
				name = f.Name
			case *ast.SelectorExpr:
				name = f.Sel.Name
			}
			if keep(name) {
				var args []string
				for _, a := range c.Args {
					args = append(args, s.src(a))
				}
				out = append(out, name+"("+strings.Join(args, ", ")+")")
				return false
			}
			return true
		})
	}
	walkBlock := func(b *ast.BlockStmt) {
		if b == nil {
			return
		}
		for _, st := range b.List {
			walkStmt(st)
		}
	}
	walkStmt = func(st ast.Stmt) {
		switch x := st.(type) {
		case *ast.IfStmt:
			if x.Init != nil {
				walkStmt(x.Init)
			}
			out = append(out, "if "+s.src(x.Cond)+" {")
			walkBlock(x.Body)
			if x.Else != nil {
				out = append(out, "} else {")
				switch el := x.Else.(type) {
				case *ast.BlockStmt:
					walkBlock(el)
				default:
					walkStmt(el)
				}
			}
			out = append(out, "}")
		case *ast.ForStmt:
			cond := ""
			if x.Cond != nil {
				cond = s.src(x.Cond)
			}
			out = append(out, "for "+cond+" {")
			walkBlock(x.Body)
			out = append(out, "}")
		case *ast.RangeStmt:
			out = append(out, "range "+s.src(x.X)+" {")
			walkBlock(x.Body)
			out = append(out, "}")
		case *ast.SwitchStmt:
			tag := ""
			if x.Tag != nil {
				tag = s.src(x.Tag)
			}
			out = append(out, "switch "+tag+" {")
			for _, cc := range x.Body.List {
				c := cc.(*ast.CaseClause)
				var es []string
				for _, e := range c.List {
					es = append(es, s.src(e))
				}
				if c.List == nil {
					out = append(out, "default:")
				} else {
					out = append(out, "case "+strings.Join(es, ", ")+":")
				}
				for _, b := range c.Body {
					walkStmt(b)
				}
			}
			out = append(out, "}")
		case *ast.TypeSwitchStmt:
			out = append(out, "typeswitch {")
			for _, cc := range x.Body.List {
				c := cc.(*ast.CaseClause)
				var es []string
				for _, e := range c.List {
					es = append(es, s.src(e))
				}
				if c.List == nil {
					out = append(out, "default:")
				} else {
					out = append(out, "case "+strings.Join(es, ", ")+":")
				}
				for _, b := range c.Body {
					walkStmt(b)
				}
			}
			out = append(out, "}")
		case *ast.BlockStmt:
			walkBlock(x)
		case *ast.ReturnStmt:
			for _, r := range x.Results {
				walkExpr(r)
			}
			if len(x.Results) == 1 {
				if id, ok := x.Results[0].(*ast.Ident); ok && id.Name == "nil" {
					out = append(out, "return nil")
				}
			}
		case *ast.ExprStmt:
			walkExpr(x.X)
		case *ast.AssignStmt:
			for _, r := range x.Rhs {
				walkExpr(r)
			}
		case *ast.DeclStmt:
			if gd, ok := x.Decl.(*ast.GenDecl); ok {
				for _, sp := range gd.Specs {
					if vs, ok := sp.(*ast.ValueSpec); ok {
						for _, v := range vs.Values {
							walkExpr(v)
						}
					}
				}
			}
		case *ast.BranchStmt:
			out = append(out, x.Tok.String())
		case *ast.DeferStmt:
			walkExpr(x.Call)
		}
	}
	walkBlock(fd.Body)
	return out
}

func c20ParserCall(name string) bool {
	switch name {
	case "advanceIfPeekTokenIs", "peekTokenIs", "peekTokenIsNot", "notExpectPeekToken", "expectPeekToken",
		"notExpectPeekTokenGotComment", "curTokenIs", "curTokenIsKeyword", "curTokenIsNotEof", "nextToken",
		"expectIdentError", "appendStmt", "Line":
		return true
	}
	return strings.HasPrefix(name, "parse")
}

func c20FormatCall(name string) bool {
	switch name {
	case "Write", "WriteText", "NewLine", "IsZeroString", "ContainsStruct", "IsAnonymous", "Format",
		"transferNilInfixNode", "transfer2TokenNode", "transferTokenNode", "Fprint", "Fprintf":
		return true
	}
	return false
}

func (e *emitter) c20Skel(s *source, rel, goName, lean string, keep func(string) bool) {
	fd := s.findFunc(rel, goName)
	if fd == nil {
		e.errors = append(e.errors, "function "+goName+" not found in "+rel)
		e.stringList(lean, "MISSING: "+goName+" in "+rel, []string{"MISSING"})
		return
	}
	e.stringList(lean, "skeleton of `"+goName+"` in "+rel, c20Skeleton(s, fd, keep))
}

// c20MapKeys lists the string keys of a package-level map literal.
func c20MapKeys(s *source, rel, name string) ([]string, bool) {
	f := s.file(rel)
	if f == nil {
		return nil, false
	}
	for _, d := range f.Decls {
		gd, ok := d.(*ast.GenDecl)
		if !ok || gd.Tok != token.VAR {
			continue
		}
		for _, sp := range gd.Specs {
			vs := sp.(*ast.ValueSpec)
			for i, n := range vs.Names {
				if n.Name != name || i >= len(vs.Values) {
					continue
				}
				cl, ok := vs.Values[i].(*ast.CompositeLit)
				if !ok {
					return nil, false
				}
				var out []string
				for _, el := range cl.Elts {
					var lit ast.Expr = el
					if kv, ok := el.(*ast.KeyValueExpr); ok {
						lit = kv.Key
					}
					bl, ok := lit.(*ast.BasicLit)
					if !ok || bl.Kind != token.STRING {
						return nil, false
					}
					v, err := strconv.Unquote(bl.Value)
					if err != nil {
						return nil, false
					}
					out = append(out, v)
				}
				return out, true
			}
		}
	}
	return nil, false
}

// c20ScannerTable lists `case '<c>': <first call / return>` of Scanner.NextToken's switch.
func c20ScannerTable(s *source, rel string) ([]string, bool) {
	fd := s.findFunc(rel, "Scanner.NextToken")
	if fd == nil {
		return nil, false
	}
	var out []string
	for _, st := range fd.Body.List {
		sw, ok := st.(*ast.SwitchStmt)
		if !ok {
			continue
		}
		for _, cc := range sw.Body.List {
			c := cc.(*ast.CaseClause)
			var es []string
			for _, e := range c.List {
				es = append(es, s.src(e))
			}
			head := "default"
			if c.List != nil {
				head = strings.Join(es, ",")
			}
			body := ""
			if len(c.Body) > 0 {
				if r, ok := c.Body[len(c.Body)-1].(*ast.ReturnStmt); ok && len(c.Body) == 1 {
					body = s.src(r)
				} else {
					body = "…"
				}
			}
			out = append(out, head+" => "+body)
		}
	}
	return out, len(out) > 0
}

// c20Full renders a function body statement by statement (source text with collapsed white space, control
// structures as header / body / "}"). Used for the small methods in which every token matters: which field a
// HasLeadingCommentGroup / CommentGroup / End / Pos method looks at, the line and comment logic of
// Writer.write, transfer*TokenNode, Parser.nextToken and the scanner's comment functions.
func c20Full(s *source, fd *ast.FuncDecl) []string {
	var out []string
	var walkStmt func(st ast.Stmt)
	walkBlock := func(b *ast.BlockStmt) {
		if b == nil {
			return
		}
		for _, st := range b.List {
			walkStmt(st)
		}
	}
	clause := func(cc ast.Stmt) {
		c := cc.(*ast.CaseClause)
		var es []string
		for _, e := range c.List {
			es = append(es, s.src(e))
		}
		if c.List == nil {
			out = append(out, "default:")
		} else {
			out = append(out, "case "+strings.Join(es, ", ")+":")
		}
		for _, b := range c.Body {
			walkStmt(b)
		}
	}
	walkStmt = func(st ast.Stmt) {
		switch x := st.(type) {
		case *ast.IfStmt:
			h := "if "
			if x.Init != nil {
				h += s.src(x.Init) + "; "
			}
			out = append(out, h+s.src(x.Cond)+" {")
			walkBlock(x.Body)
			if x.Else != nil {
				out = append(out, "} else {")
				switch el := x.Else.(type) {
				case *ast.BlockStmt:
					walkBlock(el)
				default:
					walkStmt(el)
				}
			}
			out = append(out, "}")
		case *ast.ForStmt:
			h := "for "
			if x.Init != nil {
				h += s.src(x.Init) + "; "
			}
			if x.Cond != nil {
				h += s.src(x.Cond)
			}
			if x.Post != nil {
				h += "; " + s.src(x.Post)
			}
			out = append(out, h+" {")
			walkBlock(x.Body)
			out = append(out, "}")
		case *ast.RangeStmt:
			k, v := "_", "_"
			if x.Key != nil {
				k = s.src(x.Key)
			}
			if x.Value != nil {
				v = s.src(x.Value)
			}
			out = append(out, "range "+k+", "+v+" := "+s.src(x.X)+" {")
			walkBlock(x.Body)
			out = append(out, "}")
		case *ast.SwitchStmt:
			tag := ""
			if x.Tag != nil {
				tag = s.src(x.Tag)
			}
			out = append(out, "switch "+tag+" {")
			for _, cc := range x.Body.List {
				clause(cc)
			}
			out = append(out, "}")
		case *ast.TypeSwitchStmt:
			out = append(out, "typeswitch "+s.src(x.Assign)+" {")
			for _, cc := range x.Body.List {
				clause(cc)
			}
			out = append(out, "}")
		case *ast.BlockStmt:
			walkBlock(x)
		default:
			out = append(out, s.src(st))
		}
	}
	walkBlock(fd.Body)
	return out
}

func (e *emitter) c20FullDef(s *source, rel, goName, lean string) {
	fd := s.findFunc(rel, goName)
	if fd == nil {
		e.errors = append(e.errors, "function "+goName+" not found in "+rel)
		e.stringList(lean, "MISSING: "+goName+" in "+rel, []string{"MISSING"})
		return
	}
	e.stringList(lean, "body of `"+goName+"` in "+rel, c20Full(s, fd))
}

// c20Accessors: the comment / position accessors of one ast node type, one block per method that exists.
var c20AccessorNames = []string{"HasHeadCommentGroup", "HasLeadingCommentGroup", "CommentGroup", "End", "Pos",
	"ContainsStruct", "IsAnonymous", "IsZeroString", "Equal", "Valid", "List", "Join"}

func (e *emitter) c20Accessors(s *source, rel, recv, lean string) {
	var out []string
	for _, m := range c20AccessorNames {
		fd := s.findFunc(rel, recv+"."+m)
		if fd == nil {
			continue
		}
		out = append(out, m+" {")
		out = append(out, c20Full(s, fd)...)
		out = append(out, "}")
	}
	if len(out) == 0 {
		e.errors = append(e.errors, "no accessor of "+recv+" found in "+rel)
	}
	e.stringList(lean, "comment / position accessors of `"+recv+"` in "+rel, out)
}

func init() {
	register("C20", func(s *source, e *emitter) {
		tok := c20Dir + "token/token.go"
		prs := c20Dir + "parser/parser.go"
		for _, c := range []string{"Syntax", "Info", "Service", "Returns", "Any", "TypeKeyword", "MapKeyword", "ImportKeyword"} {
			e.constDef(s, tok, c, "tok"+c)
		}
		e.constDef(s, prs, "idAPI", "idAPI")
		for _, c := range []string{"NilIndent", "WhiteSpace", "Indent", "NewLine"} {
			e.constDef(s, c20Dir+"ast/writer.go", c, "w"+c)
		}
		if ks, ok := c20MapKeys(s, tok, "keywords"); ok {
			sort.Strings(ks)
			e.stringList("keywords", "keys of token.keywords (sorted)", ks)
		} else {
			e.errors = append(e.errors, "token.keywords not found")
			e.stringList("keywords", "MISSING", nil)
		}
		if ks, ok := c20MapKeys(s, tok, "HttpMethods"); ok {
			e.stringList("httpMethods", "token.HttpMethods", ks)
		} else {
			e.errors = append(e.errors, "token.HttpMethods not found")
			e.stringList("httpMethods", "MISSING", nil)
		}
		if t, ok := c20ScannerTable(s, c20Dir+"scanner/scanner.go"); ok {
			e.stringList("scannerTable", "switch of Scanner.NextToken", t)
		} else {
			e.errors = append(e.errors, "Scanner.NextToken switch not found")
			e.stringList("scannerTable", "MISSING", nil)
		}
		for _, fn := range []string{"Parse", "parseStmt", "parseService", "parseServiceItemsStmt", "parseServiceItemStmt",
			"parseRouteStmt", "parseBodyStmt", "parseBodyExpr", "parsePathExpr", "parsePathItem", "parseServiceNameExpr",
			"parseAtDocStmt", "parseAtDocGroupStmt", "parseAtDocLiteralStmt", "parseAtHandlerStmt", "parseAtServerStmt",
			"parseTypeStmt", "parseTypeLiteralStmt", "parseTypeGroupStmt", "parseTypeExprList", "parseTypeExpr",
			"parseDataType", "parseStructDataType", "parseElemExprList", "parseElemExpr", "parseAnyDataType",
			"parsePointerDataType", "parseInterfaceDataType", "parseMapDataType", "parseArrayDataType", "parseSliceDataType",
			"parseImportStmt", "parseImportLiteralStmt", "parseImportGroupStmt", "parseInfoStmt",
			"parseAtServerKVExpression", "parseKVExpression", "parseSyntaxStmt", "nextToken"} {
			e.c20Skel(s, prs, "Parser."+fn, "p_"+fn, c20ParserCall)
		}
		type fm struct{ file, recv string }
		fms := []fm{
			{"ast/ast.go", "AST"}, {"ast/ast.go", "TokenNode"},
			{"ast/syntaxstatement.go", "SyntaxStmt"}, {"ast/infostatement.go", "InfoStmt"},
			{"ast/importstatement.go", "ImportLiteralStmt"}, {"ast/importstatement.go", "ImportGroupStmt"},
			{"ast/kvexpression.go", "KVExpr"},
			{"ast/typestatement.go", "TypeLiteralStmt"}, {"ast/typestatement.go", "TypeGroupStmt"},
			{"ast/typestatement.go", "TypeExpr"}, {"ast/typestatement.go", "ElemExpr"},
			{"ast/typestatement.go", "ArrayDataType"}, {"ast/typestatement.go", "MapDataType"},
			{"ast/typestatement.go", "PointerDataType"}, {"ast/typestatement.go", "SliceDataType"},
			{"ast/typestatement.go", "StructDataType"},
			{"ast/servicestatement.go", "AtServerStmt"}, {"ast/servicestatement.go", "AtDocLiteralStmt"},
			{"ast/servicestatement.go", "AtDocGroupStmt"}, {"ast/servicestatement.go", "ServiceStmt"},
			{"ast/servicestatement.go", "ServiceNameExpr"}, {"ast/servicestatement.go", "AtHandlerStmt"},
			{"ast/servicestatement.go", "ServiceItemStmt"}, {"ast/servicestatement.go", "RouteStmt"},
			{"ast/servicestatement.go", "PathExpr"}, {"ast/servicestatement.go", "BodyStmt"},
			{"ast/servicestatement.go", "BodyExpr"},
		}
		for _, f := range fms {
			e.c20Skel(s, c20Dir+f.file, f.recv+".Format", "f_"+f.recv, c20FormatCall)
		}
		// every method of every node type that Writer.write consults (HasHeadCommentGroup, HasLeadingCommentGroup,
		// Pos, End; Format is tied above), and what they delegate to
		for _, f := range append([]fm{{"ast/comment.go", "CommentStmt"}, {"ast/comment.go", "CommentGroup"},
			{"ast/typestatement.go", "AnyDataType"}, {"ast/typestatement.go", "BaseDataType"},
			{"ast/typestatement.go", "InterfaceDataType"}}, fms...) {
			if f.recv == "AST" {
				continue
			}
			e.c20Accessors(s, c20Dir+f.file, f.recv, "acc_"+f.recv)
		}
		for _, fn := range []string{"AnyDataType.Format", "BaseDataType.Format", "InterfaceDataType.Format", "CommentStmt.Format", "TokenNode.Format"} {
			file := "ast/typestatement.go"
			switch fn {
			case "CommentStmt.Format":
				file = "ast/comment.go"
			case "TokenNode.Format":
				file = "ast/ast.go"
			}
			e.c20FullDef(s, c20Dir+file, fn, "full_"+strings.ReplaceAll(fn, ".", "_"))
		}
		for _, fn := range []string{"transfer2TokenNode", "transferNilInfixNode", "transferTokenNode", "Writer.write", "Writer.Write",
			"Writer.NewLine", "ignoreHeadComment", "ignoreLeadingComment", "ignoreComment", "withTokenNodePrefix",
			"expectSameLine", "expectIndentInfix", "NewWriter", "NewBufferWriter"} {
			e.c20FullDef(s, c20Dir+"ast/writer.go", fn, "full_"+strings.ReplaceAll(fn, ".", "_"))
		}
		for _, fn := range []string{"Parser.nextToken", "Parser.curTokenNode", "Parser.getNode", "Parser.init"} {
			e.c20FullDef(s, prs, fn, "full_"+strings.ReplaceAll(fn, ".", "_"))
		}
		for _, fn := range []string{"Scanner.scanLineComment", "Scanner.scanDocument", "Scanner.skipWhiteSpace", "Scanner.isWhiteSpace"} {
			e.c20FullDef(s, c20Dir+"scanner/scanner.go", fn, "full_"+strings.ReplaceAll(fn, ".", "_"))
		}
		e.c20FullDef(s, c20Dir+"format/format.go", "Source", "full_fmt_Source")
		e.c20Skel(s, c20Dir+"ast/writer.go", "Writer.write", "w_write", c20FormatCall)
		e.c20Skel(s, c20Dir+"ast/writer.go", "Writer.WriteText", "w_WriteText", c20FormatCall)
		e.c20Skel(s, c20Dir+"format/format.go", "Source", "fmt_Source", func(n string) bool {
			return n == "New" || n == "Parse" || n == "CheckErrors" || n == "Format"
		})
	})
}
