//go:build verif

package hash

// C15 correspondence harness: drives the real ConsistentHash, one operation per trace line.
//
// section cfg:  ctor=default|custom  hash=murmur|fnv|coll  mod=<m>  replicas=<int>  probes=<key,key,...>
// ops:          add <node> | addr <node> <replicas> | addw <node> <weight> | remove <node> | get <key>
//               gadd|gaddr|gaddw <node t:/p:> …   the same operation through a gated Stringer (see c15Gate)
//               storm <readers> <gets> <key,…> <op_arg_arg;op_arg;…>   free-running readers against a writer
//               repr <v,v,…>   lang.Repr of every value (hex), no ring involved
//               pget <text> <kind>             Get with a Stringer key whose String() does not return normally
//               padd|paddr|paddw|premove <t:/p: node> [arg] <nth> <kind>   the operation with a Stringer node whose
//                                              nth String() call made while the lock is free does not return:
//                                              kind err = panic(error) str = panic(string) rt = runtime error
//                                              (nil map write) exit = runtime.Goexit (the op runs in its own goroutine)
//                                              => P=<what the caller recovered> locked=<0|1> + the usual observation
// node / key:   <kind>:<text of the VALUE>  (never computed through lang.Repr: the model computes the repr itself)
//               s=string i=int a=int8 h=int16 w=int32 j=int64 n=uint c=uint8 k=uint16 m=uint32 u=uint64 o=bool
//               e=error (value receiver) x=errors.New(text) q=error+Stringer t=fmt.Stringer (struct) p=*Stringer
//               f=float64 g=float32 (text = 'f',-1 rendering) b=[]byte z=nil d=named int r=*int y=(*int)(nil)
// observation:  mutating op:  nk=<len keys> nr=<len ring> nn=<len nodes> ck=<digest keys> rk=<digest ring>
//                             g=<Get of every probe on the instance> f=<Get of every probe on a fresh
//                             instance built from the current membership in repr order>
//               get:          <node> | - | PANIC
// Everything is driven by the op text; the generator only produces op text.

import (
	"errors"
	"fmt"
	"hash/fnv"
	"runtime"
	"sort"
	"strconv"
	"strings"
	"sync"
	"sync/atomic"
	"testing"

	"github.com/zeromicro/go-zero/internal/verifh"
)

// c15Gate stops the goroutine that runs a mutating operation at every String() call on the operation's
// own node that happens while the ring's lock is free (TryLock succeeds), i.e. outside the critical sections:
// the code calls repr(node) -> String() before Remove takes the lock and between Remove and the insertion.
// While it is stopped, reader goroutines look at the ring; nothing sleeps.
type c15Gate struct {
	armed atomic.Bool
	h     *ConsistentHash
	sig   chan struct{}
	cont  chan struct{}
	// fault mode (sig == nil): the nth String() call made while the lock is free does not return (nth == 0: the next
	// call, wherever it is made — used for lookup keys, whose String() runs under the read lock)
	nth  int
	kind string
}

func (g *c15Gate) hit() {
	if g == nil || !g.armed.Load() {
		return
	}
	if g.sig == nil {
		if g.nth > 0 {
			if !g.h.lock.TryLock() {
				return
			}
			g.h.lock.Unlock()
			g.nth--
			if g.nth > 0 {
				return
			}
		}
		g.armed.Store(false)
		c15Fault(g.kind)
		return
	}
	if g.h.lock.TryLock() {
		g.h.lock.Unlock()
		g.sig <- struct{}{}
		<-g.cont
	}
}

var c15ErrBoom = errors.New("boom")

// c15Fault: the ways a user-supplied String() can fail to return
func c15Fault(kind string) {
	switch kind {
	case "err":
		panic(c15ErrBoom)
	case "str":
		panic("boom")
	case "rt":
		var m map[string]int
		m["x"] = 1 // runtime error: assignment to entry in nil map
	case "exit":
		runtime.Goexit()
	}
	panic("verif: bad fault kind " + kind)
}

// c15Faulty runs f in its own goroutine and reports how it ended: "ok", "err:<text>" (panic with an error value),
// "str:<text>" (panic with another value), "rt" (runtime.Error), "exit" (runtime.Goexit)
func c15Faulty(f func()) string {
	res := make(chan string, 1)
	go func() {
		normal := false
		defer func() {
			p := recover()
			switch x := p.(type) {
			case nil:
				if normal {
					res <- "ok"
				} else {
					res <- "exit"
				}
			case runtime.Error:
				res <- "rt"
			case error:
				res <- "err:" + x.Error()
			default:
				res <- fmt.Sprintf("str:%v", p)
			}
		}()
		f()
		normal = true
	}()
	return <-res
}

type c15Err struct{ s string }

func (e c15Err) Error() string { return e.s }

// c15Both is an error AND a Stringer: lang.Repr asks Stringer first, fmt's %v asks error first
type c15Both struct{ s string }

func (e c15Both) Error() string  { return "E!" + e.s }
func (e c15Both) String() string { return e.s }

// c15Named reaches the default case of reprOfValue (fmt.Sprint)
type c15Named int

type c15Stringer struct {
	s string
	g *c15Gate
}

func (c c15Stringer) String() string { c.g.hit(); return c.s }

type c15PtrStringer struct {
	s string
	g *c15Gate
}

func (c *c15PtrStringer) String() string { c.g.hit(); return c.s }

func c15Value(tok string) any { return c15GatedValue(tok, nil) }

func c15GatedValue(tok string, g *c15Gate) any {
	i := strings.IndexByte(tok, ':')
	if i < 0 {
		panic("verif: bad value token " + tok)
	}
	kind, r := tok[:i], tok[i+1:]
	switch kind {
	case "s":
		return r
	case "i":
		return verifh.Atoi(r)
	case "j":
		return verifh.Atoi64(r)
	case "t":
		return c15Stringer{r, g}
	case "p":
		return &c15PtrStringer{r, g}
	case "a", "h", "w", "d", "r":
		bits := map[string]int{"a": 8, "h": 16, "w": 32, "d": 64, "r": 64}[kind]
		v, err := strconv.ParseInt(r, 10, bits)
		if err != nil {
			panic("verif: bad int " + tok)
		}
		switch kind {
		case "a":
			return int8(v)
		case "h":
			return int16(v)
		case "w":
			return int32(v)
		case "d":
			return c15Named(v)
		}
		x := int(v)
		return &x
	case "u", "n", "c", "k", "m":
		bits := map[string]int{"u": 64, "n": 64, "c": 8, "k": 16, "m": 32}[kind]
		v, err := strconv.ParseUint(r, 10, bits)
		if err != nil {
			panic("verif: bad uint " + tok)
		}
		switch kind {
		case "n":
			return uint(v)
		case "c":
			return uint8(v)
		case "k":
			return uint16(v)
		case "m":
			return uint32(v)
		}
		return v
	case "q":
		return c15Both{r}
	case "y":
		return (*int)(nil)
	case "o":
		return r == "true"
	case "e":
		return c15Err{r}
	case "x":
		// errors.New: lang.Repr dereferences the pointer and prints the struct, "{msg}"; %v prints msg
		return errors.New(r)
	case "f":
		v, err := strconv.ParseFloat(r, 64)
		if err != nil {
			panic("verif: bad float " + tok)
		}
		return v
	case "g":
		v, err := strconv.ParseFloat(r, 32)
		if err != nil {
			panic("verif: bad float32 " + tok)
		}
		return float32(v)
	case "b":
		return []byte(r)
	case "z":
		return nil
	}
	panic("verif: bad value kind " + tok)
}

func c15Token(v any) string {
	switch x := v.(type) {
	case string:
		return "s:" + x
	case int:
		return "i:" + strconv.Itoa(x)
	case int64:
		return "j:" + strconv.FormatInt(x, 10)
	case c15Stringer:
		return "t:" + x.s
	case *c15PtrStringer:
		return "p:" + x.s
	case uint64:
		return "u:" + strconv.FormatUint(x, 10)
	case int8:
		return "a:" + strconv.FormatInt(int64(x), 10)
	case int16:
		return "h:" + strconv.FormatInt(int64(x), 10)
	case int32:
		return "w:" + strconv.FormatInt(int64(x), 10)
	case uint:
		return "n:" + strconv.FormatUint(uint64(x), 10)
	case uint8:
		return "c:" + strconv.FormatUint(uint64(x), 10)
	case uint16:
		return "k:" + strconv.FormatUint(uint64(x), 10)
	case uint32:
		return "m:" + strconv.FormatUint(uint64(x), 10)
	case c15Named:
		return "d:" + strconv.FormatInt(int64(x), 10)
	case *int:
		if x == nil {
			return "y:"
		}
		return "r:" + strconv.FormatInt(int64(*x), 10)
	case c15Both:
		return "q:" + x.s
	case bool:
		return "o:" + strconv.FormatBool(x)
	case c15Err:
		return "e:" + x.s
	case error:
		return "x:" + x.Error()
	case float64:
		return "f:" + strconv.FormatFloat(x, 'f', -1, 64)
	case float32:
		return "g:" + strconv.FormatFloat(float64(x), 'f', -1, 32)
	case []byte:
		return "b:" + string(x)
	case nil:
		return "z:"
	}
	return fmt.Sprintf("?:%v", v)
}

// c15Slot is the harness's OWN notion of which ring slot a value token occupies (what the property calls "the
// node"): computed from the token text, never through core/lang, so that a lang.Repr that aliases two different
// values shows up as a difference between the live ring and the ring rebuilt from the membership.
func c15Slot(tok string) string {
	kind, r := tok[:strings.IndexByte(tok, ':')], tok[strings.IndexByte(tok, ':')+1:]
	switch kind {
	case "x":
		return "{" + r + "}"
	case "y":
		return "<nil>"
	}
	return r
}

func c15Hex(s string) string {
	if s == "" {
		return "-"
	}
	return fmt.Sprintf("%x", s)
}

func c15Fnv(data []byte) uint64 {
	f := fnv.New64a()
	f.Write(data)
	return f.Sum64()
}

// c15HashFault: the k-th call of the hash func (counted from arming) does not return
type c15HashFault struct {
	armed bool
	left  int
	kind  string
}

func (hf *c15HashFault) wrap(f Func) Func {
	if hf == nil {
		return f
	}
	return func(data []byte) uint64 {
		if hf.armed {
			if hf.left == 0 {
				hf.armed = false
				c15Fault(hf.kind)
			}
			hf.left--
		}
		return f(data)
	}
}

func c15New(cfg verifh.Cfg) *ConsistentHash { return c15NewF(cfg, nil) }

func c15NewF(cfg verifh.Cfg, hf *c15HashFault) *ConsistentHash {
	if cfg.Str("ctor", "default") == "default" {
		return NewConsistentHash()
	}
	replicas := cfg.Int("replicas", 0)
	switch cfg.Str("hash", "murmur") {
	case "fnv":
		return NewCustomConsistentHash(replicas, hf.wrap(c15Fnv))
	case "coll":
		m := uint64(cfg.Int("mod", 64))
		return NewCustomConsistentHash(replicas, hf.wrap(func(data []byte) uint64 { return c15Fnv(data) % m }))
	default:
		if hf != nil {
			return NewCustomConsistentHash(replicas, hf.wrap(Hash))
		}
		return NewCustomConsistentHash(replicas, nil)
	}
}

func c15Get(h *ConsistentHash, key any) (out string) {
	defer func() {
		if p := recover(); p != nil {
			out = "PANIC"
		}
	}()
	v, ok := h.Get(key)
	if !ok {
		return "-"
	}
	return c15Token(v)
}

func c15Apply(h *ConsistentHash, op []string) bool { return c15ApplyGated(h, op, nil) }

func c15ApplyGated(h *ConsistentHash, op []string, g *c15Gate) bool {
	switch {
	case op[0] == "add" && len(op) == 2:
		h.Add(c15GatedValue(op[1], g))
	case op[0] == "addr" && len(op) == 3:
		h.AddWithReplicas(c15GatedValue(op[1], g), verifh.Atoi(op[2]))
	case op[0] == "addw" && len(op) == 3:
		h.AddWithWeight(c15GatedValue(op[1], g), verifh.Atoi(op[2]))
	case op[0] == "remove" && len(op) == 2:
		h.Remove(c15GatedValue(op[1], g))
	default:
		return false
	}
	return true
}

const c15Mul = 1099511628211

func c15Digest(h *ConsistentHash) (int, int, int, uint64, uint64) {
	h.lock.RLock()
	defer h.lock.RUnlock()
	ck := uint64(14695981039346656037)
	for _, k := range h.keys {
		ck = ck*c15Mul + k
	}
	hs := make([]uint64, 0, len(h.ring))
	for x := range h.ring {
		hs = append(hs, x)
	}
	sort.Slice(hs, func(i, j int) bool { return hs[i] < hs[j] })
	rk := uint64(14695981039346656037)
	for _, x := range hs {
		rk = rk*c15Mul + x
		for _, n := range h.ring[x] {
			for _, b := range []byte(c15Token(n)) {
				rk = rk*c15Mul + uint64(b)
			}
			rk = rk*c15Mul + 255
		}
		rk = rk*c15Mul + 254
	}
	return len(h.keys), len(h.ring), len(h.nodes), ck, rk
}

var (
	c15Names = []string{
		"s:n", "s:n1", "s:n11", "s:n12", "s:n2", "s:node", "s:node1", "s:node10", "s:node11",
		"s:localhost:1", "s:localhost:11", "s:localhost:2", "i:1", "i:11", "i:12", "i:111", "s:1", "t:n1",
		"p:node1", "j:11", "s:a", "s:b", "s:srv-3", "s:10.0.0.7:6379", "s:10.0.0.7:63791", "i:-5", "i:0",
		"t:cache", "s:cache", "s:cache1", "s:", "s:0",
		// Stringer nodes as cache.New / kv.NewStore add them (repr = address), gateable
		"t:10.0.0.7:6379", "t:10.0.0.7:63791", "p:10.0.0.7:6379", "p:10.0.0.8:6379", "t:node", "p:node", "t:node1", "p:n",
		// values whose %v differs from their Repr, and the remaining Repr cases
		"f:1.5", "f:1000000", "f:0.00001", "f:100000", "f:-2.5", "f:1", "g:0.1", "g:16777216", "b:hi", "b:node1",
		"b:", "u:11", "u:1", "o:true", "e:boom", "e:node", "x:node", "z:",
		// the remaining cases of reprOfValue's switch and what reaches its default
		"a:-5", "h:11", "w:-1", "n:11", "c:1", "k:12", "m:111", "d:11", "d:-5", "r:1", "r:11", "y:", "q:node", "q:n1", "s:<nil>", "s:{node}",
	}
	c15Replicas = []int{0, 1, 2, 5, 10, 11, 12, 20, 50, 99, 100, 101, 110, 150, -1, -100}
	c15Weights  = []int{0, 1, 9, 10, 11, 50, 80, 99, 100, 101, 150, 200, -5,
		// h.replicas*weight overflows int64: wraps to a negative, to zero-ish or to a small positive product
		92233720368547759, 9223372036854775807, -9223372036854775808, 184467440737095517, 144115188075855873,
		-92233720368547759, 1 << 57, 1<<57 + 1}
	// lookup keys whose %v is not their Repr (the inner hash of a collision bucket uses %v)
	c15OddKeys = []string{
		"f:1.5", "f:1000000", "f:999999", "f:0.0001", "f:0.00001", "f:123456789.125", "f:-1000000", "f:0", "f:-0",
		"f:NaN", "f:+Inf", "f:-Inf", "f:100000000000000000000", "f:0.000001234", "f:12345678", "f:0.5",
		"g:0.1", "g:16777216", "g:340282350000000000000000000000000000000", "g:1000000", "g:0.000011",
		"b:hi", "b:", "b:key7", "b:0", "u:18446744073709551615", "u:7", "o:true", "o:false", "e:boom", "x:boom", "z:", "q:boom", "y:", "a:-128", "c:255", "d:7", "j:-9223372036854775808", "n:18446744073709551615",
	}
)

// c15Fixed are the histories on which the code violated the property before the fix
// (label coincidence "n"+"10" = "n1"+"0" under the default hash), replayed on every run.
func c15Fixed() []verifh.Section {
	probes := make([]string, 0, 200)
	for j := 0; j < 200; j++ {
		probes = append(probes, fmt.Sprintf("i:%d", j))
	}
	cfg := "ctor=default hash=murmur mod=0 replicas=100 probes=" + strings.Join(probes, ",")
	odd := "ctor=custom hash=coll mod=7 replicas=100 probes=" + strings.Join(c15OddKeys, ",")
	return []verifh.Section{
		{Cfg: cfg, Ops: []string{"addr s:node1 10", "addr s:node 5", "remove s:node", "get i:7"}},
		{Cfg: cfg, Ops: []string{"add s:node1", "add s:node", "remove s:node1", "add s:node1"}},
		{Cfg: cfg, Ops: []string{"addr s:node 5", "add s:node1", "add s:x", "remove s:node", "addw s:node1 50", "remove s:x"}},
		{Cfg: cfg, Ops: []string{"add i:1", "add i:11", "add s:1", "addr j:11 20", "remove t:1", "add p:11"}},
		// every odd key kind through collision buckets of 3 nodes; float / []byte / nil nodes
		{Cfg: odd, Ops: []string{"add s:a", "add s:b", "add f:1000000", "add b:hi", "addw z: 50", "remove f:1000000", "get f:0.00001", "get b:hi", "get z:"}},
		// a single node re-weighted through the gate: readers see an empty ring in between
		{Cfg: cfg, Ops: []string{"gadd t:10.0.0.7:6379", "gaddw t:10.0.0.7:6379 50", "gadd p:10.0.0.7:63791", "gaddr t:10.0.0.7:6379 20", "remove s:10.0.0.7:6379"}},
		// the ends of the integer kinds in one ring: no value evicts or removes another (they differ as numbers)
		{Cfg: cfg, Ops: []string{"repr " + strings.Join(c15Extremes, ","),
			"add u:18446744073709551615", "add i:-1", "remove u:18446744073709551615", "add j:-9223372036854775808",
			"add u:9223372036854775808", "remove j:-9223372036854775808", "addr c:255 7", "addr a:-1 3", "remove c:255",
			"add f:NaN", "add f:-Inf", "add y:", "add z:", "add q:boom", "add x:boom", "add d:255", "remove r:255", "get i:3"}},
		{Cfg: odd, Ops: []string{"add m:4294967295", "add w:-1", "add k:65535", "add h:-1", "add f:+Inf", "add b:-1", "remove s:-1",
			"addw n:18446744073709551615 50", "remove i:-1", "get q:boom", "get y:"}},
		// a String() that does not return, every way, at both lock-free call sites and under the read lock of Get
		{Cfg: cfg, Ops: []string{"add s:a", "padd t:node 1 err", "padd t:node 2 str", "add t:node", "paddw t:node 50 2 rt",
			"add p:node1", "paddr p:node1 20 1 exit", "get i:7", "paddr p:node1 20 2 exit", "addw p:node1 30", "premove p:node1 1 err",
			"pget k1 err", "pget k2 str", "pget k3 rt", "pget k4 exit", "padd t:a 2 err", "pget k5 err", "add s:node", "paddw p:node 0 2 str", "remove t:node", "get i:7"}},
		// weight overflow on the default ring
		{Cfg: cfg, Ops: []string{"addw s:a 92233720368547759", "addw s:b 184467440737095517", "addw s:c 9223372036854775807", "addw s:d 200"}},
	}
}

// c15IntKinds: kind letter, bit width, signed
var c15IntKinds = []struct {
	k      string
	bits   uint
	signed bool
}{{"a", 8, true}, {"h", 16, true}, {"w", 32, true}, {"j", 64, true}, {"i", 64, true}, {"d", 64, true}, {"r", 64, true},
	{"c", 8, false}, {"k", 16, false}, {"m", 32, false}, {"u", 64, false}, {"n", 64, false}}

// c15Twins: a family of numeric values of EVERY integer kind around one two's-complement boundary: for a width
// b and an offset, the unsigned value U (2^b-1, 2^(b-1), …) in every kind that holds it and its signed
// reinterpretation U-2^b in every kind that holds that. A Repr that confuses signedness, width or base makes two
// members of such a family share a ring slot. Also the same numbers as strings / bytes (same slot BY DESIGN).
func c15Twins(r *verifh.Rng) []string {
	b := []uint{8, 16, 32, 64}[r.Intn(4)]
	var u uint64
	switch r.Intn(5) {
	case 0:
		u = 1<<b - 1 // all ones: -1
	case 1:
		u = 1 << (b - 1) // the minimum of the signed type
	case 2:
		u = 1<<(b-1) + 1
	case 3:
		u = 1<<b - 2
	default:
		u = 1<<(b-1) - 1 // the maximum of the signed type: no negative twin at this width, but at the smaller ones
	}
	if b == 64 {
		switch {
		case u == 0: // 1<<64 wrapped
			u = ^uint64(0)
		}
	}
	var neg int64
	hasNeg := u>>(b-1)&1 == 1
	if hasNeg {
		if b == 64 {
			neg = int64(u)
		} else {
			neg = int64(u) - int64(1)<<b
		}
	}
	var fam []string
	for _, k := range c15IntKinds {
		if k.signed {
			if k.bits == 64 && u < 1<<63 || k.bits < 64 && u < 1<<(k.bits-1) {
				fam = append(fam, k.k+":"+strconv.FormatUint(u, 10))
			}
			if hasNeg && (k.bits == 64 || neg >= -(int64(1)<<(k.bits-1))) {
				fam = append(fam, k.k+":"+strconv.FormatInt(neg, 10))
			}
		} else if k.bits == 64 || u < 1<<k.bits {
			fam = append(fam, k.k+":"+strconv.FormatUint(u, 10))
		}
	}
	fam = append(fam, "s:"+strconv.FormatUint(u, 10), "f:"+strconv.FormatFloat(float64(u), 'f', -1, 64))
	if hasNeg {
		fam = append(fam, "s:"+strconv.FormatInt(neg, 10), "b:"+strconv.FormatInt(neg, 10))
	}
	// pick 2..6, the first two of different sign/kind where possible
	n := r.Range(2, 6)
	pop := make([]string, 0, n+1)
	for j := 0; j < n; j++ {
		pop = append(pop, fam[r.Intn(len(fam))])
	}
	if r.Chance(1, 2) {
		pop = append(pop, c15Names[r.Intn(len(c15Names))])
	}
	return pop
}

// c15Extremes: values at the ends of every kind, float specials, the odd kinds — for the `repr` operation
var c15Extremes = []string{
	"u:18446744073709551615", "u:9223372036854775808", "u:9223372036854775807", "u:0", "n:18446744073709551615",
	"j:-9223372036854775808", "j:9223372036854775807", "j:-1", "i:-9223372036854775808", "i:-1", "i:0", "i:9223372036854775807",
	"a:-128", "a:127", "a:-1", "c:255", "c:128", "h:-32768", "h:32767", "k:65535", "k:32768", "w:-2147483648",
	"w:2147483647", "m:4294967295", "m:2147483648", "d:-1", "d:255", "r:-1", "r:65535", "y:", "z:", "s:", "s:-1",
	"s:<nil>", "s:255", "b:-1", "b:", "o:true", "o:false", "s:true", "e:-1", "x:-1", "s:{-1}", "q:-1", "t:-1", "p:255",
	"f:NaN", "f:+Inf", "f:-Inf", "f:-0", "f:0", "f:18446744073709552000", "f:-1", "g:-1", "g:255", "g:+Inf", 
	"f:0.0000001", "f:255", "f:9223372036854776000",
}

func c15ReprOp(r *verifh.Rng, pop []string) string {
	vals := append([]string{}, pop...)
	for j := r.Range(4, 12); j > 0; j-- {
		vals = append(vals, c15Extremes[r.Intn(len(c15Extremes))])
	}
	for j := r.Range(0, 3); j > 0; j-- {
		vals = append(vals, c15Twins(r)...)
	}
	return "repr " + strings.Join(vals, ",")
}

func c15Probes(r *verifh.Rng, nprobe int) []string {
	probes := make([]string, 0, nprobe)
	base := r.Intn(100000)
	for j := 0; j < nprobe; j++ {
		switch r.Intn(8) {
		case 0, 1:
			probes = append(probes, fmt.Sprintf("s:key%d", base+j))
		case 2:
			probes = append(probes, fmt.Sprintf("t:k%d", r.Intn(1000000)))
		case 3:
			probes = append(probes, c15OddKeys[r.Intn(len(c15OddKeys))])
		case 4:
			// floats around the %e thresholds (exponent < -4, >= 6) with a few significant digits
			mant := r.Range(1, 9999)
			switch r.Intn(4) {
			case 0:
				probes = append(probes, "f:"+strconv.FormatFloat(float64(mant)*1e3, 'f', -1, 64))
			case 1:
				probes = append(probes, "f:"+strconv.FormatFloat(float64(mant)/1e7, 'f', -1, 64))
			case 2:
				probes = append(probes, "g:"+strconv.FormatFloat(float64(float32(mant)/float32(64)), 'f', -1, 32))
			default:
				probes = append(probes, "f:"+strconv.FormatFloat(-float64(mant)/16, 'f', -1, 64))
			}
		default:
			probes = append(probes, fmt.Sprintf("i:%d", base+j))
		}
	}
	return probes
}

// c15Cfg returns the section configuration and the replica count the ring will really have (lower clamp applied)
func c15Cfg(r *verifh.Rng) (string, int) {
	eff := func(n int) int {
		if n < 100 {
			return 100
		}
		return n
	}
	switch x := r.Intn(10); {
	case x < 3:
		return "ctor=default hash=murmur mod=0 replicas=100", 100
	case x < 5:
		n := r.Pick(0, 100, 101, 120, 150, -7, 99)
		return fmt.Sprintf("ctor=custom hash=murmur mod=0 replicas=%d", n), eff(n)
	case x < 7:
		n := r.Pick(0, 100, 101, 128, 130, 160)
		return fmt.Sprintf("ctor=custom hash=fnv mod=0 replicas=%d", n), eff(n)
	default:
		n := r.Pick(0, 100, 110, 128)
		return fmt.Sprintf("ctor=custom hash=coll mod=%d replicas=%d", r.Pick(7, 64, 256, 1024, 4096, 65536), n), eff(n)
	}
}

// c15Runaway: would `h.replicas * weight / TopWeight` (Go int, wrapping) be a replica count that only the upper clamp of
// AddWithReplicas keeps from looping for hours? Such weights are exercised by TestVerifC15Big only, so that a tree
// without the clamp still gives the main harnesses a complete trace (and a replay) instead of a time-out.
func c15Runaway(replicas, weight int) bool { return replicas*weight/100 > 1000000 }

func c15Pop(r *verifh.Rng) []string {
	// a small population, biased to names whose virtual-node labels coincide ("n"+"10" = "n1"+"0")
	npop := r.Range(1, 6)
	pop := make([]string, 0, npop)
	start := r.Intn(len(c15Names))
	for j := 0; j < npop; j++ {
		if r.Chance(3, 4) {
			pop = append(pop, c15Names[(start+j)%len(c15Names)])
		} else {
			pop = append(pop, c15Names[r.Intn(len(c15Names))])
		}
	}
	return pop
}

// c15Ops generates nops operations over pop; gated variants for Stringer nodes.
func c15Ops(r *verifh.Rng, pop []string, nops int, present *[]string, sep string, gates bool, R int) []string {
	var ops []string
	for j := 0; j < nops; j++ {
		n := pop[r.Intn(len(pop))]
		x := r.Intn(100)
		if gates && sep == " " && r.Chance(1, 12) {
			// a user-supplied String() that does not return: lookup key (under the read lock) or node (lock free)
			kind := r.PickS("err", "str", "rt", "exit")
			if r.Chance(1, 3) {
				ops = append(ops, fmt.Sprintf("pget k%d %s", r.Intn(1000), kind))
				continue
			}
			if n[0] != 't' && n[0] != 'p' {
				// a Stringer whose repr coincides with (or is a label neighbour of) common population members
				n = r.PickS("t:node", "p:node1", "t:n1", "p:n", "t:10.0.0.7:6379", "p:1", "t:11", "p:cache")
			}
			nth := r.Range(1, 2)
			switch r.Intn(4) {
			case 0:
				ops = append(ops, fmt.Sprintf("padd %s %d %s", n, nth, kind))
			case 1:
				ops = append(ops, fmt.Sprintf("paddr %s %d %d %s", n, c15Replicas[r.Intn(len(c15Replicas))], nth, kind))
			case 2:
				ops = append(ops, fmt.Sprintf("paddw %s %d %d %s", n, r.Pick(0, 1, 50, 100, 150, -5), nth, kind))
			default:
				ops = append(ops, fmt.Sprintf("premove %s 1 %s", n, kind))
			}
			// whether the node is still a member afterwards depends on nth: leave `present` as it is
			continue
		}
		if x >= 65 && x < 90 {
			// removals mostly hit a node that was added before (by token; reprs may still coincide)
			if len(*present) > 0 && r.Chance(4, 5) {
				k := r.Intn(len(*present))
				n = (*present)[k]
				*present = append((*present)[:k], (*present)[k+1:]...)
			}
		} else if x < 65 {
			*present = append(*present, n)
		}
		g := ""
		if gates && (n[0] == 't' || n[0] == 'p') && r.Chance(1, 2) {
			g = "g"
		}
		switch {
		case x < 30:
			ops = append(ops, g+"add"+sep+n)
		case x < 50:
			ops = append(ops, fmt.Sprintf("%saddr%s%s%s%d", g, sep, n, sep, c15Replicas[r.Intn(len(c15Replicas))]))
		case x < 65:
			w := c15Weights[r.Intn(len(c15Weights))]
			for c15Runaway(R, w) {
				w = c15Weights[r.Intn(len(c15Weights))]
			}
			ops = append(ops, fmt.Sprintf("%saddw%s%s%s%d", g, sep, n, sep, w))
		case x < 90 || sep != " ":
			ops = append(ops, "remove"+sep+n)
		default:
			ops = append(ops, fmt.Sprintf("get i:%d", r.Intn(1000000)))
		}
	}
	return ops
}

// c15SelfColl: rings in which ONE node's virtual nodes collide with each other (hash range far below the replica
// count: mod 7 … 64 with 100+ replicas): slots list the node several times, keys hold duplicates; adds with other counts,
// removals and re-adds must keep the multiplicities exact (the class of seeded C15-9)
func c15SelfColl(r *verifh.Rng) []verifh.Section {
	var secs []verifh.Section
	for i := 0; i < verifh.Scale(6, 40); i++ {
		cfg := fmt.Sprintf("ctor=custom hash=coll mod=%d replicas=%d probes=%s", r.Pick(3, 7, 16, 64), r.Pick(0, 100, 128),
			strings.Join(c15Probes(r, verifh.Scale(48, 64)), ","))
		pop := c15Pop(r)
		var ops []string
		for j := r.Range(4, 10); j > 0; j-- {
			n := pop[r.Intn(len(pop))]
			switch r.Intn(5) {
			case 0:
				ops = append(ops, "remove "+n)
			case 1:
				ops = append(ops, "add "+n)
			default:
				// few virtual nodes: whether they collide with each other or not varies from node to node
				ops = append(ops, fmt.Sprintf("addr %s %d", n, r.Pick(2, 3, 5, 9, 20, 64, 100)))
			}
		}
		secs = append(secs, verifh.Section{Cfg: cfg, Ops: ops})
	}
	return secs
}

// c15HashFaults: the hash func panics / exits at its k-th call inside an operation (first call, inside the removal loop
// of a member, inside the insertion loop); always the LAST operation of its section: the ring is broken afterwards by
// design of the code (no rollback), what the model says about the state is compared
func c15HashFaults(r *verifh.Rng) []verifh.Section {
	var secs []verifh.Section
	for i := 0; i < verifh.Scale(8, 40); i++ {
		R := r.Pick(100, 100, 110)
		cfg := fmt.Sprintf("ctor=custom hash=%s mod=%d replicas=%d probes=%s", r.PickS("fnv", "murmur", "coll"), r.Pick(64, 1024, 65536), R,
			strings.Join(c15Probes(r, 32), ","))
		pop := c15Pop(r)
		var present []string
		ops := c15Ops(r, pop, r.Range(1, 5), &present, " ", false, R)
		n := pop[r.Intn(len(pop))]
		k := r.Pick(0, 0, 1, 2, 5, 50, 99, 100, 101, 150, 199, 205, 400)
		kind := r.PickS("err", "str", "rt", "exit")
		switch r.Intn(3) {
		case 0:
			ops = append(ops, fmt.Sprintf("hadd %s %d %s", n, k, kind))
		case 1:
			ops = append(ops, fmt.Sprintf("haddr %s %d %d %s", n, r.Pick(0, 3, 20, 100, 150), k, kind))
		default:
			ops = append(ops, fmt.Sprintf("haddw %s %d %d %s", n, r.Pick(1, 50, 100, 150), k, kind))
		}
		secs = append(secs, verifh.Section{Cfg: cfg, Ops: ops})
	}
	return secs
}

func c15Gen(r *verifh.Rng) []verifh.Section {
	// consecutive seeds of verifh.NewRng are one draw apart on the same stream: fork for independent streams
	r = r.Fork()
	secs := c15Fixed()
	secs = append(secs, c15SelfColl(r)...)
	secs = append(secs, c15HashFaults(r)...)
	nsec := verifh.Scale(80, 800)
	for i := 0; i < nsec; i++ {
		cfg, R := c15Cfg(r)
		cfg += " probes=" + strings.Join(c15Probes(r, verifh.Scale(64, 96)), ",")
		pop := c15Pop(r)
		if r.Chance(1, 4) {
			pop = c15Twins(r)
		}
		var present []string
		ops := c15Ops(r, pop, r.Range(3, verifh.Scale(16, 36)), &present, " ", true, R)
		if r.Chance(1, 3) {
			ops = append([]string{c15ReprOp(r, pop)}, ops...)
		}
		secs = append(secs, verifh.Section{Cfg: cfg, Ops: ops})
	}
	return secs
}

// c15GenRace: sections for the -race run: a little set-up, then free-running readers against writer programs
// (storm) and gated operations.
func c15GenRace(r *verifh.Rng) []verifh.Section {
	r = r.Fork()
	r.Uint64()
	var secs []verifh.Section
	nsec := verifh.Scale(14, 160)
	for i := 0; i < nsec; i++ {
		cfg, R := c15Cfg(r)
		probes := c15Probes(r, 24)
		cfg += " probes=" + strings.Join(probes, ",")
		var pop []string
		base := c15Pop(r)
		if r.Chance(1, 4) {
			base = c15Twins(r)
		}
		for _, n := range base {
			if !strings.ContainsAny(n, "_;") {
				pop = append(pop, n)
			}
		}
		if len(pop) == 0 {
			pop = []string{"t:node"}
		}
		var present []string
		ops := c15Ops(r, pop, r.Range(1, 4), &present, " ", true, R)
		for k := r.Range(1, 3); k > 0; k-- {
			keys := make([]string, 0, 8)
			for j := 0; j < 8; j++ {
				keys = append(keys, probes[r.Intn(len(probes))])
			}
			prog := c15Ops(r, pop, r.Range(2, 8), &present, "_", false, R)
			ops = append(ops, fmt.Sprintf("storm %d %d %s %s", r.Range(2, 6), 40, strings.Join(keys, ","), strings.Join(prog, ";")))
			ops = append(ops, c15Ops(r, pop, r.Range(0, 2), &present, " ", true, R)...)
		}
		secs = append(secs, verifh.Section{Cfg: cfg, Ops: ops})
	}
	return secs
}

// c15Snapshot: what several reader goroutines see on a ring that no writer touches meanwhile.
func c15Snapshot(h *ConsistentHash, probes []any) string {
	const readers = 4
	res := make([]string, readers)
	var wg sync.WaitGroup
	for i := 0; i < readers; i++ {
		wg.Add(1)
		go func(i int) {
			defer wg.Done()
			g := make([]string, len(probes))
			for j := range probes {
				jj := (j + i*7) % len(probes)
				g[jj] = c15Get(h, probes[jj])
			}
			res[i] = strings.Join(g, ",")
		}(i)
	}
	wg.Wait()
	for i := 1; i < readers; i++ {
		if res[i] != res[0] {
			return "READERS-DISAGREE"
		}
	}
	nk, nr, nn, ck, rk := c15Digest(h)
	return fmt.Sprintf("nk=%d nr=%d nn=%d ck=%d rk=%d g=%s", nk, nr, nn, ck, rk, res[0])
}

// c15Gated runs the operation in its own goroutine and takes a snapshot at every signal of the gate.
func c15Gated(h *ConsistentHash, op []string, probes []any) (snaps []string, ok bool) {
	g := &c15Gate{h: h, sig: make(chan struct{}), cont: make(chan struct{})}
	g.armed.Store(true)
	type result struct {
		ok bool
		p  any
	}
	done := make(chan result, 1)
	go func() {
		var res result
		defer func() {
			res.p = recover()
			done <- res
		}()
		res.ok = c15ApplyGated(h, op, g)
	}()
	for {
		select {
		case <-g.sig:
			snaps = append(snaps, c15Snapshot(h, probes))
			g.cont <- struct{}{}
		case res := <-done:
			g.armed.Store(false)
			if res.p != nil {
				panic(res.p)
			}
			return snaps, res.ok
		}
	}
}

type c15Seen struct {
	ki, lo, hi int
	res        string
}

// c15Storm: nReaders goroutines call Get in a loop while this goroutine runs prog. Every Get is stamped with
// lo = writer operations completed before it began and hi = operations begun before it returned.
func c15Storm(h *ConsistentHash, nReaders, gets int, keys []any, prog [][]string, apply func(op []string) bool) (string, bool) {
	var started, done atomic.Int64
	var stop atomic.Bool
	sets := make([]map[c15Seen]struct{}, nReaders)
	var ready, wg sync.WaitGroup
	for i := 0; i < nReaders; i++ {
		sets[i] = map[c15Seen]struct{}{}
		ready.Add(1)
		wg.Add(1)
		go func(i int) {
			defer wg.Done()
			ready.Done()
			for n := 0; n < 200*gets && !(stop.Load() && n >= gets); n++ {
				ki := (n + i*3) % len(keys)
				lo := int(done.Load())
				res := c15Get(h, keys[ki])
				hi := int(started.Load())
				sets[i][c15Seen{ki, lo, hi, res}] = struct{}{}
			}
		}(i)
	}
	ready.Wait()
	ok := true
	for j, op := range prog {
		started.Store(int64(j + 1))
		if !apply(op) {
			ok = false
		}
		done.Store(int64(j + 1))
	}
	stop.Store(true)
	wg.Wait()
	all := map[c15Seen]struct{}{}
	for _, s := range sets {
		for k := range s {
			all[k] = struct{}{}
		}
	}
	out := make([]string, 0, len(all))
	for k := range all {
		out = append(out, fmt.Sprintf("%d/%d/%d/%s", k.ki, k.lo, k.hi, k.res))
	}
	sort.Strings(out)
	return strings.Join(out, ","), ok
}

// c15Guard runs f as a subtest when t is given: with -race a data race detected while f runs fails the
// subtest ("race detected during execution of test"), and the observation gets the token DATARACE.
func c15Guard(t *testing.T, name string, f func()) (raced bool) {
	if t == nil {
		f()
		return false
	}
	return !t.Run(name, func(*testing.T) { f() })
}

func c15Start(t *testing.T) func(cfg verifh.Cfg) (func(op []string) string, func()) {
	return func(cfg verifh.Cfg) (func(op []string) string, func()) { return c15StartCfg(t, cfg) }
}

func c15StartCfg(t *testing.T, cfg verifh.Cfg) (func(op []string) string, func()) {
	hf := &c15HashFault{}
	h := c15NewF(cfg, hf)
	// sequential twin: receives the same operations, is never touched by two goroutines; it provides the
	// implementation's OWN sequential answers that concurrent observations are compared with
	h2 := c15New(cfg)
	var probes []any
	if p := cfg.Str("probes", ""); p != "" {
		for _, tok := range strings.Split(p, ",") {
			probes = append(probes, c15Value(tok))
		}
	}
	// current membership as the last add operation per repr (derived from the op text only)
	last := map[string][]string{}
	track := func(op []string) {
		r := c15Slot(op[1])
		if op[0] == "remove" {
			delete(last, r)
		} else {
			last[r] = op
		}
	}
	final := func() string {
		reprs := make([]string, 0, len(last))
		for k := range last {
			reprs = append(reprs, k)
		}
		sort.Strings(reprs)
		fresh := c15New(cfg)
		for _, k := range reprs {
			c15Apply(fresh, last[k])
		}
		g := make([]string, len(probes))
		f := make([]string, len(probes))
		for i, p := range probes {
			g[i] = c15Get(h, p)
			f[i] = c15Get(fresh, p)
		}
		nk, nr, nn, ck, rk := c15Digest(h)
		return fmt.Sprintf("nk=%d nr=%d nn=%d ck=%d rk=%d g=%s f=%s", nk, nr, nn, ck, rk, strings.Join(g, ","), strings.Join(f, ","))
	}
	dead := false
	lockState := func() int {
		if h.lock.TryLock() {
			h.lock.Unlock()
			return 0
		}
		// the lock was not released: every later operation on this instance would block for ever
		dead = true
		return 1
	}
	step := func(op []string) string {
		if dead {
			return "dead"
		}
		if len(op) == 3 && op[0] == "pget" {
			g := &c15Gate{h: h, nth: 0, kind: op[2]}
			g.armed.Store(true)
			out := "?"
			res := c15Faulty(func() {
				out = "-"
				if v, ok := h.Get(c15Stringer{op[1], g}); ok {
					out = c15Token(v)
				}
			})
			g.armed.Store(false)
			return fmt.Sprintf("P=%s locked=%d g=%s", res, lockState(), out)
		}
		if len(op) >= 4 && (op[0] == "padd" || op[0] == "paddr" || op[0] == "paddw" || op[0] == "premove") {
			plain := append([]string{op[0][1:]}, op[1:len(op)-2]...)
			if k := op[1][0]; k != 't' && k != 'p' {
				return "bad-op"
			}
			nth := verifh.Atoi(op[len(op)-2])
			if nth < 1 || nth > 2 {
				return "bad-op"
			}
			g := &c15Gate{h: h, nth: nth, kind: op[len(op)-1]}
			g.armed.Store(true)
			ok := true
			res := c15Faulty(func() { ok = c15ApplyGated(h, plain, g) })
			g.armed.Store(false)
			if !ok {
				return "bad-op"
			}
			// the sequential twin and the membership follow what the caller saw: a completed operation, or one that
			// ended in its first lock-free String() (nothing happened) or in its second (Remove ran, the insertion did not)
			switch {
			case res == "ok":
				if !c15Apply(h2, plain) {
					return "bad-op"
				}
				track(plain)
			case nth == 2 && plain[0] != "remove":
				h2.Remove(c15Value(plain[1]))
				track([]string{"remove", plain[1]})
			}
			return fmt.Sprintf("P=%s locked=%d %s", res, lockState(), final())
		}
		if len(op) >= 4 && (op[0] == "hadd" || op[0] == "haddr" || op[0] == "haddw") {
			// the k-th hash func call of the operation does not return (under the write lock, inside a loop)
			plain := append([]string{op[0][1:]}, op[1:len(op)-2]...)
			hf.left, hf.kind, hf.armed = verifh.Atoi(op[len(op)-2]), op[len(op)-1], true
			ok := true
			res := c15Faulty(func() { ok = c15Apply(h, plain) })
			hf.armed = false
			if !ok {
				return "bad-op"
			}
			if res == "ok" {
				if !c15Apply(h2, plain) {
					return "bad-op"
				}
				track(plain)
				return fmt.Sprintf("P=ok locked=%d %s", lockState(), final())
			}
			locked := lockState()
			if locked != 0 {
				return fmt.Sprintf("P=%s locked=1", res)
			}
			g := make([]string, len(probes))
			for i, p := range probes {
				g[i] = c15Get(h, p)
			}
			nk, nr, nn, ck, rk := c15Digest(h)
			return fmt.Sprintf("P=%s locked=0 nk=%d nr=%d nn=%d ck=%d rk=%d g=%s", res, nk, nr, nn, ck, rk, strings.Join(g, ","))
		}
		if len(op) == 2 && op[0] == "get" {
			return c15Get(h, c15Value(op[1]))
		}
		if len(op) == 2 && op[0] == "repr" {
			var out []string
			for _, tok := range strings.Split(op[1], ",") {
				out = append(out, c15Hex(repr(c15Value(tok))))
			}
			return strings.Join(out, ",")
		}
		if len(op) == 5 && op[0] == "storm" {
			var keys []any
			for _, tok := range strings.Split(op[3], ",") {
				keys = append(keys, c15Value(tok))
			}
			var prog [][]string
			if op[4] != "-" {
				for _, o := range strings.Split(op[4], ";") {
					prog = append(prog, strings.Split(o, "_"))
				}
			}
			// the implementation's sequential answers: after j operations (S<j>) and, for an adding operation j,
			// between its Remove and its insertion (M<j>)
			answers := func() string {
				a := make([]string, len(keys))
				for i, k := range keys {
					a[i] = c15Get(h2, k)
				}
				return strings.Join(a, ";")
			}
			var ref []string
			for j, o := range prog {
				ref = append(ref, fmt.Sprintf("S%d/%s", j, answers()))
				if len(o) >= 2 && o[0] != "remove" {
					h2.Remove(c15Value(o[1]))
					ref = append(ref, fmt.Sprintf("M%d/%s", j, answers()))
				}
				if len(o) < 2 || !c15Apply(h2, o) {
					return "bad-op"
				}
			}
			ref = append(ref, fmt.Sprintf("S%d/%s", len(prog), answers()))
			var tuples string
			ok := true
			raced := c15Guard(t, "storm", func() {
				tuples, ok = c15Storm(h, verifh.Atoi(op[1]), verifh.Atoi(op[2]), keys, prog, func(o []string) bool {
					if len(o) < 2 || !c15Apply(h, o) {
						return false
					}
					track(o)
					return true
				})
			})
			if !ok {
				return "bad-op"
			}
			out := final() + " r=" + tuples + " q=" + strings.Join(ref, ",")
			if raced {
				out += " DATARACE"
			}
			return out
		}
		if len(op) >= 2 && (op[0] == "gadd" || op[0] == "gaddr" || op[0] == "gaddw") {
			plain := append([]string{op[0][1:]}, op[1:]...)
			if k := op[1][0]; k != 't' && k != 'p' {
				return "bad-op"
			}
			var snaps []string
			ok := true
			raced := c15Guard(t, "gated", func() { snaps, ok = c15Gated(h, plain, probes) })
			if !ok || !c15Apply(h2, plain) {
				return "bad-op"
			}
			track(plain)
			out := fmt.Sprintf("sig=%d | %s | %s", len(snaps), strings.Join(snaps, " | "), final())
			if raced {
				out += " DATARACE"
			}
			return out
		}
		if len(op) < 2 || !c15Apply(h, op) || !c15Apply(h2, op) {
			return "bad-op"
		}
		track(op)
		return final()
	}
	return step, nil
}

// c15GenBig: replica counts and weights that only the upper clamp of AddWithReplicas keeps finite: weights whose
// product h.replicas*weight wraps to a huge positive int, huge replica counts. Kept apart from the main harness so
// that a tree that lost the clamp on one path times out HERE (30 s) and still gives a full trace there.
func c15GenBig(r *verifh.Rng) []verifh.Section {
	r = r.Fork()
	r.Uint64()
	r.Uint64()
	r.Uint64()
	var secs []verifh.Section
	hugeR := []int{1 << 31, 1 << 40, 9223372036854775807, 1000001, 4611686018427387904}
	for i := 0; i < verifh.Scale(12, 60); i++ {
		cfg, R := c15Cfg(r)
		cfg += " probes=" + strings.Join(c15Probes(r, 32), ",")
		pop := c15Pop(r)
		var big []int
		for _, w := range c15Weights {
			if c15Runaway(R, w) {
				big = append(big, w)
			}
		}
		// further weights of the class for this replica count: k*2^64/R + a positive remainder worth > 10^6 replicas
		for j := 0; j < 4; j++ {
			w := int(uint64(r.Range(1, 90))*(^uint64(0)/uint64(R)) + uint64(r.Range(1, 1<<40)))
			if c15Runaway(R, w) {
				big = append(big, w)
			}
			if c15Runaway(R, -w) {
				big = append(big, -w)
			}
		}
		big = append(big, 1000001, 9223372036854775807/R, 92233720368547758)
		var present []string
		ops := c15Ops(r, pop, r.Range(1, 4), &present, " ", false, R)
		for j := r.Range(2, 6); j > 0; j-- {
			n := pop[r.Intn(len(pop))]
			switch r.Intn(4) {
			case 0:
				ops = append(ops, fmt.Sprintf("addr %s %d", n, hugeR[r.Intn(len(hugeR))]))
			case 1:
				ops = append(ops, "remove "+n)
			default:
				w := big[r.Intn(len(big))]
				if !c15Runaway(R, w) && w <= 100 {
					continue
				}
				ops = append(ops, fmt.Sprintf("addw %s %d", n, w))
			}
		}
		ops = append(ops, "remove "+pop[0], fmt.Sprintf("get i:%d", r.Intn(1000)))
		secs = append(secs, verifh.Section{Cfg: cfg, Ops: ops})
	}
	return secs
}

func TestVerifC15Big(t *testing.T) {
	verifh.Run(t, verifh.Sections(c15GenBig), c15Start(nil))
}

func TestVerifC15(t *testing.T) {
	verifh.Run(t, verifh.Sections(c15Gen), c15Start(nil))
}

// TestVerifC15Race is built with -race: storms of concurrent readers and gated operations.
func TestVerifC15Race(t *testing.T) {
	verifh.Run(t, verifh.Sections(c15GenRace), c15Start(t))
}
