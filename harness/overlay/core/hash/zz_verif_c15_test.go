//go:build verif

package hash

// C15 correspondence harness: drives the real ConsistentHash, one operation per trace line.
//
// section cfg:  ctor=default|custom  hash=murmur|fnv|coll  mod=<m>  replicas=<int>  probes=<key,key,...>
// ops:          add <node> | addr <node> <replicas> | addw <node> <weight> | remove <node> | get <key>
// node / key:   <kind>:<repr>   kind s=string i=int j=int64 t=fmt.Stringer (struct) p=*Stringer
// observation:  mutating op:  nk=<len keys> nr=<len ring> nn=<len nodes> ck=<digest keys> rk=<digest ring>
//                             g=<Get of every probe on the instance> f=<Get of every probe on a fresh
//                             instance built from the current membership in repr order>
//               get:          <node> | - | PANIC
// Everything is driven by the op text; the generator only produces op text.

import (
	"fmt"
	"hash/fnv"
	"sort"
	"strconv"
	"strings"
	"testing"

	"github.com/zeromicro/go-zero/internal/verifh"
)

type c15Stringer struct{ s string }

func (c c15Stringer) String() string { return c.s }

type c15PtrStringer struct{ s string }

func (c *c15PtrStringer) String() string { return c.s }

func c15Value(tok string) any {
	i := strings.IndexByte(tok, ':')
	if i < 0 {
		panic("verif: bad value token " + tok)
	}
	kind, r := tok[:i], tok[i+1:]
	switch kind {
	case "s":
		return r
	case "i":
		return verifh.Atoi(r)
	case "j":
		return verifh.Atoi64(r)
	case "t":
		return c15Stringer{r}
	case "p":
		return &c15PtrStringer{r}
	}
	panic("verif: bad value kind " + tok)
}

func c15Token(v any) string {
	switch x := v.(type) {
	case string:
		return "s:" + x
	case int:
		return "i:" + strconv.Itoa(x)
	case int64:
		return "j:" + strconv.FormatInt(x, 10)
	case c15Stringer:
		return "t:" + x.s
	case *c15PtrStringer:
		return "p:" + x.s
	}
	return fmt.Sprintf("?:%v", v)
}

func c15Fnv(data []byte) uint64 {
	f := fnv.New64a()
	f.Write(data)
	return f.Sum64()
}

func c15New(cfg verifh.Cfg) *ConsistentHash {
	if cfg.Str("ctor", "default") == "default" {
		return NewConsistentHash()
	}
	replicas := cfg.Int("replicas", 0)
	switch cfg.Str("hash", "murmur") {
	case "fnv":
		return NewCustomConsistentHash(replicas, c15Fnv)
	case "coll":
		m := uint64(cfg.Int("mod", 64))
		return NewCustomConsistentHash(replicas, func(data []byte) uint64 { return c15Fnv(data) % m })
	default:
		return NewCustomConsistentHash(replicas, nil)
	}
}

func c15Get(h *ConsistentHash, key any) (out string) {
	defer func() {
		if p := recover(); p != nil {
			out = "PANIC"
		}
	}()
	v, ok := h.Get(key)
	if !ok {
		return "-"
	}
	return c15Token(v)
}

func c15Apply(h *ConsistentHash, op []string) bool {
	switch {
	case op[0] == "add" && len(op) == 2:
		h.Add(c15Value(op[1]))
	case op[0] == "addr" && len(op) == 3:
		h.AddWithReplicas(c15Value(op[1]), verifh.Atoi(op[2]))
	case op[0] == "addw" && len(op) == 3:
		h.AddWithWeight(c15Value(op[1]), verifh.Atoi(op[2]))
	case op[0] == "remove" && len(op) == 2:
		h.Remove(c15Value(op[1]))
	default:
		return false
	}
	return true
}

const c15Mul = 1099511628211

func c15Digest(h *ConsistentHash) (uint64, uint64) {
	h.lock.RLock()
	defer h.lock.RUnlock()
	ck := uint64(14695981039346656037)
	for _, k := range h.keys {
		ck = ck*c15Mul + k
	}
	hs := make([]uint64, 0, len(h.ring))
	for x := range h.ring {
		hs = append(hs, x)
	}
	sort.Slice(hs, func(i, j int) bool { return hs[i] < hs[j] })
	rk := uint64(14695981039346656037)
	for _, x := range hs {
		rk = rk*c15Mul + x
		for _, n := range h.ring[x] {
			for _, b := range []byte(c15Token(n)) {
				rk = rk*c15Mul + uint64(b)
			}
			rk = rk*c15Mul + 255
		}
		rk = rk*c15Mul + 254
	}
	return ck, rk
}

var (
	c15Names = []string{
		"s:n", "s:n1", "s:n11", "s:n12", "s:n2", "s:node", "s:node1", "s:node10", "s:node11",
		"s:localhost:1", "s:localhost:11", "s:localhost:2", "i:1", "i:11", "i:12", "i:111", "s:1", "t:n1",
		"p:node1", "j:11", "s:a", "s:b", "s:srv-3", "s:10.0.0.7:6379", "s:10.0.0.7:63791", "i:-5", "i:0",
		"t:cache", "s:cache", "s:cache1", "s:", "s:0",
	}
	c15Replicas = []int{0, 1, 2, 5, 10, 11, 12, 20, 50, 99, 100, 101, 110, 150, -1, -100}
	c15Weights  = []int{0, 1, 9, 10, 11, 50, 80, 99, 100, 101, 150, 200, -5}
)

// c15Fixed are the histories on which the code violated the property before the fix
// (label coincidence "n"+"10" = "n1"+"0" under the default hash), replayed on every run.
func c15Fixed() []verifh.Section {
	probes := make([]string, 0, 200)
	for j := 0; j < 200; j++ {
		probes = append(probes, fmt.Sprintf("i:%d", j))
	}
	cfg := "ctor=default hash=murmur mod=0 replicas=100 probes=" + strings.Join(probes, ",")
	return []verifh.Section{
		{Cfg: cfg, Ops: []string{"addr s:node1 10", "addr s:node 5", "remove s:node", "get i:7"}},
		{Cfg: cfg, Ops: []string{"add s:node1", "add s:node", "remove s:node1", "add s:node1"}},
		{Cfg: cfg, Ops: []string{"addr s:node 5", "add s:node1", "add s:x", "remove s:node", "addw s:node1 50", "remove s:x"}},
		{Cfg: cfg, Ops: []string{"add i:1", "add i:11", "add s:1", "addr j:11 20", "remove t:1", "add p:11"}},
	}
}

func c15Gen(r *verifh.Rng) []verifh.Section {
	// consecutive seeds of verifh.NewRng are one draw apart on the same stream: fork for independent streams
	r = r.Fork()
	secs := c15Fixed()
	nsec := verifh.Scale(80, 1500)
	for i := 0; i < nsec; i++ {
		cfg := ""
		switch x := r.Intn(10); {
		case x < 3:
			cfg = "ctor=default hash=murmur mod=0 replicas=100"
		case x < 5:
			cfg = fmt.Sprintf("ctor=custom hash=murmur mod=0 replicas=%d", r.Pick(0, 100, 101, 120, 150, -7, 99))
		case x < 7:
			cfg = fmt.Sprintf("ctor=custom hash=fnv mod=0 replicas=%d", r.Pick(0, 100, 101, 130, 160))
		default:
			cfg = fmt.Sprintf("ctor=custom hash=coll mod=%d replicas=%d", r.Pick(7, 64, 256, 1024, 4096, 65536), r.Pick(0, 100, 110, 128))
		}
		nprobe := verifh.Scale(64, 96)
		probes := make([]string, 0, nprobe)
		base := r.Intn(100000)
		for j := 0; j < nprobe; j++ {
			switch r.Intn(4) {
			case 0:
				probes = append(probes, fmt.Sprintf("s:key%d", base+j))
			case 1:
				probes = append(probes, fmt.Sprintf("t:k%d", r.Intn(1000000)))
			default:
				probes = append(probes, fmt.Sprintf("i:%d", base+j))
			}
		}
		cfg += " probes=" + strings.Join(probes, ",")
		// a small population, biased to names whose virtual-node labels coincide ("n"+"10" = "n1"+"0")
		npop := r.Range(1, 6)
		pop := make([]string, 0, npop)
		start := r.Intn(len(c15Names))
		for j := 0; j < npop; j++ {
			if r.Chance(3, 4) {
				pop = append(pop, c15Names[(start+j)%len(c15Names)])
			} else {
				pop = append(pop, c15Names[r.Intn(len(c15Names))])
			}
		}
		var ops []string
		nops := r.Range(3, verifh.Scale(16, 36))
		var present []string
		for j := 0; j < nops; j++ {
			n := pop[r.Intn(len(pop))]
			x := r.Intn(100)
			if x >= 65 && x < 90 {
				// removals mostly hit a node that was added before (by token; reprs may still coincide)
				if len(present) > 0 && r.Chance(4, 5) {
					k := r.Intn(len(present))
					n = present[k]
					present = append(present[:k], present[k+1:]...)
				}
			} else if x < 65 {
				present = append(present, n)
			}
			switch {
			case x < 30:
				ops = append(ops, "add "+n)
			case x < 50:
				ops = append(ops, fmt.Sprintf("addr %s %d", n, c15Replicas[r.Intn(len(c15Replicas))]))
			case x < 65:
				ops = append(ops, fmt.Sprintf("addw %s %d", n, c15Weights[r.Intn(len(c15Weights))]))
			case x < 90:
				ops = append(ops, "remove "+n)
			default:
				ops = append(ops, fmt.Sprintf("get i:%d", r.Intn(1000000)))
			}
		}
		secs = append(secs, verifh.Section{Cfg: cfg, Ops: ops})
	}
	return secs
}

func TestVerifC15(t *testing.T) {
	secs := verifh.Sections(c15Gen)
	verifh.Run(t, secs, func(cfg verifh.Cfg) (func(op []string) string, func()) {
		h := c15New(cfg)
		var probes []any
		if p := cfg.Str("probes", ""); p != "" {
			for _, tok := range strings.Split(p, ",") {
				probes = append(probes, c15Value(tok))
			}
		}
		// current membership as the last add operation per repr (derived from the op text only)
		last := map[string][]string{}
		step := func(op []string) string {
			if len(op) == 2 && op[0] == "get" {
				return c15Get(h, c15Value(op[1]))
			}
			if !c15Apply(h, op) {
				return "bad-op"
			}
			r := repr(c15Value(op[1]))
			if op[0] == "remove" {
				delete(last, r)
			} else {
				last[r] = op
			}
			reprs := make([]string, 0, len(last))
			for k := range last {
				reprs = append(reprs, k)
			}
			sort.Strings(reprs)
			fresh := c15New(cfg)
			for _, k := range reprs {
				c15Apply(fresh, last[k])
			}
			g := make([]string, len(probes))
			f := make([]string, len(probes))
			for i, p := range probes {
				g[i] = c15Get(h, p)
				f[i] = c15Get(fresh, p)
			}
			ck, rk := c15Digest(h)
			return fmt.Sprintf("nk=%d nr=%d nn=%d ck=%d rk=%d g=%s f=%s", len(h.keys), len(h.ring), len(h.nodes),
				ck, rk, strings.Join(g, ","), strings.Join(f, ","))
		}
		return step, nil
	})
}
