//go:build verif

package fx

// C05 correspondence harness for the worker caps of fx.Stream.Walk (walkLimited) and of
// mr.ForEach / mr.MapReduceVoid (executeMappers), through their public APIs.
// Only concurrent histories: the user function stamps the history inside the guarded region;
// thread id = item number. The limiting channels are locals of the library functions, so the
// free capacity afterwards cannot be measured (free=unobservable); what is checked is the peak
// and that every worker left.

import (
	"fmt"
	"runtime"
	"testing"
	"time"

	"github.com/zeromicro/go-zero/core/logx"
	"github.com/zeromicro/go-zero/core/mr"
	c5 "github.com/zeromicro/go-zero/internal/verifc05"
	"github.com/zeromicro/go-zero/internal/verifh"
)

func c05GenFx(r *verifh.Rng) []verifh.Section {
	var secs []verifh.Section
	// WithWorkers(k) for k below minWorkers: the cfg carries the requested value (req) and the capacity the
	// decision table of the model derives from it (n); the driver re-derives n from req
	for _, kind := range []string{"fx", "mr"} {
		for _, req := range []int{0, -1, r.Range(-1000, -2), 1} {
			api := ""
			if kind == "mr" {
				api = "api=foreach "
			}
			secs = append(secs, verifh.Section{Cfg: fmt.Sprintf("kind=%s mode=conc n=1 req=%d", kind, req), Ops: []string{
				fmt.Sprintf("run %sitems=%d pan=0 rs=%d", api, r.Range(2, 60), r.Intn(1<<30)),
			}})
		}
	}
	for i := 0; i < verifh.Scale(6, 200); i++ {
		n := r.Pick(1, 2, 3, r.Range(1, 8), 16)
		secs = append(secs, verifh.Section{Cfg: fmt.Sprintf("kind=fx mode=conc n=%d", n), Ops: []string{
			fmt.Sprintf("run items=%d pan=%d rs=%d", r.Range(1, verifh.Scale(200, 600)), r.Pick(0, 10, 40), r.Intn(1<<30)),
			fmt.Sprintf("run items=%d pan=%d rs=%d", r.Range(1, 60), 100, r.Intn(1<<30)),
		}})
	}
	for i := 0; i < verifh.Scale(6, 200); i++ {
		n := r.Pick(1, 2, 3, r.Range(1, 8), 16)
		secs = append(secs, verifh.Section{Cfg: fmt.Sprintf("kind=mr mode=conc n=%d", n), Ops: []string{
			fmt.Sprintf("run api=foreach items=%d pan=%d rs=%d", r.Range(1, verifh.Scale(200, 600)), r.Pick(0, 0, 5), r.Intn(1<<30)),
			fmt.Sprintf("run api=void items=%d pan=0 rs=%d", r.Range(1, verifh.Scale(200, 600)), r.Intn(1<<30)),
			fmt.Sprintf("run api=foreach items=%d pan=%d rs=%d", r.Range(1, 60), r.Pick(30, 100), r.Intn(1<<30)),
		}})
	}
	return secs
}

func c05StartWorkers(cfg verifh.Cfg) (func(op []string) string, func()) {
	n := cfg.Int("n", 1)
	if cfg.Str("req", "") != "" {
		n = cfg.Int("req", 1) // what is handed to WithWorkers (may be 0 / negative: floored to minWorkers)
	}
	kind := cfg.Str("kind", "")
	step := func(op []string) string {
		if op[0] != "run" {
			return "bad-op"
		}
		p := c5.Params(op)
		items, pan := p.Int("items", 1), p.Int("pan", 0)
		base := runtime.NumGoroutine()
		h := c5.NewHist(0)
		ga := &c5.Gauge{}
		body := func(item int) {
			c5.Inside(h, ga, verifh.NewRng(uint64(p.Int("rs", 1))*1000003+uint64(item)), -1, item, pan)
		}
		ended := c5.Watchdog(c5.StuckAfter, func() {
			defer func() { _ = recover() }() // mr re-panics a mapper's panic in the caller
			switch kind {
			case "fx":
				From(func(source chan<- any) {
					for i := 0; i < items; i++ {
						source <- i
					}
				}).Walk(func(item any, pipe chan<- any) {
					body(item.(int))
					pipe <- item
				}, WithWorkers(n)).Done()
			case "mr":
				gen := func(source chan<- int) {
					for i := 0; i < items; i++ {
						source <- i
					}
				}
				if p.Str("api", "foreach") == "foreach" {
					mr.ForEach(gen, func(item int) { body(item) }, mr.WithWorkers(n))
				} else {
					_ = mr.MapReduceVoid(gen, func(item int, w mr.Writer[int], cancel func(error)) {
						body(item)
						w.Write(item)
					}, func(pipe <-chan int, cancel func(error)) {
						for range pipe {
						}
					}, mr.WithWorkers(n))
				}
			}
		})
		if !ended {
			return "stuck"
		}
		// after a re-panicked mapper panic the remaining workers are still finishing
		if !verifh.SettleGoroutines(base, 10*time.Second) {
			return "TIMEOUT-goroutines " + c5.RunLine(h, ga, -1)
		}
		return c5.RunLine(h, ga, -1)
	}
	return step, nil
}

func TestVerifC05Workers(t *testing.T) {
	logx.Disable()
	secs := verifh.Sections(c05GenFx)
	verifh.Run(t, secs, func(cfg verifh.Cfg) (func(op []string) string, func()) {
		switch cfg.Str("kind", "") {
		case "fx", "mr":
			return c05StartWorkers(cfg)
		}
		return func([]string) string { return "bad-kind" }, nil
	})
}
