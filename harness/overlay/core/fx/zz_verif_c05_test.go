//go:build verif

package fx

// C05 correspondence harness for the worker caps of fx.Stream.Walk (walkLimited) and of
// mr.ForEach / mr.MapReduceVoid (executeMappers), through their public APIs.
// Only concurrent histories: the user function stamps the history inside the guarded region;
// thread id = item number. The limiting channels are locals of the library functions, so the
// free capacity afterwards cannot be measured (free=unobservable); what is checked is the peak
// and that every worker left.

import (
	"fmt"
	"runtime"
	"strconv"
	"strings"
	"testing"
	"time"

	"github.com/zeromicro/go-zero/core/logx"
	"github.com/zeromicro/go-zero/core/mr"
	c5 "github.com/zeromicro/go-zero/internal/verifc05"
	"github.com/zeromicro/go-zero/internal/verifh"
)

func c05GenFx(r *verifh.Rng) []verifh.Section {
	var secs []verifh.Section
	// WithWorkers(k) for k below minWorkers: the cfg carries the requested value (req) and the capacity the
	// decision table of the model derives from it (n); the driver re-derives n from req
	for _, kind := range []string{"fx", "mr"} {
		for _, req := range []int{0, -1, r.Range(-1000, -2), 1} {
			api := ""
			if kind == "mr" {
				api = "api=foreach "
			}
			secs = append(secs, verifh.Section{Cfg: fmt.Sprintf("kind=%s mode=conc n=1 req=%d", kind, req), Ops: []string{
				fmt.Sprintf("run %sitems=%d pan=0 rs=%d", api, r.Range(2, 60), r.Intn(1<<30)),
			}})
		}
	}
	for i := 0; i < verifh.Scale(6, 70); i++ {
		n := r.Pick(1, 2, 3, r.Range(1, 8), 16)
		secs = append(secs, verifh.Section{Cfg: fmt.Sprintf("kind=fx mode=conc n=%d", n), Ops: []string{
			fmt.Sprintf("run items=%d pan=%d exits=%s rs=%d", r.Range(1, verifh.Scale(200, 600)), r.Pick(0, 10, 40), r.PickS("s", "seg", "e"), r.Intn(1<<30)),
			fmt.Sprintf("run items=%d pan=%d exits=%s rs=%d", r.Range(1, 60), 100, r.PickS("seg", "g", "se"), r.Intn(1<<30)),
		}})
	}
	for i := 0; i < verifh.Scale(6, 70); i++ {
		n := r.Pick(1, 2, 3, r.Range(1, 8), 16)
		secs = append(secs, verifh.Section{Cfg: fmt.Sprintf("kind=mr mode=conc n=%d", n), Ops: []string{
			fmt.Sprintf("run api=foreach items=%d pan=%d exits=%s rs=%d", r.Range(1, verifh.Scale(200, 600)), r.Pick(0, 0, 5), r.PickS("s", "g", "eg"), r.Intn(1<<30)),
			fmt.Sprintf("run api=void items=%d pan=0 rs=%d", r.Range(1, verifh.Scale(200, 600)), r.Intn(1<<30)),
			fmt.Sprintf("run api=foreach items=%d pan=%d exits=%s rs=%d", r.Range(1, 60), r.Pick(30, 100), r.PickS("seg", "g", "e"), r.Intn(1<<30)),
		}})
	}
	secs = append(secs, c05GenOptSeqs(r)...)
	return secs
}

// c05OptClass draws one option set of a stream: none (defaultWorkers), WithWorkers small / exactly the default /
// above the default / <= 0 (floored to minWorkers), UnlimitedWorkers (fx only), and combinations (last
// WithWorkers wins; unlimited is sticky within ONE option list).
func c05OptClass(r *verifh.Rng, lib string) string {
	w := func(k int) string { return "w" + strconv.Itoa(k) }
	cls := []string{"none", "none", w(1), w(r.Range(2, 8)), w(r.Range(2, 8)), w(16), w(r.Range(17, 40)), w(0), w(-r.Range(1, 1000)),
		w(r.Range(9, 30)) + "+" + w(r.Range(1, 4)), w(r.Range(1, 4)) + "+" + w(r.Range(17, 24))}
	if lib == "fx" {
		cls = append(cls, "unl", "unl", "unl+"+w(r.Range(1, 6)), w(r.Range(1, 6))+"+unl")
	}
	return cls[r.Intn(len(cls))]
}

// c05OptCap is the harness' own estimate of the cap of an option list (-1: unlimited). Only used to size the
// run and to know when it is saturated; the verdict is the driver's (streamCap).
func c05OptCap(opt string) int {
	c, unl := 16, false
	if opt != "none" {
		for _, o := range strings.Split(opt, "+") {
			if o == "unl" {
				unl = true
			} else if k, err := strconv.Atoi(strings.TrimPrefix(o, "w")); err == nil {
				if k < 1 {
					k = 1
				}
				c = k
			}
		}
	}
	if unl {
		return -1
	}
	return c
}

// sequences of streams IN ONE PROCESS with different option sets: every stream is measured against its own cap
// (state shared between streams — defaults structs, cached options — shows as a later stream running with
// an earlier stream's options).
func c05GenOptSeqs(r *verifh.Rng) []verifh.Section {
	var secs []verifh.Section
	for _, lib := range []string{"fx", "mr"} {
		apis := []string{"walk", "map", "filter", "parallel"}
		if lib == "mr" {
			apis = []string{"foreach", "void", "mapreduce", "chan"}
		}
		for i := 0; i < verifh.Scale(7, 45); i++ {
			var ops []string
			k := r.Range(3, 7)
			for j := 0; j < k; j++ {
				opt := c05OptClass(r, lib)
				// fixed openings: the interesting orders appear in every run
				switch {
				case i == 0 && lib == "fx" && j < 3:
					opt = []string{"unl", "w" + strconv.Itoa(r.Range(1, 5)), "none"}[j]
				case i == 1 && j < 3:
					opt = []string{"w" + strconv.Itoa(r.Range(17, 40)), "none", "w" + strconv.Itoa(r.Range(1, 5))}[j]
				case i == 2 && j < 2:
					opt = []string{"w1", "none"}[j]
				}
				c := c05OptCap(opt)
				items := r.Range(18, 30)
				if c > 0 {
					items = r.Pick(c+1, c+r.Range(1, 6), c+r.Range(1, 6), r.Range(1, c))
				}
				pan := r.Pick(0, 0, 20)
				if lib == "mr" {
					pan = r.Pick(0, 0, 0, 10)
				}
				api := apis[r.Intn(len(apis))]
				if j == 0 {
					api = apis[i%len(apis)] // every entry point appears in every run
				}
				if lib == "mr" && (r.Chance(1, 5) || (j == 1 && i < 2)) {
					// mr.Finish / FinishVoid(fns...) take no options: they ask for WithWorkers(len(fns)) themselves, so
					// the cap of the run is the number of functions — written as the option the driver derives it from
					api = r.PickS("finish", "finishvoid")
					items = r.Range(1, 12)
					opt = "w" + strconv.Itoa(items)
				}
				ops = append(ops, fmt.Sprintf("run opt=%s api=%s items=%d pan=%d exits=%s rs=%d", opt, api, items, pan, r.PickS("s", "seg", "g"), r.Intn(1<<30)))
			}
			secs = append(secs, verifh.Section{Cfg: fmt.Sprintf("kind=%sopts mode=conc", lib), Ops: ops})
		}
	}
	return secs
}

// c05StartOptSeq executes the streams of one `fxopts` / `mropts` section one after the other in this process.
func c05StartOptSeq(cfg verifh.Cfg) (func(op []string) string, func()) {
	lib := strings.TrimSuffix(cfg.Str("kind", ""), "opts")
	step := func(op []string) string {
		if op[0] != "run" {
			return "bad-op"
		}
		p := c5.Params(op)
		items, pan, opt, api := p.Int("items", 1), p.Int("pan", 0), p.Str("opt", "none"), p.Str("api", "")
		var fxo []Option
		var mro []mr.Option
		if opt != "none" {
			for _, o := range strings.Split(opt, "+") {
				if o == "unl" && lib == "fx" {
					fxo = append(fxo, UnlimitedWorkers())
				} else if k, err := strconv.Atoi(strings.TrimPrefix(o, "w")); err == nil && strings.HasPrefix(o, "w") {
					fxo = append(fxo, WithWorkers(k))
					mro = append(mro, mr.WithWorkers(k))
				} else {
					return "bad-opt"
				}
			}
		}
		base := runtime.NumGoroutine()
		sat := c5.NewSaturator()
		body := func(item int) {
			sat.BodyK(verifh.NewRng(uint64(p.Int("rs", 1))*1000003+uint64(item)), item, pan, p.Str("exits", "s"))
		}
		full := func() bool { return c5.BlockedIn("fx.Stream.walkLimited", "chan send") }
		if lib == "mr" {
			full = func() bool { return c5.BlockedIn("mr.executeMappers", "select") }
		}
		stop, watched := make(chan struct{}), make(chan struct{})
		go func() {
			defer close(watched)
			sat.Watch(c05OptCap(opt), items, full, 5*time.Second, stop)
		}()
		src := func(source chan<- any) {
			for i := 0; i < items; i++ {
				source <- i
			}
		}
		gen := func(source chan<- int) {
			for i := 0; i < items; i++ {
				source <- i
			}
		}
		ended := c5.Watchdog(c5.StuckAfter, func() {
			defer func() { _ = recover() }() // mr re-panics a mapper's panic in the caller
			switch lib + "/" + api {
			case "fx/walk":
				From(src).Walk(func(item any, pipe chan<- any) {
					body(item.(int))
					pipe <- item
				}, fxo...).Done()
			case "fx/map":
				From(src).Map(func(item any) any {
					body(item.(int))
					return item
				}, fxo...).Done()
			case "fx/filter":
				From(src).Filter(func(item any) bool {
					body(item.(int))
					return item.(int)%2 == 0
				}, fxo...).Done()
			case "fx/parallel":
				From(src).Parallel(func(item any) { body(item.(int)) }, fxo...)
			case "mr/foreach":
				mr.ForEach(gen, func(item int) { body(item) }, mro...)
			case "mr/void":
				_ = mr.MapReduceVoid(gen, func(item int, w mr.Writer[int], cancel func(error)) {
					body(item)
					w.Write(item)
				}, func(pipe <-chan int, cancel func(error)) {
					for range pipe {
					}
				}, mro...)
			case "mr/mapreduce":
				_, _ = mr.MapReduce(gen, func(item int, w mr.Writer[int], cancel func(error)) {
					body(item)
					w.Write(item)
				}, func(pipe <-chan int, w mr.Writer[int], cancel func(error)) {
					k := 0
					for range pipe {
						k++
					}
					w.Write(k)
				}, mro...)
			case "mr/chan":
				source := make(chan int)
				go func() {
					defer close(source)
					for i := 0; i < items; i++ {
						source <- i
					}
				}()
				_, _ = mr.MapReduceChan(source, func(item int, w mr.Writer[int], cancel func(error)) {
					body(item)
					w.Write(item)
				}, func(pipe <-chan int, w mr.Writer[int], cancel func(error)) {
					k := 0
					for range pipe {
						k++
					}
					w.Write(k)
				}, mro...)
			case "mr/finish":
				fns := make([]func() error, items)
				for i := range fns {
					i := i
					fns[i] = func() error { body(i); return nil }
				}
				_ = mr.Finish(fns...)
			case "mr/finishvoid":
				fns := make([]func(), items)
				for i := range fns {
					i := i
					fns[i] = func() { body(i) }
				}
				mr.FinishVoid(fns...)
			default:
				panic("bad-api")
			}
		})
		close(stop)
		<-watched
		if !ended {
			return "stuck"
		}
		if !verifh.SettleGoroutines(base, 10*time.Second) {
			return "TIMEOUT-goroutines " + sat.Line()
		}
		return sat.Line()
	}
	return step, nil
}

func c05StartWorkers(cfg verifh.Cfg) (func(op []string) string, func()) {
	n := cfg.Int("n", 1)
	if cfg.Str("req", "") != "" {
		n = cfg.Int("req", 1) // what is handed to WithWorkers (may be 0 / negative: floored to minWorkers)
	}
	kind := cfg.Str("kind", "")
	step := func(op []string) string {
		if op[0] != "run" {
			return "bad-op"
		}
		p := c5.Params(op)
		items, pan := p.Int("items", 1), p.Int("pan", 0)
		base := runtime.NumGoroutine()
		h := c5.NewHist(0)
		ga := &c5.Gauge{}
		body := func(item int) {
			c5.InsideK(h, ga, verifh.NewRng(uint64(p.Int("rs", 1))*1000003+uint64(item)), -1, item, pan, p.Str("exits", "s"))
		}
		// no saturator here: the history moves as long as items flow, a run whose dispatcher waits for a slot that
		// never comes back is given up after the no-progress window
		ended := c5.WatchdogProgress(h, c5.StuckIdle, c5.StuckAfter, func() {
			defer func() { _ = recover() }() // mr re-panics a mapper's panic in the caller
			switch kind {
			case "fx":
				From(func(source chan<- any) {
					for i := 0; i < items; i++ {
						source <- i
					}
				}).Walk(func(item any, pipe chan<- any) {
					body(item.(int))
					pipe <- item
				}, WithWorkers(n)).Done()
			case "mr":
				gen := func(source chan<- int) {
					for i := 0; i < items; i++ {
						source <- i
					}
				}
				if p.Str("api", "foreach") == "foreach" {
					mr.ForEach(gen, func(item int) { body(item) }, mr.WithWorkers(n))
				} else {
					_ = mr.MapReduceVoid(gen, func(item int, w mr.Writer[int], cancel func(error)) {
						body(item)
						w.Write(item)
					}, func(pipe <-chan int, cancel func(error)) {
						for range pipe {
						}
					}, mr.WithWorkers(n))
				}
			}
		})
		if !ended {
			return "stuck"
		}
		// after a re-panicked mapper panic the remaining workers are still finishing
		if !verifh.SettleGoroutines(base, 10*time.Second) {
			return "TIMEOUT-goroutines " + c5.RunLine(h, ga, -1)
		}
		return c5.RunLine(h, ga, -1)
	}
	return step, nil
}

func TestVerifC05Workers(t *testing.T) {
	logx.Disable()
	secs := verifh.Sections(c05GenFx)
	verifh.Run(t, secs, func(cfg verifh.Cfg) (func(op []string) string, func()) {
		switch cfg.Str("kind", "") {
		case "fx", "mr":
			return c05StartWorkers(cfg)
		case "fxopts", "mropts":
			return c05StartOptSeq(cfg)
		}
		return func([]string) string { return "bad-kind" }, nil
	})
}
