//go:build verif

package collection

// C12 correspondence harnesses, one operation per trace line, same op language in every mode:
//
//	TestVerifC12WB  mode=wb   the run loop is stopped and its handlers (setTask, moveTask, removeTask, onTick,
//	                          drainAll) are called directly, exactly as the loop's select cases call them; a
//	                          panic inside a handler is recorded as an observation instead of killing the process
//	TestVerifC12    mode=api  the real TimingWheel only through its public API (NewTimingWheelWithTicker,
//	                          SetTimer, MoveTimer, RemoveTimer, Drain, Stop) with a harness-owned ticker:
//	                          tk=sync an unbuffered ticker, tk=fake timex.NewFakeTicker
//	                mode=ctor NewTimingWheel's argument check
//
// Generation (c12Gen*) is separate from execution: the executors are driven only by the op text.

import (
	"fmt"
	"runtime"
	"sort"
	"strconv"
	"strings"
	"sync"
	"sync/atomic"
	"testing"
	"time"

	"github.com/zeromicro/go-zero/core/mathx"
	"github.com/zeromicro/go-zero/core/timex"
	"github.com/zeromicro/go-zero/internal/verifh"
)

// c12Ticker hands ticks over an unbuffered channel: a send returns once the wheel's event loop
// has received the tick.
type c12Ticker struct {
	c     chan time.Time
	stops int32
}

func (t *c12Ticker) Chan() <-chan time.Time { return t.c }
func (t *c12Ticker) Stop()                  { atomic.AddInt32(&t.stops, 1) }

// c12Fake is timex.NewFakeTicker with a counter on Stop.
type c12Fake struct {
	timex.FakeTicker
	stops int32
}

func (t *c12Fake) Stop() {
	atomic.AddInt32(&t.stops, 1)
	t.FakeTicker.Stop()
}

// ---------------------------------------------------------------------------------------------- generation

type c12GenCfg struct {
	api bool // nil keys, delays <= 0, Stop and calls after Stop
}

func c12WheelSize(r *verifh.Rng) int {
	switch r.Intn(6) {
	case 0:
		return 1
	case 1:
		return 2
	case 2:
		return r.Range(3, 5)
	case 3:
		return 10
	case 4:
		return r.Range(6, 40)
	default:
		return r.Range(41, 300)
	}
}

// c12Ops generates the op list of one section. It keeps a rough shadow of where each key was last
// placed (absolute tick of its slot) only to aim delays at interesting slots; nothing depends on it.
func c12Ops(r *verifh.Rng, n, interval int, g c12GenCfg) []string {
	nkeys := r.Range(1, 5)
	if r.Chance(1, 6) {
		nkeys = r.Range(6, 40) // many timers per slot
	}
	var ops []string
	arms := 0                 // scripts registered so far (see the arm class below)
	big := false              // the big re-entrant Drain class is used once per section
	abs := 0                  // ticks issued so far
	phys := map[int]int{}     // key -> absolute tick at which the slot it was last placed in is scanned
	tick := func(c int) {
		for j := 0; j < c; j++ {
			ops = append(ops, "tick")
		}
		abs += c
	}
	// advance the wheel so that tickedPos sits anywhere, including just before/after wrap-around
	tick(r.Pick(0, 1, n-1, n, n+1, r.Intn(2*n+1)))
	steps := func(k int) int {
		var s int
		switch r.Intn(12) {
		case 11:
			// far beyond 32 bits (never due within the section; re-timed, removed or drained later)
			s = r.Pick(1<<31-1, 1<<31, 1<<32+r.Range(0, 2*n), 1<<40+r.Range(0, n), 1<<52)
		case 0:
			s = 1
		case 1:
			s = r.Range(1, n)
		case 2:
			s = n
		case 3:
			s = n + 1
		case 4:
			s = r.Range(1, 2*n+1)
		case 5:
			s = r.Range(n, 5*n+3)
		case 6:
			s = r.Pick(n-1, 2*n-1, 2*n, 2*n+1, 3*n)
		case 7, 8:
			// the slot the key was last placed in (same physical slot), possibly whole revolutions later
			if p, ok := phys[k]; ok {
				s = ((p-abs)%n+n)%n + n*r.Intn(3)
			} else {
				s = r.Range(1, 3*n+2)
			}
		case 9:
			// one slot before / after the slot the key was last placed in
			if p, ok := phys[k]; ok {
				s = ((p-abs+r.Pick(-1, 1))%n+n)%n + n*r.Intn(3)
			} else {
				s = r.Range(1, n+1)
			}
		default:
			s = r.Range(1, 3*n+2)
		}
		if s < 1 {
			s = n
		}
		return s
	}
	delay := func(k int) int {
		s := steps(k)
		phys[k] = abs + s
		return s*interval + r.Intn(interval)
	}
	key := func() int { return r.Intn(nkeys) }
	set := func(k int) { ops = append(ops, fmt.Sprintf("set %d %d %d", k, r.Intn(1000), delay(k))) }
	if nkeys > 5 {
		for k := 0; k < nkeys; k++ {
			set(k) // start with every key pending
		}
	}
	move := func(k int) { ops = append(ops, fmt.Sprintf("move %d %d", k, delay(k))) }
	remove := func(k int) { ops = append(ops, fmt.Sprintf("remove %d", k)) }
	someTicks := func() {
		switch r.Intn(4) {
		case 0:
			tick(1)
		case 1:
			tick(r.Range(1, n+2))
		case 2:
			tick(r.Range(0, 3))
		default:
			tick(r.Pick(n-1, n, n+1, 2*n))
		}
	}
	nops := r.Range(4, verifh.Scale(50, 80))
	for j := 0; j < nops; j++ {
		k := key()
		switch x := r.Intn(100); {
		case x < 18:
			set(k)
		case x < 38:
			move(k)
		case x < 44:
			remove(k)
		case x < 47:
			// delay below one interval (outside the property's quantifier, still compared with the model)
			if interval > 1 {
				if r.Bool() {
					ops = append(ops, fmt.Sprintf("move %d %d", k, r.Range(1, interval-1)))
				} else {
					ops = append(ops, fmt.Sprintf("set %d %d %d", k, r.Intn(1000), r.Range(1, interval-1)))
					phys[k] = abs + 1
				}
			}
		case x < 49:
			ops = append(ops, "drain")
			if r.Bool() {
				set(k) // the key is used again right after Drain
			}
		case x < 52:
			// re-timing chain on one key: set, lazy move, (ticks), move again, …
			set(k)
			for c := r.Range(1, 3); c > 0; c-- {
				if r.Bool() {
					someTicks()
				}
				if r.Chance(1, 4) {
					set(k)
				} else {
					move(k)
				}
			}
		case x < 55:
			// a key is removed (or moved to an earlier slot) and set again while the old entry is still parked
			set(k)
			if r.Bool() {
				remove(k)
			} else {
				ops = append(ops, fmt.Sprintf("move %d %d", k, interval*r.Range(1, 2)))
				tick(r.Range(1, 2))
			}
			set(k)
			someTicks()
			switch r.Intn(3) {
			case 0:
				remove(k)
			case 1:
				move(k)
			default:
				set(k)
			}
		case x == 66 && g.api && !big:
			// Drain with more pending timers than drainWorkers whose callbacks all call back into the wheel (what
			// cleaner.go's clean does at shutdown): the hand-off to the workers must not block the run loop
			big = true
			m := r.Pick(9, 9, 10, 12, 17, 30)
			for i := 0; i < m; i++ {
				kk := 200 + i
				switch r.Intn(5) {
				case 0:
					ops = append(ops, fmt.Sprintf("arm %d remove %d", kk, kk))
				case 1:
					ops = append(ops, fmt.Sprintf("arm %d move %d %d", kk, kk, delay(kk)))
				default:
					ops = append(ops, fmt.Sprintf("arm %d set %d %d %d", kk, kk, r.Intn(1000), delay(kk)))
				}
				ops = append(ops, fmt.Sprintf("set %d %d %d", kk, r.Intn(1000), delay(kk)))
			}
			if r.Chance(1, 3) {
				someTicks()
			}
			ops = append(ops, "drain")
			someTicks()
		case x >= 60 && x < 66 && g.api && arms < 6:
			// a callback (execute or Drain) that calls back into the wheel while it runs: it re-arms its own key
			// (cleaner.go's clean), removes it (cache.go's expiry callback), moves it (a no-op: the key is gone), or
			// touches a key of its own (100+k; a delay below one interval there runs a nested callback at once).
			// (the class above covers many such callbacks in one Drain)
			arms++
			tgt := k
			if r.Chance(1, 3) {
				tgt = 100 + k
			}
			var call string
			switch r.Intn(8) {
			case 0, 1, 2, 3:
				call = fmt.Sprintf("set %d %d %d", tgt, r.Intn(1000), delay(tgt))
			case 4:
				call = fmt.Sprintf("move %d %d", tgt, delay(tgt))
			case 5:
				call = fmt.Sprintf("remove %d", tgt)
			case 6:
				call = fmt.Sprintf("move %d %d", tgt, r.Range(1, interval))
			default:
				call = fmt.Sprintf("set %d %d %d", tgt, r.Intn(1000), r.Pick(0, -1, 1, interval))
			}
			ops = append(ops, fmt.Sprintf("arm %d %s", k, call))
			if r.Chance(2, 3) {
				set(k)
			}
			if tgt != k && r.Bool() {
				set(tgt)
			}
			switch r.Intn(4) {
			case 0:
				ops = append(ops, "drain")
			case 1:
				someTicks()
			case 2:
				ops = append(ops, fmt.Sprintf("move %d %d", k, r.Range(1, interval)))
			}
		case x < 60 && g.api:
			switch r.Intn(6) {
			case 0:
				ops = append(ops, fmt.Sprintf("set nil %d %d", r.Intn(1000), delay(k)))
			case 1:
				ops = append(ops, fmt.Sprintf("move nil %d", delay(k)))
			case 2:
				ops = append(ops, "remove nil")
			case 3:
				ops = append(ops, fmt.Sprintf("set %d %d %d", k, r.Intn(1000), r.Pick(0, -1, -interval, -5*interval)))
			case 4:
				ops = append(ops, fmt.Sprintf("move %d %d", k, r.Pick(0, -1, -interval, -5*interval)))
			default:
				ops = append(ops, fmt.Sprintf("set nil %d %d", r.Intn(1000), r.Pick(0, -1)))
			}
		default:
			burst := 1
			if r.Chance(1, 4) {
				burst = r.Range(1, n+2)
			}
			tick(burst)
		}
	}
	if g.api && r.Chance(1, 3) {
		// Stop with timers still pending, then everything again on the stopped wheel
		ops = append(ops, "stop")
		for c := r.Range(1, 8); c > 0; c-- {
			k := key()
			switch r.Intn(9) {
			case 0:
				set(k)
			case 1:
				move(k)
			case 2:
				remove(k)
			case 3:
				ops = append(ops, "drain")
			case 4:
				ops = append(ops, "set nil 1 "+fmt.Sprint(interval))
			case 5:
				ops = append(ops, fmt.Sprintf("move %d 0", k))
			case 6:
				ops = append(ops, "remove nil")
			default:
				ops = append(ops, "tick")
			}
		}
		if r.Chance(1, 4) {
			ops = append(ops, "stop", "tick")
		}
		return ops
	}
	// run out pending timers
	tick(r.Pick(2, 2, n+1))
	return ops
}

// c12LongOps is one long history on a small wheel: bursts of timers on fresh keys (up to 1500 pending at once,
// many per slot) that are re-timed, removed and fired, more than 10000 timers in total, so that the timers
// map goes through SafeMap's deletion generations; then the usual operations on the aged wheel.
func c12LongOps(r *verifh.Rng, n, interval int) []string {
	var ops []string
	key, total := 100, 0
	tick := func(c int) {
		for j := 0; j < c; j++ {
			ops = append(ops, "tick")
		}
	}
	d := func(maxSteps int) int { return r.Range(1, maxSteps)*interval + r.Intn(interval) }
	goal := 10500 + r.Intn(1500)
	for total < goal {
		b := r.Pick(20, 200, 700, 1200, 1500)
		base := key
		for i := 0; i < b; i++ {
			ops = append(ops, fmt.Sprintf("set %d %d %d", key, r.Intn(1000), d(2*n)))
			key++
		}
		total += b
		for j := 0; j < b/10; j++ {
			k := base + r.Intn(b)
			switch r.Intn(4) {
			case 0:
				ops = append(ops, fmt.Sprintf("remove %d", k))
			case 1:
				ops = append(ops, fmt.Sprintf("set %d %d %d", k, r.Intn(1000), d(3*n)))
			default:
				ops = append(ops, fmt.Sprintf("move %d %d", k, d(3*n)))
			}
			if r.Chance(1, 8) {
				tick(1)
			}
		}
		if r.Chance(1, 10) {
			ops = append(ops, "drain")
		}
		tick(r.Range(1, 3*n+1))
	}
	tick(3*n + 1)
	return append(ops, c12Ops(r, n, interval, c12GenCfg{})...)
}

func c12GenLong(r *verifh.Rng, mode, tk string) verifh.Section {
	n := r.Pick(1, 2, 3, 7, 10)
	interval := r.Pick(1, 7)
	cfg := fmt.Sprintf("n=%d interval=%d mode=%s long=1", n, interval, mode)
	if tk != "" {
		cfg += " tk=" + tk
	}
	return verifh.Section{Cfg: cfg, Ops: c12LongOps(r, n, interval)}
}

func c12GenSections(r *verifh.Rng, nsec int, mode string, tks []string, g c12GenCfg) []verifh.Section {
	var secs []verifh.Section
	for i := 0; i < nsec; i++ {
		n := c12WheelSize(r)
		interval := r.Pick(1, 7, 1000)
		cfg := fmt.Sprintf("n=%d interval=%d mode=%s", n, interval, mode)
		if len(tks) > 0 {
			cfg += " tk=" + tks[i%len(tks)]
		}
		secs = append(secs, verifh.Section{Cfg: cfg, Ops: c12Ops(r, n, interval, g)})
	}
	return secs
}

func c12GenWB(r *verifh.Rng) []verifh.Section {
	secs := c12GenSections(r, verifh.Scale(90, 3000), "wb", nil, c12GenCfg{})
	for i := verifh.Scale(1, 3); i > 0; i-- {
		secs = append(secs, c12GenLong(r, "wb", ""))
	}
	return secs
}

func c12GenAPI(r *verifh.Rng) []verifh.Section {
	secs := c12GenSections(r, verifh.Scale(90, 2400), "api", []string{"sync", "fake", "sync"}, c12GenCfg{api: true})
	for i := verifh.Scale(1, 2); i > 0; i-- {
		secs = append(secs, c12GenLong(r, "api", r.PickS("sync", "fake")))
	}
	// NewTimingWheel's argument check
	var ops []string
	for i := 0; i < 24; i++ {
		iv := r.Pick(-1000, -1, 0, 1, 1000)
		n := r.Pick(-3, -1, 0, 1, 2, 300)
		if r.Chance(1, 2) {
			iv = r.Pick(1, 1000)
		}
		if r.Chance(1, 2) {
			n = r.Pick(1, 10)
		}
		ops = append(ops, fmt.Sprintf("new %d %d %d", iv, n, r.Pick(0, 0, 1)))
	}
	return append(secs, verifh.Section{Cfg: "mode=ctor", Ops: ops})
}

// ---------------------------------------------------------------------------------------------- execution

type c12Sink struct {
	mu    sync.Mutex
	fired []string
	inner []string
	arms  map[int][][]string // key -> queue of calls to issue from inside the next callbacks of that key
	tw    *TimingWheel
}

// exec is the execute / Drain callback. If a script is registered for the key, its call is issued on the wheel
// from inside the callback, before the callback returns.
func (s *c12Sink) exec(k, v any) {
	s.mu.Lock()
	s.fired = append(s.fired, fmt.Sprintf("%v:%v", k, v))
	var call []string
	ki, isInt := k.(int)
	if isInt && len(s.arms[ki]) > 0 {
		call = s.arms[ki][0]
		s.arms[ki] = s.arms[ki][1:]
	}
	s.mu.Unlock()
	if call == nil {
		return
	}
	var err error
	switch call[0] {
	case "set":
		err = s.tw.SetTimer(c12Key(call[1]), verifh.Atoi(call[2]), time.Duration(verifh.Atoi(call[3])))
	case "move":
		err = s.tw.MoveTimer(c12Key(call[1]), time.Duration(verifh.Atoi(call[2])))
	case "remove":
		err = s.tw.RemoveTimer(c12Key(call[1]))
	}
	res := "ok"
	if err != nil {
		res = c12Err(err)
	}
	// stay inside the callback until the run loop has handled the call (it has when it accepts the next request)
	_ = s.tw.RemoveTimer(c12Sentinel)
	s.mu.Lock()
	s.inner = append(s.inner, fmt.Sprintf("in%d=%s", ki, res))
	s.mu.Unlock()
}

// entered / returned: callbacks that have started / whose inner call (if any) has returned
func (s *c12Sink) progress() (entered, returned, waiting int) {
	s.mu.Lock()
	defer s.mu.Unlock()
	for _, q := range s.arms {
		waiting += len(q)
	}
	return len(s.fired), len(s.inner), waiting
}

func (s *c12Sink) arm(k int, call []string) {
	s.mu.Lock()
	if s.arms == nil {
		s.arms = map[int][][]string{}
	}
	s.arms[k] = append(s.arms[k], call)
	s.mu.Unlock()
}

func (s *c12Sink) count() int {
	s.mu.Lock()
	defer s.mu.Unlock()
	return len(s.fired) + len(s.inner)
}

// collect joins the callback goroutines of the last operation (the goroutine count is back at its resting
// value *base) and returns what they were handed. A resting value measured too high (some unrelated goroutine
// was still exiting) corrects itself: the count can never be below the true resting value.
func (s *c12Sink) collect(base *int) string {
	// deterministic join: every other goroutine of the process is blocked (goroutine dump), so every callback of
	// the operation has run to its end (or is blocked for good: then the ceiling reports `stuck`)
	if !c12Settled && !c12Quiesce() {
		return "STUCK-goroutines"
	}
	c12Settled = false
	_ = base
	s.mu.Lock()
	out := s.fired
	in := s.inner
	s.fired, s.inner = nil, nil
	s.mu.Unlock()
	sort.Slice(out, func(i, j int) bool { return c12Less(out[i], out[j]) })
	sort.SliceStable(in, func(i, j int) bool {
		var a, b int
		fmt.Sscanf(in[i], "in%d=", &a)
		fmt.Sscanf(in[j], "in%d=", &b)
		if a != b {
			return a < b
		}
		return in[i] < in[j] // callbacks of one operation run concurrently: canonical order
	})
	return strings.Join(append(out, in...), " ")
}

// c12Less orders `k:v` tokens numerically by key, then value (the driver prints the model's pairs in this order).
func c12Less(a, b string) bool {
	var ak, av, bk, bv int
	if n, _ := fmt.Sscanf(a, "%d:%d", &ak, &av); n != 2 {
		return a < b
	}
	if n, _ := fmt.Sscanf(b, "%d:%d", &bk, &bv); n != 2 {
		return a < b
	}
	if ak != bk {
		return ak < bk
	}
	return av < bv
}

func c12Key(s string) any {
	if s == "nil" {
		return nil
	}
	return verifh.Atoi(s)
}

func c12Err(err error) string {
	switch err {
	case ErrArgument:
		return "err=argument"
	case ErrClosed:
		return "err=closed"
	}
	return "err=other:" + strings.ReplaceAll(err.Error(), " ", "_")
}

const c12Sentinel = -1

// c12Worker runs the calls of one section on one long-lived goroutine and gives up on a call after a few
// seconds (a changed wheel may block a public method or the ticker forever). No goroutine is created per
// call, so the goroutine count used to join the wheel's callback goroutines stays exact. A panic of the
// call is re-raised in the caller so that verifh records it.
type c12Worker struct {
	req chan func()
	res chan any
}

func newC12Worker() *c12Worker {
	w := &c12Worker{req: make(chan func()), res: make(chan any, 1)}
	go func() {
		for f := range w.req {
			func() {
				defer func() { w.res <- recover() }()
				f()
			}()
		}
	}()
	return w
}

func (w *c12Worker) do(f func()) bool {
	w.req <- f
	// no wall clock: wait until every other goroutine is blocked; then the call has returned (its result is in the
	// buffered channel) or it never will (everything is blocked: stuck). c12Quiesce's ceiling only detects livelock.
	for {
		if !c12Quiesce() {
			return false
		}
		select {
		case p := <-w.res:
			if p != nil {
				panic(p)
			}
			c12Settled = true
			return true
		default:
			return false
		}
	}
}

// c12Settled: the last thing the harness did was a worker call that returned with every goroutine blocked (nothing has
// run since): collect need not look again.
var c12Settled bool

// c12RunLoops counts the goroutines that are inside TimingWheel.run.
func c12RunLoops() int {
	n := 0
	for _, g := range c12Goroutines() {
		if i := strings.Index(g, "\ncreated by "); i >= 0 {
			g = g[:i]
		}
		if strings.Contains(g, "collection.(*TimingWheel).run(") {
			n++
		}
	}
	return n
}

// c12Base is the number of goroutines at rest: the minimum over a few scheduler rounds, so that a goroutine
// that is just exiting is not counted.
func c12Base() int {
	base := runtime.NumGoroutine()
	for i := 0; i < 50; i++ {
		runtime.Gosched()
		if n := runtime.NumGoroutine(); n < base {
			base = n
		}
	}
	return base
}

// TestVerifC12WB: white box. The wheel is built by the real constructor, its run loop is stopped, and the
// loop's handlers are called directly with the requests the public methods would have sent.
func TestVerifC12WB(t *testing.T) {
	secs := verifh.Sections(c12GenWB)
	verifh.Run(t, secs, func(cfg verifh.Cfg) (func(op []string) string, func()) {
		n := cfg.Int("n", 1)
		interval := time.Duration(cfg.Int("interval", 1))
		sink := &c12Sink{}
		before := c12Base()
		tw, err := NewTimingWheelWithTicker(interval, n, sink.exec, &c12Ticker{c: make(chan time.Time)})
		if err != nil {
			panic(err)
		}
		tw.Stop()
		if !c12Quiesce() || c12RunLoops() != 0 {
			panic("run loop did not return after Stop")
		}
		_ = before
		base := c12Base()
		step := func(op []string) string {
			switch op[0] {
			case "set":
				if op[1] == "nil" || verifh.Atoi(op[3]) <= 0 {
					return "bad-op"
				}
				task := timingEntry{
					baseEntry: baseEntry{delay: time.Duration(verifh.Atoi(op[3])), key: verifh.Atoi(op[1])},
					value:     verifh.Atoi(op[2]),
				}
				tw.setTask(&task)
			case "move":
				if op[1] == "nil" || verifh.Atoi(op[2]) <= 0 {
					return "bad-op"
				}
				tw.moveTask(baseEntry{delay: time.Duration(verifh.Atoi(op[2])), key: verifh.Atoi(op[1])})
			case "remove":
				if op[1] == "nil" {
					return "bad-op"
				}
				tw.removeTask(verifh.Atoi(op[1]))
			case "tick":
				tw.onTick()
			case "drain":
				tw.drainAll(sink.exec)
			default:
				return "bad-op" // also `arm`: the white-box mode has no run loop a callback could call
			}
			return sink.collect(&base)
		}
		return step, func() { c12Quiesce() }
	})
}

// TestVerifC12: black box through the public API.
func TestVerifC12(t *testing.T) {
	secs := verifh.Sections(c12GenAPI)
	verifh.Run(t, secs, func(cfg verifh.Cfg) (func(op []string) string, func()) {
		if cfg.Str("mode", "api") == "ctor" {
			return c12CtorStep, nil
		}
		n := cfg.Int("n", 1)
		interval := time.Duration(cfg.Int("interval", 1))
		sink := &c12Sink{}
		var syncT *c12Ticker
		var fakeT *c12Fake
		var ticker timex.Ticker
		if cfg.Str("tk", "sync") == "fake" {
			fakeT = &c12Fake{FakeTicker: timex.NewFakeTicker()}
			ticker = fakeT
		} else {
			syncT = &c12Ticker{c: make(chan time.Time)}
			ticker = syncT
		}
		before := c12Base()
		worker := newC12Worker()
		tw, err := NewTimingWheelWithTicker(interval, n, sink.exec, ticker)
		if err != nil {
			panic(err)
		}
		sink.tw = tw
		stopped := false
		hung := false // a call did not return: the rest of the section is not executed
		waitLoop := func() {
			// the event loop is single-threaded: once it accepts this no-op, the previous request is done
			if !worker.do(func() {
				if err := tw.RemoveTimer(c12Sentinel); err != nil && err != ErrClosed {
					panic(err)
				}
			}) {
				hung = true
			}
		}
		waitLoop()
		base := c12Base()
		stops := func() int32 {
			if fakeT != nil {
				return atomic.LoadInt32(&fakeT.stops)
			}
			return atomic.LoadInt32(&syncT.stops)
		}
		// deliver one tick to the run loop; false if nobody takes it
		tick := func() (delivered bool, note string) {
			if fakeT != nil {
				if stopped && stops() > 0 {
					// the loop closed the fake ticker's channel: Tick would panic with "send on closed channel"
					func() {
						defer func() {
							if p := recover(); p != nil {
								note = "undelivered"
							}
						}()
						fakeT.Tick()
						note = "TICKER-NOT-CLOSED"
					}()
					return false, note
				}
				if len(fakeT.Chan()) > 0 {
					return false, "undelivered" // the previous tick is still in the ticker's buffer
				}
				fakeT.Tick()
				if !c12Quiesce() {
					return false, "STUCK-tick"
				}
				if len(fakeT.Chan()) > 0 {
					return false, "undelivered" // everything is blocked and nobody took the tick
				}
				return true, ""
			}
			if !stopped {
				if !worker.do(func() { syncT.c <- time.Time{} }) {
					hung = true
					return false, "TIMEOUT-tick"
				}
				return true, ""
			}
			c12Quiesce() // a run loop that is still alive would be blocked in its select by now
			select {
			case syncT.c <- time.Time{}:
				return true, ""
			default:
				return false, "undelivered"
			}
		}
		pendingBefore := 0
		step := func(op []string) string {
			if hung {
				return "TIMEOUT-skipped"
			}
			var err error
			call := func(f func() error) {
				if !worker.do(func() { err = f() }) {
					hung = true
				}
			}
			switch op[0] {
			case "set":
				call(func() error {
					return tw.SetTimer(c12Key(op[1]), verifh.Atoi(op[2]), time.Duration(verifh.Atoi(op[3])))
				})
			case "move":
				call(func() error { return tw.MoveTimer(c12Key(op[1]), time.Duration(verifh.Atoi(op[2]))) })
			case "remove":
				call(func() error { return tw.RemoveTimer(c12Key(op[1])) })
			case "tick":
				if ok, note := tick(); !ok {
					return note
				}
			case "drain":
				pendingBefore = tw.timers.Size() // the run loop is idle: the previous operation has been joined
				call(func() error { return tw.Drain(sink.exec) })
			case "arm":
				if len(op) < 4 || (op[2] != "set" && op[2] != "move" && op[2] != "remove") {
					return "bad-op"
				}
				sink.arm(verifh.Atoi(op[1]), op[2:])
				return "armed"
			case "stop":
				call(func() error { tw.Stop(); return nil }) // a second Stop panics: recorded by verifh as PANIC
				stopped = true
				if !c12Quiesce() || c12RunLoops() != 0 {
					return "stopped LOOP-ALIVE"
				}
				return fmt.Sprintf("stopped %d", stops())
			default:
				return "bad-op"
			}
			if hung {
				return "TIMEOUT-call"
			}
			if err != nil {
				return c12Err(err)
			}
			// callbacks may call back into the wheel and those calls may run further callbacks: wait for the loop and
			// join the callback goroutines until nothing new has happened
			for round, last := 0, -1; round < 8; round++ {
				if op[0] == "drain" {
					waitLoop() // Drain returns when the loop HAS the request: is the loop back in its select?
				}
				if hung {
					if op[0] == "drain" {
						// stuck watchdog: the run loop accepted Drain and no longer accepts anything
						entered, returned, _ := sink.progress()
						return fmt.Sprintf("STALLED drain: run loop blocked, %d of %d pending timers reached their callback, only %d callbacks returned from their call on the wheel",
							entered, pendingBefore, returned)
					}
					return "TIMEOUT-loop"
				}
				// waitLoop returned with every goroutine blocked: the callbacks and whatever they called are done
				_, _ = round, last
				break
			}
			return sink.collect(&base)
		}
		return step, func() {
			if !stopped {
				tw.Stop()
			}
			if !hung {
				close(worker.req)
			}
			c12Quiesce()
			_ = before
		}
	})
}

func c12CtorStep(op []string) string {
	if op[0] != "new" || len(op) != 4 {
		return "bad-op"
	}
	var exec Execute
	if op[3] == "0" {
		exec = func(k, v any) {}
	}
	before := c12Base()
	tw, err := NewTimingWheel(time.Duration(verifh.Atoi(op[1])), verifh.Atoi(op[2]), exec)
	if err != nil {
		if tw != nil {
			return "err-and-wheel"
		}
		return "err"
	}
	tw.Stop()
	c12Quiesce()
	_ = before
	return "ok"
}

// ---------------------------------------------------------------------------------------------- cache.go

// c12GenCache: core/collection/cache.go as a client of the wheel. Keys are set with expiries below, at and above
// one interval (one second), up to and beyond one revolution (300 slots), with expiries <= 0 (SetTimer rejects
// them: the entry never expires), set again while pending, deleted while pending, set again after expiry.
func c12GenCache(r *verifh.Rng) []verifh.Section {
	const sec = 1000000000
	var secs []verifh.Section
	for i := verifh.Scale(12, 120); i > 0; i-- {
		expire := r.Pick(1, 2, 3, 5, 299, 300, 301) * sec
		nkeys := r.Range(1, 5)
		var ops []string
		tick := func(c int) {
			for j := 0; j < c; j++ {
				ops = append(ops, "tick")
			}
		}
		exp := func() int {
			switch r.Intn(10) {
			case 0:
				return r.Pick(1, sec/2, sec-1) // below one interval: clamped, gone at the next tick
			case 1:
				return r.Pick(0, -1, -sec) // rejected by SetTimer: stays until deleted
			case 2:
				return r.Pick(299, 300, 301, 600, 601) * sec
			case 3:
				return r.Range(1, 4)*sec + r.Intn(sec)
			default:
				return r.Range(1, 6) * sec
			}
		}
		for j := r.Range(5, 40); j > 0; j-- {
			k := r.Intn(nkeys)
			switch x := r.Intn(10); {
			case x < 3:
				ops = append(ops, fmt.Sprintf("cset %d %d %d", k, r.Intn(1000), exp()))
			case x < 4:
				ops = append(ops, fmt.Sprintf("cput %d %d", k, r.Intn(1000)))
			case x < 5:
				ops = append(ops, fmt.Sprintf("cdel %d", k))
			case x < 6:
				tick(r.Pick(1, 2, 298, 299, 300, 301))
			default:
				tick(r.Range(1, 3))
			}
		}
		tick(r.Pick(1, 6, 302))
		secs = append(secs, verifh.Section{Cfg: fmt.Sprintf("n=300 interval=%d mode=cache expire=%d", sec, expire), Ops: ops})
	}
	return secs
}

// TestVerifC12Cache: the real Cache; its wheel is rebuilt with the same interval, slots and callback on a
// harness ticker (the callback is wrapped to observe what it is handed), the expiry jitter is switched off.
func TestVerifC12Cache(t *testing.T) {
	secs := verifh.Sections(c12GenCache)
	verifh.Run(t, secs, func(cfg verifh.Cfg) (func(op []string) string, func()) {
		before := c12Base()
		c, err := NewCache(time.Duration(verifh.Atoi64(cfg.Str("expire", "1000000000"))))
		if err != nil {
			panic(err)
		}
		orig := c.timingWheel
		sink := &c12Sink{}
		ticker := &c12Ticker{c: make(chan time.Time)}
		tw, err := NewTimingWheelWithTicker(orig.interval, orig.numSlots, func(k, v any) {
			sink.exec(k, v)
			orig.execute(k, v)
		}, ticker)
		if err != nil {
			panic(err)
		}
		orig.Stop()
		c.timingWheel = tw
		c.unstableExpiry = mathx.NewUnstable(0)
		worker := newC12Worker()
		hung := false
		waitLoop := func() {
			if !worker.do(func() { _ = tw.RemoveTimer(c12Sentinel) }) {
				hung = true
			}
		}
		waitLoop()
		base := c12Base()
		step := func(op []string) string {
			if hung {
				return "TIMEOUT-skipped"
			}
			ok := true
			switch op[0] {
			case "cset":
				ok = worker.do(func() { c.SetWithExpire(op[1], verifh.Atoi(op[2]), time.Duration(verifh.Atoi64(op[3]))) })
			case "cput":
				ok = worker.do(func() { c.Set(op[1], verifh.Atoi(op[2])) })
			case "cdel":
				ok = worker.do(func() { c.Del(op[1]) })
			case "tick":
				ok = worker.do(func() { ticker.c <- time.Time{} })
			default:
				return "bad-op"
			}
			if !ok {
				hung = true
				return "TIMEOUT-call"
			}
			out := sink.collect(&base) // the call returned with every goroutine blocked: the expiry callbacks are done
			c.lock.Lock()
			var keys []int
			for k := range c.data {
				n, _ := strconv.Atoi(k)
				keys = append(keys, n)
			}
			c.lock.Unlock()
			sort.Ints(keys)
			has := "-"
			if len(keys) > 0 {
				ss := make([]string, len(keys))
				for i, k := range keys {
					ss[i] = strconv.Itoa(k)
				}
				has = strings.Join(ss, ",")
			}
			return strings.TrimSpace(out + " has=" + has)
		}
		return step, func() {
			tw.Stop()
			if !hung {
				close(worker.req)
			}
			_ = before
		}
	})
}


// ---------------------------------------------------------------------------------------------- mode=sched: generation

func c12Pri(r *verifh.Rng) string {
	p := []string{"set", "move", "remove", "drain"}
	for i := len(p) - 1; i > 0; i-- {
		j := r.Intn(i + 1)
		p[i], p[j] = p[j], p[i]
	}
	return strings.Join(p, ",")
}

// c12GenSchedWheel: timers of several keys due at the same and at neighbouring ticks, callbacks that stay inside
// the callback (hold) over the following ticks / Drains, released later; Drain with more held callbacks than
// drainWorkers, followed by new timers and a second Drain.
func c12GenSchedWheel(r *verifh.Rng) verifh.Section {
	n := r.Pick(1, 2, 3, 5, 8, 16)
	interval := r.Pick(1, 7)
	nkeys := r.Range(2, 8)
	var ops []string
	var armed []int
	d := func(maxSteps int) int { return r.Range(1, maxSteps)*interval + r.Intn(interval) }
	set := func(k, maxSteps int) { ops = append(ops, fmt.Sprintf("set %d %d %d", k, r.Intn(1000), d(maxSteps))) }
	release := func() {
		for _, k := range armed {
			ops = append(ops, fmt.Sprintf("release %d", k))
		}
		armed = nil
	}
	for j := r.Range(4, verifh.Scale(30, 50)); j > 0; j-- {
		k := r.Intn(nkeys)
		switch x := r.Intn(100); {
		case x < 30:
			set(k, 3)
		case x < 36:
			set(k, 2*n+2)
		case x < 42:
			ops = append(ops, fmt.Sprintf("move %d %d", k, d(3)))
		case x < 46:
			ops = append(ops, fmt.Sprintf("remove %d", k))
		case x < 49:
			ops = append(ops, r.PickS("set nil 1 5", fmt.Sprintf("set %d 1 0", k), fmt.Sprintf("move %d -3", k), "remove nil",
				fmt.Sprintf("move %d %d", k, r.Range(1, interval))))
		case x < 58 && len(armed) == 0:
			// several keys due at one tick, one of their callbacks held; more due at the following ticks
			batch := r.Range(2, 4)
			steps := r.Range(1, 2)
			for i := 0; i < batch; i++ {
				ops = append(ops, fmt.Sprintf("set %d %d %d", (k+i)%nkeys, r.Intn(1000), steps*interval))
			}
			for i := r.Range(1, 2); i > 0; i-- {
				h := (k + r.Intn(batch)) % nkeys
				ops = append(ops, fmt.Sprintf("hold %d", h))
				armed = append(armed, h)
			}
			for i := r.Range(1, 4); i > 0; i-- {
				ops = append(ops, fmt.Sprintf("set %d %d %d", 50+r.Intn(6), r.Intn(1000), (steps+r.Range(1, 2))*interval))
			}
			for i := steps + r.Range(0, 2); i > 0; i-- {
				ops = append(ops, "tick")
			}
			if r.Chance(1, 3) {
				ops = append(ops, "drain")
			}
			if r.Chance(2, 3) {
				release()
			}
		case x < 62 && len(armed) == 0:
			// Drain with more held callbacks than drainWorkers; new timers and a second Drain meanwhile
			// (all of them held: the hand-off goroutine is blocked in Schedule with tasks left over when the second,
			// possibly larger, Drain collects its own)
			m := r.Pick(3, 8, 9, 12, 14)
			all := r.Bool()
			for i := 0; i < m; i++ {
				ops = append(ops, fmt.Sprintf("set %d %d %d", 100+i, r.Intn(1000), d(2*n+2)))
				if all || r.Chance(3, 4) {
					ops = append(ops, fmt.Sprintf("hold %d", 100+i))
					armed = append(armed, 100+i)
				}
			}
			ops = append(ops, "drain")
			for i := r.Pick(0, 1, 3, 10, 13, 16); i > 0; i-- {
				ops = append(ops, fmt.Sprintf("set %d %d %d", 300+i, r.Intn(1000), d(2*n+2)))
			}
			ops = append(ops, r.PickS("drain", "drain", "tick"))
			release()
		case x < 66 && len(armed) > 0:
			release()
		case x < 69:
			// the next callback of the key panics (with an error / another value): the other callbacks of its tick or
			// Drain are still delivered
			ops = append(ops, fmt.Sprintf("boom %d %s", k, r.PickS("err", "str")))
			set(k, 2)
			if r.Bool() {
				set((k+1)%nkeys, 2)
			}
		case x < 70:
			ops = append(ops, "drain")
		default:
			ops = append(ops, "tick")
		}
	}
	release()
	for i := r.Pick(1, 3, n+1); i > 0; i-- {
		ops = append(ops, "tick")
	}
	return verifh.Section{Cfg: fmt.Sprintf("n=%d interval=%d mode=sched client=wheel pri=%s", n, interval, c12Pri(r)), Ops: ops}
}

// c12GenSchedCache: the real Cache with and without WithLimit: evictions by the LRU limit (caused by Set,
// SetWithExpire and Take on another key), the evicted / deleted / expired key used again right afterwards,
// Get moving a key to the front of the LRU list, every outcome of Take's fetch function.
func c12GenSchedCache(r *verifh.Rng) verifh.Section {
	const sec = 1000000000
	limit := r.Pick(0, 1, 1, 2, 2, 3, -1, 1, 2)
	expire := r.Pick(1, 2, 3, 5) * sec
	if r.Chance(1, 12) {
		expire = r.Pick(0, -sec, sec/2)
	}
	nkeys := r.Range(2, 5)
	if limit > 0 {
		nkeys = limit + r.Range(1, 2)
	}
	var ops []string
	last := 0
	exp := func() int {
		switch r.Intn(8) {
		case 0:
			return r.Pick(1, sec/2, sec-1, 0, -1)
		case 1:
			return r.Pick(299, 300, 301) * sec
		default:
			return r.Range(1, 4)*sec + r.Pick(0, 0, r.Intn(sec))
		}
	}
	for j := r.Range(5, verifh.Scale(40, 60)); j > 0; j-- {
		k := r.Intn(nkeys)
		if r.Chance(1, 4) {
			k = last // the key of the previous operation again (the one just evicted is next to it)
		}
		if r.Chance(1, 4) {
			k = (last + 1) % nkeys
		}
		last = k
		switch x := r.Intn(20); {
		case x < 6:
			ops = append(ops, fmt.Sprintf("cset %d %d %d", k, r.Intn(1000), exp()))
		case x < 9:
			ops = append(ops, fmt.Sprintf("cput %d %d", k, r.Intn(1000)))
		case x < 11:
			ops = append(ops, fmt.Sprintf("cdel %d", k))
		case x < 13:
			ops = append(ops, fmt.Sprintf("cget %d", k))
		case x < 16:
			ops = append(ops, fmt.Sprintf("ctake %d %d %s", k, r.Intn(1000), r.PickS("ok", "ok", "ok", "err", "tnil", "panic", "panicerr", "goexit")))
		default:
			for i := r.Pick(1, 1, 2, 3); i > 0; i-- {
				ops = append(ops, "tick")
			}
		}
	}
	for i := r.Pick(1, 6); i > 0; i-- {
		ops = append(ops, "tick")
	}
	opt := fmt.Sprintf(" limit=%d", limit)
	if limit == 0 && r.Bool() {
		opt = "" // no WithLimit option at all
	}
	if r.Chance(1, 3) {
		if r.Bool() {
			opt += " name=c12" // WithName, before or after WithLimit makes no difference: options are applied in order
		} else {
			opt = " name=c12" + opt
		}
	}
	return verifh.Section{Cfg: fmt.Sprintf("n=300 interval=%d mode=sched client=cache%s expire=%d pri=%s", sec, opt, expire, c12Pri(r)), Ops: ops}
}


// c12GenSchedGoexit: callbacks that call runtime.Goexit (what testing.T.FailNow does) or panic, inside batches of
// several timers due at one tick, at the following ticks, and in Drains. The goroutine of runTasks ends at a Goexit:
// which timers of the tick are behind it depends on the order of the slot list, so these sections only set keys
// that are not pending (the order of the slot is then the order of the sets, in the code and in the model).
func c12GenSchedGoexit(r *verifh.Rng) verifh.Section {
	n := r.Pick(2, 3, 5, 8)
	interval := r.Pick(1, 7)
	pending := map[int]int{}
	abs := 0
	var ops []string
	free := func() int {
		for i := 0; i < 30; i++ {
			if k := r.Intn(12); pending[k] == 0 {
				return k
			}
		}
		return -1
	}
	set := func(k, steps int) {
		if k < 0 {
			return
		}
		ops = append(ops, fmt.Sprintf("set %d %d %d", k, r.Intn(1000), steps*interval+r.Intn(interval)))
		pending[k] = abs + steps
	}
	tick := func() {
		ops = append(ops, "tick")
		abs++
		for k, due := range pending {
			if due <= abs {
				delete(pending, k)
			}
		}
	}
	kind := func() string { return r.PickS("goexit", "goexit", "err", "str") }
	for j := r.Range(4, verifh.Scale(25, 40)); j > 0; j-- {
		switch x := r.Intn(20); {
		case x < 5:
			set(free(), r.Pick(1, 1, 2, 3, n, n+1, 2*n+1))
		case x < 10:
			steps := r.Range(1, 2)
			var batch []int
			for i := r.Range(2, 4); i > 0; i-- {
				if k := free(); k >= 0 {
					set(k, steps)
					batch = append(batch, k)
				}
			}
			for i := r.Range(1, 2); i > 0 && len(batch) > 0; i-- {
				ops = append(ops, fmt.Sprintf("boom %d %s", batch[r.Intn(len(batch))], kind()))
			}
			if r.Bool() {
				set(free(), steps+1) // due at the tick after the Goexit
			}
		case x < 11:
			k := r.Intn(12)
			ops = append(ops, fmt.Sprintf("remove %d", k))
			delete(pending, k)
		case x < 12:
			ops = append(ops, fmt.Sprintf("boom %d %s", r.Intn(12), kind()))
		case x < 13:
			ops = append(ops, "drain")
			pending = map[int]int{}
		default:
			tick()
		}
	}
	for i := r.Pick(2, 3, n+1); i > 0; i-- {
		tick()
	}
	return verifh.Section{Cfg: fmt.Sprintf("n=%d interval=%d mode=sched client=wheel pri=%s", n, interval, c12Pri(r)), Ops: ops}
}

func c12GenSched(r *verifh.Rng) []verifh.Section {
	var secs []verifh.Section
	// every NewCache leaves its statLoop goroutine behind and the goroutine dump grows with it: fewer cache sections
	for i := verifh.Scale(60, 500); i > 0; i-- {
		secs = append(secs, c12GenSchedWheel(r))
	}
	for i := verifh.Scale(60, 250); i > 0; i-- {
		secs = append(secs, c12GenSchedCache(r))
	}
	for i := verifh.Scale(40, 300); i > 0; i-- {
		secs = append(secs, c12GenSchedGoexit(r))
	}
	return secs
}

// ---------------------------------------------------------------------------------------------- mode=sched
//
// TestVerifC12Sched: the HARNESS is the wheel's run loop. The wheel is built by the real constructor (for
// client=cache by the real NewCache), its own run loop is stopped, and a copy of it with a fresh stopChannel is
// served by the harness: whenever every other goroutine of the process is blocked (read off the goroutine dump,
// no wall clock involved), the harness receives ONE of the requests that are pending on the wheel's channels, in
// the priority order of the section (`pri=`: any order is one that the `select` of run may pick), and calls the
// handler that run calls for it. It stops receiving as soon as the client's call has returned and no callback is
// running any more (a run loop that is scheduled late); what is then still blocked inside a public method of
// the wheel was detached from the call that issued it (`detached=N`) and competes with the requests of the
// following operations. Ticks are handler calls (onTick), after the requests that are still pending.
//
//	client=wheel  set/move/remove/drain through the public API, tick, and
//	              hold <k>      the next callback (execute or Drain) of key k blocks until `release <k>`
//	              boom <k> err|str  the next callback of key k panics with an error value / a string
//	              ltick         a tick whose callbacks' requests are left pending (replays only, never generated)
//	              release <k>   while a callback is blocked nothing that was handed to a callback is printed
//	                            (`held`); everything is printed by the operation after which none is blocked
//	client=cache  cset/cput/cdel/cget/ctake/tick on the real Cache built with WithLimit(limit) (limit=0: no option)
//	              ctake <k> <v> <outcome of fetch: ok err tnil panic panicerr goexit>
//
// Observation: result tokens, rq=<requests in the order the loop received them; sorted when callbacks issue them>,
// the k:v pairs handed to callbacks, held, has=<keys in data>, detached=<n>.

// the goroutine-dump helpers and the request loop live in zz_verif_c12_sched.go (shared with core/stores/cache)
var (
	c12Goroutines = VerifC12Goroutines
	c12GState     = VerifC12GState
	c12Quiesce    = VerifC12Quiesce
	c12InWheelAPI = VerifC12InWheelAPI
)

type c12HoldSink struct {
	mu      sync.Mutex
	fired   []string
	holds   map[string]chan struct{} // armed, not reached yet
	holding map[string]chan struct{} // a callback is blocked on it
	active  int                      // callbacks that have been entered and have not returned
	booms   map[string]string        // key -> the next callback of the key panics: "err" with an error value, "str" with a string
	after   func(k, v any)
}

func (s *c12HoldSink) exec(k, v any) {
	ks := fmt.Sprint(k)
	s.mu.Lock()
	s.active++
	s.fired = append(s.fired, fmt.Sprintf("%v:%v", k, v))
	ch := s.holds[ks]
	if ch != nil {
		delete(s.holds, ks)
		s.holding[ks] = ch
	}
	boom := s.booms[ks]
	delete(s.booms, ks)
	s.mu.Unlock()
	if ch != nil {
		<-ch
	}
	defer func() {
		s.mu.Lock()
		s.active--
		s.mu.Unlock()
	}()
	if s.after != nil {
		s.after(k, v)
	}
	switch boom {
	case "err":
		panic(fmt.Errorf("c12: callback of key %s panics with an error value", ks))
	case "str":
		panic("c12: callback of key " + ks + " panics with a string")
	case "goexit":
		runtime.Goexit()
	}
}

func (s *c12HoldSink) counts() (active, blocked int) {
	s.mu.Lock()
	defer s.mu.Unlock()
	return s.active, len(s.holding)
}

type c12Sched struct {
	tw   *TimingWheel
	pri  []string
	rq   []string
	sink *c12HoldSink
	hung bool
}

// poll receives one pending request, by priority, and handles it the way run does.
func (s *c12Sched) poll() bool {
	tok, ok := VerifC12Poll(s.tw, s.pri, nil)
	if ok {
		s.rq = append(s.rq, tok)
	}
	return ok
}

// serve is the run loop for one operation of the client: `returned` says whether the client's call is over.
func (s *c12Sched) serve(returned func() bool) string {
	for {
		if !c12Quiesce() {
			s.hung = true
			return "TIMEOUT-quiesce"
		}
		active, _ := s.sink.counts()
		if returned() && active == 0 {
			return ""
		}
		if !s.poll() {
			if !returned() {
				s.hung = true
				return "BLOCKED"
			}
			return ""
		}
	}
}

// call runs f as the client's call on a goroutine of its own and serves it. outcome: "" returned, "panic", "goexit".
func (s *c12Sched) call(f func()) (note, outcome string) {
	done := make(chan string, 1)
	go func() {
		res := "goexit"
		defer func() {
			if p := recover(); p != nil {
				res = "panic"
			}
			done <- res
		}()
		f()
		res = ""
	}()
	got := false
	note = s.serve(func() bool {
		if !got {
			select {
			case outcome = <-done:
				got = true
			default:
			}
		}
		return got
	})
	return note, outcome
}

var c12SchedWheel = VerifC12SchedWheel

type c12TypedErr struct{}

func (*c12TypedErr) Error() string { return "typed" }

func TestVerifC12Sched(t *testing.T) {
	secs := verifh.Sections(c12GenSched)
	verifh.Run(t, secs, func(cfg verifh.Cfg) (func(op []string) string, func()) {
		sink := &c12HoldSink{holds: map[string]chan struct{}{}, holding: map[string]chan struct{}{}, booms: map[string]string{}}
		s := &c12Sched{sink: sink, pri: strings.Split(cfg.Str("pri", "set,move,remove,drain"), ",")}
		var c *Cache
		if cfg.Str("client", "wheel") == "cache" {
			var opts []CacheOption
			if _, ok := cfg["limit"]; ok {
				opts = append(opts, WithLimit(cfg.Int("limit", 0))) // also 0 and negative limits: WithLimit ignores them
			}
			if name := cfg.Str("name", ""); name != "" {
				opts = append(opts, WithName(name))
			}
			var err error
			c, err = NewCache(time.Duration(verifh.Atoi64(cfg.Str("expire", "1000000000"))), opts...)
			if err != nil {
				panic(err)
			}
			sink.after = c.timingWheel.execute
			s.tw = c12SchedWheel(c.timingWheel, sink.exec)
			c.timingWheel = s.tw
			c.unstableExpiry = mathx.NewUnstable(0)
		} else {
			tw, err := NewTimingWheelWithTicker(time.Duration(cfg.Int("interval", 1)), cfg.Int("n", 1), sink.exec,
				&c12Ticker{c: make(chan time.Time)})
			if err != nil {
				panic(err)
			}
			s.tw = c12SchedWheel(tw, sink.exec)
		}
		if !c12Quiesce() {
			panic("the wheel's own run loop did not return after Stop")
		}
		step := func(op []string) string {
			if s.hung {
				return "TIMEOUT-skipped"
			}
			s.rq = nil
			var res []string
			var note, outcome string
			errTok := func(err error) {
				if err != nil {
					res = append(res, c12Err(err))
				}
			}
			sortRq := false
			switch {
			case op[0] == "hold" && len(op) == 2:
				if _, blocked := sink.counts(); blocked > 0 {
					return "busy"
				}
				sink.mu.Lock()
				if sink.holds[op[1]] == nil {
					sink.holds[op[1]] = make(chan struct{})
				}
				sink.mu.Unlock()
				return "armed"
			case op[0] == "boom" && len(op) == 3 && (op[2] == "err" || op[2] == "str" || op[2] == "goexit"):
				sink.mu.Lock()
				sink.booms[op[1]] = op[2]
				sink.mu.Unlock()
				return "armed"
			case op[0] == "release" && len(op) == 2:
				sink.mu.Lock()
				if ch := sink.holding[op[1]]; ch != nil {
					delete(sink.holding, op[1])
					close(ch)
				}
				delete(sink.holds, op[1])
				sink.mu.Unlock()
				sortRq = true
				note = s.serve(func() bool { return true })
			case op[0] == "ltick" && len(op) == 1:
				// a tick after which the run loop is scheduled late: the callbacks start, their requests stay pending and
				// compete with the requests of the next operation (never generated, see props/C12.json level_note; for replays)
				for s.poll() {
				}
				s.tw.onTick()
				if !c12Quiesce() {
					s.hung = true
					return "TIMEOUT-quiesce"
				}
				sink.mu.Lock()
				out := append([]string{}, sink.fired...)
				sink.fired = nil
				sink.mu.Unlock()
				sort.Slice(out, func(i, j int) bool { return c12Less(out[i], out[j]) })
				return strings.TrimSpace("lazy " + strings.Join(out, " "))
			case op[0] == "tick" && len(op) == 1:
				sortRq = true
				for s.poll() { // requests that are still pending from earlier operations
				}
				s.tw.onTick()
				note = s.serve(func() bool { return true })
			case c == nil && op[0] == "set" && len(op) == 4:
				var err error
				note, outcome = s.call(func() {
					err = s.tw.SetTimer(c12Key(op[1]), verifh.Atoi(op[2]), time.Duration(verifh.Atoi(op[3])))
				})
				errTok(err)
			case c == nil && op[0] == "move" && len(op) == 3:
				var err error
				note, outcome = s.call(func() { err = s.tw.MoveTimer(c12Key(op[1]), time.Duration(verifh.Atoi(op[2]))) })
				errTok(err)
			case c == nil && op[0] == "remove" && len(op) == 2:
				var err error
				note, outcome = s.call(func() { err = s.tw.RemoveTimer(c12Key(op[1])) })
				errTok(err)
			case c == nil && op[0] == "drain" && len(op) == 1:
				var err error
				sortRq = true
				note, outcome = s.call(func() { err = s.tw.Drain(sink.exec) })
				errTok(err)
			case c != nil && op[0] == "cset" && len(op) == 4:
				note, outcome = s.call(func() { c.SetWithExpire(op[1], verifh.Atoi(op[2]), time.Duration(verifh.Atoi64(op[3]))) })
			case c != nil && op[0] == "cput" && len(op) == 3:
				note, outcome = s.call(func() { c.Set(op[1], verifh.Atoi(op[2])) })
			case c != nil && op[0] == "cdel" && len(op) == 2:
				note, outcome = s.call(func() { c.Del(op[1]) })
			case c != nil && op[0] == "cget" && len(op) == 2:
				var v any
				var ok bool
				note, outcome = s.call(func() { v, ok = c.Get(op[1]) })
				if ok {
					res = append(res, fmt.Sprintf("get=%v", v))
				} else {
					res = append(res, "get=miss")
				}
			case c != nil && op[0] == "ctake" && len(op) == 4:
				var v any
				var err error
				fetched := false
				note, outcome = s.call(func() {
					v, err = c.Take(op[1], func() (any, error) {
						fetched = true
						switch op[3] {
						case "ok":
							return verifh.Atoi(op[2]), nil
						case "err":
							return nil, fmt.Errorf("fetch failed")
						case "tnil":
							return verifh.Atoi(op[2]), (*c12TypedErr)(nil)
						case "panic":
							panic("fetch panics with a string")
						case "panicerr":
							panic(fmt.Errorf("fetch panics with an error"))
						case "goexit":
							runtime.Goexit()
						}
						panic("verifh: bad fetch outcome " + op[3])
					})
				})
				switch {
				case outcome != "":
					res = append(res, "take="+outcome)
				case err != nil:
					res = append(res, "take=err")
				case fetched:
					res = append(res, fmt.Sprintf("take=fresh:%v", v))
				default:
					res = append(res, fmt.Sprintf("take=hit:%v", v))
				}
				outcome = ""
			default:
				return "bad-op"
			}
			if note != "" {
				return note
			}
			if outcome != "" {
				res = append(res, "call="+outcome)
			}
			if len(s.rq) > 0 {
				if sortRq {
					sort.Strings(s.rq)
				}
				res = append(res, "rq="+strings.Join(s.rq, ","))
			}
			if _, blocked := sink.counts(); blocked > 0 {
				res = append(res, "held")
			} else {
				sink.mu.Lock()
				out := sink.fired
				sink.fired = nil
				sink.mu.Unlock()
				sort.Slice(out, func(i, j int) bool { return c12Less(out[i], out[j]) })
				res = append(res, out...)
			}
			if c != nil {
				c.lock.Lock()
				var keys []int
				for k := range c.data {
					n, _ := strconv.Atoi(k)
					keys = append(keys, n)
				}
				c.lock.Unlock()
				sort.Ints(keys)
				has := "-"
				if len(keys) > 0 {
					ss := make([]string, len(keys))
					for i, k := range keys {
						ss[i] = strconv.Itoa(k)
					}
					has = strings.Join(ss, ",")
				}
				res = append(res, "has="+has)
			}
			if d := c12InWheelAPI(); d > 0 {
				res = append(res, fmt.Sprintf("detached=%d", d))
			}
			if len(res) == 0 {
				return "-"
			}
			return strings.Join(res, " ")
		}
		return step, func() {
			// let go of everything that is still blocked on the harness or on the wheel
			sink.mu.Lock()
			for k, ch := range sink.holding {
				close(ch)
				delete(sink.holding, k)
			}
			sink.holds = map[string]chan struct{}{}
			sink.mu.Unlock()
			s.tw.Stop()
			c12Quiesce()
		}
	})
}
