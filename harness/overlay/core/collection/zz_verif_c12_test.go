//go:build verif

package collection

// C12 correspondence harness: drives the real TimingWheel through its public API with a
// harness-owned synchronous ticker, one operation per trace line.

import (
	"fmt"
	"runtime"
	"sort"
	"strings"
	"sync"
	"testing"
	"time"

	"github.com/zeromicro/go-zero/internal/verifh"
)

// syncTicker hands ticks over an unbuffered channel: Tick returns once the wheel's
// event loop has received the tick.
type c12Ticker struct{ c chan time.Time }

func (t *c12Ticker) Chan() <-chan time.Time { return t.c }
func (t *c12Ticker) Stop()                  {}

func c12Gen(r *verifh.Rng) []verifh.Section {
	var secs []verifh.Section
	nsec := verifh.Scale(60, 1200)
	for i := 0; i < nsec; i++ {
		var n int
		switch r.Intn(6) {
		case 0:
			n = 1
		case 1:
			n = 2
		case 2:
			n = r.Range(3, 5)
		case 3:
			n = 10
		case 4:
			n = r.Range(6, 40)
		default:
			n = r.Range(41, 300)
		}
		interval := r.Pick(1, 7, 1000)
		nkeys := r.Range(1, 4)
		var ops []string
		// advance the wheel so that tickedPos sits anywhere, including just before/after wrap-around
		pre := r.Pick(0, 1, n-1, n, n+1, r.Intn(2*n+1))
		for j := 0; j < pre; j++ {
			ops = append(ops, "tick")
		}
		delay := func() int {
			var steps int
			switch r.Intn(8) {
			case 0:
				steps = 1
			case 1:
				steps = r.Range(1, n)
			case 2:
				steps = n
			case 3:
				steps = n + 1
			case 4:
				steps = r.Range(1, 2*n+1)
			case 5:
				steps = r.Range(n, 5*n+3)
			case 6:
				steps = r.Pick(n-1, 2*n-1, 2*n, 2*n+1, 3*n)
				if steps < 1 {
					steps = 1
				}
			default:
				steps = r.Range(1, 3*n+2)
			}
			return steps*interval + r.Intn(interval)
		}
		nops := r.Range(4, verifh.Scale(50, 80))
		for j := 0; j < nops; j++ {
			k := r.Intn(nkeys)
			switch x := r.Intn(100); {
			case x < 22:
				ops = append(ops, fmt.Sprintf("set %d %d %d", k, r.Intn(1000), delay()))
			case x < 44:
				ops = append(ops, fmt.Sprintf("move %d %d", k, delay()))
			case x < 50:
				ops = append(ops, fmt.Sprintf("remove %d", k))
			case x < 52:
				// delay below one interval (outside the property's quantifier, still compared with the model)
				if interval > 1 {
					if r.Bool() {
						ops = append(ops, fmt.Sprintf("move %d %d", k, r.Range(1, interval-1)))
					} else {
						ops = append(ops, fmt.Sprintf("set %d %d %d", k, r.Intn(1000), r.Range(1, interval-1)))
					}
				}
			case x < 53:
				ops = append(ops, "drain")
			default:
				burst := 1
				if r.Chance(1, 4) {
					burst = r.Range(1, n+2)
				}
				for b := 0; b < burst; b++ {
					ops = append(ops, "tick")
				}
			}
		}
		// run out every pending timer
		for j := 0; j < 2; j++ {
			ops = append(ops, "tick")
		}
		secs = append(secs, verifh.Section{Cfg: fmt.Sprintf("n=%d interval=%d", n, interval), Ops: ops})
	}
	return secs
}

func TestVerifC12(t *testing.T) {
	secs := verifh.Sections(c12Gen)
	verifh.Run(t, secs, func(cfg verifh.Cfg) (func(op []string) string, func()) {
		n := cfg.Int("n", 1)
		interval := time.Duration(cfg.Int("interval", 1))
		var mu sync.Mutex
		var fired []string
		exec := func(k, v any) {
			mu.Lock()
			fired = append(fired, fmt.Sprintf("%d:%d", k.(int), v.(int)))
			mu.Unlock()
		}
		ticker := &c12Ticker{c: make(chan time.Time)}
		tw, err := NewTimingWheelWithTicker(interval, n, exec, ticker)
		if err != nil {
			panic(err)
		}
		const sentinel = -1
		sync := func() {
			// the event loop is single-threaded: once it accepts this no-op, the previous op is done
			if err := tw.RemoveTimer(sentinel); err != nil {
				panic(err)
			}
		}
		sync()
		base := runtime.NumGoroutine()
		collect := func() string {
			if !verifh.SettleGoroutines(base, 5*time.Second) {
				return "TIMEOUT-goroutines"
			}
			mu.Lock()
			out := fired
			fired = nil
			mu.Unlock()
			sort.Strings(out)
			return strings.Join(out, " ")
		}
		step := func(op []string) string {
			var err error
			switch op[0] {
			case "set":
				err = tw.SetTimer(verifh.Atoi(op[1]), verifh.Atoi(op[2]), time.Duration(verifh.Atoi(op[3])))
			case "move":
				err = tw.MoveTimer(verifh.Atoi(op[1]), time.Duration(verifh.Atoi(op[2])))
			case "remove":
				err = tw.RemoveTimer(verifh.Atoi(op[1]))
			case "tick":
				ticker.c <- time.Time{}
			case "drain":
				err = tw.Drain(exec)
			default:
				return "bad-op"
			}
			if err != nil {
				return "err " + err.Error()
			}
			sync()
			return collect()
		}
		return step, func() {
			tw.Stop()
			verifh.SettleGoroutines(base-1, time.Second)
		}
	})
}
