//go:build verif

package collection

import "github.com/zeromicro/go-zero/internal/verifh"

func c16GenCache(r *verifh.Rng) []verifh.Section { return nil }

func c16StartCache(cfg verifh.Cfg) (func(op []string) string, func()) {
	return func([]string) string { return "not-built" }, nil
}
