//go:build verif

package collection

// C16 / Cache: the real Cache with (a) its timing wheel swapped for a wheel with the same interval, slot count
// and execute callback but a harness-owned ticker, (b) the random source of its expiry jitter scripted, so that
// the jittered expiry of every Set is an observed input of the model.

import (
	"errors"
	"fmt"
	"math/rand"
	"reflect"
	"runtime"
	"sort"
	"strconv"
	"strings"
	"sync"
	"sync/atomic"
	"time"
	"unsafe"

	"github.com/zeromicro/go-zero/internal/verifh"
)

var c16GoBase int

type c16Src struct{ next int64 }

func (s *c16Src) Int63() int64 { return s.next }
func (s *c16Src) Seed(int64)   {}

// c16Ticker hands ticks over an unbuffered channel: the send returns once the wheel's loop has the tick.
type c16Ticker struct{ c chan time.Time }

func (t *c16Ticker) Chan() <-chan time.Time { return t.c }
func (t *c16Ticker) Stop()                  {}

// rand.Rand.Float64 is Int63()/2^63 (and retries on 1.0): values stay below 2^63-512
func c16RandJ(r *verifh.Rng) int64 {
	j := int64(r.Uint64() >> 2)
	if r.Bool() {
		j += 1 << 62
	}
	if j > (1<<63)-1024 {
		j = (1 << 63) - 1024
	}
	return j
}

// c16NilErr: a typed-nil error (`e != nil` holds for the interface value although the pointer in it is nil)
type c16NilErr struct{}

func (*c16NilErr) Error() string { return "typed nil" }

// c16CacheOpts parses `L3,N2,L0` (WithLimit(3), WithName("n2"), WithLimit(0); N0 = WithName(""); `-` = no option)
// into the option list handed to NewCache, in order.  memo (multi-instance sections): ONE CacheOption value per limit.
func c16CacheOpts(spec string, memo map[int]CacheOption) []CacheOption {
	var opts []CacheOption
	if spec == "-" || spec == "" {
		return opts
	}
	for _, tok := range strings.Split(spec, ",") {
		switch {
		case strings.HasPrefix(tok, "L"):
			limit := verifh.Atoi(tok[1:])
			opt := WithLimit(limit)
			if memo != nil {
				if o, ok := memo[limit]; ok {
					opt = o
				} else {
					memo[limit] = opt
				}
			}
			opts = append(opts, opt)
		case strings.HasPrefix(tok, "N"):
			name := ""
			if tok != "N0" {
				name = "n" + tok[1:]
			}
			opts = append(opts, WithName(name))
		default:
			panic("c16: bad cache option " + tok)
		}
	}
	return opts
}

// c16StableGoroutines: the goroutine count once it has not moved for 40 polls (>= 8 ms), at most 2 s
func c16StableGoroutines() int {
	n, same := runtime.NumGoroutine(), 0
	for deadline := time.Now().Add(2 * time.Second); same < 40 && time.Now().Before(deadline); {
		time.Sleep(200 * time.Microsecond)
		if m := runtime.NumGoroutine(); m == n {
			same++
		} else {
			n, same = m, 0
		}
	}
	return n
}

func c16Key(k int) string { return "k" + strconv.Itoa(k) }
func c16KeyBack(s string) int {
	return verifh.Atoi(strings.TrimPrefix(s, "k"))
}

func c16GenCache(r *verifh.Rng) []verifh.Section {
	var secs []verifh.Section
	nsec := verifh.Scale(40, 500)
	for i := 0; i < nsec; i++ {
		limit := r.Pick(0, 1, 2, 3, 3, 4, 5, -1, -7)
		nkeys := limit + r.Range(1, 4)
		if limit <= 0 {
			// WithLimit(0) / WithLimit(negative): no keyLru, unbounded
			nkeys = r.Range(1, 6)
		}
		// default expiry (seconds): short ones so that entries expire inside the section (1 s: the jitter
		// takes about half of them below the wheel's resolution); some longer than one revolution of the wheel
		exps := []int{1, 2, 3, 5, 10, 20, 299, 300, 301, 650}
		expire := exps[r.Intn(len(exps))]
		if r.Chance(1, 8) {
			// NewCache(0) / NewCache(negative): SetTimer rejects the delay, entries get no timer
			expire = r.Pick(0, 0, -1, -5)
		}
		jit := func() int64 {
			switch r.Intn(4) {
			case 0:
				return 0 // factor 1.05
			case 1:
				return (1 << 63) - 1024 // largest float64 below 2^63: factor just above 0.95
			case 2:
				return 1 << 62 // factor 1.00
			}
			return c16RandJ(r)
		}
		// the option list NewCache gets: the limit alone, or the limit among other options - an earlier limit that
		// is replaced, a later non-positive limit that must NOT remove it, names before / after / empty, no option
		optS := fmt.Sprintf("L%d", limit)
		if limit > 0 {
			switch r.Intn(8) {
			case 0:
				optS = fmt.Sprintf("L%d,L%d", r.Pick(1, limit+1, limit+3, 7), limit)
			case 1:
				optS = fmt.Sprintf("L%d,L%d", limit, r.Pick(0, 0, -1, -9))
			case 2:
				optS = fmt.Sprintf("N%d,L%d", r.Intn(3), limit)
			case 3:
				optS = fmt.Sprintf("L%d,N%d,L%d", r.Pick(0, 1, 9), r.Intn(3), limit)
			case 4:
				optS = fmt.Sprintf("L%d,N%d,L%d", limit, r.Intn(3), r.Pick(0, -1))
			}
		} else {
			switch r.Intn(6) {
			case 0:
				optS = "-"
			case 1:
				optS = fmt.Sprintf("N%d", r.Intn(3))
			case 2:
				optS = fmt.Sprintf("L%d,L%d", r.Pick(0, -1, -7), limit)
			}
		}
		var ops []string
		val := 1
		nops := r.Range(5, verifh.Scale(70, 140))
		// now and then a nil value (0): a stored nil is a hit, not a miss
		value := func() int {
			if r.Chance(1, 10) {
				return 0
			}
			val++
			return val - 1
		}
		for j := 0; j < nops; j++ {
			k := r.Intn(nkeys)
			switch x := r.Intn(100); {
			case x < 5:
				// Cache.Set: the configured default expiry
				ops = append(ops, fmt.Sprintf("setd %d %d %d", k, value(), jit()))
			case x < 25:
				e := expire * 1000000000
				if r.Chance(1, 3) {
					e = exps[r.Intn(len(exps))] * 1000000000
				} else if r.Chance(1, 8) {
					// below the wheel's resolution of one second
					e = r.Pick(2, 300000000, 900000000, 999999999)
				} else if r.Chance(1, 8) {
					// not positive (after the jitter): 1 ns is truncated to 0 by about half of the factors
					e = r.Pick(0, 0, 1, 1, -1, -3000000000)
				}
				ops = append(ops, fmt.Sprintf("set %d %d %d %d", k, value(), e, jit()))
			case x < 45:
				ops = append(ops, fmt.Sprintf("get %d", k))
			case x < 52:
				ops = append(ops, fmt.Sprintf("del %d", k))
			case x < 68:
				// every way the loader can end: a value (also nil), an error, a typed-nil error, a panic with an error /
				// with another value, runtime.Goexit
				ops = append(ops, fmt.Sprintf("take %d %d %s %d", k, value(),
					r.PickS("ok", "ok", "ok", "ok", "ok", "fail", "fail", "nilerr", "panice", "panics", "goexit"), jit()))
			case x < 76:
				ops = append(ops, "st")
			default:
				burst := 1
				if r.Chance(1, 5) {
					burst = r.Pick(2, 3, expire, expire+1, r.Range(1, 40))
					if burst > 700 {
						burst = 700
					}
					if burst < 1 {
						burst = 1
					}
				}
				for b := 0; b < burst; b++ {
					ops = append(ops, "tick")
				}
			}
		}
		ops = append(ops, "st")
		for k := 0; k < nkeys; k++ {
			ops = append(ops, fmt.Sprintf("get %d", k))
		}
		secs = append(secs, verifh.Section{Cfg: fmt.Sprintf("s=cache opts=%s expire=%d", optS, expire*1000000000), Ops: ops})
	}
	return secs
}

func c16StartCache(cfg verifh.Cfg) (func(op []string) string, func()) {
	expire := time.Duration(verifh.Atoi64(cfg.Str("expire", "1000000000")))
	// `opts=` the option list; older traces carry `limit=` alone (= one WithLimit).  In a multi-instance section the
	// caches are built from one CacheOption value per limit (c16OptMemo).
	optS := cfg.Str("opts", "L"+strconv.Itoa(cfg.Int("limit", 0)))
	// quiescent goroutine count before this cache exists: the count tracked since the previous cache was torn
	// down (c16GoBase) once the stragglers are gone, else a count that has stopped moving
	n0 := 0
	if c16GoBase > 0 && verifh.SettleGoroutines(c16GoBase, time.Second) {
		n0 = runtime.NumGoroutine()
	} else {
		n0 = c16StableGoroutines()
	}
	c, err := NewCache(expire, c16CacheOpts(optS, c16OptMemo)...)
	if err != nil {
		panic(err)
	}
	// (a) same wheel parameters and callback, harness-owned ticker
	orig := c.timingWheel
	var mu sync.Mutex
	var fired []int
	ticker := &c16Ticker{c: make(chan time.Time)}
	exec := func(k, v any) {
		if s, ok := k.(string); ok && s != "sentinel" {
			mu.Lock()
			fired = append(fired, c16KeyBack(s))
			mu.Unlock()
		}
		orig.execute(k, v)
	}
	tw, err := NewTimingWheelWithTicker(orig.interval, orig.numSlots, exec, ticker)
	if err != nil {
		panic(err)
	}
	orig.Stop()
	c.timingWheel = tw
	// (b) scripted jitter
	src := &c16Src{}
	f := reflect.ValueOf(&c.unstableExpiry).Elem().FieldByName("r")
	*(**rand.Rand)(unsafe.Pointer(f.UnsafeAddr())) = rand.New(src)
	// eviction observer
	var evicted []int
	if klru, ok := c.lruCache.(*keyLru); ok {
		inner := klru.onEvict
		klru.onEvict = func(key string) {
			mu.Lock()
			evicted = append(evicted, c16KeyBack(key))
			mu.Unlock()
			inner(key)
		}
	}
	sync := func() {
		if err := tw.RemoveTimer("sentinel"); err != nil {
			panic(err)
		}
	}
	sync()
	// quiescent goroutine count from now on: NewCache added the statistics loop and its wheel's loop, the harness
	// wheel added its loop, orig.Stop() ends the first wheel's loop (asynchronously: wait for it - a base taken
	// while it is still alive would let `settle` return before an expiry callback has run).  Shared, because a later
	// instance of a multi-instance section adds its own goroutines while the earlier ones are idle.
	if verifh.SettleGoroutines(n0+2, 5*time.Second) {
		c16GoBase = n0 + 2
	} else {
		c16GoBase = c16StableGoroutines()
	}
	settle := func() string {
		sync()
		if !verifh.SettleGoroutines(c16GoBase, 5*time.Second) {
			return " TIMEOUT-goroutines"
		}
		sync()
		return ""
	}
	keysS := func(xs []int, sorted bool) string {
		if len(xs) == 0 {
			return "-"
		}
		if sorted {
			sort.Ints(xs)
		}
		ss := make([]string, len(xs))
		for i, x := range xs {
			ss[i] = strconv.Itoa(x)
		}
		return strings.Join(ss, ",")
	}
	// after the op has settled: keys handed to the wheel's callback (sorted) and keys evicted by LRU overflow
	// (onEvict also runs for Del/expiry through keyLru.remove: those are not overflow evictions)
	events := func(delKey int) string {
		t := settle()
		mu.Lock()
		fs, ev := fired, evicted
		fired, evicted = nil, nil
		mu.Unlock()
		var over []int
		for _, k := range ev {
			skip := k == delKey
			for _, f := range fs {
				if f == k {
					skip = true
				}
			}
			if !skip {
				over = append(over, k)
			}
		}
		return "evict=" + keysS(over, false) + " expired=" + keysS(fs, true) + t
	}
	step := func(op []string) string {
		switch {
		case len(op) == 5 && op[0] == "set":
			exp := time.Duration(verifh.Atoi64(op[3]))
			src.next = verifh.Atoi64(op[4])
			ns := c.unstableExpiry.AroundDuration(exp) // probe: same source value, same float computation
			c.SetWithExpire(c16Key(verifh.Atoi(op[1])), c16Val(verifh.Atoi(op[2])), exp)
			return fmt.Sprintf("ns=%d %s", int64(ns), events(-1))
		case len(op) == 4 && op[0] == "setd":
			src.next = verifh.Atoi64(op[3])
			ns := c.unstableExpiry.AroundDuration(expire)
			c.Set(c16Key(verifh.Atoi(op[1])), c16Val(verifh.Atoi(op[2])))
			return fmt.Sprintf("ns=%d %s", int64(ns), events(-1))
		case len(op) == 2 && op[0] == "get":
			v, ok := c.Get(c16Key(verifh.Atoi(op[1])))
			if !ok {
				return "none" + settle()
			}
			return strconv.Itoa(c16ValBack(v)) + settle()
		case len(op) == 2 && op[0] == "del":
			c.Del(c16Key(verifh.Atoi(op[1])))
			if ev := events(verifh.Atoi(op[1])); ev != "evict=- expired=-" {
				return "ok " + ev
			}
			return "ok"
		case len(op) == 5 && op[0] == "take":
			src.next = verifh.Atoi64(op[4])
			ns := c.unstableExpiry.AroundDuration(expire)
			calls := 0
			loader := func() (any, error) {
				calls++
				switch op[3] {
				case "ok":
					return c16Val(verifh.Atoi(op[2])), nil
				case "fail":
					return nil, errors.New("load failed")
				case "nilerr":
					var e *c16NilErr
					return nil, e
				case "panice":
					panic(errors.New("loader panics with an error"))
				case "panics":
					panic("loader panics")
				case "goexit":
					runtime.Goexit()
				}
				panic("c16: bad loader kind")
			}
			// Take runs in a goroutine of its own (runtime.Goexit must not end the test's goroutine)
			res := "lost"
			done := make(chan struct{})
			go func() {
				returned := false
				defer close(done)
				defer func() {
					if p := recover(); p != nil {
						res = "panic"
					} else if !returned {
						res = "goexit"
					}
				}()
				v, err := c.Take(c16Key(verifh.Atoi(op[1])), loader)
				returned = true
				switch {
				case err == nil:
					res = strconv.Itoa(c16ValBack(v))
				case v != nil:
					res = "err-with-value"
				default:
					res = "err"
				}
			}()
			select {
			case <-done:
			case <-time.After(20 * time.Second):
				return "TIMEOUT-take"
			}
			return fmt.Sprintf("%s calls=%d ns=%d %s", res, calls, int64(ns), events(-1))
		case len(op) == 1 && op[0] == "tick":
			ticker.c <- time.Time{}
			return strings.TrimPrefix(events(-1), "evict=- ")
		case len(op) == 1 && op[0] == "st":
			t := settle()
			c.lock.Lock()
			size := len(c.data)
			var lru []int
			if klru, ok := c.lruCache.(*keyLru); ok {
				for e := klru.evicts.Front(); e != nil; e = e.Next() {
					lru = append(lru, c16KeyBack(e.Value.(string)))
				}
			}
			c.lock.Unlock()
			// cb: the size the statistics loop would report (newCacheStat's callback = Cache.size)
			return fmt.Sprintf("size=%d lru=%s timers=%d hit=%d miss=%d cb=%d%s", size, keysS(lru, false), tw.timers.Size(),
				atomic.LoadUint64(&c.stats.hit), atomic.LoadUint64(&c.stats.miss), c.stats.sizeCallback(), t)
		}
		return "bad-op"
	}
	// name: what NewCache left in cache.name and handed to newCacheStat (WithName / defaultCacheName)
	nameS := func(n string) string {
		if n == "" {
			return "EMPTY"
		}
		return n
	}
	cfgLine := fmt.Sprintf("interval=%d slots=%d name=%s sname=%s", int64(orig.interval), orig.numSlots, nameS(c.name), nameS(c.stats.name))
	first := true
	return func(op []string) string {
			out := step(op)
			if first {
				// wheel parameters of the real cache, reported once (the model is configured from them)
				first = false
				return out + " | " + cfgLine
			}
			return out
		}, func() {
			tw.Stop()
			c16GoBase--
			verifh.SettleGoroutines(c16GoBase, 5*time.Second)
		}
}
