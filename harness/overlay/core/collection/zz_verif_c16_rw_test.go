//go:build verif

package collection

// C16 / RollingWindow: the real generic RollingWindow instantiated with a recording bucket, driven on the
// virtual clock of core/timex (build tag verif).  Every op carries the absolute time it is executed at.

import (
	"fmt"
	"strconv"
	"strings"
	"time"

	"github.com/zeromicro/go-zero/core/timex"
	"github.com/zeromicro/go-zero/internal/verifh"
)

type c16Bucket struct{ vals []int64 }

func (b *c16Bucket) Add(v int64) { b.vals = append(b.vals, v) }
func (b *c16Bucket) Reset()      { b.vals = nil }

func c16GenRW(r *verifh.Rng) []verifh.Section {
	var secs []verifh.Section
	nsec := verifh.Scale(60, 900)
	for i := 0; i < nsec; i++ {
		size := r.Pick(1, 2, 3, 4, 5, 8, r.Range(1, 12))
		iv := r.Pick(1, 2, 7, 1000, 1000000, 50000000)
		// the option list: no option, IgnoreCurrentBucket() once, twice
		iopts := r.Pick(0, 0, 0, 1, 1, 1, 2)
		t0 := r.Pick(0, 1, iv-1, iv, r.Intn(1000*iv+1))
		now := t0
		// one section in six lets the clock step backwards now and then (outside the property: the driver then only
		// compares with the model of what the code does, see RW.spanB)
		backwards := r.Chance(1, 6)
		var ops []string
		val := 1
		nops := r.Range(4, verifh.Scale(70, 140))
		for j := 0; j < nops; j++ {
			// time step: inside the bucket, onto a bucket boundary -1/0/+1, spans of size-1/size/size+1 buckets, long gaps
			cur := (now - t0) / iv
			var next int
			switch r.Intn(10) {
			case 0, 1:
				next = now
			case 2:
				next = now + r.Intn(iv)
			case 3:
				next = t0 + (cur+1)*iv - 1
			case 4:
				next = t0 + (cur+1)*iv
			case 5:
				next = t0 + (cur+1)*iv + 1
			case 6:
				if r.Chance(1, 2) {
					next = t0 + (cur+r.Pick(size-1, size, size+1))*iv + r.Pick(-1, 0, 1)
				} else {
					next = now + r.Intn(iv)
				}
			case 7:
				next = now + r.Range(1, size+1)*iv
			case 8:
				next = t0 + (cur+r.Range(1, size))*iv + r.Pick(-1, 0, 0, 1, r.Intn(iv))
			default:
				if r.Chance(1, 6) {
					next = now + r.Range(size, 20*size)*iv + r.Intn(iv)
				} else {
					next = now + r.Intn(2*iv)
				}
			}
			if next < now {
				next = now
			}
			if backwards && r.Chance(1, 6) {
				// less than an interval, exactly one, several, beyond the whole window
				next = now - r.Pick(1, iv-1, iv, iv+1, r.Range(1, size+2)*iv+r.Intn(iv), r.Intn(3*iv+1))
				if next < 0 {
					next = 0
				}
			}
			now = next
			switch x := r.Intn(100); {
			case x < 55:
				ops = append(ops, fmt.Sprintf("add %d %d", now, val))
				val++
			case x < 93:
				ops = append(ops, fmt.Sprintf("reduce %d", now))
			default:
				ops = append(ops, "st")
			}
		}
		ops = append(ops, fmt.Sprintf("reduce %d", now))
		if i == 2 {
			// interval 0 (outside the property): span() divides by zero, every Add / Reduce panics
			secs = append(secs, verifh.Section{Cfg: fmt.Sprintf("s=rw size=%d interval=0 iopts=%d t0=%d", size, iopts, t0), Ops: append(append([]string{}, ops[:4]...), "st")})
		}
		if i < 2 {
			// NewRollingWindow(size < 1) panics: no window exists (outside the property, like NewRing(0))
			secs = append(secs, verifh.Section{Cfg: fmt.Sprintf("s=rw size=%d interval=%d iopts=%d t0=%d", -2*i, iv, iopts, t0), Ops: ops[:3]})
		}
		secs = append(secs, verifh.Section{Cfg: fmt.Sprintf("s=rw size=%d interval=%d iopts=%d t0=%d", size, iv, iopts, t0), Ops: ops})
	}
	return secs
}

func c16StartRW(cfg verifh.Cfg) (func(op []string) string, func()) {
	size := cfg.Int("size", 1)
	iv := time.Duration(verifh.Atoi64(cfg.Str("interval", "1")))
	timex.VerifSetNow(time.Duration(verifh.Atoi64(cfg.Str("t0", "0"))))
	newBucket := func() *c16Bucket { return new(c16Bucket) }
	// `iopts=` the number of IgnoreCurrentBucket() options handed to the constructor (older traces: `ignore=0/1`)
	iopts := cfg.Int("iopts", cfg.Int("ignore", 0))
	var rw *RollingWindow[int64, *c16Bucket]
	// a second window over the package's own Bucket type (Sum / Count), fed the same additions
	newReal := func() *Bucket[int64] { return new(Bucket[int64]) }
	var rwB *RollingWindow[int64, *Bucket[int64]]
	func() {
		defer func() { recover() }() // NewRollingWindow(size < 1) panics
		var o1 []RollingWindowOption[int64, *c16Bucket]
		var o2 []RollingWindowOption[int64, *Bucket[int64]]
		for i := 0; i < iopts; i++ {
			o1 = append(o1, IgnoreCurrentBucket[int64, *c16Bucket]())
			o2 = append(o2, IgnoreCurrentBucket[int64, *Bucket[int64]]())
		}
		w1 := NewRollingWindow[int64, *c16Bucket](newBucket, size, iv, o1...)
		w2 := NewRollingWindow[int64, *Bucket[int64]](newReal, size, iv, o2...)
		rw, rwB = w1, w2
	}()
	step := func(op []string) string {
		switch {
		case rw == nil || rwB == nil:
			return "PANIC-new"
		case len(op) == 3 && op[0] == "add":
			timex.VerifSetNow(time.Duration(verifh.Atoi64(op[1])))
			rw.Add(verifh.Atoi64(op[2]))
			rwB.Add(verifh.Atoi64(op[2]))
			return "ok"
		case len(op) == 2 && op[0] == "reduce":
			timex.VerifSetNow(time.Duration(verifh.Atoi64(op[1])))
			var out []string
			rw.Reduce(func(b *c16Bucket) {
				ss := make([]string, len(b.vals))
				for i, v := range b.vals {
					ss[i] = strconv.FormatInt(v, 10)
				}
				out = append(out, "b:"+strings.Join(ss, ","))
			})
			rwB.Reduce(func(b *Bucket[int64]) {
				out = append(out, fmt.Sprintf("s:%d/%d", b.Sum, b.Count))
			})
			return strings.Join(out, " ")
		case len(op) == 1 && op[0] == "st":
			return fmt.Sprintf("%d %d", rw.offset, int64(rw.lastTime))
		}
		return "bad-op"
	}
	return step, func() { timex.VerifClockOff() }
}
