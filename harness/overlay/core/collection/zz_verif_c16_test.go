//go:build verif

package collection

// C16 correspondence harness: drives the real Queue, Ring, Set, SafeMap (this file),
// RollingWindow (zz_verif_c16_rw_test.go) and Cache (zz_verif_c16_cache_test.go), one
// operation per trace line.  Generation (c16Gen*) is separate from execution (c16Start*):
// the executors are driven only by the op text.

import (
	"fmt"
	"sort"
	"strconv"
	"strings"
	"testing"

	"github.com/zeromicro/go-zero/core/logx"
	"github.com/zeromicro/go-zero/internal/verifh"
)

type c16Starter func(cfg verifh.Cfg) (func(op []string) string, func())

// values: 0 stands for a Go nil (Put(nil), Set(k, nil), a loader returning (nil, nil)); a stored nil is PRESENT
func c16Val(v int) any {
	if v == 0 {
		return nil
	}
	return v
}

func c16ValBack(x any) int {
	if x == nil {
		return 0
	}
	return x.(int)
}

// c16PutVal: the next value of a generated history, now and then a nil
func c16PutVal(r *verifh.Rng, next *int) int {
	if r.Chance(1, 12) {
		return 0
	}
	*next++
	return *next - 1
}

var c16Starters = map[string]c16Starter{
	"queue":   c16StartQueue,
	"ring":    c16StartRing,
	"set":     c16StartSet,
	"safemap": c16StartSafeMap,
	"rw":      c16StartRW,
	"cache":   c16StartCache,
}

func c16Gen(r *verifh.Rng) []verifh.Section {
	var secs []verifh.Section
	secs = append(secs, c16GenQueue(r.Fork())...)
	secs = append(secs, c16GenRing(r.Fork())...)
	secs = append(secs, c16GenSet(r.Fork())...)
	secs = append(secs, c16GenSafeMap(r.Fork())...)
	secs = append(secs, c16GenRW(r.Fork())...)
	secs = append(secs, c16GenCache(r.Fork())...)
	secs = append(secs, c16GenMulti(r.Fork(), secs)...)
	return secs
}

// Multi-instance sections: two (or three) instances of one structure live side by side and their operations are
// interleaved.  Header `s=multi`; `@i new <cfg>` creates instance i (cfg = the header of a single-instance
// section), `@i <op>` runs op on it.  Instances must not influence each other (package-level state, shared backing
// arrays, options / closures shared between constructors): the driver replays every instance on its own.
// Cache instances with the same limit are built from ONE CacheOption value (c16OptMemo).
func c16GenMulti(r *verifh.Rng, single []verifh.Section) []verifh.Section {
	by := map[string][]verifh.Section{}
	for _, s := range single {
		k := verifh.ParseCfg(s.Cfg).Str("s", "")
		if len(s.Ops) <= 400 && !strings.Contains(s.Cfg, "size=0") {
			by[k] = append(by[k], s)
		}
	}
	var secs []verifh.Section
	for _, k := range []string{"queue", "ring", "set", "safemap", "rw", "cache"} {
		pool := by[k]
		if len(pool) < 3 {
			continue
		}
		n := verifh.Scale(6, 80)
		if k == "cache" {
			n = verifh.Scale(12, 120)
		}
		for i := 0; i < n; i++ {
			ninst := r.Pick(2, 2, 2, 3)
			var parts [][]string
			var firstCfg string
			for j := 0; j < ninst; j++ {
				src := pool[r.Intn(len(pool))]
				cfg := src.Cfg
				if j == 0 {
					firstCfg = cfg
				} else if r.Chance(2, 3) {
					cfg = firstCfg // same parameters: the same CacheOption value for caches
				}
				ops := []string{fmt.Sprintf("@%d new %s", j, cfg)}
				for _, op := range src.Ops {
					ops = append(ops, fmt.Sprintf("@%d %s", j, op))
				}
				parts = append(parts, ops)
			}
			// interleave, in runs of random length (a run of 1 alternates strictly)
			var ops []string
			for {
				var live []int
				for j, p := range parts {
					if len(p) > 0 {
						live = append(live, j)
					}
				}
				if len(live) == 0 {
					break
				}
				j := live[r.Intn(len(live))]
				run := r.Pick(1, 1, 2, 3, r.Range(1, 12))
				if len(ops) < ninst {
					run = 1
				}
				for ; run > 0 && len(parts[j]) > 0; run-- {
					ops = append(ops, parts[j][0])
					parts[j] = parts[j][1:]
				}
			}
			secs = append(secs, verifh.Section{Cfg: "s=multi of=" + k, Ops: ops})
		}
	}
	return secs
}

// c16OptMemo, while non-nil, makes c16StartCache reuse one CacheOption value per limit
var c16OptMemo map[int]CacheOption

func c16StartMulti(cfg verifh.Cfg) (func(op []string) string, func()) {
	steps := map[string]func(op []string) string{}
	var dones []func()
	memo := map[int]CacheOption{}
	return func(op []string) string {
			if len(op) < 2 || !strings.HasPrefix(op[0], "@") {
				return "bad-op"
			}
			if op[1] == "new" {
				if _, dup := steps[op[0]]; dup {
					return "bad-op"
				}
				icfg := verifh.ParseCfg(strings.Join(op[2:], " "))
				st, ok := c16Starters[icfg.Str("s", "")]
				if !ok || icfg.Str("s", "") == "multi" {
					return "bad-structure"
				}
				c16OptMemo = memo
				step, done := st(icfg)
				c16OptMemo = nil
				steps[op[0]] = step
				if done != nil {
					dones = append(dones, done)
				}
				return "ok"
			}
			step, ok := steps[op[0]]
			if !ok {
				return "no-instance"
			}
			return step(op[1:])
		}, func() {
			for _, d := range dones {
				d()
			}
		}
}

func TestVerifC16(t *testing.T) {
	logx.Disable()
	c16Starters["multi"] = c16StartMulti
	secs := verifh.Sections(c16Gen)
	verifh.Run(t, secs, func(cfg verifh.Cfg) (func(op []string) string, func()) {
		st, ok := c16Starters[cfg.Str("s", "")]
		if !ok {
			return func([]string) string { return "bad-structure" }, nil
		}
		return st(cfg)
	})
}

// ---------------------------------------------------------------- Queue

func c16GenQueue(r *verifh.Rng) []verifh.Section {
	var secs []verifh.Section
	nsec := verifh.Scale(40, 600)
	for i := 0; i < nsec; i++ {
		size := r.Pick(1, 1, 2, 2, 3, 4, 5, 8, r.Range(1, 20))
		if i == 0 {
			size = 0 // outside the property: Put panics (index out of range), state unchanged
		}
		if i == 1 {
			size = -2 // NewQueue(negative): make panics, no queue exists
		}
		var ops []string
		next := 1
		nops := r.Range(5, verifh.Scale(80, 200))
		// phases with a bias, so that the queue fills (growth), drains (empty), and
		// fills again with head != 0 (growth with a wrapped buffer)
		bias := r.Pick(30, 50, 70, 90)
		for j := 0; j < nops; j++ {
			if r.Chance(1, 12) {
				bias = r.Pick(10, 30, 50, 70, 90)
			}
			switch x := r.Intn(100); {
			case x < 6:
				ops = append(ops, "empty")
			case x < 6+bias*94/100:
				ops = append(ops, fmt.Sprintf("put %d", c16PutVal(r, &next)))
			default:
				ops = append(ops, "take")
			}
		}
		// drain completely, one more take on the empty queue
		for j := 0; j < 3 || r.Chance(9, 10); j++ {
			ops = append(ops, "take")
			if j > nops+2 {
				break
			}
		}
		secs = append(secs, verifh.Section{Cfg: fmt.Sprintf("s=queue size=%d", size), Ops: ops})
	}
	// several expansions, each with a wrapped buffer (head != 0) and a different head: fill, take j (head = j),
	// put until full again (tail wraps to head), one more put grows; repeat on the grown buffer
	for i := 0; i < verifh.Scale(12, 150); i++ {
		size := r.Pick(1, 2, 3, 4, 5, r.Range(1, 9))
		var ops []string
		next, count, capa := 1, 0, size
		put := func() { ops = append(ops, fmt.Sprintf("put %d", next)); next++; count++ }
		for round := r.Range(2, 5); round > 0; round-- {
			for count < capa {
				put()
			}
			j := r.Pick(1, 1, capa-1, r.Range(1, capa), capa)
			if j > count {
				j = count
			}
			for ; j > 0; j-- {
				ops = append(ops, "take")
				count--
			}
			for count < capa {
				put()
			}
			put() // grows (wrapped unless everything was taken)
			capa += size
			if r.Chance(1, 3) {
				ops = append(ops, "empty")
			}
		}
		for ; count >= 0; count-- {
			ops = append(ops, "take")
		}
		secs = append(secs, verifh.Section{Cfg: fmt.Sprintf("s=queue size=%d", size), Ops: ops})
	}
	return secs
}

func c16StartQueue(cfg verifh.Cfg) (func(op []string) string, func()) {
	var q *Queue
	func() {
		defer func() { recover() }()
		q = NewQueue(cfg.Int("size", 1))
	}()
	return func(op []string) string {
		switch {
		case q == nil:
			return "PANIC-new"
		case len(op) == 2 && op[0] == "put":
			q.Put(c16Val(verifh.Atoi(op[1])))
			return "ok"
		case len(op) == 1 && op[0] == "take":
			v, ok := q.Take()
			if !ok {
				return "none"
			}
			return strconv.Itoa(c16ValBack(v))
		case len(op) == 1 && op[0] == "empty":
			return strconv.FormatBool(q.Empty())
		}
		return "bad-op"
	}, nil
}

// ---------------------------------------------------------------- Ring

func c16GenRing(r *verifh.Rng) []verifh.Section {
	var secs []verifh.Section
	nsec := verifh.Scale(40, 600)
	for i := 0; i < nsec; i++ {
		n := r.Pick(1, 2, 3, 4, 5, 7, r.Range(1, 40))
		if i == 0 || i == 1 {
			n = -3 * i // NewRing(0), NewRing(-3): the constructor panics
		}
		var ops []string
		next := 1
		// take at every fill level around n and 2n (index fold-back)
		nops := 3
		if n >= 1 {
			nops = r.Pick(n-1, n, n+1, 2*n-1, 2*n, 2*n+1, 3*n, 4*n+1, r.Range(0, 5*n+3))
		}
		dense := r.Chance(1, 3)
		for j := 0; j < nops; j++ {
			ops = append(ops, fmt.Sprintf("add %d", c16PutVal(r, &next)))
			if dense || r.Chance(1, 4) {
				ops = append(ops, "take")
			}
		}
		ops = append(ops, "take")
		secs = append(secs, verifh.Section{Cfg: fmt.Sprintf("s=ring n=%d", n), Ops: ops})
	}
	return secs
}

func c16StartRing(cfg verifh.Cfg) (func(op []string) string, func()) {
	var rg *Ring
	func() {
		defer func() { recover() }()
		rg = NewRing(cfg.Int("n", 1))
	}()
	// slices handed out by earlier Takes (and a private copy of each): a later Add must not change them - Take has to
	// return a fresh slice, never a view of the ring's own buffer
	var held, heldCopy [][]any
	return func(op []string) string {
		switch {
		case rg == nil:
			return "PANIC-new"
		case len(op) == 2 && op[0] == "add":
			rg.Add(c16Val(verifh.Atoi(op[1])))
			return "ok"
		case len(op) == 1 && op[0] == "take":
			vs := rg.Take()
			ss := make([]string, len(vs))
			for i, v := range vs {
				ss[i] = strconv.Itoa(c16ValBack(v))
			}
			for i := range held {
				for j := range held[i] {
					if held[i][j] != heldCopy[i][j] {
						ss = append(ss, "HELD-SLICE-CHANGED")
						held, heldCopy = nil, nil
						break
					}
				}
				if held == nil {
					break
				}
			}
			if len(held) < 8 {
				held = append(held, vs)
				heldCopy = append(heldCopy, append([]any(nil), vs...))
			}
			return strings.Join(ss, " ")
		}
		return "bad-op"
	}, nil
}

// ---------------------------------------------------------------- Set

// element (t, v): t is the Go type constant of set.go (2 int, 3 int64, 4 uint, 5 uint64, 6 string), 7 = float64
func c16Elem(t, v int) any {
	switch t {
	case intType:
		return int(v)
	case int64Type:
		return int64(v)
	case uintType:
		return uint(v)
	case uint64Type:
		return uint64(v)
	case stringType:
		return strconv.Itoa(v)
	case 7:
		return float64(v)
	case 8:
		return nil // Add(nil) / Contains(nil): an element like any other (no case of the type switches)
	}
	panic("c16: bad element type")
}

func c16ElemBack(x any) (int, int) {
	switch e := x.(type) {
	case int:
		return intType, e
	case int64:
		return int64Type, int(e)
	case uint:
		return uintType, int(e)
	case uint64:
		return uint64Type, int(e)
	case string:
		return stringType, verifh.Atoi(e)
	case float64:
		return 7, int(e)
	case nil:
		return 8, 0
	}
	panic("c16: unexpected element")
}

func c16GenSet(r *verifh.Rng) []verifh.Section {
	var secs []verifh.Section
	nsec := verifh.Scale(40, 600)
	for i := 0; i < nsec; i++ {
		managed := r.Intn(2)
		main := r.Range(2, 6)
		nvals := r.Range(1, 6)
		mixed := managed == 0 || r.Chance(1, 4)
		elem := func() string {
			t := main
			if mixed && r.Chance(1, 3) {
				t = r.Range(2, 8)
			}
			if t == 8 {
				return "8 0" // nil
			}
			return fmt.Sprintf("%d %d", t, r.Intn(nvals))
		}
		var ops []string
		nops := r.Range(3, verifh.Scale(60, 150))
		for j := 0; j < nops; j++ {
			switch x := r.Intn(100); {
			case x < 25:
				ops = append(ops, "add "+elem())
			case x < 31:
				// variadic: several elements of one type in one call (also zero elements, duplicates)
				t := main
				if mixed && r.Chance(1, 3) {
					t = r.Range(2, 7)
				}
				op := fmt.Sprintf("addn %d", t)
				for n := r.Pick(0, 2, 2, 3, 4, 6); n > 0; n-- {
					op += fmt.Sprintf(" %d", r.Intn(nvals+2))
				}
				ops = append(ops, op)
			case x < 35:
				// variadic Add(...any) with elements of several types
				op := "addmix"
				for n := r.Pick(0, 1, 2, 3, 5); n > 0; n-- {
					op += " " + elem()
				}
				ops = append(ops, op)
			case x < 55:
				ops = append(ops, "remove "+elem())
			case x < 85:
				ops = append(ops, "contains "+elem())
			case x < 93:
				ops = append(ops, "count")
			default:
				ops = append(ops, "keys")
			}
		}
		ops = append(ops, "count", "keys")
		secs = append(secs, verifh.Section{Cfg: fmt.Sprintf("s=set managed=%d", managed), Ops: ops})
	}
	return secs
}

func c16StartSet(cfg verifh.Cfg) (func(op []string) string, func()) {
	var s *Set
	if cfg.Int("managed", 1) == 1 {
		s = NewSet()
	} else {
		s = NewUnmanagedSet()
	}
	return func(op []string) string {
		switch {
		case len(op) == 3 && op[0] == "add":
			t, v := verifh.Atoi(op[1]), verifh.Atoi(op[2])
			switch t {
			case intType:
				s.AddInt(v)
			case int64Type:
				s.AddInt64(int64(v))
			case uintType:
				s.AddUint(uint(v))
			case uint64Type:
				s.AddUint64(uint64(v))
			case stringType:
				s.AddStr(strconv.Itoa(v))
			default:
				s.Add(c16Elem(t, v))
			}
			return fmt.Sprintf("tp=%d", s.tp)
		case len(op) >= 2 && op[0] == "addn":
			t := verifh.Atoi(op[1])
			vs := make([]int, len(op)-2)
			for i := range vs {
				vs[i] = verifh.Atoi(op[i+2])
			}
			switch t {
			case intType:
				s.AddInt(vs...)
			case int64Type:
				xs := make([]int64, len(vs))
				for i, v := range vs {
					xs[i] = int64(v)
				}
				s.AddInt64(xs...)
			case uintType:
				xs := make([]uint, len(vs))
				for i, v := range vs {
					xs[i] = uint(v)
				}
				s.AddUint(xs...)
			case uint64Type:
				xs := make([]uint64, len(vs))
				for i, v := range vs {
					xs[i] = uint64(v)
				}
				s.AddUint64(xs...)
			case stringType:
				xs := make([]string, len(vs))
				for i, v := range vs {
					xs[i] = strconv.Itoa(v)
				}
				s.AddStr(xs...)
			default:
				xs := make([]any, len(vs))
				for i, v := range vs {
					xs[i] = c16Elem(t, v)
				}
				s.Add(xs...)
			}
			return fmt.Sprintf("tp=%d", s.tp)
		case len(op) >= 1 && len(op)%2 == 1 && op[0] == "addmix":
			var xs []any
			for i := 1; i+1 < len(op); i += 2 {
				xs = append(xs, c16Elem(verifh.Atoi(op[i]), verifh.Atoi(op[i+1])))
			}
			s.Add(xs...)
			return fmt.Sprintf("tp=%d", s.tp)
		case len(op) == 3 && op[0] == "remove":
			s.Remove(c16Elem(verifh.Atoi(op[1]), verifh.Atoi(op[2])))
			return fmt.Sprintf("tp=%d", s.tp)
		case len(op) == 3 && op[0] == "contains":
			return strconv.FormatBool(s.Contains(c16Elem(verifh.Atoi(op[1]), verifh.Atoi(op[2]))))
		case len(op) == 1 && op[0] == "count":
			return strconv.Itoa(s.Count())
		case len(op) == 1 && op[0] == "keys":
			// Keys(), then the union of the typed views (KeysInt … KeysStr; elements of other types from Keys()):
			// each view must hold exactly the keys of its type
			all := s.Keys()
			pairs := make([][2]int, 0, len(all))
			var views [][2]int
			for _, k := range all {
				t, v := c16ElemBack(k)
				if t >= 7 {
					views = append(views, [2]int{t, v})
				}
				pairs = append(pairs, [2]int{t, v})
			}
			for _, k := range s.KeysInt() {
				views = append(views, [2]int{intType, k})
			}
			for _, k := range s.KeysInt64() {
				views = append(views, [2]int{int64Type, int(k)})
			}
			for _, k := range s.KeysUint() {
				views = append(views, [2]int{uintType, int(k)})
			}
			for _, k := range s.KeysUint64() {
				views = append(views, [2]int{uint64Type, int(k)})
			}
			for _, k := range s.KeysStr() {
				views = append(views, [2]int{stringType, verifh.Atoi(k)})
			}
			return strings.TrimSpace(c16Pairs(pairs) + " | " + c16Pairs(views))
		}
		return "bad-op"
	}, nil
}

func c16Pairs(pairs [][2]int) string {
	sort.Slice(pairs, func(i, j int) bool {
		if pairs[i][0] != pairs[j][0] {
			return pairs[i][0] < pairs[j][0]
		}
		return pairs[i][1] < pairs[j][1]
	})
	ss := make([]string, len(pairs))
	for i, p := range pairs {
		ss[i] = fmt.Sprintf("%d:%d", p[0], p[1])
	}
	return strings.Join(ss, " ")
}

// ---------------------------------------------------------------- SafeMap

func c16GenSafeMap(r *verifh.Rng) []verifh.Section {
	var secs []verifh.Section
	cfg := fmt.Sprintf("s=safemap maxdel=%d copythr=%d", maxDeletion, copyThreshold)
	probe := func(ops []string, nkeys int) []string {
		ops = append(ops, "st", "size")
		// Range with a callback that says stop at its j-th call (inside the old generation, at its end, beyond)
		ops = append(ops, fmt.Sprintf("rangestop %d", r.Pick(1, 1, 2, 3, r.Range(1, nkeys+2))))
		// … relative to the old generation's size at that moment (`o+d`): at its last pair, inside the new generation
		ops = append(ops, fmt.Sprintf("rangestop o+%d", r.Pick(0, 1, 1, 2, 5)))
		for j := 0; j < 3; j++ {
			ops = append(ops, fmt.Sprintf("get %d", r.Intn(nkeys+1)))
		}
		return ops
	}
	// short random histories over few keys
	nsec := verifh.Scale(30, 400)
	for i := 0; i < nsec; i++ {
		nkeys := r.Range(1, 6)
		var ops []string
		nops := r.Range(3, verifh.Scale(60, 150))
		for j := 0; j < nops; j++ {
			k := r.Intn(nkeys)
			switch x := r.Intn(100); {
			case x < 35:
				ops = append(ops, fmt.Sprintf("set %d %d", k, r.Pick(0, r.Intn(1000), r.Intn(1000), r.Intn(1000), r.Intn(1000))))
			case x < 60:
				ops = append(ops, fmt.Sprintf("del %d", k))
			case x < 85:
				ops = append(ops, fmt.Sprintf("get %d", k))
			case x < 92:
				ops = append(ops, "size")
			case x < 96:
				ops = append(ops, "st")
			case x < 98:
				ops = append(ops, "range")
			default:
				ops = append(ops, fmt.Sprintf("rangestop %d", r.Pick(0, 1, 1, 2, r.Range(1, nkeys+2))))
			}
		}
		ops = append(ops, "range", "size", fmt.Sprintf("rangestop %d", r.Range(1, nkeys+1)))
		secs = append(secs, verifh.Section{Cfg: cfg, Ops: ops})
	}
	// preloaded sections: the state a long run of deletions leads to, set up directly - `pre=n:d`: keys 0…n-1 are
	// Set (n >= copyThreshold, so Del does not merge the old generation away), then deletionOld is poked to d.  The
	// state is reachable (n Sets, then d times Set/Del of a key outside 0…n-1; d <= maxDeletion+1), the long sections
	// below reach it the honest way.  Short histories then cross the switch `deletionOld > maxDeletion` and work with BOTH
	// generations non-empty: Set moves keys old -> new, Get / Range / Size see both, a stopping Range callback.
	for i := 0; i < verifh.Scale(5, 40); i++ {
		n := copyThreshold + r.Range(0, 40)
		d := maxDeletion + r.Pick(1, 1, 0, -2)
		hot := make([]int, r.Range(3, 7))
		for j := range hot {
			hot[j] = r.Pick(r.Intn(n), r.Intn(n), n+j) // keys of the old generation and fresh ones
		}
		var ops []string
		val := n + 10
		for j, nops := 0, r.Range(20, verifh.Scale(70, 120)); j < nops; j++ {
			k := hot[r.Intn(len(hot))]
			switch x := r.Intn(100); {
			case x < 35:
				ops = append(ops, fmt.Sprintf("set %d %d", k, r.Pick(0, val, val, val)))
				val++
			case x < 55:
				ops = append(ops, fmt.Sprintf("del %d", k))
			case x < 75:
				ops = append(ops, fmt.Sprintf("get %d", k))
			case x < 80:
				ops = append(ops, "size")
			case x < 85:
				ops = append(ops, "st")
			case x < 92:
				ops = append(ops, fmt.Sprintf("rangestop %d", r.Pick(1, 1, 2, 3, n-1, n)))
			default:
				ops = append(ops, fmt.Sprintf("rangestop o+%d", r.Pick(0, 1, 1, 2, 5)))
			}
		}
		ops = append(ops, "st", "size", "rangestop 1", "rangestop o+1", "range")
		for _, k := range hot {
			ops = append(ops, fmt.Sprintf("get %d", k))
		}
		secs = append(secs, verifh.Section{Cfg: fmt.Sprintf("%s pre=%d:%d", cfg, n, d), Ops: ops})
	}
	// long runs of deletions: the generation switches
	nlong := verifh.Scale(1, 4)
	for i := 0; i < nlong; i++ {
		// (a) small old generation: after maxDeletion deletions dirtyOld is merged into dirtyNew
		{
			nkeys := r.Range(2, 30)
			var ops []string
			val := 1
			churn := func(n int) {
				for j := 0; j < n; j++ {
					k := r.Intn(nkeys)
					ops = append(ops, fmt.Sprintf("set %d %d", k, val))
					val++
					if r.Chance(1, 40) {
						ops = append(ops, fmt.Sprintf("get %d", k))
					}
					ops = append(ops, fmt.Sprintf("del %d", k))
					if r.Chance(1, 200) {
						ops = probe(ops, nkeys)
					}
				}
			}
			for j := 0; j < nkeys; j++ {
				ops = append(ops, fmt.Sprintf("set %d %d", j, val))
				val++
			}
			churn(maxDeletion - 3)
			for j := 0; j < 8; j++ { // step over the threshold one deletion at a time
				churn(1)
				ops = probe(ops, nkeys)
			}
			ops = append(ops, "range")
			churn(r.Range(10, 300))
			ops = probe(ops, nkeys)
			ops = append(ops, "range")
			secs = append(secs, verifh.Section{Cfg: cfg, Ops: ops})
		}
		// (b) large old generation (≥ copyThreshold keys): deletions pass maxDeletion without a merge,
		// Set switches to dirtyNew, deletions from dirtyNew reach maxDeletion (merge back), then the
		// old generation shrinks below copyThreshold (merge forward)
		{
			hot := r.Range(5, 60)
			const pool = 10
			// the old generation keeps at least copyThreshold keys after the hot keys and the pool have moved
			big := copyThreshold + hot + pool + r.Range(20, 100)
			var ops []string
			val := 1
			for j := 0; j < big; j++ {
				ops = append(ops, fmt.Sprintf("set %d %d", j, val))
				val++
			}
			churn := func(n int) {
				for j := 0; j < n; j++ {
					k := r.Intn(hot)
					ops = append(ops, fmt.Sprintf("del %d", k))
					if r.Chance(1, 50) {
						ops = append(ops, fmt.Sprintf("get %d", k))
					}
					ops = append(ops, fmt.Sprintf("set %d %d", k, val))
					val++
					if r.Chance(1, 60) {
						ops = append(ops, fmt.Sprintf("get %d", k))
					}
					if r.Chance(1, 40) {
						// overwrite a key without deleting it first: after the switch it moves old -> new
						k2 := hot + r.Intn(pool)
						ops = append(ops, fmt.Sprintf("set %d %d", k2, val), fmt.Sprintf("get %d", k2))
						val++
					}
					if r.Chance(1, 400) {
						ops = probe(ops, big)
					}
				}
			}
			churn(maxDeletion - 3)
			for j := 0; j < 8; j++ {
				churn(1)
				ops = probe(ops, big)
			}
			// now deletionOld > maxDeletion: sets go to dirtyNew; keys move between the generations
			churn(maxDeletion - 3 - hot)
			for j := 0; j < 2*hot+10; j++ {
				churn(1)
				ops = append(ops, "st")
			}
			ops = probe(ops, big)
			// shrink the old generation below copyThreshold
			for j := hot; j < big; j++ {
				ops = append(ops, fmt.Sprintf("del %d", j))
				if j%7 == 0 {
					ops = append(ops, "st")
				}
				if j > hot+200 && r.Chance(1, 3) {
					break
				}
			}
			ops = probe(ops, big)
			ops = append(ops, "range")
			churn(50)
			ops = probe(ops, big)
			secs = append(secs, verifh.Section{Cfg: cfg, Ops: ops})
		}
	}
	return secs
}

func c16StartSafeMap(cfg verifh.Cfg) (func(op []string) string, func()) {
	m := NewSafeMap()
	if pre := strings.Split(cfg.Str("pre", ""), ":"); len(pre) == 2 {
		for k, n := 0, verifh.Atoi(pre[0]); k < n; k++ {
			m.Set(k, k+1)
		}
		m.deletionOld = verifh.Atoi(pre[1])
	}
	return func(op []string) string {
		switch {
		case len(op) == 3 && op[0] == "set":
			m.Set(verifh.Atoi(op[1]), c16Val(verifh.Atoi(op[2])))
			return "ok"
		case len(op) == 2 && op[0] == "del":
			m.Del(verifh.Atoi(op[1]))
			return "ok"
		case len(op) == 2 && op[0] == "get":
			v, ok := m.Get(verifh.Atoi(op[1]))
			if !ok {
				return "none"
			}
			return strconv.Itoa(c16ValBack(v))
		case len(op) == 1 && op[0] == "size":
			return strconv.Itoa(m.Size())
		case len(op) == 1 && op[0] == "range":
			var pairs [][2]int
			m.Range(func(k, v any) bool {
				pairs = append(pairs, [2]int{k.(int), c16ValBack(v)})
				return true
			})
			return c16Pairs(pairs)
		case len(op) == 2 && op[0] == "rangestop":
			// f answers false from its j-th call on (j = 0: never): Range must return at once, out of both loops
			var j int
			if strings.HasPrefix(op[1], "o+") {
				j = len(m.dirtyOld) + verifh.Atoi(op[1][2:])
			} else {
				j = verifh.Atoi(op[1])
			}
			var pairs [][2]int
			calls := 0
			m.Range(func(k, v any) bool {
				calls++
				pairs = append(pairs, [2]int{k.(int), c16ValBack(v)})
				return j == 0 || calls < j
			})
			return strings.TrimSpace(fmt.Sprintf("calls=%d %s", calls, c16Pairs(pairs)))
		case len(op) == 1 && op[0] == "st":
			return fmt.Sprintf("%d %d %d %d", m.deletionOld, m.deletionNew, len(m.dirtyOld), len(m.dirtyNew))
		}
		return "bad-op"
	}, nil
}
