//go:build verif

package collection

// C16 correspondence harness: drives the real Queue, Ring, Set, SafeMap (this file),
// RollingWindow (zz_verif_c16_rw_test.go) and Cache (zz_verif_c16_cache_test.go), one
// operation per trace line.  Generation (c16Gen*) is separate from execution (c16Start*):
// the executors are driven only by the op text.

import (
	"fmt"
	"sort"
	"strconv"
	"strings"
	"testing"

	"github.com/zeromicro/go-zero/core/logx"
	"github.com/zeromicro/go-zero/internal/verifh"
)

type c16Starter func(cfg verifh.Cfg) (func(op []string) string, func())

var c16Starters = map[string]c16Starter{
	"queue":   c16StartQueue,
	"ring":    c16StartRing,
	"set":     c16StartSet,
	"safemap": c16StartSafeMap,
	"rw":      c16StartRW,
	"cache":   c16StartCache,
}

func c16Gen(r *verifh.Rng) []verifh.Section {
	var secs []verifh.Section
	secs = append(secs, c16GenQueue(r.Fork())...)
	secs = append(secs, c16GenRing(r.Fork())...)
	secs = append(secs, c16GenSet(r.Fork())...)
	secs = append(secs, c16GenSafeMap(r.Fork())...)
	secs = append(secs, c16GenRW(r.Fork())...)
	secs = append(secs, c16GenCache(r.Fork())...)
	return secs
}

func TestVerifC16(t *testing.T) {
	logx.Disable()
	secs := verifh.Sections(c16Gen)
	verifh.Run(t, secs, func(cfg verifh.Cfg) (func(op []string) string, func()) {
		st, ok := c16Starters[cfg.Str("s", "")]
		if !ok {
			return func([]string) string { return "bad-structure" }, nil
		}
		return st(cfg)
	})
}

// ---------------------------------------------------------------- Queue

func c16GenQueue(r *verifh.Rng) []verifh.Section {
	var secs []verifh.Section
	nsec := verifh.Scale(40, 600)
	for i := 0; i < nsec; i++ {
		size := r.Pick(1, 1, 2, 2, 3, 4, 5, 8, r.Range(1, 20))
		if i == 0 {
			size = 0 // outside the property: Put panics (index out of range), state unchanged
		}
		var ops []string
		next := 1
		nops := r.Range(5, verifh.Scale(80, 200))
		// phases with a bias, so that the queue fills (growth), drains (empty), and
		// fills again with head != 0 (growth with a wrapped buffer)
		bias := r.Pick(30, 50, 70, 90)
		for j := 0; j < nops; j++ {
			if r.Chance(1, 12) {
				bias = r.Pick(10, 30, 50, 70, 90)
			}
			switch x := r.Intn(100); {
			case x < 6:
				ops = append(ops, "empty")
			case x < 6+bias*94/100:
				ops = append(ops, fmt.Sprintf("put %d", next))
				next++
			default:
				ops = append(ops, "take")
			}
		}
		// drain completely, one more take on the empty queue
		for j := 0; j < 3 || r.Chance(9, 10); j++ {
			ops = append(ops, "take")
			if j > nops+2 {
				break
			}
		}
		secs = append(secs, verifh.Section{Cfg: fmt.Sprintf("s=queue size=%d", size), Ops: ops})
	}
	return secs
}

func c16StartQueue(cfg verifh.Cfg) (func(op []string) string, func()) {
	q := NewQueue(cfg.Int("size", 1))
	return func(op []string) string {
		switch {
		case len(op) == 2 && op[0] == "put":
			q.Put(verifh.Atoi(op[1]))
			return "ok"
		case len(op) == 1 && op[0] == "take":
			v, ok := q.Take()
			if !ok {
				return "none"
			}
			return strconv.Itoa(v.(int))
		case len(op) == 1 && op[0] == "empty":
			return strconv.FormatBool(q.Empty())
		}
		return "bad-op"
	}, nil
}

// ---------------------------------------------------------------- Ring

func c16GenRing(r *verifh.Rng) []verifh.Section {
	var secs []verifh.Section
	nsec := verifh.Scale(40, 600)
	for i := 0; i < nsec; i++ {
		n := r.Pick(1, 2, 3, 4, 5, 7, r.Range(1, 40))
		var ops []string
		next := 1
		// take at every fill level around n and 2n (index fold-back)
		nops := r.Pick(n-1, n, n+1, 2*n-1, 2*n, 2*n+1, 3*n, 4*n+1, r.Range(0, 5*n+3))
		if nops < 0 {
			nops = 0
		}
		dense := r.Chance(1, 3)
		for j := 0; j < nops; j++ {
			ops = append(ops, fmt.Sprintf("add %d", next))
			next++
			if dense || r.Chance(1, 4) {
				ops = append(ops, "take")
			}
		}
		ops = append(ops, "take")
		secs = append(secs, verifh.Section{Cfg: fmt.Sprintf("s=ring n=%d", n), Ops: ops})
	}
	return secs
}

func c16StartRing(cfg verifh.Cfg) (func(op []string) string, func()) {
	rg := NewRing(cfg.Int("n", 1))
	return func(op []string) string {
		switch {
		case len(op) == 2 && op[0] == "add":
			rg.Add(verifh.Atoi(op[1]))
			return "ok"
		case len(op) == 1 && op[0] == "take":
			vs := rg.Take()
			ss := make([]string, len(vs))
			for i, v := range vs {
				ss[i] = strconv.Itoa(v.(int))
			}
			return strings.Join(ss, " ")
		}
		return "bad-op"
	}, nil
}

// ---------------------------------------------------------------- Set

// element (t, v): t is the Go type constant of set.go (2 int, 3 int64, 4 uint, 5 uint64, 6 string), 7 = float64
func c16Elem(t, v int) any {
	switch t {
	case intType:
		return int(v)
	case int64Type:
		return int64(v)
	case uintType:
		return uint(v)
	case uint64Type:
		return uint64(v)
	case stringType:
		return strconv.Itoa(v)
	case 7:
		return float64(v)
	}
	panic("c16: bad element type")
}

func c16ElemBack(x any) (int, int) {
	switch e := x.(type) {
	case int:
		return intType, e
	case int64:
		return int64Type, int(e)
	case uint:
		return uintType, int(e)
	case uint64:
		return uint64Type, int(e)
	case string:
		return stringType, verifh.Atoi(e)
	case float64:
		return 7, int(e)
	}
	panic("c16: unexpected element")
}

func c16GenSet(r *verifh.Rng) []verifh.Section {
	var secs []verifh.Section
	nsec := verifh.Scale(40, 600)
	for i := 0; i < nsec; i++ {
		managed := r.Intn(2)
		main := r.Range(2, 6)
		nvals := r.Range(1, 6)
		mixed := managed == 0 || r.Chance(1, 4)
		elem := func() string {
			t := main
			if mixed && r.Chance(1, 3) {
				t = r.Range(2, 7)
			}
			return fmt.Sprintf("%d %d", t, r.Intn(nvals))
		}
		var ops []string
		nops := r.Range(3, verifh.Scale(60, 150))
		for j := 0; j < nops; j++ {
			switch x := r.Intn(100); {
			case x < 35:
				ops = append(ops, "add "+elem())
			case x < 55:
				ops = append(ops, "remove "+elem())
			case x < 85:
				ops = append(ops, "contains "+elem())
			case x < 93:
				ops = append(ops, "count")
			default:
				ops = append(ops, "keys")
			}
		}
		ops = append(ops, "count", "keys")
		secs = append(secs, verifh.Section{Cfg: fmt.Sprintf("s=set managed=%d", managed), Ops: ops})
	}
	return secs
}

func c16StartSet(cfg verifh.Cfg) (func(op []string) string, func()) {
	var s *Set
	if cfg.Int("managed", 1) == 1 {
		s = NewSet()
	} else {
		s = NewUnmanagedSet()
	}
	return func(op []string) string {
		switch {
		case len(op) == 3 && op[0] == "add":
			t, v := verifh.Atoi(op[1]), verifh.Atoi(op[2])
			switch t {
			case intType:
				s.AddInt(v)
			case int64Type:
				s.AddInt64(int64(v))
			case uintType:
				s.AddUint(uint(v))
			case uint64Type:
				s.AddUint64(uint64(v))
			case stringType:
				s.AddStr(strconv.Itoa(v))
			default:
				s.Add(c16Elem(t, v))
			}
			return fmt.Sprintf("tp=%d", s.tp)
		case len(op) == 3 && op[0] == "remove":
			s.Remove(c16Elem(verifh.Atoi(op[1]), verifh.Atoi(op[2])))
			return fmt.Sprintf("tp=%d", s.tp)
		case len(op) == 3 && op[0] == "contains":
			return strconv.FormatBool(s.Contains(c16Elem(verifh.Atoi(op[1]), verifh.Atoi(op[2]))))
		case len(op) == 1 && op[0] == "count":
			return strconv.Itoa(s.Count())
		case len(op) == 1 && op[0] == "keys":
			// Keys() plus the typed views must partition the key set
			all := s.Keys()
			typed := len(s.KeysInt()) + len(s.KeysInt64()) + len(s.KeysUint()) + len(s.KeysUint64()) + len(s.KeysStr())
			other := 0
			pairs := make([][2]int, 0, len(all))
			for _, k := range all {
				t, v := c16ElemBack(k)
				if t == 7 {
					other++
				}
				pairs = append(pairs, [2]int{t, v})
			}
			if typed+other != len(all) {
				return "typed-views-disagree"
			}
			return c16Pairs(pairs)
		}
		return "bad-op"
	}, nil
}

func c16Pairs(pairs [][2]int) string {
	sort.Slice(pairs, func(i, j int) bool {
		if pairs[i][0] != pairs[j][0] {
			return pairs[i][0] < pairs[j][0]
		}
		return pairs[i][1] < pairs[j][1]
	})
	ss := make([]string, len(pairs))
	for i, p := range pairs {
		ss[i] = fmt.Sprintf("%d:%d", p[0], p[1])
	}
	return strings.Join(ss, " ")
}

// ---------------------------------------------------------------- SafeMap

func c16GenSafeMap(r *verifh.Rng) []verifh.Section {
	var secs []verifh.Section
	cfg := fmt.Sprintf("s=safemap maxdel=%d copythr=%d", maxDeletion, copyThreshold)
	probe := func(ops []string, nkeys int) []string {
		ops = append(ops, "st", "size")
		for j := 0; j < 3; j++ {
			ops = append(ops, fmt.Sprintf("get %d", r.Intn(nkeys+1)))
		}
		return ops
	}
	// short random histories over few keys
	nsec := verifh.Scale(30, 400)
	for i := 0; i < nsec; i++ {
		nkeys := r.Range(1, 6)
		var ops []string
		nops := r.Range(3, verifh.Scale(60, 150))
		for j := 0; j < nops; j++ {
			k := r.Intn(nkeys)
			switch x := r.Intn(100); {
			case x < 35:
				ops = append(ops, fmt.Sprintf("set %d %d", k, r.Intn(1000)))
			case x < 60:
				ops = append(ops, fmt.Sprintf("del %d", k))
			case x < 85:
				ops = append(ops, fmt.Sprintf("get %d", k))
			case x < 92:
				ops = append(ops, "size")
			case x < 96:
				ops = append(ops, "st")
			default:
				ops = append(ops, "range")
			}
		}
		ops = append(ops, "range", "size")
		secs = append(secs, verifh.Section{Cfg: cfg, Ops: ops})
	}
	// long runs of deletions: the generation switches
	nlong := verifh.Scale(1, 4)
	for i := 0; i < nlong; i++ {
		// (a) small old generation: after maxDeletion deletions dirtyOld is merged into dirtyNew
		{
			nkeys := r.Range(2, 30)
			var ops []string
			val := 1
			churn := func(n int) {
				for j := 0; j < n; j++ {
					k := r.Intn(nkeys)
					ops = append(ops, fmt.Sprintf("set %d %d", k, val))
					val++
					if r.Chance(1, 40) {
						ops = append(ops, fmt.Sprintf("get %d", k))
					}
					ops = append(ops, fmt.Sprintf("del %d", k))
					if r.Chance(1, 200) {
						ops = probe(ops, nkeys)
					}
				}
			}
			for j := 0; j < nkeys; j++ {
				ops = append(ops, fmt.Sprintf("set %d %d", j, val))
				val++
			}
			churn(maxDeletion - 3)
			for j := 0; j < 8; j++ { // step over the threshold one deletion at a time
				churn(1)
				ops = probe(ops, nkeys)
			}
			ops = append(ops, "range")
			churn(r.Range(10, 300))
			ops = probe(ops, nkeys)
			ops = append(ops, "range")
			secs = append(secs, verifh.Section{Cfg: cfg, Ops: ops})
		}
		// (b) large old generation (≥ copyThreshold keys): deletions pass maxDeletion without a merge,
		// Set switches to dirtyNew, deletions from dirtyNew reach maxDeletion (merge back), then the
		// old generation shrinks below copyThreshold (merge forward)
		{
			hot := r.Range(5, 60)
			const pool = 10
			// the old generation keeps at least copyThreshold keys after the hot keys and the pool have moved
			big := copyThreshold + hot + pool + r.Range(20, 100)
			var ops []string
			val := 1
			for j := 0; j < big; j++ {
				ops = append(ops, fmt.Sprintf("set %d %d", j, val))
				val++
			}
			churn := func(n int) {
				for j := 0; j < n; j++ {
					k := r.Intn(hot)
					ops = append(ops, fmt.Sprintf("del %d", k))
					if r.Chance(1, 50) {
						ops = append(ops, fmt.Sprintf("get %d", k))
					}
					ops = append(ops, fmt.Sprintf("set %d %d", k, val))
					val++
					if r.Chance(1, 60) {
						ops = append(ops, fmt.Sprintf("get %d", k))
					}
					if r.Chance(1, 40) {
						// overwrite a key without deleting it first: after the switch it moves old -> new
						k2 := hot + r.Intn(pool)
						ops = append(ops, fmt.Sprintf("set %d %d", k2, val), fmt.Sprintf("get %d", k2))
						val++
					}
					if r.Chance(1, 400) {
						ops = probe(ops, big)
					}
				}
			}
			churn(maxDeletion - 3)
			for j := 0; j < 8; j++ {
				churn(1)
				ops = probe(ops, big)
			}
			// now deletionOld > maxDeletion: sets go to dirtyNew; keys move between the generations
			churn(maxDeletion - 3 - hot)
			for j := 0; j < 2*hot+10; j++ {
				churn(1)
				ops = append(ops, "st")
			}
			ops = probe(ops, big)
			// shrink the old generation below copyThreshold
			for j := hot; j < big; j++ {
				ops = append(ops, fmt.Sprintf("del %d", j))
				if j%7 == 0 {
					ops = append(ops, "st")
				}
				if j > hot+200 && r.Chance(1, 3) {
					break
				}
			}
			ops = probe(ops, big)
			ops = append(ops, "range")
			churn(50)
			ops = probe(ops, big)
			secs = append(secs, verifh.Section{Cfg: cfg, Ops: ops})
		}
	}
	return secs
}

func c16StartSafeMap(cfg verifh.Cfg) (func(op []string) string, func()) {
	m := NewSafeMap()
	return func(op []string) string {
		switch {
		case len(op) == 3 && op[0] == "set":
			m.Set(verifh.Atoi(op[1]), verifh.Atoi(op[2]))
			return "ok"
		case len(op) == 2 && op[0] == "del":
			m.Del(verifh.Atoi(op[1]))
			return "ok"
		case len(op) == 2 && op[0] == "get":
			v, ok := m.Get(verifh.Atoi(op[1]))
			if !ok {
				return "none"
			}
			return strconv.Itoa(v.(int))
		case len(op) == 1 && op[0] == "size":
			return strconv.Itoa(m.Size())
		case len(op) == 1 && op[0] == "range":
			var pairs [][2]int
			m.Range(func(k, v any) bool {
				pairs = append(pairs, [2]int{k.(int), v.(int)})
				return true
			})
			return c16Pairs(pairs)
		case len(op) == 1 && op[0] == "st":
			return fmt.Sprintf("%d %d %d %d", m.deletionOld, m.deletionNew, len(m.dirtyOld), len(m.dirtyNew))
		}
		return "bad-op"
	}, nil
}
