//go:build verif

package collection

// C16 / Cache glue test on the *real* wheel (real one-second ticker): the correspondence harness swaps the
// cache's wheel for one with a harness ticker, so this test checks the part it bypasses — that the wheel NewCache
// builds really ticks and expires entries, and that RollingWindow on the real clock advances. Thorough tier only
// (it sleeps a few seconds); every observation is "ok" or a description of what went wrong (GLUE driver).

import (
	"fmt"
	"strings"
	"testing"
	"time"

	"github.com/zeromicro/go-zero/core/logx"
	"github.com/zeromicro/go-zero/core/timex"
	"github.com/zeromicro/go-zero/internal/verifh"
)

func TestVerifC16RealTime(t *testing.T) {
	logx.Disable()
	timex.VerifClockOff()
	ops := []string{"timex-now-follows-the-wall-clock"}
	if verifh.Thorough() {
		ops = []string{"timex-now-follows-the-wall-clock", "cache-real-wheel-expires", "rollingwindow-real-clock"}
	}
	secs := []verifh.Section{{Cfg: "kind=c16-realtime", Ops: ops}}
	verifh.Run(t, secs, func(cfg verifh.Cfg) (func(op []string) string, func()) {
		return func(op []string) string {
			switch op[0] {
			case "timex-now-follows-the-wall-clock":
				// Characterisation, not a requirement: timex.Now() is time.Since(initTime) with
				// initTime = time.Now().AddDate(-1,-1,-1). AddDate rebuilds the value with time.Date, which has no
				// monotonic reading (a Time with one prints " m=±…"), so time.Since falls back to the wall clock and
				// timex.Now() steps back when the system time does. The RollingWindow theorems therefore state
				// "timex.Now() non-decreasing" as an assumption. The probe checks the Go runtime behaviour this rests on (a fix of initTime does not affect it): the
				// probe itself works (a fresh time.Now() does carry a monotonic reading).
				if !strings.Contains(time.Now().String(), " m=") {
					return "time.Now() carries no monotonic reading: the probe is void"
				}
				if strings.Contains(time.Now().AddDate(-1, -1, -1).String(), " m=") {
					return "AddDate kept the monotonic reading: update the RollingWindow assumption text"
				}
			case "cache-real-wheel-expires":
				c, err := NewCache(time.Second, WithLimit(2))
				if err != nil {
					return "NewCache: " + err.Error()
				}
				defer c.timingWheel.Stop()
				c.Set("a", 1)
				c.Set("a", 2) // re-Set with a jittered expiry around one second must not delete the entry
				if v, ok := c.Get("a"); !ok || v.(int) != 2 {
					return fmt.Sprintf("Get right after Set: %v %v", v, ok)
				}
				c.SetWithExpire("b", 3, 30*time.Second)
				// expiry of "a": floor(jittered 0.95..1.05 s / 1 s) clamped to >= 1 tick, i.e. at the 1st tick
				// after the Set; allow the ticker three seconds
				deadline := time.Now().Add(3500 * time.Millisecond)
				for time.Now().Before(deadline) {
					if _, ok := c.Get("a"); !ok {
						break
					}
					time.Sleep(50 * time.Millisecond)
				}
				if _, ok := c.Get("a"); ok {
					return "entry with a one-second expiry still cached after 3.5 s"
				}
				if v, ok := c.Get("b"); !ok || v.(int) != 3 {
					return "entry with a 30 s expiry gone after 3.5 s"
				}
			case "rollingwindow-real-clock":
				rw := NewRollingWindow[int64, *c16Bucket](func() *c16Bucket { return new(c16Bucket) }, 3, 40*time.Millisecond)
				rw.Add(1)
				var first []int64
				rw.Reduce(func(b *c16Bucket) { first = append(first, b.vals...) })
				if len(first) != 1 || first[0] != 1 {
					return fmt.Sprintf("value not visible right after Add: %v", first)
				}
				time.Sleep(200 * time.Millisecond) // five intervals: everything expired
				var later []int64
				rw.Reduce(func(b *c16Bucket) { later = append(later, b.vals...) })
				if len(later) != 0 {
					return fmt.Sprintf("value still visible after five intervals: %v", later)
				}
			default:
				return "bad-op"
			}
			return "ok"
		}, nil
	})
}
