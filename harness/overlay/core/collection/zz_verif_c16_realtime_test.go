//go:build verif

package collection

// C16 / Cache glue test on the *real* wheel (real one-second ticker): the correspondence harness swaps the
// cache's wheel for one with a harness ticker, so this test checks the part it bypasses — that the wheel NewCache
// builds really ticks and expires entries, and that RollingWindow on the real clock advances. Thorough tier only
// (it sleeps a few seconds); every observation is "ok" or a description of what went wrong (GLUE driver).

import (
	"fmt"
	"strings"
	"testing"
	"time"

	"github.com/zeromicro/go-zero/core/logx"
	"github.com/zeromicro/go-zero/core/timex"
	"github.com/zeromicro/go-zero/internal/verifh"
)

func TestVerifC16RealTime(t *testing.T) {
	logx.Disable()
	timex.VerifClockOff()
	ops := []string{"timex-now-follows-the-wall-clock", "reentrant-use-as-modelled"}
	if verifh.Thorough() {
		ops = []string{"timex-now-follows-the-wall-clock", "reentrant-use-as-modelled", "cache-real-wheel-expires", "rollingwindow-real-clock"}
	}
	// finishes(f): f returns within d (run on a goroutine of its own, which is left behind if it hangs)
	finishes := func(d time.Duration, f func()) bool {
		done := make(chan struct{})
		go func() { defer close(done); defer func() { recover() }(); f() }()
		select {
		case <-done:
			return true
		case <-time.After(d):
			return false
		}
	}
	secs := []verifh.Section{{Cfg: "kind=c16-realtime", Ops: ops}}
	verifh.Run(t, secs, func(cfg verifh.Cfg) (func(op []string) string, func()) {
		return func(op []string) string {
			switch op[0] {
			case "timex-now-follows-the-wall-clock":
				// Characterisation, not a requirement: timex.Now() is time.Since(initTime) with
				// initTime = time.Now().AddDate(-1,-1,-1). AddDate rebuilds the value with time.Date, which has no
				// monotonic reading (a Time with one prints " m=±…"), so time.Since falls back to the wall clock and
				// timex.Now() steps back when the system time does. The RollingWindow theorems therefore state
				// "timex.Now() non-decreasing" as an assumption. The probe checks the Go runtime behaviour this rests on (a fix of initTime does not affect it): the
				// probe itself works (a fresh time.Now() does carry a monotonic reading).
				if !strings.Contains(time.Now().String(), " m=") {
					return "time.Now() carries no monotonic reading: the probe is void"
				}
				if strings.Contains(time.Now().AddDate(-1, -1, -1).String(), " m=") {
					return "AddDate kept the monotonic reading: update the RollingWindow assumption text"
				}
			case "reentrant-use-as-modelled":
				// Characterisation of lean/GoZero/C16/Reent.lean on the real code (re-entrant use is outside the property's
				// "sequences of operations"; the theorems say what the code does).  "hangs" = not finished after 300 ms -
				// for a deadlock that is true at any machine load; "passes" = finished within 10 s.
				m := NewSafeMap()
				m.Set(1, 10)
				m.Set(2, 20)
				// range_callback_read_passes_without_writer
				if !finishes(10*time.Second, func() {
					m.Range(func(k, v any) bool { m.Get(k); m.Size(); return true })
				}) {
					return "a Get / Size from inside a Range callback hangs although no writer is pending: update Reent.lean"
				}
				// range_callback_write_deadlocks: the callback's Set waits for its own read lock, and nobody gets in any more
				if finishes(300*time.Millisecond, func() {
					m.Range(func(k, v any) bool { m.Set(3, 30); return false })
				}) {
					return "a Set from inside a Range callback returned: SafeMap.Range no longer holds the read lock over the callback - update Reent.lean and the lock frame"
				}
				if finishes(300*time.Millisecond, func() { m.Get(1) }) {
					return "a Get behind a Range callback that waits in Set returned: sync.RWMutex let a reader pass a pending writer - update Reent.lean"
				}
				// take_reentrant_loader_deadlocks; a nested Take for another key starts its own call
				c, err := NewCache(time.Minute)
				if err != nil {
					return "NewCache: " + err.Error()
				}
				defer c.timingWheel.Stop()
				if !finishes(10*time.Second, func() {
					c.Take("a", func() (any, error) { return c.Take("b", func() (any, error) { return 2, nil }) })
				}) {
					return "a loader that takes ANOTHER key hangs: update Reent.lean"
				}
				if finishes(300*time.Millisecond, func() {
					c.Take("x", func() (any, error) { return c.Take("x", func() (any, error) { return 1, nil }) })
				}) {
					return "a loader that takes its OWN key returned: the barrier no longer makes it wait for itself - update Reent.lean"
				}
				if finishes(300*time.Millisecond, func() { c.Take("x", func() (any, error) { return 5, nil }) }) {
					return "a Take of a key whose loader waits for itself returned: update Reent.lean"
				}
			case "cache-real-wheel-expires":
				c, err := NewCache(time.Second, WithLimit(2))
				if err != nil {
					return "NewCache: " + err.Error()
				}
				defer c.timingWheel.Stop()
				c.Set("a", 1)
				c.Set("a", 2) // re-Set with a jittered expiry around one second must not delete the entry
				if v, ok := c.Get("a"); !ok || v.(int) != 2 {
					return fmt.Sprintf("Get right after Set: %v %v", v, ok)
				}
				c.SetWithExpire("b", 3, 30*time.Second)
				// expiry of "a": floor(jittered 0.95..1.05 s / 1 s) clamped to >= 1 tick, i.e. at the 1st tick
				// after the Set; allow the ticker three seconds
				deadline := time.Now().Add(3500 * time.Millisecond)
				for time.Now().Before(deadline) {
					if _, ok := c.Get("a"); !ok {
						break
					}
					time.Sleep(50 * time.Millisecond)
				}
				if _, ok := c.Get("a"); ok {
					return "entry with a one-second expiry still cached after 3.5 s"
				}
				if v, ok := c.Get("b"); !ok || v.(int) != 3 {
					return "entry with a 30 s expiry gone after 3.5 s"
				}
			case "rollingwindow-real-clock":
				rw := NewRollingWindow[int64, *c16Bucket](func() *c16Bucket { return new(c16Bucket) }, 3, 40*time.Millisecond)
				rw.Add(1)
				var first []int64
				rw.Reduce(func(b *c16Bucket) { first = append(first, b.vals...) })
				if len(first) != 1 || first[0] != 1 {
					return fmt.Sprintf("value not visible right after Add: %v", first)
				}
				time.Sleep(200 * time.Millisecond) // five intervals: everything expired
				var later []int64
				rw.Reduce(func(b *c16Bucket) { later = append(later, b.vals...) })
				if len(later) != 0 {
					return fmt.Sprintf("value still visible after five intervals: %v", later)
				}
			default:
				return "bad-op"
			}
			return "ok"
		}, nil
	})
}
