//go:build verif

package collection

// C16 concurrency harness (built with -race): G goroutines on ONE real SafeMap / Queue / Ring / Cache; every call
// is stamped at invocation and return by one global atomic counter.  One section = one concurrent run, one line =
// one call:
//
//	c id=<n> g=<goroutine> y=<yields before> op=<name> [k=<key>] [v=<value>] [f=<0|1 loader fails>] [ly=<yields inside the loader>]
//	   => inv=<stamp> ret=<stamp> res=<result> [calls=<loader calls> ls=<stamp> le=<stamp>]
//
// Calls of goroutine g >= 0 run concurrently in program order; calls with g=-1 run one after the other after all
// goroutines have finished (final drain / final reads).  The generator only writes op lines; the executor is driven
// by the op text alone (replay, shrinking).  Results are canonical: map iteration results are sorted.

import (
	"bufio"
	"errors"
	"fmt"
	"os"
	"runtime"
	"sort"
	"strconv"
	"strings"
	"sync"
	"sync/atomic"
	"testing"
	"time"

	"github.com/zeromicro/go-zero/core/logx"
	"github.com/zeromicro/go-zero/internal/verifh"
)

type c16cCall struct {
	id, g, y, k, v, ly int
	op                 string
	fail               bool
	inv, ret, ls, le   int64
	calls              int32
	res                string
	done               bool
}

func c16cParse(text string) (*c16cCall, bool) {
	f := strings.Fields(text)
	if len(f) == 0 || f[0] != "c" {
		return nil, false
	}
	c := verifh.ParseCfg(text)
	if _, ok := c["id"]; !ok {
		return nil, false
	}
	if _, ok := c["op"]; !ok {
		return nil, false
	}
	return &c16cCall{id: c.Int("id", -1), g: c.Int("g", 0), y: c.Int("y", 0), k: c.Int("k", 0), v: c.Int("v", 0),
		ly: c.Int("ly", 0), op: c.Str("op", ""), fail: c.Int("f", 0) == 1, res: "-"}, true
}

func c16cSpin(n int) {
	for i := 0; i < n; i++ {
		runtime.Gosched()
	}
}

func c16cInts(xs []any) string {
	if len(xs) == 0 {
		return "-"
	}
	ss := make([]string, len(xs))
	for i, x := range xs {
		ss[i] = strconv.Itoa(x.(int))
	}
	return strings.Join(ss, ",")
}

// c16cRunSection executes one section on the real code and returns the observation per op line.
func c16cRunSection(cfg verifh.Cfg, ops []string) []string {
	if p := cfg.Int("procs", 0); p > 0 {
		defer runtime.GOMAXPROCS(runtime.GOMAXPROCS(p))
	}
	out := make([]string, len(ops))
	var calls []*c16cCall
	idx := map[*c16cCall]int{}
	for i, op := range ops {
		c, ok := c16cParse(op)
		if !ok {
			out[i] = "bad-op"
			continue
		}
		idx[c] = i
		calls = append(calls, c)
	}
	var stamp atomic.Int64
	var exec func(c *c16cCall) string
	cleanup := func() {}
	switch cfg.Str("s", "") {
	case "cmap":
		m := NewSafeMap()
		exec = func(c *c16cCall) string {
			switch c.op {
			case "set":
				m.Set(c.k, c.v)
				return "ok"
			case "del":
				m.Del(c.k)
				return "ok"
			case "get":
				v, ok := m.Get(c.k)
				if !ok {
					return "none"
				}
				return strconv.Itoa(v.(int))
			case "size":
				return strconv.Itoa(m.Size())
			case "range":
				var pairs []string
				var keys []int
				vals := map[int]int{}
				dup := false
				m.Range(func(k, v any) bool {
					if _, ok := vals[k.(int)]; ok {
						dup = true
					}
					vals[k.(int)] = v.(int)
					keys = append(keys, k.(int))
					if c.ly > 0 {
						c16cSpin(1)
					}
					return true
				})
				if dup {
					// a key handed out twice: keep the duplicates visible
					sort.Ints(keys)
					for _, k := range keys {
						pairs = append(pairs, fmt.Sprintf("%d:%d", k, vals[k]))
					}
					return "dup," + strings.Join(pairs, ",")
				}
				sort.Ints(keys)
				for _, k := range keys {
					pairs = append(pairs, fmt.Sprintf("%d:%d", k, vals[k]))
				}
				if len(pairs) == 0 {
					return "-"
				}
				return strings.Join(pairs, ",")
			}
			return "bad-op"
		}
	case "cqueue":
		q := NewQueue(cfg.Int("size", 1))
		exec = func(c *c16cCall) string {
			switch c.op {
			case "put":
				q.Put(c.v)
				return "ok"
			case "take":
				v, ok := q.Take()
				if !ok {
					return "none"
				}
				return strconv.Itoa(v.(int))
			case "empty":
				return strconv.FormatBool(q.Empty())
			}
			return "bad-op"
		}
	case "cring":
		rg := NewRing(cfg.Int("n", 1))
		var held [][]any
		var heldTxt []string
		var hmu sync.Mutex
		exec = func(c *c16cCall) string {
			switch c.op {
			case "add":
				rg.Add(c.v)
				return "ok"
			case "take":
				vs := rg.Take()
				txt := c16cInts(vs)
				hmu.Lock()
				held = append(held, vs)
				heldTxt = append(heldTxt, txt)
				hmu.Unlock()
				return txt
			case "held":
				// every slice Take returned earlier still reads as it did when it was returned
				hmu.Lock()
				defer hmu.Unlock()
				for i, vs := range held {
					if c16cInts(vs) != heldTxt[i] {
						return fmt.Sprintf("changed:%s->%s", strings.ReplaceAll(heldTxt[i], ",", "."), strings.ReplaceAll(c16cInts(vs), ",", "."))
					}
				}
				return "same"
			}
			return "bad-op"
		}
	case "ctake":
		logx.Disable()
		cache, err := NewCache(time.Hour, WithLimit(cfg.Int("limit", 0)))
		if err != nil {
			panic(err)
		}
		cleanup = func() { cache.timingWheel.Stop() }
		exec = func(c *c16cCall) string {
			key := c16Key(c.k)
			switch c.op {
			case "take":
				v, err := cache.Take(key, func() (any, error) {
					atomic.AddInt32(&c.calls, 1)
					atomic.StoreInt64(&c.ls, stamp.Add(1))
					c16cSpin(c.ly)
					atomic.StoreInt64(&c.le, stamp.Add(1))
					if c.fail {
						return nil, errors.New("load failed")
					}
					return c.v, nil
				})
				if err != nil {
					return "err"
				}
				return strconv.Itoa(v.(int))
			case "get":
				v, ok := cache.Get(key)
				if !ok {
					return "none"
				}
				return strconv.Itoa(v.(int))
			case "set":
				cache.Set(key, c.v)
				return "ok"
			case "del":
				cache.Del(key)
				return "ok"
			case "stats":
				return fmt.Sprintf("hit:%d,miss:%d", atomic.LoadUint64(&cache.stats.hit), atomic.LoadUint64(&cache.stats.miss))
			}
			return "bad-op"
		}
	default:
		for i := range out {
			out[i] = "bad-structure"
		}
		return out
	}
	defer cleanup()
	run := func(c *c16cCall) {
		c16cSpin(c.y)
		c.inv = stamp.Add(1)
		func() {
			defer func() {
				if p := recover(); p != nil {
					c.res = "PANIC"
				}
			}()
			c.res = exec(c)
		}()
		c.ret = stamp.Add(1)
		c.done = true
	}
	byG := map[int][]*c16cCall{}
	var gs []int
	var final []*c16cCall
	for _, c := range calls {
		if c.g < 0 {
			final = append(final, c)
			continue
		}
		if _, ok := byG[c.g]; !ok {
			gs = append(gs, c.g)
		}
		byG[c.g] = append(byG[c.g], c)
	}
	start := make(chan struct{})
	var wg sync.WaitGroup
	for _, g := range gs {
		wg.Add(1)
		go func(list []*c16cCall) {
			defer wg.Done()
			<-start
			for _, c := range list {
				run(c)
			}
		}(byG[g])
	}
	close(start)
	ch := make(chan struct{})
	go func() { wg.Wait(); close(ch) }()
	stuck := false
	select {
	case <-ch:
	case <-time.After(time.Duration(verifh.Scale(30, 90)) * time.Second):
		stuck = true
	}
	if !stuck {
		for _, c := range final {
			run(c)
		}
	}
	for _, c := range calls {
		if stuck && !c.done {
			// goroutines may still be running: do not touch their fields
			out[idx[c]] = "inv=0 ret=0 res=STUCK"
			continue
		}
		s := fmt.Sprintf("inv=%d ret=%d res=%s", c.inv, c.ret, c.res)
		if c.op == "take" && cfg.Str("s", "") == "ctake" {
			s += fmt.Sprintf(" calls=%d ls=%d le=%d", atomic.LoadInt32(&c.calls), atomic.LoadInt64(&c.ls), atomic.LoadInt64(&c.le))
		}
		out[idx[c]] = s
	}
	return out
}

// ---------------------------------------------------------------- generator

type c16cGen struct {
	r   *verifh.Rng
	id  int
	ops []string
}

func (g *c16cGen) add(gor int, format string, a ...any) {
	g.id++
	y := 0
	if g.r.Chance(1, 3) {
		y = g.r.Pick(1, 1, 2, 3, 5)
	}
	g.ops = append(g.ops, fmt.Sprintf("c id=%d g=%d y=%d ", g.id, gor, y)+fmt.Sprintf(format, a...))
}

func c16cProcs(r *verifh.Rng) int { return r.Pick(1, 2, 4, 8, 0) }

func c16cGenAll(r *verifh.Rng) []verifh.Section {
	var secs []verifh.Section
	// ---- SafeMap: every key is written by one goroutine only (its values are unique), read by all
	nmap := verifh.Scale(60, 600)
	for i := 0; i < nmap; i++ {
		g := &c16cGen{r: r.Fork()}
		r := g.r
		writers := r.Range(1, 4)
		readers := r.Range(1, 4)
		perW := r.Range(1, 4) // keys per writer
		val := 1
		for w := 0; w < writers; w++ {
			n := r.Range(3, verifh.Scale(30, 60))
			for j := 0; j < n; j++ {
				k := w*10 + r.Intn(perW)
				if r.Chance(3, 5) {
					g.add(w, "op=set k=%d v=%d", k, val)
					val++
				} else {
					g.add(w, "op=del k=%d", k)
				}
				if r.Chance(1, 6) {
					g.add(w, "op=get k=%d", k)
				}
			}
		}
		for rd := 0; rd < readers; rd++ {
			n := r.Range(3, verifh.Scale(30, 60))
			for j := 0; j < n; j++ {
				switch x := r.Intn(10); {
				case x < 5:
					g.add(writers+rd, "op=get k=%d", r.Intn(writers)*10+r.Intn(perW))
				case x < 7:
					g.add(writers+rd, "op=size")
				default:
					g.add(writers+rd, "op=range ly=%d", r.Intn(2))
				}
			}
		}
		g.add(-1, "op=range")
		g.add(-1, "op=size")
		secs = append(secs, verifh.Section{Cfg: fmt.Sprintf("s=cmap procs=%d", c16cProcs(r)), Ops: g.ops})
	}
	// ---- SafeMap, long: more than maxDeletion deletions while readers Range / Get / Size (the migration runs under
	// the write lock, concurrently with waiting readers)
	nlong := verifh.Scale(1, 3)
	for i := 0; i < nlong; i++ {
		g := &c16cGen{r: r.Fork()}
		r := g.r
		writers := 2
		val := 1
		for w := 0; w < writers; w++ {
			nk := r.Range(2, 6)
			for j := 0; j < nk; j++ {
				g.add(w, "op=set k=%d v=%d", w*10+j, val)
				val++
			}
			n := maxDeletion/2 + r.Range(50, 400)
			for j := 0; j < n; j++ {
				k := w*10 + r.Intn(nk)
				g.add(w, "op=set k=%d v=%d", k, val)
				val++
				g.add(w, "op=del k=%d", k)
				if r.Chance(1, 3) {
					g.add(w, "op=set k=%d v=%d", k, val)
					val++
				}
			}
		}
		for rd := 0; rd < 3; rd++ {
			n := 3000
			for j := 0; j < n; j++ {
				switch x := r.Intn(10); {
				case x < 4:
					g.add(writers+rd, "op=get k=%d", r.Intn(writers)*10+r.Intn(6))
				case x < 5:
					g.add(writers+rd, "op=size")
				default:
					g.add(writers+rd, "op=range ly=%d", r.Intn(2))
				}
			}
		}
		g.add(-1, "op=range")
		g.add(-1, "op=size")
		secs = append(secs, verifh.Section{Cfg: fmt.Sprintf("s=cmap procs=%d long=1", r.Pick(2, 4, 8)), Ops: g.ops})
	}
	// ---- Queue: producers put unique increasing values, consumers take, a final drain
	nq := verifh.Scale(60, 600)
	for i := 0; i < nq; i++ {
		g := &c16cGen{r: r.Fork()}
		r := g.r
		prod := r.Range(1, 4)
		cons := r.Range(1, 4)
		total := 0
		val := 1
		for p := 0; p < prod; p++ {
			n := r.Range(2, verifh.Scale(30, 60))
			for j := 0; j < n; j++ {
				g.add(p, "op=put v=%d", val)
				val++
				total++
				if r.Chance(1, 8) {
					g.add(p, "op=empty")
				}
				if r.Chance(1, 8) {
					g.add(p, "op=take")
				}
			}
		}
		for c := 0; c < cons; c++ {
			n := r.Range(2, verifh.Scale(30, 60))
			for j := 0; j < n; j++ {
				if r.Chance(1, 8) {
					g.add(prod+c, "op=empty")
				} else {
					g.add(prod+c, "op=take")
				}
			}
		}
		for j := 0; j < total+1; j++ {
			g.add(-1, "op=take")
		}
		g.add(-1, "op=empty")
		secs = append(secs, verifh.Section{Cfg: fmt.Sprintf("s=cqueue size=%d procs=%d", r.Pick(1, 2, 3, 8), c16cProcs(r)), Ops: g.ops})
	}
	// ---- Ring: adders add unique increasing values, takers take; at the end every slice ever returned is re-read
	nr := verifh.Scale(60, 600)
	for i := 0; i < nr; i++ {
		g := &c16cGen{r: r.Fork()}
		r := g.r
		n := r.Pick(1, 2, 3, 5, 8)
		adders := r.Range(1, 3)
		takers := r.Range(1, 3)
		val := 1
		for a := 0; a < adders; a++ {
			cnt := r.Range(1, verifh.Scale(25, 50))
			for j := 0; j < cnt; j++ {
				g.add(a, "op=add v=%d", val)
				val++
				if r.Chance(1, 6) {
					g.add(a, "op=take")
				}
			}
		}
		for t := 0; t < takers; t++ {
			cnt := r.Range(1, verifh.Scale(25, 50))
			for j := 0; j < cnt; j++ {
				g.add(adders+t, "op=take")
			}
		}
		g.add(-1, "op=take")
		g.add(-1, "op=add v=%d", val)
		g.add(-1, "op=add v=%d", val+1)
		g.add(-1, "op=held")
		g.add(-1, "op=take")
		secs = append(secs, verifh.Section{Cfg: fmt.Sprintf("s=cring n=%d procs=%d", n, c16cProcs(r)), Ops: g.ops})
	}
	// ---- Cache.Take: many goroutines take few keys; loaders return their call id, yield, sometimes fail;
	// Del / Set / Get in between
	nt := verifh.Scale(150, 1500)
	for i := 0; i < nt; i++ {
		g := &c16cGen{r: r.Fork()}
		r := g.r
		gor := r.Pick(2, 3, 4, 6, 8)
		keys := r.Pick(1, 1, 2, 3)
		failing := r.Chance(1, 3)
		deleting := r.Chance(1, 2)
		for t := 0; t < gor; t++ {
			cnt := r.Range(1, verifh.Scale(8, 12))
			for j := 0; j < cnt; j++ {
				k := r.Intn(keys)
				switch x := r.Intn(20); {
				case x < 13:
					f := 0
					if failing && r.Chance(1, 4) {
						f = 1
					}
					g.id++
					g.ops = append(g.ops, fmt.Sprintf("c id=%d g=%d y=%d op=take k=%d v=%d f=%d ly=%d", g.id, t, r.Pick(0, 0, 1, 3), k, 1000+g.id, f, r.Pick(0, 1, 2, 5, 10)))
				case x < 15:
					if deleting {
						g.add(t, "op=del k=%d", k)
					} else {
						g.add(t, "op=get k=%d", k)
					}
				case x < 16:
					g.id++
					g.ops = append(g.ops, fmt.Sprintf("c id=%d g=%d y=0 op=set k=%d v=%d", g.id, t, k, 1000+g.id))
				default:
					g.add(t, "op=get k=%d", k)
				}
			}
		}
		g.add(-1, "op=stats")
		for k := 0; k < keys; k++ {
			g.add(-1, "op=get k=%d", k)
		}
		secs = append(secs, verifh.Section{Cfg: fmt.Sprintf("s=ctake limit=0 procs=%d", c16cProcs(r)), Ops: g.ops})
	}
	// ---- Cache.Take, first loads: several goroutines walk over the SAME keys in the same order, nothing is deleted and
	// no load fails, so every key must be loaded exactly once.  Each key is one window for a Take that missed before
	// another flight stored the value and enters the barrier after that flight has ended (the re-check inside the
	// barrier is what keeps it from loading again).
	for i, n := 0, verifh.Scale(150, 900); i < n; i++ {
		g := &c16cGen{r: r.Fork()}
		r := g.r
		gor := r.Pick(3, 4, 6, 8)
		keys := r.Pick(3, 4, 6, 8)
		ly := r.Pick(0, 0, 1, 2)
		for t := 0; t < gor; t++ {
			for k := 0; k < keys; k++ {
				g.id++
				g.ops = append(g.ops, fmt.Sprintf("c id=%d g=%d y=%d op=take k=%d v=%d f=0 ly=%d", g.id, t, r.Pick(0, 0, 0, 1), k, 1000+g.id, r.Pick(ly, ly, 0, 1)))
			}
		}
		g.add(-1, "op=stats")
		for k := 0; k < keys; k++ {
			g.add(-1, "op=get k=%d", k)
		}
		secs = append(secs, verifh.Section{Cfg: fmt.Sprintf("s=ctake limit=0 procs=%d first=1", c16cProcs(r)), Ops: g.ops})
	}
	return secs
}

func TestVerifC16Conc(t *testing.T) {
	logx.Disable()
	secs := verifh.Sections(c16cGenAll)
	var w *bufio.Writer
	if p := os.Getenv("VERIF_TRACE_OUT"); p != "" {
		f, err := os.Create(p)
		if err != nil {
			t.Fatal(err)
		}
		defer f.Close()
		w = bufio.NewWriterSize(f, 1<<20)
	} else {
		w = bufio.NewWriter(os.Stdout)
	}
	defer w.Flush()
	nops := 0
	for _, s := range secs {
		fmt.Fprintf(w, "begin %s\n", s.Cfg)
		obs := c16cRunSection(verifh.ParseCfg(s.Cfg), s.Ops)
		for i, op := range s.Ops {
			fmt.Fprintf(w, "%s => %s\n", op, obs[i])
			nops++
		}
		fmt.Fprintf(w, "end\n")
	}
	t.Logf("verifh: %d sections, %d calls", len(secs), nops)
}
