//go:build verif

package collection

// C12, mode=sched: what the harnesses of core/collection and of core/stores/cache share — the goroutine-dump
// helpers (quiescence without a wall clock) and the request loop that stands in for TimingWheel.run.
// Injected with `go test -overlay`; nothing here is reachable without the build tag `verif`.

import (
	"fmt"
	"runtime"
	"strings"
	"time"
)

var verifC12StackBuf = make([]byte, 1<<16)

// c12Goroutines returns the dump of all goroutines, the caller's first.
func VerifC12Goroutines() []string {
	for {
		n := runtime.Stack(verifC12StackBuf, true)
		if n < len(verifC12StackBuf) {
			return strings.Split(strings.TrimSpace(string(verifC12StackBuf[:n])), "\n\n")
		}
		verifC12StackBuf = make([]byte, 2*len(verifC12StackBuf))
	}
}

func VerifC12GState(g string) string {
	i, j := strings.IndexByte(g, '['), strings.IndexByte(g, ']')
	if i < 0 || j < i {
		return "running"
	}
	st := g[i+1 : j]
	if k := strings.IndexByte(st, ','); k >= 0 {
		st = st[:k]
	}
	return st
}

func verifC12Busy(g string) bool {
	switch VerifC12GState(g) {
	case "running", "runnable", "preempted", "copystack", "waiting", "dead", "idle":
		return true
	case "syscall":
		return !strings.Contains(g, "os/signal.")
	}
	return strings.HasPrefix(VerifC12GState(g), "GC") // GC assist wait …: goes on by itself
}

// c12Quiesce returns once every goroutine but the caller is blocked.
func VerifC12Quiesce() bool {
	deadline := time.Now().Add(60 * time.Second) // a ceiling for livelock only: reported as stuck, never as an empty observation
	for i := 0; ; i++ {
		runtime.Gosched()
		if i == 0 {
			runtime.Gosched() // let what was just woken run before the first (costly) dump
			runtime.Gosched()
		}
		busy := false
		for _, g := range VerifC12Goroutines()[1:] {
			if verifC12Busy(g) {
				busy = true
				break
			}
		}
		if !busy {
			return true
		}
		if i > 100 {
			time.Sleep(20 * time.Microsecond)
		}
		if i%64 == 63 && time.Now().After(deadline) {
			return false
		}
	}
}

// c12InWheelAPI counts the goroutines blocked inside a public method of the wheel.
func VerifC12InWheelAPI() int {
	n := 0
	for _, g := range VerifC12Goroutines()[1:] {
		if VerifC12GState(g) != "select" {
			continue
		}
		for _, m := range []string{"SetTimer", "MoveTimer", "RemoveTimer", "Drain"} {
			if strings.Contains(g, "collection.(*TimingWheel)."+m+"(") {
				n++
				break
			}
		}
	}
	return n
}


// VerifC12SchedWheel stops the wheel's own run loop and returns a copy of the wheel with every field as the
// constructor set it, an open stop channel, the given callback, and NO run loop: the harness serves it.
func VerifC12SchedWheel(orig *TimingWheel, exec Execute) *TimingWheel {
	orig.Stop()
	tw := *orig
	tw.stopChannel = make(chan struct{})
	tw.execute = exec
	return &tw
}

// VerifC12Poll receives ONE pending request, by priority, and handles it the way run does. The token names the
// request field by field; show renders key and value (nil: %v).
func VerifC12Poll(tw *TimingWheel, pri []string, show func(key, value any) (string, string)) (string, bool) {
	if show == nil {
		show = func(key, value any) (string, string) { return fmt.Sprint(key), fmt.Sprint(value) }
	}
	for _, p := range pri {
		switch p {
		case "set":
			select {
			case task := <-tw.setChannel:
				k, v := show(task.key, task.value)
				tok := fmt.Sprintf("set:%s:%s:%d", k, v, int64(task.delay))
				tw.setTask(&task)
				return tok, true
			default:
			}
		case "move":
			select {
			case task := <-tw.moveChannel:
				k, _ := show(task.key, nil)
				tok := fmt.Sprintf("move:%s:%d", k, int64(task.delay))
				tw.moveTask(task)
				return tok, true
			default:
			}
		case "remove":
			select {
			case key := <-tw.removeChannel:
				k, _ := show(key, nil)
				tw.removeTask(key)
				return "remove:" + k, true
			default:
			}
		case "drain":
			select {
			case fn := <-tw.drainChannel:
				tw.drainAll(fn)
				return "drain", true
			default:
			}
		}
	}
	return "", false
}

// VerifC12Tick is the run loop's reaction to a tick.
func VerifC12Tick(tw *TimingWheel) { tw.onTick() }
