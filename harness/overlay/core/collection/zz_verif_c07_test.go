//go:build verif

package collection

// C07 correspondence harness for a user of SingleFlight named by the property's anchors: collection.Cache.Take.
// G goroutines x K keys call Take on one real Cache (expiry one hour, no limit: nothing is evicted during a
// section); the fetch functions are stamped exactly like the user functions of the core/syncx harness, and the
// history goes through the same monitor and the same Lean model as ResourceManager.GetResource ("load at most
// once at a time per key, at most one successful load, everyone gets the loaded value, an error only reaches
// callers that overlap the failing load"): Cache.Take = unlocked lookup; barrier.Do(key, {lookup again; fetch;
// Set}).  Runner, line format and generator: internal/verifc07 (harness/verifc07/c07.go).

import (
	"fmt"
	"testing"
	"time"

	"github.com/zeromicro/go-zero/internal/verifc07"
	"github.com/zeromicro/go-zero/internal/verifh"
)

func TestVerifC07Collection(t *testing.T) {
	secs := verifh.Sections(func(r *verifh.Rng) []verifh.Section {
		return verifc07.Gen(r, verifh.Scale(150, 2000), "collection.Cache.Take")
	})
	verifc07.WriteTrace(t, secs, func(cfg verifh.Cfg) verifc07.Target {
		// objs caches (key n of cache i arrives as 100*i+n, used as key string n on cache i); opt: the constructor's
		// options (1: WithLimit far above the number of keys — the lru bookkeeping runs inside doGet / Set, nothing is
		// evicted; 2: WithName + WithLimit)
		n := cfg.Int("objs", 1)
		var caches []*Cache
		for i := 0; i < n; i++ {
			var opts []CacheOption
			switch cfg.Int("opt", 0) {
			case 1:
				opts = append(opts, WithLimit(1000))
			case 2:
				opts = append(opts, WithName(fmt.Sprintf("c07-%d", i)), WithLimit(500))
			case 3:
				// zero limit: no lru (the empty lru cache stays)
				opts = append(opts, WithLimit(0))
			case 4:
				// negative limit: no lru either
				opts = append(opts, WithLimit(-5))
			case 5:
				// empty name (the default name is used), options in the other order, a repeated option
				opts = append(opts, WithLimit(3), WithName(""), WithLimit(800))
			}
			cache, err := NewCache(time.Hour, opts...)
			if err != nil {
				t.Fatal(err)
			}
			if sfd := cfg.Str("sfd", "-"); sfd != "-" {
				// delay between Take's lookup in front of the flight and the flight (and after it): see verifc07.SlowSF
				cache.barrier = verifc07.NewSlowSF(sfd, cache.barrier.Do, cache.barrier.DoEx)
			}
			caches = append(caches, cache)
		}
		return verifc07.Target{
			Invoke: func(c *verifc07.Call, fn func() (any, error)) (any, string, error) {
				v, err := caches[(c.Key()/100)%n].Take(fmt.Sprint(c.Key()%100), fn)
				return v, "-", err
			},
			Done: func() {
				for _, cache := range caches {
					cache.timingWheel.Stop()
				}
			},
		}
	})
}
