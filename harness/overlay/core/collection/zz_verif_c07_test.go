//go:build verif

package collection

// C07 correspondence harness for a user of SingleFlight named by the property's anchors: collection.Cache.Take.
// G goroutines x K keys call Take on one real Cache (expiry one hour, no limit: nothing is evicted during a
// section); the fetch functions are stamped exactly like the user functions of the core/syncx harness, and the
// history goes through the same monitor and the same Lean model as ResourceManager.GetResource ("load at most
// once at a time per key, at most one successful load, everyone gets the loaded value, an error only reaches
// callers that overlap the failing load"): Cache.Take = unlocked lookup; barrier.Do(key, {lookup again; fetch;
// Set}).  Runner, line format and generator: internal/verifc07 (harness/verifc07/c07.go).

import (
	"fmt"
	"testing"
	"time"

	"github.com/zeromicro/go-zero/internal/verifc07"
	"github.com/zeromicro/go-zero/internal/verifh"
)

func TestVerifC07Collection(t *testing.T) {
	secs := verifh.Sections(func(r *verifh.Rng) []verifh.Section {
		return verifc07.Gen(r, verifh.Scale(80, 2000), "collection.Cache.Take")
	})
	verifc07.WriteTrace(t, secs, func(cfg verifh.Cfg) verifc07.Target {
		cache, err := NewCache(time.Hour)
		if err != nil {
			t.Fatal(err)
		}
		if sfd := cfg.Str("sfd", "-"); sfd != "-" {
			// delay between Take's unlocked lookup and the flight (and after it): see verifc07.SlowSF
			cache.barrier = verifc07.NewSlowSF(sfd, cache.barrier.Do, cache.barrier.DoEx)
		}
		return verifc07.Target{
			Invoke: func(c *verifc07.Call, fn func() (any, error)) (any, string, error) {
				v, err := cache.Take(fmt.Sprint(c.Key()), fn)
				return v, "-", err
			},
			Done: func() { cache.timingWheel.Stop() },
		}
	})
}
