//go:build verif

package mr

// C10 (third harness): the building blocks of core/mr/mapreduce.go on their own.  Kept in a file (and a test binary)
// of its own: these ops call unexported helpers directly, so a refactoring that removes one of them breaks only THIS
// harness build, while the call-level harness (zz_verif_c10_test.go) still runs against the changed tree.

import (
	"context"
	"fmt"
	"strconv"
	"strings"
	"sync"
	"sync/atomic"
	"testing"
	"time"

	"github.com/zeromicro/go-zero/internal/verifh"
)

// ---------------------------------------------------------------- the building blocks on their own (deterministic)
//
//   unit gw cap=<k> ctx=<none|live|over> done=<open|closed> v=<n>   newGuardedWriter(ctx, ch, done).Write(v) on a channel of
//        capacity k (0: a receiver is waiting) => delivered | dropped
//   unit oc vals=<a,b,…>        newOnceChan(); write(a); write(b)…; repanic(); repanic() => first=<a|none> second=<…|none> buffered=<k>
//   unit once calls=<n> insts=<m>   m functions made by once(fn), each called n times (the last two concurrently) => ran=<c1,c2,…>
//   unit opts w=<def|a,b,…> ctx=<none|k>   buildOptions(WithWorkers(a), …, WithContext(ctx) at position k) => workers=<n> ctx=<bg|given>
//   unit drain n=<k>            drain() of a closed channel holding k items => returned left=<len>
func c10Unit(op []string) string {
	if len(op) < 2 {
		return "bad-op"
	}
	cfg := verifh.ParseCfg(strings.Join(op[2:], " "))
	switch op[1] {
	case "gw":
		k := cfg.Int("cap", 0)
		ctx, cancelCtx := context.Background(), func() {}
		switch cfg.Str("ctx", "none") {
		case "live":
			ctx, cancelCtx = context.WithCancel(context.Background())
		case "over":
			ctx, cancelCtx = context.WithCancel(context.Background())
			cancelCtx()
		}
		defer cancelCtx()
		done := make(chan struct{})
		if cfg.Str("done", "open") == "closed" {
			close(done)
		}
		ch := make(chan int, k)
		got := make(chan int, 1)
		stop := make(chan struct{})
		var wg sync.WaitGroup
		if k == 0 {
			wg.Add(1)
			go func() {
				defer wg.Done()
				select {
				case v := <-ch:
					got <- v
				case <-stop:
				}
			}()
		}
		w := newGuardedWriter[int](ctx, ch, done)
		ret := make(chan struct{})
		go func() { w.Write(cfg.Int("v", 1)); close(ret) }()
		select {
		case <-ret:
		case <-time.After(c10HangMax):
			close(stop)
			return "blocked"
		}
		close(stop)
		wg.Wait()
		select {
		case v := <-got:
			return "delivered:" + strconv.Itoa(v)
		default:
		}
		if len(ch) == 1 {
			return "delivered:" + strconv.Itoa(<-ch)
		}
		return "dropped"
	case "oc":
		oc := newOnceChan()
		for _, x := range strings.Split(cfg.Str("vals", ""), ",") {
			if x != "" {
				oc.write("v" + x)
			}
		}
		buffered := len(oc.channel)
		re := func() (out string) {
			defer func() {
				if p := recover(); p != nil {
					out = fmt.Sprint(p)
				}
			}()
			oc.repanic()
			return "none"
		}
		return fmt.Sprintf("first=%s second=%s buffered=%d", re(), re(), buffered)
	case "once":
		n, m := cfg.Int("calls", 1), cfg.Int("insts", 1)
		var ran []string
		for i := 0; i < m; i++ {
			var cnt int32
			var last error
			f := once(func(err error) { atomic.AddInt32(&cnt, 1); last = err })
			var wg sync.WaitGroup
			for j := 0; j < n; j++ {
				if j >= n-2 {
					wg.Add(1)
					go func(j int) { defer wg.Done(); f(c10Err{j + 1}) }(j)
				} else {
					f(c10Err{j + 1})
				}
			}
			wg.Wait()
			s := strconv.Itoa(int(atomic.LoadInt32(&cnt)))
			if n > 2 && last != (c10Err{1}) {
				s += "!first-call-lost"
			}
			ran = append(ran, s)
		}
		return "ran=" + strings.Join(ran, ",")
	case "opts":
		var opts []Option
		if ws := cfg.Str("w", "def"); ws != "def" {
			for _, x := range strings.Split(ws, ",") {
				opts = append(opts, WithWorkers(verifh.Atoi(x)))
			}
		}
		type key struct{}
		given := context.WithValue(context.Background(), key{}, 1)
		if p := cfg.Str("ctx", "none"); p != "none" {
			k := verifh.Atoi(p)
			if k < 0 || k > len(opts) {
				k = len(opts)
			}
			opts = append(opts[:k:k], append([]Option{WithContext(given)}, opts[k:]...)...)
		}
		type key2 struct{}
		given2 := context.WithValue(context.Background(), key2{}, 2)
		if p := cfg.Str("ctx2", "none"); p != "none" {
			k := verifh.Atoi(p)
			if k < 0 || k > len(opts) {
				k = len(opts)
			}
			opts = append(opts[:k:k], append([]Option{WithContext(given2)}, opts[k:]...)...)
		}
		o := buildOptions(opts...)
		c := "other"
		switch o.ctx {
		case given2:
			c = "given2"
		case given:
			c = "given"
		case context.Background():
			c = "bg"
		}
		return fmt.Sprintf("workers=%d ctx=%s", o.workers, c)
	case "drain":
		k := cfg.Int("n", 0)
		ch := make(chan int, k)
		for i := 0; i < k; i++ {
			ch <- i
		}
		close(ch)
		ret := make(chan struct{})
		go func() { drain[int](ch); close(ret) }()
		select {
		case <-ret:
			return "returned left=" + strconv.Itoa(len(ch))
		case <-time.After(c10HangMax):
			return "blocked"
		}
	}
	return "bad-op"
}

func c10UnitGen(r *verifh.Rng) []verifh.Section {
	var ops []string
	for _, k := range []int{0, 1, 3, 16} {
		for _, cx := range []string{"none", "live", "over"} {
			for _, d := range []string{"open", "closed"} {
				ops = append(ops, fmt.Sprintf("unit gw cap=%d ctx=%s done=%s v=%d", k, cx, d, r.Range(1, 99)))
			}
		}
	}
	for _, v := range []string{"", "1", "1,2", "2,1", "3,3,3", "4,5,6,7"} {
		ops = append(ops, "unit oc vals="+v)
	}
	for n := 0; n <= 5; n++ {
		ops = append(ops, fmt.Sprintf("unit once calls=%d insts=%d", n, r.Range(1, 3)))
	}
	for _, w := range []string{"def", "1", "0", "-5", "16", "17", "3,0", "0,3", "2,2,9", "-1,-1"} {
		ops = append(ops, "unit opts w="+w+" ctx=none")
		n := len(strings.Split(w, ","))
		if w == "def" {
			n = 0
		}
		for k := 0; k <= n; k++ {
			ops = append(ops, fmt.Sprintf("unit opts w=%s ctx=%d", w, k))
			// two WithContext options: the one applied last wins
			ops = append(ops, fmt.Sprintf("unit opts w=%s ctx=%d ctx2=%d", w, k, r.Range(0, n+1)))
		}
	}
	for _, k := range []int{0, 1, 5} {
		ops = append(ops, fmt.Sprintf("unit drain n=%d", k))
	}
	return []verifh.Section{{Cfg: "kind=unit", Ops: ops}}
}

func TestVerifC10Unit(t *testing.T) {
	secs := verifh.Sections(c10UnitGen)
	verifh.Run(t, secs, func(cfg verifh.Cfg) (func(op []string) string, func()) {
		return c10Unit, nil
	})
}
