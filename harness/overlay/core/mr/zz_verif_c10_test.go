//go:build verif

package mr

// C10 correspondence harness: runs the real MapReduce / MapReduceVoid / ForEach with scripted user
// functions (generator, one mapper script per item, reducer) and a harness-owned context, one
// independent run per trace line.  The executor is driven only by the op text; generation is
// separate (c10Gen).  Observed per run: the call's return value / error class / re-raised panic
// (or `hang`), goroutines left once every user function has returned, the items handed to the
// mapper, the values the reducer received, and the start/end history of mapper invocations.
//
//   run api=<mr|void|each|chan|finish|finishvoid> n=<items> w=<workers> ctx=<none|can|pre> gp=<k|-> gx=<k|-> gw=<k:ev,…|-> m=<s0>/<s1>/… r=<script> [co=<k>]
//
// api=chan: MapReduceChan with a source the harness owns (a goroutine of the harness runs the scripted generator and
//   closes the source; no gp).  api=finish: Finish(fns…) with one function per script of m= (actions u/t/y/s/f/p and a
//   final c<k> = `return error k`; w/gp/gx/gw/r unused: the library chooses WithWorkers(len(fns))).  api=finishvoid:
//   FinishVoid(fns…) (actions u/t/y/s/f/p).
// w=<a>[,<b>…]: one WithWorkers option per entry, in this order (the last one wins; entries < 1 are clamped to 1);
//   w=def: no WithWorkers option at all (defaultWorkers = 16).  The Option values are cached per argument for the life
//   of the process, so the same closure is applied to many calls.  co=<k>: the WithContext option is inserted at
//   position k of the option list (default: last).
//
// script = actions joined by '.', '-' = empty.  Actions:
//   w<v> Write(v)      c<k> cancel(error k), c0 = cancel(nil)      p panic (string value)   pe panic with an ERROR value
//   q    runtime.Goexit() (the user function ends here without returning; deferred calls of the library run)
//   a    read the pipe until it is closed (reducer)                o read one value (reducer)
//   s    stall until the call has returned to the harness          x cancel the harness context
//   y    yield the processor a few times
//   f    run NESTED calls from inside this user function: Finish(a, b) whose two functions rendezvous with each other
//        (they need two workers of the nested call at the same time), FinishVoid of two functions, and a complete
//        MapReduce of three items with default options that must return 0+1+2; anything else counts in `nestedbad`
//   u<ev> wait until event <ev> of ANOTHER user function has happened (or the call has returned):
//        s<i>/e<i> mapper i started/ended, pm<i> mapper i is about to panic, gt<k> item k was taken from the source,
//        cbm<i>/cbr (cem<i>/cer) mapper i / the reducer is about to call cancel (cancel has returned), cb/ce any,
//        rb/ra the reducer is about to Write / its Write returned, rn<k> the reducer has received k values,
//        rc the reducer saw the pipe closed, re/rp the reducer is about to return/panic, xa/xb the context is about
//        to be / has been cancelled, ge/gp the generator is about to return/panic, ret the call returned
//   t<ev> probe: give event <ev> the chance to happen (yield the processor up to c10ProbeYields times, stop as soon as it
//        has happened), then go on — used for events that MUST NOT happen while this function runs (e.g. a
//        (workers+1)-th mapper starting while `workers` mappers are running)
// gp=k: the generator panics before sending item k (k=n: after the last item); gx=k: cancels the context there;
// gw=k:ev: the generator stalls before sending item k (k=n: before returning) until event ev.
// Observed `hist` = the totally ordered history of these events (tokens as above; cancel begins carry the
// error: cbm<i>_<k>, cbr_<k>; reducer writes and receives carry the value: rb<v>, ra<v>, rv<v>).

import (
	"context"
	"errors"
	"fmt"
	"runtime"
	"sort"
	"strconv"
	"strings"
	"sync"
	"sync/atomic"
	"testing"
	"time"

	"github.com/zeromicro/go-zero/internal/verifh"
)

type c10Err struct{ k int }

func (e c10Err) Error() string { return "E" + strconv.Itoa(e.k) }

// The error VALUE classes a user function can hand to cancel / return from a Finish function (c<k>):
//   k = 0        nil                                  (the library records ErrCancelWithNil)
//   k = 1..99    c10Err{k}: a struct value with a non-zero field
//   k = 101      c10ZeroStruct{}: an empty-struct sentinel with a value receiver (the zero value of its type)
//   k = 102      c10Code(0): an int-coded error with code 0            (zero value)
//   k = 103      c10Text(""): a string-coded error with an empty text  (zero value)
//   k = 104      (*c10Ptr)(nil): a typed nil pointer — a NON-nil error (zero value)
//   k = 105      &c10Ptr{}: a non-nil pointer to a zero struct
//   k = 106      fmt.Errorf("…%w", c10Err{106}): a wrapped error
//   k = 107      c10Slice(nil): an error of an uncomparable type, nil slice (zero value)
//   k = 108      c10Err{0}: a struct whose fields are all zero        (zero value)
//   k = 109      context.Canceled handed to cancel by the USER (no context option needed)
//   k = 110      ErrCancelWithNil handed to cancel explicitly (same outcome as cancel(nil))
//   k = 111      ErrReduceNoOutput handed to cancel: the library's own "no output" sentinel as a cancel error
//   k = 112      fmt.Errorf("…%w", ErrReduceNoOutput): an error that WRAPS the sentinel (what a nested
//                MapReduce call without output returns, decorated by the caller)
// All of them are non-nil errors except k = 0: "an error that was passed to cancel" must come back.
type c10ZeroStruct struct{}

func (c10ZeroStruct) Error() string { return "zero-struct" }

type c10Code int

func (c c10Code) Error() string { return "code" + strconv.Itoa(int(c)) }

type c10Text string

func (c c10Text) Error() string { return "text:" + string(c) }

type c10Ptr struct{ k int }

func (p *c10Ptr) Error() string { return "ptr" }

type c10Slice []error

func (c10Slice) Error() string { return "slice" }

func c10MkErr(k int) error {
	switch k {
	case 0:
		return nil
	case 101:
		return c10ZeroStruct{}
	case 102:
		return c10Code(0)
	case 103:
		return c10Text("")
	case 104:
		return (*c10Ptr)(nil)
	case 105:
		return &c10Ptr{}
	case 106:
		return fmt.Errorf("wrapped: %w", c10Err{106})
	case 107:
		return c10Slice(nil)
	case 108:
		return c10Err{0}
	case 109:
		return context.Canceled
	case 110:
		return ErrCancelWithNil
	case 111:
		return ErrReduceNoOutput
	case 112:
		return fmt.Errorf("inner call: %w", ErrReduceNoOutput)
	}
	return c10Err{k}
}

// c10Hangs counts the calls of this process that did not return: after c10MaxHangs of them the remaining
// operations are not executed (`res=skipped`), so that a broken tree costs seconds, not the whole budget
// (every hang costs the watchdog time; the replay / shrinking of a hang runs in a fresh process).
var c10Hangs int32

// c10Leaks counts the calls of this process that left goroutines behind: every one of them costs the whole settle
// time (and is a violation already), so after c10MaxLeaks of them the remaining operations are not executed either.
var c10Leaks int32

const (
	c10MaxHangs    = 3
	c10MaxLeaks    = 5
	c10ProbeYields = 400
	c10HangMax   = 4 * time.Second
	c10SettleMax = 1500 * time.Millisecond
)

func c10Script(s string) []string {
	if s == "-" || s == "" {
		return nil
	}
	return strings.Split(s, ".")
}

// c10PanicErr: a panic whose value is an ERROR (action `pe`); the re-raised value must be this very value.
type c10PanicErr struct{ name string }

func (e c10PanicErr) Error() string { return "errval:" + e.name }

// c10PanicVal: the value a user function panics with: a string (`p`) or an error value (`pe`).
func c10PanicVal(a, name string) any {
	if a == "pe" {
		return c10PanicErr{name}
	}
	if a == "pn" {
		return nil // panic(nil): since go 1.21 recovered as *runtime.PanicNilError (at most one per call: it has no identity)
	}
	return name
}

func c10IsPanic(a string) bool { return a == "p" || a == "pe" || a == "pn" }

func c10PanicName(p any) string {
	if pe, ok := p.(c10PanicErr); ok {
		p = pe.name
	}
	s := fmt.Sprint(p)
	switch {
	case strings.HasPrefix(s, "pm") || s == "pr" || s == "pg":
		return s
	case strings.Contains(s, "more than one element"):
		return "multi"
	case strings.Contains(s, "send on closed channel"):
		return "sendclosed"
	}
	s = strings.Map(func(r rune) rune {
		if r == ' ' || r == '\n' || r == '\t' || r == '=' {
			return '_'
		}
		return r
	}, s)
	if len(s) > 40 {
		s = s[:40]
	}
	return "other:" + s
}

func c10ErrName(err error) string {
	var ce c10Err
	switch e := err.(type) {
	case c10ZeroStruct:
		return "E101"
	case c10Code:
		if e == 0 {
			return "E102"
		}
		return "other"
	case c10Text:
		if e == "" {
			return "E103"
		}
		return "other"
	case *c10Ptr:
		if e == nil {
			return "E104"
		}
		return "E105"
	case c10Slice:
		if e == nil {
			return "E107"
		}
		return "other"
	case c10Err:
		if e.k == 0 {
			return "E108"
		}
	}
	switch {
	case err == context.Canceled:
		return "E109" // the library itself never returns context.Canceled (it returns DeadlineExceeded)
	case err != ErrReduceNoOutput && errors.Is(err, ErrReduceNoOutput):
		return "E112"
	}
	switch {
	case errors.As(err, &ce):
		return "E" + strconv.Itoa(ce.k)
	case errors.Is(err, ErrCancelWithNil):
		return "nil"
	case errors.Is(err, context.DeadlineExceeded):
		return "deadline"
	case errors.Is(err, context.Canceled):
		return "canceled"
	case errors.Is(err, ErrReduceNoOutput):
		return "noout"
	}
	return "other"
}

// c10Events is the totally ordered history of one call (every token is appended under one mutex, so the
// order of the tokens is consistent with happens-before) and the named events user functions can wait for.
type c10Events struct {
	mu    sync.Mutex
	hist  []string
	fired map[string]chan struct{}
}

func (e *c10Events) chLocked(key string) chan struct{} {
	c, ok := e.fired[key]
	if !ok {
		c = make(chan struct{})
		e.fired[key] = c
	}
	return c
}

func (e *c10Events) ch(key string) chan struct{} {
	e.mu.Lock()
	defer e.mu.Unlock()
	return e.chLocked(key)
}

// fire appends token tok to the history ("" = none) and marks the named events as happened.
func (e *c10Events) fire(tok string, keys ...string) {
	e.mu.Lock()
	defer e.mu.Unlock()
	if tok != "" {
		e.hist = append(e.hist, tok)
	}
	for _, k := range keys {
		c := e.chLocked(k)
		select {
		case <-c:
		default:
			close(c)
		}
	}
}

func c10Exec(op []string) string {
	if len(op) == 0 || op[0] != "run" {
		return "bad-op"
	}
	if atomic.LoadInt32(&c10Hangs) >= c10MaxHangs || atomic.LoadInt32(&c10Leaks) >= c10MaxLeaks {
		return "res=skipped left=0 mapped=- reduced=- hist=- stalltimeouts=0 panicked=0 waitsbyret=0 nestedbad=0"
	}
	cfg := verifh.ParseCfg(strings.Join(op[1:], " "))
	api := cfg.Str("api", "mr")
	n := cfg.Int("n", 0)
	var wopts []int
	if ws := cfg.Str("w", "1"); ws != "def" {
		for _, x := range strings.Split(ws, ",") {
			if _, err := strconv.Atoi(x); err != nil {
				return "bad-op"
			}
			wopts = append(wopts, verifh.Atoi(x))
		}
	}
	gp, gx := -1, -1
	if v := cfg.Str("gp", "-"); v != "-" {
		gp = verifh.Atoi(v)
	}
	// gq=k: the generator ends by runtime.Goexit() before sending item k; gk=n: its panic (gp) is panic(nil)
	gq := cfg.Int("gq", -1)
	gpNil := cfg.Str("gk", "") == "n"
	var nilBy atomic.Value
	nilBy.Store("")
	noteNil := func(a, who string) {
		if a == "pn" {
			nilBy.Store(who)
		}
	}
	if v := cfg.Str("gx", "-"); v != "-" {
		gx = verifh.Atoi(v)
	}
	// gw=<k>:<event>[,<k>:<event>…]: the generator waits for the event before sending item k (k=n: before returning)
	gw := map[int][]string{}
	if v := cfg.Str("gw", "-"); v != "-" {
		for _, p := range strings.Split(v, ",") {
			kv := strings.SplitN(p, ":", 2)
			if len(kv) != 2 {
				return "bad-op"
			}
			k := verifh.Atoi(kv[0])
			gw[k] = append(gw[k], kv[1])
		}
	}
	var ms [][]string
	if n > 0 {
		parts := strings.Split(cfg.Str("m", ""), "/")
		if len(parts) != n {
			return "bad-op"
		}
		for _, p := range parts {
			ms = append(ms, c10Script(p))
		}
	}
	rs := c10Script(cfg.Str("r", "-"))

	base := runtime.NumGoroutine()
	ev := &c10Events{fired: map[string]chan struct{}{}}
	ctx, cancelCtx := context.Background(), func() {}
	mode := cfg.Str("ctx", "none")
	if mode != "none" {
		switch cfg.Str("ck", "c") {
		case "d": // a context with a DEADLINE: already past (ctx=pre: Err() = DeadlineExceeded) or far away, ended by its cancel
			if mode == "pre" {
				ctx, cancelCtx = context.WithDeadline(context.Background(), time.Unix(1, 0))
			} else {
				ctx, cancelCtx = context.WithTimeout(context.Background(), time.Hour)
			}
		case "v": // a derived context (value context on top of a cancel context)
			var inner context.Context
			inner, cancelCtx = context.WithCancel(context.Background())
			ctx = context.WithValue(inner, c10CtxKey{}, 1)
		default:
			ctx, cancelCtx = context.WithCancel(context.Background())
		}
	}
	endCtx := func() {
		ev.fire("xa", "xa")
		cancelCtx()
		ev.fire("xb", "xb")
	}
	if mode == "pre" {
		endCtx()
	}
	defer cancelCtx()

	retCh := ev.ch("ret")
	var stallTimeouts, waitByRet, panicked, nestedBad int32
	stall := func() {
		select {
		case <-retCh:
		case <-time.After(c10HangMax + 2*time.Second):
			atomic.AddInt32(&stallTimeouts, 1)
		}
	}
	// wait until the named event has happened; the return of the call releases every waiter (so that a
	// waiter the call does not depend on can never be left behind), the watchdog bounds everything else
	wait := func(key string) {
		c := ev.ch(key)
		select {
		case <-c:
			return
		default:
		}
		select {
		case <-c:
		case <-retCh:
			atomic.AddInt32(&waitByRet, 1)
		case <-time.After(c10HangMax + 2*time.Second):
			atomic.AddInt32(&stallTimeouts, 1)
		}
	}
	yield := func() {
		for i := 0; i < 3; i++ {
			runtime.Gosched()
		}
	}
	probe := func(key string) {
		c := ev.ch(key)
		for i := 0; i < c10ProbeYields; i++ {
			select {
			case <-c:
				return
			default:
				runtime.Gosched()
			}
		}
	}
	var mu sync.Mutex
	var mapped, reduced []int
	logf := func(f func()) { mu.Lock(); f(); mu.Unlock() }

	// who = "m<i>" or "r"
	common := func(who, a string, cancel func(error), write func(int)) bool {
		switch {
		case c10IsPanic(a):
			return false // handled by the caller (panic value differs)
		case a == "q":
			// runtime.Goexit: the goroutine the library runs this user function on ends here; deferred calls run,
			// recover() sees nothing.  For the property this is a return of the user function.
			if who == "r" {
				ev.fire("re", "re")
			}
			runtime.Goexit()
		case a == "s":
			stall()
		case a == "x":
			endCtx()
		case a == "y":
			yield()
		case a == "f":
			atomic.AddInt32(&nestedBad, int32(c10Nested()))
		case a[0] == 'u':
			wait(a[1:])
		case a[0] == 't':
			probe(a[1:])
		case a[0] == 'w':
			write(verifh.Atoi(a[1:]))
		case a[0] == 'c':
			k := verifh.Atoi(a[1:])
			ev.fire("cb"+who+"_"+strconv.Itoa(k), "cb"+who, "cb")
			cancel(c10MkErr(k))
			ev.fire("ce"+who, "ce"+who, "ce")
		default:
			panic("verif: bad action " + a)
		}
		return true
	}

	gen := func(source chan<- int) {
		for i := 0; i <= n; i++ {
			for _, k := range gw[i] {
				wait(k)
			}
			if i == gx {
				endCtx()
			}
			if i == gq {
				ev.fire("ge", "ge")
				runtime.Goexit()
			}
			if i == gp {
				atomic.AddInt32(&panicked, 1)
				ev.fire("gp", "gp")
				if gpNil {
					nilBy.Store("pg")
					panic(nil)
				}
				panic("pg")
			}
			if i < n {
				source <- i
				ev.fire("gt"+strconv.Itoa(i), "gt"+strconv.Itoa(i))
			}
		}
		ev.fire("ge", "ge")
	}
	mapper := func(item int, wr Writer[int], cancel func(error)) {
		is := strconv.Itoa(item)
		logf(func() { mapped = append(mapped, item) })
		ev.fire("s"+is, "s"+is)
		defer ev.fire("e"+is, "e"+is)
		if item < 0 || item >= len(ms) {
			return
		}
		for _, a := range ms[item] {
			if a == "a" || a == "o" {
				continue
			}
			if !common("m"+is, a, cancel, wr.Write) {
				atomic.AddInt32(&panicked, 1)
				ev.fire("pm"+is, "pm"+is, "pm")
				noteNil(a, "pm"+is)
				panic(c10PanicVal(a, "pm"+is))
			}
		}
	}
	// one function of Finish / FinishVoid: the script of item i; c<k> = return error k
	fnRun := func(item int) (err error) {
		is := strconv.Itoa(item)
		logf(func() { mapped = append(mapped, item) })
		ev.fire("s"+is, "s"+is)
		defer ev.fire("e"+is, "e"+is)
		for _, a := range ms[item] {
			switch {
			case c10IsPanic(a):
				atomic.AddInt32(&panicked, 1)
				ev.fire("pm"+is, "pm"+is, "pm")
				noteNil(a, "pm"+is)
				panic(c10PanicVal(a, "pm"+is))
			case a[0] == 'c':
				k := verifh.Atoi(a[1:])
				ev.fire("cbm"+is+"_"+strconv.Itoa(k), "cbm"+is, "cb")
				return c10MkErr(k)
			case a[0] == 'w' || a == "x" || a == "a" || a == "o":
				panic("verif: bad action for Finish " + a)
			default:
				common("m"+is, a, nil, nil)
			}
		}
		return nil
	}
	reducer := func(pipe <-chan int, wr Writer[int], cancel func(error)) {
		got := 0
		recv := func(v int) {
			got++
			logf(func() { reduced = append(reduced, v) })
			ev.fire("rv"+strconv.Itoa(v), "rn"+strconv.Itoa(got))
		}
		_, noWriter := wr.(c10NoWriter)
		write := func(v int) {
			if noWriter { // MapReduceVoid hands the reducer no writer
				return
			}
			ev.fire("rb"+strconv.Itoa(v), "rb")
			wr.Write(v)
			ev.fire("ra"+strconv.Itoa(v), "ra")
		}
		for _, a := range rs {
			switch a {
			case "a":
				for v := range pipe {
					recv(v)
				}
				ev.fire("rc", "rc")
			case "o":
				if v, ok := <-pipe; ok {
					recv(v)
				} else {
					ev.fire("rc", "rc")
				}
			default:
				if !common("r", a, cancel, write) {
					atomic.AddInt32(&panicked, 1)
					ev.fire("rp", "rp")
					noteNil(a, "pr")
					panic(c10PanicVal(a, "pr"))
				}
			}
		}
		ev.fire("re", "re")
	}

	resCh := make(chan string, 1)
	go func() {
		defer func() {
			if p := recover(); p != nil {
				ev.fire("ret", "ret")
				if _, isNil := p.(*runtime.PanicNilError); isNil && nilBy.Load().(string) != "" {
					p = nilBy.Load().(string)
				}
				resCh <- "panic:" + c10PanicName(p)
			}
		}()
		var opts []Option
		for _, x := range wopts {
			opts = append(opts, c10WorkersOpt(x))
		}
		if mode != "none" {
			co := cfg.Int("co", len(opts))
			if co < 0 || co > len(opts) {
				co = len(opts)
			}
			opts = append(opts[:co:co], append([]Option{WithContext(ctx)}, opts[co:]...)...)
		}
		switch api {
		case "chan":
			if gp >= 0 {
				resCh <- "bad-op"
				return
			}
			src := make(chan int)
			go func() {
				defer close(src)
				gen(src)
			}()
			v, err := MapReduceChan[int, int, int](src, mapper, reducer, opts...)
			ev.fire("ret", "ret")
			if err != nil {
				resCh <- "err:" + c10ErrName(err)
			} else {
				resCh <- "val:" + strconv.Itoa(v)
			}
		case "finish":
			fns := make([]func() error, n)
			for i := range fns {
				i := i
				fns[i] = func() error { return fnRun(i) }
			}
			err := Finish(fns...)
			ev.fire("ret", "ret")
			if err != nil {
				resCh <- "err:" + c10ErrName(err)
			} else {
				resCh <- "ok"
			}
		case "finishvoid":
			fns := make([]func(), n)
			for i := range fns {
				i := i
				fns[i] = func() {
					if err := fnRun(i); err != nil {
						panic("verif: FinishVoid function returned an error")
					}
				}
			}
			FinishVoid(fns...)
			ev.fire("ret", "ret")
			resCh <- "ok"
		case "mr":
			v, err := MapReduce[int, int, int](gen, mapper, reducer, opts...)
			ev.fire("ret", "ret")
			if err != nil {
				resCh <- "err:" + c10ErrName(err)
			} else {
				resCh <- "val:" + strconv.Itoa(v)
			}
		case "void":
			err := MapReduceVoid[int, int](gen, mapper, func(pipe <-chan int, cancel func(error)) {
				reducer(pipe, c10NoWriter{}, cancel)
			}, opts...)
			ev.fire("ret", "ret")
			if err != nil {
				resCh <- "err:" + c10ErrName(err)
			} else {
				resCh <- "ok"
			}
		case "each":
			ForEach[int](gen, func(item int) {
				mapper(item, c10NoWriter{}, func(error) {})
			}, opts...)
			ev.fire("ret", "ret")
			resCh <- "ok"
		default:
			resCh <- "bad-api"
		}
	}()
	var res string
	select {
	case res = <-resCh:
	case <-time.After(c10HangMax):
		res = "hang"
		atomic.AddInt32(&c10Hangs, 1)
		ev.fire("", "ret") // release every stalled user function; no `ret` token: the call did not return
	}
	left := 0
	if !verifh.SettleGoroutines(base, c10SettleMax) {
		left = runtime.NumGoroutine() - base
		atomic.AddInt32(&c10Leaks, 1)
	}
	mu.Lock()
	defer mu.Unlock()
	ev.mu.Lock()
	defer ev.mu.Unlock()
	sort.Ints(mapped)
	sort.Ints(reduced)
	return fmt.Sprintf("res=%s left=%d mapped=%s reduced=%s hist=%s stalltimeouts=%d panicked=%d waitsbyret=%d nestedbad=%d", res, left,
		c10Ints(mapped), c10Ints(reduced), c10Join(ev.hist), atomic.LoadInt32(&stallTimeouts), atomic.LoadInt32(&panicked),
		atomic.LoadInt32(&waitByRet), atomic.LoadInt32(&nestedBad))
}

// c10WorkersOpt returns THE WithWorkers(x) option of this process: built once per argument and applied to every
// call that asks for it (an option that kept state between applications would show).
var (
	c10OptMu    sync.Mutex
	c10OptCache = map[int]Option{}
)

func c10WorkersOpt(x int) Option {
	c10OptMu.Lock()
	defer c10OptMu.Unlock()
	o, ok := c10OptCache[x]
	if !ok {
		o = WithWorkers(x)
		c10OptCache[x] = o
	}
	return o
}

// c10Nested runs independent calls from inside a user function of another call and returns how many of them
// misbehaved: two functions of one Finish must be able to run at the same time whatever the options of the
// enclosing call are; a MapReduce with default options must map every item once and return the reducer's sum.
func c10Nested() (bad int) {
	a, b := make(chan struct{}), make(chan struct{})
	meet := func(mine, other chan struct{}) bool {
		close(mine)
		select {
		case <-other:
			return true
		case <-time.After(c10HangMax + 2*time.Second): // (the watchdog of the enclosing call fires first: reported as a hang)
			return false
		}
	}
	var met int32
	err := Finish(func() error {
		if meet(a, b) {
			atomic.AddInt32(&met, 1)
		}
		return nil
	}, func() error {
		if meet(b, a) {
			atomic.AddInt32(&met, 1)
		}
		return nil
	})
	if err != nil || atomic.LoadInt32(&met) != 2 {
		bad++
	}
	var ran int32
	FinishVoid(func() { atomic.AddInt32(&ran, 1) }, func() { atomic.AddInt32(&ran, 2) })
	if atomic.LoadInt32(&ran) != 3 {
		bad++
	}
	v, err := MapReduce[int, int, int](func(source chan<- int) {
		for i := 0; i < 3; i++ {
			source <- i
		}
	}, func(item int, w Writer[int], cancel func(error)) {
		w.Write(item)
	}, func(pipe <-chan int, w Writer[int], cancel func(error)) {
		sum := 0
		for v := range pipe {
			sum += v
		}
		w.Write(sum)
	})
	if err != nil || v != 3 {
		bad++
	}
	return bad
}

type c10CtxKey struct{}

type c10NoWriter struct{}

func (c10NoWriter) Write(int) {}

func c10Ints(xs []int) string {
	if len(xs) == 0 {
		return "-"
	}
	ss := make([]string, len(xs))
	for i, x := range xs {
		ss[i] = strconv.Itoa(x)
	}
	return strings.Join(ss, ",")
}

func c10Join(xs []string) string {
	if len(xs) == 0 {
		return "-"
	}
	return strings.Join(xs, ",")
}

// ---------------------------------------------------------------- generation

type c10Cfg struct {
	api    string
	ws     string // text of w= if it is not the plain effective count: "def", "0", "-3", "5,2" (w = the effective count)
	co     int    // position of the WithContext option + 1 (0 = default: last)
	extra  string // further key=value tokens appended to the line (gq=, gk=)
	ck     string // kind of the context: "" / "c" cancel context, "d" deadline context, "v" derived value context
	n, w   int
	ctx    string
	gp, gx int
	gw     []string // "k:ev": the generator waits for ev before sending item k
	m      [][]string
	r      []string
}

func (c c10Cfg) String() string {
	opt := func(k int) string {
		if k < 0 {
			return "-"
		}
		return strconv.Itoa(k)
	}
	sc := func(s []string) string {
		if len(s) == 0 {
			return "-"
		}
		return strings.Join(s, ".")
	}
	var ms []string
	for _, s := range c.m {
		ms = append(ms, sc(s))
	}
	m := strings.Join(ms, "/")
	if c.n == 0 {
		m = "-"
	}
	gw := "-"
	if len(c.gw) > 0 {
		gw = strings.Join(c.gw, ",")
	}
	ws := strconv.Itoa(c.w)
	if c.ws != "" {
		ws = c.ws
	}
	line := fmt.Sprintf("run api=%s n=%d w=%s ctx=%s gp=%s gx=%s gw=%s m=%s r=%s", c.api, c.n, ws, c.ctx, opt(c.gp), opt(c.gx), gw, m, sc(c.r))
	if c.co > 0 && c.ctx != "none" {
		line += " co=" + strconv.Itoa(c.co-1)
	}
	if c.ck != "" && c.ck != "c" && c.ctx != "none" {
		line += " ck=" + c.ck
	}
	line += c.extra
	return line
}

// c10Vary re-expresses the same call through another route of the option / entry-point glue: the same effective
// worker count written as a clamped (< 1), repeated or default option list, the context option at another position,
// MapReduceChan instead of MapReduce.  The expected behaviour does not change.
func c10Vary(r *verifh.Rng, c c10Cfg) c10Cfg {
	if c.api == "finish" || c.api == "finishvoid" {
		return c
	}
	switch r.Intn(8) {
	case 0:
		if c.w == 1 {
			c.ws = r.PickS("0", "-1", "-7", "4,0", "def,-2")
			if c.ws == "def,-2" {
				c.ws = "-2"
			}
		}
	case 1:
		c.ws = strconv.Itoa(r.Pick(1, 0, 7, 16, -3)) + "," + strconv.Itoa(c.w)
	case 2:
		if c.w == 16 {
			c.ws = "def"
		}
	case 3:
		if c.ctx != "none" {
			c.co = 1 // WithContext first
		}
	case 6, 7:
		if c.ctx != "none" {
			c.ck = r.PickS("d", "v")
		}
	case 4, 5:
		if c.api == "mr" && c.gp < 0 {
			c.api = "chan"
		}
	}
	return c
}

// c10Entries enumerates the less travelled entry points and the option glue: Finish / FinishVoid with every mix of
// nil / error / panic at every position and forced full concurrency (len(fns) functions at the same time),
// ForEach with forced concurrency, generator panics, a context, the default worker count (cap exactly 16),
// WithWorkers(<1), option lists, nested calls from inside user functions.
func c10Entries(r *verifh.Rng) []c10Cfg {
	var out []c10Cfg
	it := strconv.Itoa
	mk := func(api string, n, w int) c10Cfg {
		c := c10Cfg{api: api, n: n, w: w, ctx: "none", gp: -1, gx: -1}
		c.m = make([][]string, n)
		return c
	}
	// Finish: n functions, all of them must be able to run at once (each waits until the last one has started)
	for n := 0; n <= verifh.Scale(5, 7); n++ {
		all := func(api string) c10Cfg {
			c := mk(api, n, n)
			for i := 0; i < n; i++ {
				c.m[i] = []string{"us" + it(n-1)}
				if r.Chance(1, 4) {
					c.m[i] = append(c.m[i], "y")
				}
			}
			return c
		}
		out = append(out, all("finish"), all("finishvoid"))
		for i := 0; i < n; i++ {
			// function i returns an error / panics once all run; the others return nil, some only after they saw it
			for _, f := range []string{"c" + it(i+1), "p"} {
				for _, api := range []string{"finish", "finishvoid"} {
					if api == "finishvoid" && f != "p" {
						continue
					}
					c := all(api)
					c.m[i] = append(c.m[i], f)
					for j := 0; j < n; j++ {
						if j != i && r.Chance(1, 3) {
							if f == "p" {
								c.m[j] = append(c.m[j], "upm"+it(i))
							} else {
								c.m[j] = append(c.m[j], "ucbm"+it(i))
							}
						}
					}
					out = append(out, c)
				}
			}
			// two functions return different errors (either may win), or one errs and one panics; a third one outlives the call
			if n >= 2 {
				j := (i + 1 + r.Intn(n-1)) % n
				c := all("finish")
				c.m[i] = append(c.m[i], "c"+it(i+1))
				c.m[j] = append(c.m[j], r.PickS("c"+it(j+1), "p", "ucbm"+it(i)+".c9", "ucbm"+it(i)+".p"))
				c.m[j] = strings.Split(strings.Join(c.m[j], "."), ".")
				if n >= 3 {
					k := (j + 1) % n
					if k == i {
						k = (k + 1) % n
					}
					if k != i && k != j && !strings.Contains(strings.Join(c.m[j], "."), "p") {
						c.m[k] = append(c.m[k], "s", r.PickS("y", "c8", "p"))
					}
				}
				out = append(out, c)
			}
		}
	}
	// functions without any wait (the scheduler decides), errors / panics at random positions
	for k := verifh.Scale(12, 300); k > 0; k-- {
		n := r.Range(1, 6)
		c := mk(r.PickS("finish", "finish", "finishvoid"), n, n)
		for i := 0; i < n; i++ {
			switch r.Intn(6) {
			case 0:
				if c.api == "finish" {
					c.m[i] = []string{"c" + it(i+1)}
				}
			case 1:
				c.m[i] = []string{"p"}
			case 2:
				c.m[i] = []string{"y"}
			case 3:
				c.m[i] = []string{"f"}
			}
		}
		out = append(out, c)
	}
	// ForEach: forced concurrency (cap reached exactly), hand-over order, generator panic at every position,
	// a mapper panic seen by the others, a context that ends
	for w := 1; w <= 3; w++ {
		for n := 0; n <= w+2; n++ {
			c := mk("each", n, w)
			first := n
			if w < first {
				first = w
			}
			for j := 0; j < n; j++ {
				c.m[j] = []string{"y"}
				if j < first {
					c.m[j] = []string{"us" + it(first-1)}
					if n > w {
						c.m[j] = append(c.m[j], "ts"+it(w))
					}
				}
			}
			out = append(out, c)
			for k := 0; k <= n; k++ {
				// (no waits for mapper starts here: the generator may never hand those items out)
				d := c10Clone(c)
				d.gp = k
				for j := range d.m {
					d.m[j] = []string{"y"}
				}
				out = append(out, d)
			}
			if n > 0 {
				d := c10Clone(c)
				i := r.Intn(n)
				d.m[i] = append(d.m[i], "p")
				out = append(out, d)
				d = c10Clone(c)
				d.ctx = "can"
				for j := range d.m {
					d.m[j] = []string{"y"}
				}
				d.m[r.Intn(n)] = []string{"x"}
				out = append(out, d)
				d = c10Clone(c)
				d.ctx, d.gx = "can", r.Intn(n+1)
				for j := range d.m {
					d.m[j] = []string{"y"}
				}
				out = append(out, d)
			}
			d := c10Clone(c)
			d.ctx = "pre"
			for j := range d.m {
				d.m[j] = []string{"y"}
			}
			out = append(out, d)
		}
	}
	// the default worker count: exactly 16 mappers at once, never 17 (no WithWorkers option, or WithWorkers(16) last)
	for _, n := range []int{15, 16, 17, 18} {
		for _, api := range []string{"mr", "each", "chan"} {
			c := mk(api, n, 16)
			c.ws = r.PickS("def", "def", "3,16")
			first := n
			if first > 16 {
				first = 16
			}
			for j := 0; j < n; j++ {
				c.m[j] = []string{"w" + it(r.Range(1, 9))}
				if j < first {
					c.m[j] = append(c.m[j], "us"+it(first-1))
					if n > 16 {
						c.m[j] = append(c.m[j], "ts16")
					}
				}
			}
			if api != "each" {
				c.r = []string{"a", "w" + it(r.Range(10, 99))}
			}
			out = append(out, c)
		}
	}
	// more functions than defaultWorkers: Finish / FinishVoid must still run all of them at once
	for _, api := range []string{"finish", "finishvoid"} {
		n := r.Range(17, 19)
		c := mk(api, n, n)
		for i := 0; i < n; i++ {
			c.m[i] = []string{"us" + it(n-1)}
		}
		out = append(out, c)
	}
	// a call with few workers, then calls without WithWorkers that need more than that at once (options must not
	// leak from one call into the next), and nested calls from inside mappers / the reducer of a 1-worker call
	for _, wfirst := range []string{"1", "0", "-4", "2"} {
		c := mk("mr", 2, 1)
		c.ws = wfirst
		if wfirst == "2" {
			c.w = 2
		}
		c.m[0], c.m[1] = []string{"w1"}, []string{"w2"}
		c.r = []string{"a", "w7"}
		out = append(out, c)
		d := mk(r.PickS("mr", "each", "chan"), 4, 16)
		d.ws = "def"
		for j := 0; j < 4; j++ {
			d.m[j] = []string{"us3", "w" + it(j+1)}
		}
		if d.api != "each" {
			d.r = []string{"a", "w7"}
		}
		out = append(out, d)
		e := mk("mr", 2, 1)
		e.ws = wfirst
		if wfirst == "2" {
			e.w = 2
		}
		e.m[0], e.m[1] = []string{"f", "w1"}, []string{"w2", "f"}
		e.r = []string{"a", "f", "w7"}
		out = append(out, e)
	}
	return out
}

// c10SpecialErrs: the error VALUE classes of c10MkErr besides the plain struct value.
var c10SpecialErrs = []int{101, 102, 103, 104, 105, 106, 107, 108, 109, 110, 111, 112}

func c10IsCancelTok(a string) bool {
	if len(a) < 2 || a[0] != 'c' {
		return false
	}
	_, err := strconv.Atoi(a[1:])
	return err == nil && a != "c0"
}

// c10VaryErr re-expresses the cancel errors of a call by other error VALUE classes (zero-valued struct / int / string /
// typed nil pointer / wrapped / uncomparable / the library's own sentinels).  The expected behaviour does not change:
// the error that was passed to cancel comes back.
func c10VaryErr(r *verifh.Rng, c c10Cfg) c10Cfg {
	c = c10Clone(c)
	sub := func(sc []string) {
		for i, a := range sc {
			if c10IsCancelTok(a) && r.Chance(2, 3) {
				k := c10SpecialErrs[r.Intn(len(c10SpecialErrs))]
				if c.api == "finish" && k == 110 {
					k = 104
				}
				sc[i] = "c" + strconv.Itoa(k)
			}
		}
	}
	for _, sc := range c.m {
		sub(sc)
	}
	sub(c.r)
	return c
}

// c10Outcomes enumerates every way a user function can END at every entry point: normal return, cancel (see
// c10ErrKinds), panic with a string, panic with an error value, runtime.Goexit — for a mapper, the reducer, a Finish /
// FinishVoid function, a ForEach mapper; alone and while the other functions are still running.
func c10Outcomes(r *verifh.Rng) []c10Cfg {
	var out []c10Cfg
	it := strconv.Itoa
	// the generator ends by Goexit / panic(nil) at every position
	for _, api := range []string{"mr", "void", "each", "chan"} {
		for k := 0; k <= 2; k++ {
			c := c10Cfg{api: api, n: 2, w: 2, ctx: "none", gp: -1, gx: -1, extra: " gq=" + it(k)}
			c.m = [][]string{{"w1"}, {"w2"}}
			if api != "each" {
				c.r = []string{"a", "w7"}
			}
			out = append(out, c)
			if api != "chan" {
				d := c10Clone(c)
				d.gp, d.extra = k, " gk=n"
				out = append(out, d)
			}
		}
	}
	for _, x := range []string{"p", "pe", "pn", "q", "y"} {
		for _, api := range []string{"mr", "void", "chan"} {
			for _, w := range []int{1, 2} {
				c := c10Cfg{api: api, n: 2, w: w, ctx: "none", gp: -1, gx: -1}
				c.m = [][]string{{"w1", x, "w3"}, {"w2"}}
				c.r = []string{"a", "w7"}
				out = append(out, c)
				d := c10Cfg{api: api, n: 2, w: w, ctx: "none", gp: -1, gx: -1}
				d.m = [][]string{{"w1"}, {"w2"}}
				d.r = []string{"o", x, "a", "w7"}
				out = append(out, d)
				e := c10Cfg{api: api, n: 2, w: w, ctx: "none", gp: -1, gx: -1}
				e.m = [][]string{{"w1"}, {"w2"}}
				e.r = []string{"a", "w7", x}
				out = append(out, e)
			}
		}
		for _, api := range []string{"finish", "finishvoid", "each"} {
			for n := 1; n <= 3; n++ {
				i := r.Intn(n)
				c := c10Cfg{api: api, n: n, w: n, ctx: "none", gp: -1, gx: -1}
				c.m = make([][]string, n)
				for j := range c.m {
					c.m[j] = []string{"us" + it(n-1)}
				}
				c.m[i] = append(c.m[i], x)
				if api == "finish" && x == "q" {
					c.m[i] = append(c.m[i], "c5") // never reached: the function neither returns an error nor nil
				}
				out = append(out, c)
			}
		}
	}
	return out
}

// c10VaryPanic re-expresses panics of a call as panics with an error value.
func c10VaryPanic(r *verifh.Rng, c c10Cfg) c10Cfg {
	c = c10Clone(c)
	sub := func(sc []string) {
		for i, a := range sc {
			if a == "p" && r.Chance(1, 2) {
				sc[i] = "pe"
			}
		}
	}
	for _, sc := range c.m {
		sub(sc)
	}
	sub(c.r)
	return c
}

// c10MultiCancel enumerates SEVERAL cancels in ONE call whose errors have DIFFERENT dynamic types (the cell the error is
// recorded in accepts one dynamic type only: only the first cancel may reach it): two mappers at the same time, a
// mapper and the reducer, a second cancel after the first has returned, a user cancel followed by the END OF THE
// CONTEXT while that cancel is still draining a generator that stalls until the context has ended (the library's own
// cancel(DeadlineExceeded) is the second one), two Finish functions — on every entry point that has a cancel.
func c10MultiCancel(r *verifh.Rng) []c10Cfg {
	var out []c10Cfg
	it := strconv.Itoa
	kinds := append([]int{0, 5}, c10SpecialErrs...)
	pair := func() (string, string) {
		a := kinds[r.Intn(len(kinds))]
		b := kinds[r.Intn(len(kinds))]
		for b == a || (a == 0 && b == 110) || (a == 110 && b == 0) {
			b = kinds[r.Intn(len(kinds))]
		}
		return "c" + it(a), "c" + it(b)
	}
	for rep := 0; rep < 3; rep++ {
		for _, api := range []string{"mr", "void", "chan"} {
			rd := []string{"a", "w7"}
			// two mappers cancel at the same time
			k1, k2 := pair()
			c := c10Cfg{api: api, n: 3, w: 2, ctx: "none", gp: -1, gx: -1}
			c.m = [][]string{{"us1", k1}, {"us0", k2}, {"w3"}}
			c.r = rd
			out = append(out, c)
			// a mapper and the reducer
			k1, k2 = pair()
			c = c10Cfg{api: api, n: 2, w: 1, ctx: "none", gp: -1, gx: -1}
			c.m = [][]string{{"w1", k1}, {"w2"}}
			c.r = []string{"us0", k2, "a"}
			out = append(out, c)
			// the second cancel only after the first one has returned
			k1, k2 = pair()
			c = c10Cfg{api: api, n: 2, w: 2, ctx: "none", gp: -1, gx: -1}
			c.m = [][]string{{k1}, {"w2"}}
			c.r = []string{"ucem0", k2, "a"}
			out = append(out, c)
			// a user cancel is draining a generator that stalls until the context has ended; the reducer ends the context
			// once the cancel has begun: the library's cancel(DeadlineExceeded) is the second cancel of the call
			for _, w := range []int{1, 2} {
				k1, _ = pair()
				if k1 == "c109" {
					k1 = "c5"
				}
				g := w + 1 + r.Intn(2)
				c = c10Cfg{api: api, n: g + 1, w: w, ctx: "can", gp: -1, gx: -1, ck: r.PickS("", "d", "v")}
				c.gw = []string{it(g) + ":xb"}
				c.m = make([][]string, c.n)
				for j := range c.m {
					c.m[j] = []string{"w" + it(j+1)}
				}
				c.m[0] = []string{"us" + it(w-1), k1}
				for j := 1; j < w; j++ {
					c.m[j] = []string{"s"}
				}
				c.r = []string{"ucbm0", "x", "a"}
				out = append(out, c)
			}
		}
		// two functions of one Finish return errors of different dynamic types
		k1, k2 := pair()
		for k1 == "c0" || k2 == "c0" || k1 == "c110" || k2 == "c110" {
			k1, k2 = pair()
		}
		n := 2 + r.Intn(2)
		c := c10Cfg{api: "finish", n: n, w: n, ctx: "none", gp: -1, gx: -1}
		c.m = make([][]string, n)
		for j := range c.m {
			c.m[j] = []string{"us" + it(n-1)}
		}
		c.m[0] = append(c.m[0], k1)
		c.m[n-1] = append(c.m[n-1], k2)
		out = append(out, c)
	}
	return out
}

// c10ErrKinds enumerates every error VALUE class at every place an error enters the library: a mapper's cancel, the
// reducer's cancel, the return value of a Finish function — on every entry point that takes one, alone and against a
// second cancel / an early reducer write / a function that must no longer run.
func c10ErrKinds(r *verifh.Rng) []c10Cfg {
	var out []c10Cfg
	it := strconv.Itoa
	kinds := append([]int{5}, c10SpecialErrs...)
	for _, k := range kinds {
		ck := "c" + it(k)
		for _, api := range []string{"mr", "void", "chan"} {
			// a mapper cancels after a write; the reducer reads everything, then writes (the write must be dropped)
			c := c10Cfg{api: api, n: 2, w: 2, ctx: "none", gp: -1, gx: -1}
			c.m = [][]string{{"w1", ck}, {"w2"}}
			c.r = []string{"a", "w7"}
			out = append(out, c)
			// the reducer cancels before reading
			d := c10Cfg{api: api, n: 2, w: 1, ctx: "none", gp: -1, gx: -1}
			d.m = [][]string{{"w1"}, {"w2"}}
			d.r = []string{ck, "a"}
			out = append(out, d)
			// one worker: item 0 cancels, item 1 must see the cancel (it may or may not be started); the reducer does not write
			e := c10Cfg{api: api, n: 3, w: 1, ctx: "none", gp: -1, gx: -1}
			e.m = [][]string{{ck}, {"w2"}, {"w3"}}
			e.r = []string{"a"}
			out = append(out, e)
			// two cancels with different value classes: the second one only after the first has returned
			k2 := kinds[r.Intn(len(kinds))]
			f := c10Cfg{api: api, n: 2, w: 2, ctx: "none", gp: -1, gx: -1}
			f.m = [][]string{{"us1", ck}, {"ucem0", "c" + it(k2)}}
			f.r = []string{"a"}
			out = append(out, f)
		}
		if k != 110 {
			for n := 1; n <= 3; n++ {
				i := r.Intn(n)
				c := c10Cfg{api: "finish", n: n, w: n, ctx: "none", gp: -1, gx: -1}
				c.m = make([][]string, n)
				for j := range c.m {
					c.m[j] = []string{"us" + it(n-1)}
				}
				c.m[i] = append(c.m[i], ck)
				out = append(out, c)
			}
		}
	}
	return out
}

func c10Plain(r *verifh.Rng, n, w int) c10Cfg {
	c := c10Cfg{api: "mr", n: n, w: w, ctx: "none", gp: -1, gx: -1}
	for i := 0; i < n; i++ {
		var s []string
		for j := r.Pick(0, 1, 1, 1, 2, 3, w+2); j > 0; j-- {
			s = append(s, "w"+strconv.Itoa(r.Range(1, 9)))
			if r.Chance(1, 6) {
				s = append(s, "y")
			}
		}
		c.m = append(c.m, s)
	}
	switch r.Intn(10) {
	case 8:
		c.r = []string{"o", "w" + strconv.Itoa(r.Range(1, 99))} // "first result wins": does not read the rest
	case 9: // reducers that do not look at the pipe at all
		switch r.Intn(4) {
		case 0:
			c.r = []string{"w" + strconv.Itoa(r.Range(1, 99))}
		case 1:
			c.r = nil
		case 2:
			c.r = []string{"o"}
		default:
			c.r = []string{"y", "w5"}
		}
	case 0:
		c.r = []string{"a"} // no output
	case 1:
		c.r = []string{"o", "a", "w" + strconv.Itoa(r.Range(1, 99))}
	case 2:
		c.r = []string{"w" + strconv.Itoa(r.Range(1, 99)), "a"}
	default:
		c.r = []string{"a", "w" + strconv.Itoa(r.Range(1, 99))}
	}
	return c
}

func c10Clone(c c10Cfg) c10Cfg {
	d := c
	d.m = make([][]string, len(c.m))
	for i := range c.m {
		d.m[i] = append([]string(nil), c.m[i]...)
	}
	d.r = append([]string(nil), c.r...)
	d.gw = append([]string(nil), c.gw...)
	return d
}

func c10Insert(s []string, pos int, a ...string) []string {
	if pos > len(s) {
		pos = len(s)
	}
	out := append([]string(nil), s[:pos]...)
	out = append(out, a...)
	return append(out, s[pos:]...)
}

// c10Faults enumerates single faults at every position of a plain configuration, and the
// two-fault combinations named in the property (one invocation cancels / the context ends while
// another stalls until the call has returned and then panics, writes or cancels).
func c10Faults(r *verifh.Rng, base c10Cfg) []c10Cfg {
	var out []c10Cfg
	n, w := base.n, base.w
	add := func(c c10Cfg) { out = append(out, c) }
	// generator panics / cancels the context at every position
	for k := 0; k <= n; k++ {
		c := c10Clone(base)
		c.gp = k
		add(c)
		c = c10Clone(base)
		c.ctx, c.gx = "can", k
		add(c)
	}
	// context already over
	c := c10Clone(base)
	c.ctx = "pre"
	add(c)
	// mapper i: cancel / cancel(nil) / panic / ctx-cancel at the start, in the middle, at the end
	for i := 0; i < n; i++ {
		for _, f := range []string{"c" + strconv.Itoa(i+1), "c0", "p", "x"} {
			for _, pos := range []int{0, len(base.m[i])} {
				c := c10Clone(base)
				c.m[i] = c10Insert(c.m[i], pos, f)
				if f == "x" {
					c.ctx = "can"
				}
				add(c)
			}
		}
	}
	// reducer faults at every position of its script
	for pos := 0; pos <= len(base.r); pos++ {
		for _, f := range []string{"c77", "c0", "p", "x"} {
			c := c10Clone(base)
			c.r = c10Insert(c.r, pos, f)
			if f == "x" {
				c.ctx = "can"
			}
			add(c)
		}
	}
	// a trigger that makes the call return while other invocations are still running:
	// the trigger must not depend on the stalled invocations (see c10SafeStall)
	late := []string{"p", "w5", "c9", "c0", "y"}
	for t := 0; t < n && t < w; t++ {
		for _, trig := range []string{"c" + strconv.Itoa(t+1), "x"} {
			for j := 0; j < n; j++ {
				if j == t {
					continue
				}
				c := c10Clone(base)
				c.m[t] = c10Insert(c.m[t], 0, trig)
				if trig == "x" {
					c.ctx = "can"
				}
				c.m[j] = c10Insert(c.m[j], r.Intn(len(c.m[j])+1), "s", late[r.Intn(len(late))])
				if c10SafeStall(c) {
					add(c)
				}
			}
			// the reducer outlives the call
			c := c10Clone(base)
			c.m[t] = c10Insert(c.m[t], 0, trig)
			if trig == "x" {
				c.ctx = "can"
			}
			c.r = c10Insert(c.r, r.Intn(len(c.r)+1), "s", late[r.Intn(len(late))])
			if c10SafeStall(c) {
				add(c)
			}
		}
	}
	// reducer cancels first / context over, mappers outlive the call
	for j := 0; j < n; j++ {
		c := c10Clone(base)
		c.r = c10Insert(c.r, 0, "c77")
		c.m[j] = c10Insert(c.m[j], r.Intn(len(c.m[j])+1), "s", late[r.Intn(len(late))])
		if c10SafeStall(c) {
			add(c)
		}
		c = c10Clone(base)
		c.ctx = "pre"
		c.m[j] = c10Insert(c.m[j], r.Intn(len(c.m[j])+1), "s", late[r.Intn(len(late))])
		if c10SafeStall(c) {
			add(c)
		}
	}
	// reducer writes, then faults
	for _, f := range []string{"p", "c77", "w3"} {
		c := c10Clone(base)
		c.r = []string{"a", "w8", f}
		add(c)
		c = c10Clone(base)
		c.r = []string{"w8", f, "a"}
		add(c)
	}
	return out
}

// c10SafeStall says whether every `s` (stall until the call has returned) of the configuration is
// certain to be released, i.e. whether the call returns without the stalled invocations:
// there must be a trigger that is certain to run and that ends the call on its own — the context is
// over from the start, or `c…`/`x` is the first action of the reducer, or the first action of the
// mapper of an item t < workers (it gets a pool slot whatever the earlier items do).  A re-raised
// panic is no trigger (the call waits for every mapper before re-raising).  The generator never stalls.
// (A stalled invocation that the call has to wait for is a hang by construction of the test, not of the code.)
func c10SafeStall(c c10Cfg) bool {
	has := false
	for _, s := range c.m {
		for _, a := range s {
			if a == "s" {
				has = true
			}
		}
	}
	for _, a := range c.r {
		if a == "s" {
			has = true
		}
	}
	if !has {
		return true
	}
	if c.gp >= 0 {
		return false // a generator panic is re-raised only after every mapper returned
	}
	// a panic before the call returned stops the dispatcher (the trigger might never be started) and is
	// re-raised only after every mapper returned: with a stall present, `p` is allowed only after an `s`
	latePanicOnly := func(s []string) bool {
		seen := false
		for _, a := range s {
			if a == "s" {
				seen = true
			}
			if c10IsPanic(a) && !seen {
				return false
			}
		}
		return true
	}
	for _, s := range c.m {
		if !latePanicOnly(s) {
			return false
		}
	}
	if !latePanicOnly(c.r) {
		return false
	}
	// a cancel trigger closes the output, so the call returns even if it already took the reducer's value;
	// a context trigger is only seen while the call still waits in its select: then the reducer must not
	// write before the call returned
	first := func(s []string, b byte) bool { return len(s) > 0 && s[0][0] == b }
	cancelTrig, ctxTrig := first(c.r, 'c'), c.ctx == "pre" || first(c.r, 'x')
	for t := 0; t < c.n && t < c.w; t++ {
		cancelTrig = cancelTrig || first(c.m[t], 'c')
		ctxTrig = ctxTrig || first(c.m[t], 'x')
	}
	if cancelTrig {
		return true
	}
	if !ctxTrig {
		return false
	}
	for _, a := range c.r {
		if a == "s" {
			break
		}
		if a[0] == 'w' {
			return false
		}
	}
	return true
}

func c10Random(r *verifh.Rng) c10Cfg {
	w := r.Pick(1, 1, 2, 2, 3, 4, r.Range(5, 8))
	n := r.Pick(0, 1, w-1, w, w+1, w+2, r.Range(0, 3*w+2))
	if n < 0 {
		n = 0
	}
	c := c10Plain(r, n, w)
	c.api = r.PickS("mr", "mr", "mr", "void")
	nf := r.Pick(0, 1, 1, 2, 2, 3)
	acts := []string{"p", "c0", "c5", "c6", "x", "y", "s", "w4", "pe", "q"}
	for f := 0; f < nf; f++ {
		a := acts[r.Intn(len(acts))]
		d := c10Clone(c)
		switch t := r.Intn(n + 3); {
		case t < n:
			d.m[t] = c10Insert(d.m[t], r.Intn(len(d.m[t])+1), a)
		case t == n:
			d.r = c10Insert(d.r, r.Intn(len(d.r)+1), a)
		case t == n+1 && c10IsPanic(a):
			d.gp = r.Intn(n + 1)
		case t == n+1 && a == "x":
			d.gx = r.Intn(n + 1)
		case t == n+2:
			d.ctx = r.PickS("pre", "can")
		}
		if a == "x" {
			d.ctx = "can"
		}
		if d.gx >= 0 && d.ctx == "none" {
			d.ctx = "can"
		}
		if c10SafeStall(d) && c10ReducerWrites(d) <= 2 {
			c = d
		}
	}
	return c
}

// c10ReducerWrites counts the reducer's writes.  A reducer must write at most once; the second write is
// answered by the library's panic in the caller, a third one blocks forever because nobody reads the
// output any more (outside the property: "the reducer's single output").
func c10ReducerWrites(c c10Cfg) int {
	k := 0
	for _, a := range c.r {
		if a[0] == 'w' {
			k++
		}
	}
	return k
}

// ---------------------------------------------------------------- forced orderings (event waits)
//
// c10Races enumerates, for a worker count w, the scenario class "one user function stalls on an event of
// another, relative to a cancel / panic / context end": which function stalls (generator, a mapper, the
// reducer), on which event, and which function cancels / panics / writes.  Every wait is on an event that is
// certain to happen (argued per family), so that the real code must return; a wait is also released by the
// return of the call.  The orderings are forced by the waits, never by sleeping.
func c10Races(r *verifh.Rng, w int) []c10Cfg {
	var out []c10Cfg
	it := strconv.Itoa
	mk := func(n int) c10Cfg {
		c := c10Cfg{api: "mr", n: n, w: w, ctx: "none", gp: -1, gx: -1}
		c.m = make([][]string, n)
		return c
	}
	val := func() string { return it(r.Range(1, 9)) }
	lateActs := []string{"", "p", "w5", "c9", "c0"}

	// A. a cancel is IN PROGRESS (its error is recorded, it drains a generator that stalls), the pool is full,
	//    and the reducer writes: the generator stalls before item g until the reducer's Write began / returned;
	//    mapper t (< w) cancels once all of the first w mappers run; the other ones hold their slot until
	//    the call returned; the reducer waits until item g-1 (>= w: only cancel's drain can have taken it) was
	//    taken, or only until the cancel call began, then writes.
	for t := 0; t < w; t++ {
		for extra := 0; extra <= 2; extra++ {
			// (the call cannot return before cancel's finish closed the output, so the generator must not wait for the return)
			for _, rel := range []string{"ra", "rb"} {
				for _, on := range []string{"gt", "cb"} {
					if on == "gt" && extra == 0 {
						continue
					}
					g := w + extra
					n := g + r.Intn(2)
					c := mk(n)
					c.gw = []string{it(g) + ":" + rel}
					for j := 0; j < n; j++ {
						switch {
						case j == t:
							c.m[j] = []string{"w" + val(), "us" + it(w-1), "c" + it(t+1)}
							if r.Chance(1, 3) {
								c.m[j] = append(c.m[j], "w"+val())
							}
						case j < w:
							c.m[j] = []string{"s"}
							if a := lateActs[r.Intn(len(lateActs))]; a != "" {
								c.m[j] = append(c.m[j], a)
							}
							if r.Chance(1, 3) {
								c.m[j] = c10Insert(c.m[j], 0, "ucbm"+it(t))
							}
						default:
							c.m[j] = []string{"w" + val()}
						}
					}
					ev := "ugt" + it(g-1)
					if on == "cb" {
						ev = "ucbm" + it(t)
					}
					c.r = []string{"o", ev, "w" + it(r.Range(10, 99))}
					if r.Chance(1, 3) {
						c.r = c.r[1:] // a reducer that writes without reading first
					}
					switch r.Intn(4) {
					case 1:
						c.r = append(c.r, "a")
					case 2:
						c.r = append(c.r, "s")
					case 3:
						c.r = append(c.r, "a", "w3")
					}
					out = append(out, c)
				}
			}
		}
	}
	// the REDUCER cancels while the generator stalls until mapper 0 (which waits for the cancel to begin) has
	// ended; the reducer's own write after its cancel returned must be dropped
	for extra := 1; extra <= 2; extra++ {
		g := w + extra
		c := mk(g + 1)
		c.gw = []string{it(g) + ":e0"}
		c.m[0] = []string{"ucbr", "w" + val()}
		c.r = []string{"us" + it(w-1), "c77", "w8"}
		out = append(out, c)
	}

	// B. a cancel has COMPLETED before another user function acts (no generator stall): mapper t cancels once
	//    mapper j runs; X (the reducer or mapper j) waits until that cancel returned and then writes / cancels
	//    with another error / panics / returns.  First completed cancel wins; no value, no ErrReduceNoOutput.
	for t := 0; t < w; t++ {
		for _, act := range []string{"w7", "c9", "c0", "p", "", "w7.w8"} {
			// X = the reducer (it does not read while it waits: the mappers write at most `w` values in total)
			n := w + r.Intn(3)
			c := mk(n)
			for j := 0; j < w; j++ {
				c.m[j] = []string{"w" + val()}
			}
			first := "c" + it(t+1)
			if r.Chance(1, 4) {
				first = "c0"
			}
			c.m[t] = []string{first}
			if r.Bool() {
				c.m[t] = []string{"w" + val(), first, "w" + val()}
			}
			c.r = []string{"ucem" + it(t)}
			if r.Bool() {
				c.r = []string{"o", "ucem" + it(t)}
			}
			if act != "" {
				c.r = append(c.r, strings.Split(act, ".")...)
			}
			if r.Bool() {
				c.r = append(c.r, "a")
			}
			out = append(out, c)
			// X = another mapper j < w (certainly started: t waits for it)
			if w >= 2 && act != "w7.w8" {
				j := (t + 1 + r.Intn(w-1)) % w
				c := mk(n)
				if n < w {
					c = mk(w)
				}
				for k := 0; k < c.n; k++ {
					c.m[k] = []string{"w" + val()}
				}
				c.m[t] = []string{"us" + it(j), "c" + it(t+1)}
				c.m[j] = []string{"ucem" + it(t)}
				if act != "" {
					c.m[j] = append(c.m[j], act)
				}
				c.r = []string{"a", "w7"}
				if r.Bool() {
					c.r = []string{"a"}
				}
				out = append(out, c)
			}
		}
	}
	// the reducer cancels first; a mapper waits for the end of that cancel and cancels / panics / writes
	for _, act := range []string{"c5", "c0", "p", "w3"} {
		c := mk(w + 1)
		for k := 0; k < c.n; k++ {
			c.m[k] = []string{"w" + val()}
		}
		j := r.Intn(w)
		c.m[j] = []string{"ucer", act}
		c.r = []string{"us" + it(j), "c77"}
		if r.Bool() {
			c.r = append(c.r, "w8")
		}
		out = append(out, c)
	}

	// C. nothing cancelled, forced full concurrency and forced hand-over orders: the first min(n,w) mappers wait
	//    for each other (the cap is reached exactly), the generator hands out item k only after mapper k-1 started,
	//    the reducer starts reading only after an event of a mapper / the generator.
	for n := 1; n <= w+2; n++ {
		c := mk(n)
		first := n
		if w < first {
			first = w
		}
		for j := 0; j < n; j++ {
			for k := r.Pick(0, 1, 1, 2); k > 0; k-- {
				c.m[j] = append(c.m[j], "w"+val())
			}
			if j < first {
				c.m[j] = c10Insert(c.m[j], r.Intn(len(c.m[j])+1), "us"+it(first-1))
				if n > w {
					// all `w` slots are taken: mapper w must not start before one of them has ended
					c.m[j] = append(c.m[j], "ts"+it(w))
				}
			}
		}
		if r.Bool() {
			k := r.Range(1, n)
			c.gw = []string{it(k) + ":s" + it(k-1)}
		}
		c.r = []string{"a", "w" + it(r.Range(10, 99))}
		switch r.Intn(4) {
		case 0:
			c.r = c10Insert(c.r, 0, "us"+it(r.Intn(first)))
		case 1:
			c.r = c10Insert(c.r, 0, "ugt"+it(r.Intn(first)))
		case 2:
			c.r = []string{"w" + it(r.Range(10, 99)), "us" + it(first-1), "a"}
		}
		out = append(out, c)
	}

	// D. a mapper panics; another mapper / the reducer acts only after the panic began (t waits until j runs)
	for t := 0; t < w; t++ {
		for _, act := range []string{"", "c5", "w3", "p"} {
			if w >= 2 {
				j := (t + 1 + r.Intn(w-1)) % w
				c := mk(w + r.Intn(2))
				for k := 0; k < c.n; k++ {
					c.m[k] = []string{"w" + val()}
				}
				c.m[t] = []string{"us" + it(j), "p"}
				c.m[j] = []string{"upm" + it(t)}
				if act != "" {
					c.m[j] = append(c.m[j], act)
				}
				c.r = []string{"a", "w7"}
				out = append(out, c)
			}
			// the reducer acts after the panic began
			c := mk(w + r.Intn(2))
			for k := 0; k < c.n; k++ {
				c.m[k] = []string{"w" + val()}
			}
			c.m[t] = []string{"p"}
			c.r = []string{"upm" + it(t)}
			if act != "" {
				c.r = append(c.r, act)
			}
			c.r = append(c.r, "a")
			if c10ReducerWrites(c) == 0 && r.Bool() {
				c.r = append(c.r, "w7")
			}
			out = append(out, c)
		}
	}

	// E. the context ends at a forced point: mapper t ends it; the reducer writes only after it has ended (the
	//    write must be dropped); the generator stalls until it has ended
	for rep := 0; rep < 3; rep++ {
		for t := 0; t < w; t++ {
			c := mk(w + 1 + r.Intn(2))
			c.ctx = "can"
			for k := 0; k < c.n; k++ {
				c.m[k] = []string{"w" + val()}
			}
			c.m[t] = []string{"x"}
			c.r = []string{"uxb", "w7"}
			if r.Bool() {
				c.r = append(c.r, "a")
			}
			if r.Bool() {
				c.gw = []string{it(r.Range(t+1, c.n)) + ":xb"}
			}
			out = append(out, c)
		}
		// the context is over from the start / is ended by the generator before the first item: whatever the
		// reducer writes must be dropped (the caller's select may take either the context or the closed output)
		for _, rs := range [][]string{{"w7"}, {"w7", "a"}, {"o", "w7"}, {"a", "w7"}, {"y", "w7", "w8"}} {
			c := mk(r.Range(0, w+1))
			for k := 0; k < c.n; k++ {
				c.m[k] = []string{"w" + val()}
			}
			c.ctx = "pre"
			if r.Chance(1, 3) {
				c.ctx, c.gx = "can", 0
				rs = append([]string{"uxb"}, rs...)
			}
			c.r = append([]string(nil), rs...)
			out = append(out, c)
		}
	}
	for i := range out {
		if c10ReducerWrites(out[i]) == 0 && r.Chance(1, 6) {
			out[i].api = "void"
		}
	}
	return out
}

func c10Gen(r *verifh.Rng) []verifh.Section {
	var lines []string
	maxW := verifh.Scale(3, 4)
	for w := 1; w <= maxW; w++ {
		for n := 0; n <= w+2; n++ {
			base := c10Plain(r, n, w)
			lines = append(lines, base.String())
			fs := c10Faults(r, base)
			keep := verifh.Scale(14, len(fs))
			// quick tier: a seeded sample of the enumeration; thorough: all of it
			r2 := r.Fork()
			for len(fs) > keep {
				i := r2.Intn(len(fs))
				fs = append(fs[:i], fs[i+1:]...)
			}
			for _, c := range fs {
				if r.Chance(1, 5) {
					c.api = "void"
				}
				lines = append(lines, c.String())
			}
		}
	}
	for rep := verifh.Scale(1, 25); rep > 0; rep-- {
		for w := 1; w <= maxW; w++ {
			for _, c := range c10Races(r, w) {
				lines = append(lines, c.String())
			}
		}
	}
	for i := verifh.Scale(500, 40000); i > 0; i-- {
		lines = append(lines, c10Random(r).String())
	}
	// the same calls through other routes of the glue (option lists, clamped / default worker counts, MapReduceChan)
	{
		r3 := r.Fork()
		for i := range lines {
			if r3.Chance(1, 3) {
				if c, ok := c10ParseLine(lines[i]); ok {
					lines[i] = c10Vary(r3, c).String()
				}
			}
		}
	}
	for rep := verifh.Scale(1, 6); rep > 0; rep-- {
		for _, c := range c10Entries(r) {
			lines = append(lines, c10Vary(r, c).String())
		}
	}
	// the same calls with other error VALUE classes handed to cancel / returned by the Finish functions
	{
		r4 := r.Fork()
		for i := range lines {
			if r4.Chance(1, 3) {
				if c, ok := c10ParseLineAny(lines[i]); ok {
					lines[i] = c10VaryPanic(r4, c10VaryErr(r4, c)).String()
				}
			}
		}
	}
	for rep := verifh.Scale(1, 4); rep > 0; rep-- {
		for _, c := range c10MultiCancel(r) {
			lines = append(lines, c.String())
		}
	}
	for _, c := range c10Outcomes(r) {
		lines = append(lines, c10Vary(r, c).String())
	}
	for rep := verifh.Scale(1, 4); rep > 0; rep-- {
		for _, c := range c10ErrKinds(r) {
			lines = append(lines, c10Vary(r, c).String())
		}
	}
	// ForEach: plain and with a panicking item
	for i := verifh.Scale(10, 200); i > 0; i-- {
		w := r.Range(1, 4)
		n := r.Range(0, w+2)
		c := c10Cfg{api: "each", n: n, w: w, ctx: "none", gp: -1, gx: -1}
		for j := 0; j < n; j++ {
			c.m = append(c.m, []string{"y"})
		}
		if n > 0 && r.Bool() {
			c.m[r.Intn(n)] = []string{"p"}
		} else if r.Chance(1, 4) {
			c.gp = r.Intn(n + 1)
		}
		lines = append(lines, c.String())
	}
	var secs []verifh.Section
	const per = 40
	for i := 0; i < len(lines); i += per {
		j := i + per
		if j > len(lines) {
			j = len(lines)
		}
		secs = append(secs, verifh.Section{Cfg: fmt.Sprintf("batch=%d", i/per), Ops: lines[i:j]})
	}
	return secs
}

// c10ParseLine reads a generated line back into a configuration (generation only).
func c10ParseLine(line string) (c10Cfg, bool) {
	f := strings.Fields(line)
	if len(f) == 0 || f[0] != "run" {
		return c10Cfg{}, false
	}
	cfg := verifh.ParseCfg(strings.Join(f[1:], " "))
	c := c10Cfg{api: cfg.Str("api", "mr"), n: cfg.Int("n", 0), ctx: cfg.Str("ctx", "none"), gp: -1, gx: -1}
	ws := cfg.Str("w", "1")
	if _, err := strconv.Atoi(ws); err != nil {
		return c10Cfg{}, false
	}
	c.w = verifh.Atoi(ws)
	if v := cfg.Str("gp", "-"); v != "-" {
		c.gp = verifh.Atoi(v)
	}
	if v := cfg.Str("gx", "-"); v != "-" {
		c.gx = verifh.Atoi(v)
	}
	if v := cfg.Str("gw", "-"); v != "-" {
		c.gw = strings.Split(v, ",")
	}
	if c.n > 0 {
		for _, p := range strings.Split(cfg.Str("m", ""), "/") {
			c.m = append(c.m, c10Script(p))
		}
		if len(c.m) != c.n {
			return c10Cfg{}, false
		}
	}
	c.r = c10Script(cfg.Str("r", "-"))
	return c, true
}

// c10ParseLineAny also reads lines whose w= is an option list / `def` and that carry co= (generation only).
func c10ParseLineAny(line string) (c10Cfg, bool) {
	f := strings.Fields(line)
	if len(f) == 0 || f[0] != "run" {
		return c10Cfg{}, false
	}
	cfg := verifh.ParseCfg(strings.Join(f[1:], " "))
	ws := cfg.Str("w", "1")
	eff := 16
	if ws != "def" {
		parts := strings.Split(ws, ",")
		last, err := strconv.Atoi(parts[len(parts)-1])
		if err != nil {
			return c10Cfg{}, false
		}
		eff = last
		if eff < 1 {
			eff = 1
		}
	}
	for i, t := range f {
		if strings.HasPrefix(t, "w=") {
			f[i] = "w=" + strconv.Itoa(eff)
		}
	}
	c, ok := c10ParseLine(strings.Join(f, " "))
	if !ok {
		return c, false
	}
	if ws != strconv.Itoa(eff) {
		c.ws = ws
	}
	if co := cfg.Int("co", -1); co >= 0 {
		c.co = co + 1
	}
	c.ck = cfg.Str("ck", "")
	return c, true
}

func TestVerifC10(t *testing.T) {
	secs := verifh.Sections(c10Gen)
	verifh.Run(t, secs, func(cfg verifh.Cfg) (func(op []string) string, func()) {
		return c10Exec, nil
	})
}
