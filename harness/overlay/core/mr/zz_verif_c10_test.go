//go:build verif

package mr

// C10 correspondence harness: runs the real MapReduce / MapReduceVoid / ForEach with scripted user
// functions (generator, one mapper script per item, reducer) and a harness-owned context, one
// independent run per trace line.  The executor is driven only by the op text; generation is
// separate (c10Gen).  Observed per run: the call's return value / error class / re-raised panic
// (or `hang`), goroutines left once every user function has returned, the items handed to the
// mapper, the values the reducer received, and the start/end history of mapper invocations.
//
//   run api=<mr|void|each> n=<items> w=<workers> ctx=<none|can|pre> gp=<k|-> gx=<k|-> m=<s0>/<s1>/… r=<script>
//
// script = actions joined by '.', '-' = empty.  Actions:
//   w<v> Write(v)      c<k> cancel(error k), c0 = cancel(nil)      p panic
//   a    read the pipe until it is closed (reducer)                o read one value (reducer)
//   s    stall until the call has returned to the harness          x cancel the harness context
//   y    yield the processor a few times
// gp=k: the generator panics before sending item k (k=n: after the last item); gx=k: cancels the context there.

import (
	"context"
	"errors"
	"fmt"
	"runtime"
	"sort"
	"strconv"
	"strings"
	"sync"
	"sync/atomic"
	"testing"
	"time"

	"github.com/zeromicro/go-zero/internal/verifh"
)

type c10Err struct{ k int }

func (e c10Err) Error() string { return "E" + strconv.Itoa(e.k) }

const (
	c10HangMax   = 4 * time.Second
	c10SettleMax = 1500 * time.Millisecond
)

func c10Script(s string) []string {
	if s == "-" || s == "" {
		return nil
	}
	return strings.Split(s, ".")
}

func c10PanicName(p any) string {
	s := fmt.Sprint(p)
	switch {
	case strings.HasPrefix(s, "pm") || s == "pr" || s == "pg":
		return s
	case strings.Contains(s, "more than one element"):
		return "multi"
	case strings.Contains(s, "send on closed channel"):
		return "sendclosed"
	}
	s = strings.Map(func(r rune) rune {
		if r == ' ' || r == '\n' || r == '\t' || r == '=' {
			return '_'
		}
		return r
	}, s)
	if len(s) > 40 {
		s = s[:40]
	}
	return "other:" + s
}

func c10ErrName(err error) string {
	var ce c10Err
	switch {
	case errors.As(err, &ce):
		return "E" + strconv.Itoa(ce.k)
	case errors.Is(err, ErrCancelWithNil):
		return "nil"
	case errors.Is(err, context.DeadlineExceeded):
		return "deadline"
	case errors.Is(err, context.Canceled):
		return "canceled"
	case errors.Is(err, ErrReduceNoOutput):
		return "noout"
	}
	return "other"
}

func c10Exec(op []string) string {
	if len(op) == 0 || op[0] != "run" {
		return "bad-op"
	}
	cfg := verifh.ParseCfg(strings.Join(op[1:], " "))
	api := cfg.Str("api", "mr")
	n := cfg.Int("n", 0)
	w := cfg.Int("w", 1)
	gp, gx := -1, -1
	if v := cfg.Str("gp", "-"); v != "-" {
		gp = verifh.Atoi(v)
	}
	if v := cfg.Str("gx", "-"); v != "-" {
		gx = verifh.Atoi(v)
	}
	var ms [][]string
	if n > 0 {
		parts := strings.Split(cfg.Str("m", ""), "/")
		if len(parts) != n {
			return "bad-op"
		}
		for _, p := range parts {
			ms = append(ms, c10Script(p))
		}
	}
	rs := c10Script(cfg.Str("r", "-"))

	base := runtime.NumGoroutine()
	ctx, cancelCtx := context.Background(), func() {}
	mode := cfg.Str("ctx", "none")
	if mode != "none" {
		ctx, cancelCtx = context.WithCancel(context.Background())
	}
	if mode == "pre" {
		cancelCtx()
	}
	defer cancelCtx()

	retCh := make(chan struct{})
	var stallTimeouts, panicked int32
	stall := func() {
		select {
		case <-retCh:
		case <-time.After(c10HangMax + 2*time.Second):
			atomic.AddInt32(&stallTimeouts, 1)
		}
	}
	yield := func() {
		for i := 0; i < 3; i++ {
			runtime.Gosched()
		}
	}
	var mu sync.Mutex
	var mapped, reduced []int
	var hist []string
	logf := func(f func()) { mu.Lock(); f(); mu.Unlock() }

	common := func(a string, cancel func(error), write func(int)) bool {
		switch {
		case a == "p":
			return false // handled by the caller (panic value differs)
		case a == "s":
			stall()
		case a == "x":
			cancelCtx()
		case a == "y":
			yield()
		case a[0] == 'w':
			write(verifh.Atoi(a[1:]))
		case a[0] == 'c':
			if k := verifh.Atoi(a[1:]); k == 0 {
				cancel(nil)
			} else {
				cancel(c10Err{k})
			}
		default:
			panic("verif: bad action " + a)
		}
		return true
	}

	gen := func(source chan<- int) {
		for i := 0; i <= n; i++ {
			if i == gx {
				cancelCtx()
			}
			if i == gp {
				atomic.AddInt32(&panicked, 1)
				panic("pg")
			}
			if i < n {
				source <- i
			}
		}
	}
	mapper := func(item int, wr Writer[int], cancel func(error)) {
		logf(func() { mapped = append(mapped, item); hist = append(hist, "s"+strconv.Itoa(item)) })
		defer logf(func() { hist = append(hist, "e"+strconv.Itoa(item)) })
		if item < 0 || item >= len(ms) {
			return
		}
		for _, a := range ms[item] {
			if a == "a" || a == "o" {
				continue
			}
			if !common(a, cancel, wr.Write) {
				atomic.AddInt32(&panicked, 1)
				panic("pm" + strconv.Itoa(item))
			}
		}
	}
	reducer := func(pipe <-chan int, wr Writer[int], cancel func(error)) {
		for _, a := range rs {
			switch a {
			case "a":
				for v := range pipe {
					v := v
					logf(func() { reduced = append(reduced, v) })
				}
			case "o":
				if v, ok := <-pipe; ok {
					logf(func() { reduced = append(reduced, v) })
				}
			default:
				if !common(a, cancel, wr.Write) {
					atomic.AddInt32(&panicked, 1)
					panic("pr")
				}
			}
		}
	}

	resCh := make(chan string, 1)
	go func() {
		defer func() {
			if p := recover(); p != nil {
				resCh <- "panic:" + c10PanicName(p)
			}
		}()
		opts := []Option{WithWorkers(w)}
		if mode != "none" {
			opts = append(opts, WithContext(ctx))
		}
		switch api {
		case "mr":
			v, err := MapReduce[int, int, int](gen, mapper, reducer, opts...)
			if err != nil {
				resCh <- "err:" + c10ErrName(err)
			} else {
				resCh <- "val:" + strconv.Itoa(v)
			}
		case "void":
			err := MapReduceVoid[int, int](gen, mapper, func(pipe <-chan int, cancel func(error)) {
				reducer(pipe, c10NoWriter{}, cancel)
			}, opts...)
			if err != nil {
				resCh <- "err:" + c10ErrName(err)
			} else {
				resCh <- "ok"
			}
		case "each":
			ForEach[int](gen, func(item int) {
				mapper(item, c10NoWriter{}, func(error) {})
			}, opts...)
			resCh <- "ok"
		default:
			resCh <- "bad-api"
		}
	}()
	var res string
	select {
	case res = <-resCh:
	case <-time.After(c10HangMax):
		res = "hang"
	}
	close(retCh)
	left := 0
	if !verifh.SettleGoroutines(base, c10SettleMax) {
		left = runtime.NumGoroutine() - base
	}
	mu.Lock()
	defer mu.Unlock()
	sort.Ints(mapped)
	sort.Ints(reduced)
	return fmt.Sprintf("res=%s left=%d mapped=%s reduced=%s hist=%s stalltimeouts=%d panicked=%d", res, left,
		c10Ints(mapped), c10Ints(reduced), c10Join(hist), atomic.LoadInt32(&stallTimeouts), atomic.LoadInt32(&panicked))
}

type c10NoWriter struct{}

func (c10NoWriter) Write(int) {}

func c10Ints(xs []int) string {
	if len(xs) == 0 {
		return "-"
	}
	ss := make([]string, len(xs))
	for i, x := range xs {
		ss[i] = strconv.Itoa(x)
	}
	return strings.Join(ss, ",")
}

func c10Join(xs []string) string {
	if len(xs) == 0 {
		return "-"
	}
	return strings.Join(xs, ",")
}

// ---------------------------------------------------------------- generation

type c10Cfg struct {
	api    string
	n, w   int
	ctx    string
	gp, gx int
	m      [][]string
	r      []string
}

func (c c10Cfg) String() string {
	opt := func(k int) string {
		if k < 0 {
			return "-"
		}
		return strconv.Itoa(k)
	}
	sc := func(s []string) string {
		if len(s) == 0 {
			return "-"
		}
		return strings.Join(s, ".")
	}
	var ms []string
	for _, s := range c.m {
		ms = append(ms, sc(s))
	}
	m := strings.Join(ms, "/")
	if c.n == 0 {
		m = "-"
	}
	return fmt.Sprintf("run api=%s n=%d w=%d ctx=%s gp=%s gx=%s m=%s r=%s", c.api, c.n, c.w, c.ctx, opt(c.gp), opt(c.gx), m, sc(c.r))
}

func c10Plain(r *verifh.Rng, n, w int) c10Cfg {
	c := c10Cfg{api: "mr", n: n, w: w, ctx: "none", gp: -1, gx: -1}
	for i := 0; i < n; i++ {
		var s []string
		for j := r.Pick(0, 1, 1, 1, 2, 3, w+2); j > 0; j-- {
			s = append(s, "w"+strconv.Itoa(r.Range(1, 9)))
			if r.Chance(1, 6) {
				s = append(s, "y")
			}
		}
		c.m = append(c.m, s)
	}
	switch r.Intn(8) {
	case 0:
		c.r = []string{"a"} // no output
	case 1:
		c.r = []string{"o", "a", "w" + strconv.Itoa(r.Range(1, 99))}
	case 2:
		c.r = []string{"w" + strconv.Itoa(r.Range(1, 99)), "a"}
	default:
		c.r = []string{"a", "w" + strconv.Itoa(r.Range(1, 99))}
	}
	return c
}

func c10Clone(c c10Cfg) c10Cfg {
	d := c
	d.m = make([][]string, len(c.m))
	for i := range c.m {
		d.m[i] = append([]string(nil), c.m[i]...)
	}
	d.r = append([]string(nil), c.r...)
	return d
}

func c10Insert(s []string, pos int, a ...string) []string {
	if pos > len(s) {
		pos = len(s)
	}
	out := append([]string(nil), s[:pos]...)
	out = append(out, a...)
	return append(out, s[pos:]...)
}

// c10Faults enumerates single faults at every position of a plain configuration, and the
// two-fault combinations named in the property (one invocation cancels / the context ends while
// another stalls until the call has returned and then panics, writes or cancels).
func c10Faults(r *verifh.Rng, base c10Cfg) []c10Cfg {
	var out []c10Cfg
	n, w := base.n, base.w
	add := func(c c10Cfg) { out = append(out, c) }
	// generator panics / cancels the context at every position
	for k := 0; k <= n; k++ {
		c := c10Clone(base)
		c.gp = k
		add(c)
		c = c10Clone(base)
		c.ctx, c.gx = "can", k
		add(c)
	}
	// context already over
	c := c10Clone(base)
	c.ctx = "pre"
	add(c)
	// mapper i: cancel / cancel(nil) / panic / ctx-cancel at the start, in the middle, at the end
	for i := 0; i < n; i++ {
		for _, f := range []string{"c" + strconv.Itoa(i+1), "c0", "p", "x"} {
			for _, pos := range []int{0, len(base.m[i])} {
				c := c10Clone(base)
				c.m[i] = c10Insert(c.m[i], pos, f)
				if f == "x" {
					c.ctx = "can"
				}
				add(c)
			}
		}
	}
	// reducer faults at every position of its script
	for pos := 0; pos <= len(base.r); pos++ {
		for _, f := range []string{"c77", "c0", "p", "x"} {
			c := c10Clone(base)
			c.r = c10Insert(c.r, pos, f)
			if f == "x" {
				c.ctx = "can"
			}
			add(c)
		}
	}
	// a trigger that makes the call return while other invocations are still running:
	// the trigger must not depend on the stalled invocations (see c10SafeStall)
	late := []string{"p", "w5", "c9", "c0", "y"}
	for t := 0; t < n && t < w; t++ {
		for _, trig := range []string{"c" + strconv.Itoa(t+1), "x"} {
			for j := 0; j < n; j++ {
				if j == t {
					continue
				}
				c := c10Clone(base)
				c.m[t] = c10Insert(c.m[t], 0, trig)
				if trig == "x" {
					c.ctx = "can"
				}
				c.m[j] = c10Insert(c.m[j], r.Intn(len(c.m[j])+1), "s", late[r.Intn(len(late))])
				if c10SafeStall(c) {
					add(c)
				}
			}
			// the reducer outlives the call
			c := c10Clone(base)
			c.m[t] = c10Insert(c.m[t], 0, trig)
			if trig == "x" {
				c.ctx = "can"
			}
			c.r = c10Insert(c.r, r.Intn(len(c.r)+1), "s", late[r.Intn(len(late))])
			if c10SafeStall(c) {
				add(c)
			}
		}
	}
	// reducer cancels first / context over, mappers outlive the call
	for j := 0; j < n; j++ {
		c := c10Clone(base)
		c.r = c10Insert(c.r, 0, "c77")
		c.m[j] = c10Insert(c.m[j], r.Intn(len(c.m[j])+1), "s", late[r.Intn(len(late))])
		if c10SafeStall(c) {
			add(c)
		}
		c = c10Clone(base)
		c.ctx = "pre"
		c.m[j] = c10Insert(c.m[j], r.Intn(len(c.m[j])+1), "s", late[r.Intn(len(late))])
		if c10SafeStall(c) {
			add(c)
		}
	}
	// reducer writes, then faults
	for _, f := range []string{"p", "c77", "w3"} {
		c := c10Clone(base)
		c.r = []string{"a", "w8", f}
		add(c)
		c = c10Clone(base)
		c.r = []string{"w8", f, "a"}
		add(c)
	}
	return out
}

// c10SafeStall says whether every `s` (stall until the call has returned) of the configuration is
// certain to be released, i.e. whether the call returns without the stalled invocations:
// there must be a trigger that is certain to run and that ends the call on its own — the context is
// over from the start, or `c…`/`x` is the first action of the reducer, or the first action of the
// mapper of an item t < workers (it gets a pool slot whatever the earlier items do).  A re-raised
// panic is no trigger (the call waits for every mapper before re-raising).  The generator never stalls.
// (A stalled invocation that the call has to wait for is a hang by construction of the test, not of the code.)
func c10SafeStall(c c10Cfg) bool {
	has := false
	for _, s := range c.m {
		for _, a := range s {
			if a == "s" {
				has = true
			}
		}
	}
	for _, a := range c.r {
		if a == "s" {
			has = true
		}
	}
	if !has {
		return true
	}
	if c.gp >= 0 {
		return false // a generator panic is re-raised only after every mapper returned
	}
	// a panic before the call returned stops the dispatcher (the trigger might never be started) and is
	// re-raised only after every mapper returned: with a stall present, `p` is allowed only after an `s`
	latePanicOnly := func(s []string) bool {
		seen := false
		for _, a := range s {
			if a == "s" {
				seen = true
			}
			if a == "p" && !seen {
				return false
			}
		}
		return true
	}
	for _, s := range c.m {
		if !latePanicOnly(s) {
			return false
		}
	}
	if !latePanicOnly(c.r) {
		return false
	}
	// a cancel trigger closes the output, so the call returns even if it already took the reducer's value;
	// a context trigger is only seen while the call still waits in its select: then the reducer must not
	// write before the call returned
	first := func(s []string, b byte) bool { return len(s) > 0 && s[0][0] == b }
	cancelTrig, ctxTrig := first(c.r, 'c'), c.ctx == "pre" || first(c.r, 'x')
	for t := 0; t < c.n && t < c.w; t++ {
		cancelTrig = cancelTrig || first(c.m[t], 'c')
		ctxTrig = ctxTrig || first(c.m[t], 'x')
	}
	if cancelTrig {
		return true
	}
	if !ctxTrig {
		return false
	}
	for _, a := range c.r {
		if a == "s" {
			break
		}
		if a[0] == 'w' {
			return false
		}
	}
	return true
}

func c10Random(r *verifh.Rng) c10Cfg {
	w := r.Pick(1, 1, 2, 2, 3, 4, r.Range(5, 8))
	n := r.Pick(0, 1, w-1, w, w+1, w+2, r.Range(0, 3*w+2))
	if n < 0 {
		n = 0
	}
	c := c10Plain(r, n, w)
	c.api = r.PickS("mr", "mr", "mr", "void")
	nf := r.Pick(0, 1, 1, 2, 2, 3)
	acts := []string{"p", "c0", "c5", "c6", "x", "y", "s", "w4"}
	for f := 0; f < nf; f++ {
		a := acts[r.Intn(len(acts))]
		d := c10Clone(c)
		switch t := r.Intn(n + 3); {
		case t < n:
			d.m[t] = c10Insert(d.m[t], r.Intn(len(d.m[t])+1), a)
		case t == n:
			d.r = c10Insert(d.r, r.Intn(len(d.r)+1), a)
		case t == n+1 && a == "p":
			d.gp = r.Intn(n + 1)
		case t == n+1 && a == "x":
			d.gx = r.Intn(n + 1)
		case t == n+2:
			d.ctx = r.PickS("pre", "can")
		}
		if a == "x" {
			d.ctx = "can"
		}
		if d.gx >= 0 && d.ctx == "none" {
			d.ctx = "can"
		}
		if c10SafeStall(d) && c10ReducerWrites(d) <= 2 {
			c = d
		}
	}
	return c
}

// c10ReducerWrites counts the reducer's writes.  A reducer must write at most once; the second write is
// answered by the library's panic in the caller, a third one blocks forever because nobody reads the
// output any more (outside the property: "the reducer's single output").
func c10ReducerWrites(c c10Cfg) int {
	k := 0
	for _, a := range c.r {
		if a[0] == 'w' {
			k++
		}
	}
	return k
}

func c10Gen(r *verifh.Rng) []verifh.Section {
	var lines []string
	maxW := verifh.Scale(3, 4)
	for w := 1; w <= maxW; w++ {
		for n := 0; n <= w+2; n++ {
			base := c10Plain(r, n, w)
			lines = append(lines, base.String())
			fs := c10Faults(r, base)
			keep := verifh.Scale(14, len(fs))
			// quick tier: a seeded sample of the enumeration; thorough: all of it
			r2 := r.Fork()
			for len(fs) > keep {
				i := r2.Intn(len(fs))
				fs = append(fs[:i], fs[i+1:]...)
			}
			for _, c := range fs {
				if r.Chance(1, 5) {
					c.api = "void"
				}
				lines = append(lines, c.String())
			}
		}
	}
	for i := verifh.Scale(500, 40000); i > 0; i-- {
		lines = append(lines, c10Random(r).String())
	}
	// ForEach: plain and with a panicking item
	for i := verifh.Scale(10, 200); i > 0; i-- {
		w := r.Range(1, 4)
		n := r.Range(0, w+2)
		c := c10Cfg{api: "each", n: n, w: w, ctx: "none", gp: -1, gx: -1}
		for j := 0; j < n; j++ {
			c.m = append(c.m, []string{"y"})
		}
		if n > 0 && r.Bool() {
			c.m[r.Intn(n)] = []string{"p"}
		} else if r.Chance(1, 4) {
			c.gp = r.Intn(n + 1)
		}
		lines = append(lines, c.String())
	}
	var secs []verifh.Section
	const per = 40
	for i := 0; i < len(lines); i += per {
		j := i + per
		if j > len(lines) {
			j = len(lines)
		}
		secs = append(secs, verifh.Section{Cfg: fmt.Sprintf("batch=%d", i/per), Ops: lines[i:j]})
	}
	return secs
}

func TestVerifC10(t *testing.T) {
	secs := verifh.Sections(c10Gen)
	verifh.Run(t, secs, func(cfg verifh.Cfg) (func(op []string) string, func()) {
		return c10Exec, nil
	})
}
