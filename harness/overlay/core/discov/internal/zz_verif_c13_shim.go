//go:build verif

package internal

// C13 harness support: cluster.reload is only reachable through a gRPC connectivity-state change of the
// etcd client; the harness calls it directly (what watchConnState's listener does: `go c.reload(cli)`).

// VerifReload runs cluster.reload for the cluster of the endpoints with its current client.
func VerifReload(endpoints []string) {
	c, ok := GetRegistry().getCluster(endpoints)
	if !ok {
		panic("verif: no cluster")
	}
	cli, err := c.getClient()
	if err != nil {
		panic(err)
	}
	c.reload(cli)
}
