//go:build verif

package discov

// C13 concurrent harness (built with -race): listener events arrive on two goroutines (the watch goroutine and,
// e.g., Registry.Monitor's replay on a caller's goroutine call container.OnAdd / OnDelete) while other goroutines
// read Values(); a registered listener reads Values() in its callback like the gRPC resolver does.
//
//   par <readers> <a-events> <b-events>      events: `p:k:v,d:k,…` or `-`; writer A uses keys/values < 100, B >= 100
//   => wa=<s:e,…> wb=<s:e,…> reads=<s:e:v.v.v|…> values=<final Values()> races=<race detector reports during the op>
//
// s / e are stamps of one atomic counter taken before the call and after its return: the trace is a totally
// ordered history; the monitor checks every read against the linearizability bound of `reader_linearizable`.

import (
	"fmt"
	"runtime"
	"strings"
	"sync"
	"sync/atomic"
	"testing"

	"github.com/zeromicro/go-zero/core/discov/internal"
	"github.com/zeromicro/go-zero/core/logx"
	"github.com/zeromicro/go-zero/internal/verifh"
)

func c13ConcGen(r *verifh.Rng) []verifh.Section {
	var secs []verifh.Section
	nsec := verifh.Scale(40, 400)
	for i := 0; i < nsec; i++ {
		nk, nv := r.Range(1, 4), r.Range(1, 3)
		evs := func(base int) string {
			n := r.Intn(5)
			if n == 0 {
				return "-"
			}
			var out []string
			for j := 0; j < n; j++ {
				if r.Chance(2, 3) {
					out = append(out, fmt.Sprintf("p:%d:%d", base+r.Intn(nk), base+r.Intn(nv)))
				} else {
					out = append(out, fmt.Sprintf("d:%d", base+r.Intn(nk)))
				}
			}
			return strings.Join(out, ",")
		}
		var ops []string
		nops := r.Range(2, verifh.Scale(6, 10))
		for j := 0; j < nops; j++ {
			ops = append(ops, fmt.Sprintf("par %d %s %s", r.Range(1, 4), evs(0), evs(100)))
		}
		secs = append(secs, verifh.Section{Cfg: fmt.Sprintf("h=conc excl=%d", b2i(r.Chance(1, 3))), Ops: ops})
	}
	return secs
}

// c13SafeValues: Values(); ok=false if it panicked (e.g. a snapshot that was never stored is loaded).
func c13SafeValues(sub *Subscriber) (vals []string, ok bool) {
	defer func() {
		if recover() != nil {
			vals, ok = nil, false
		}
	}()
	return sub.Values(), true
}

func TestVerifC13Conc(t *testing.T) {
	logx.Disable()
	secs := verifh.Sections(c13ConcGen)
	verifh.Run(t, secs, func(cfg verifh.Cfg) (func(op []string) string, func()) {
		c := newContainer(cfg.Int("excl", 0) == 1)
		sub := &Subscriber{items: c}
		var listenerReads atomic.Int64
		sub.AddListener(func() {
			vals, _ := c13SafeValues(sub)
			listenerReads.Add(int64(len(vals)))
		})
		var clock atomic.Int64
		step := func(op []string) string {
			if op[0] != "par" || len(op) != 4 {
				return "bad-op"
			}
			races0 := VerifRaceErrors()
			readers := verifh.Atoi(op[1])
			var wg sync.WaitGroup
			writer := func(toks string, out *[]string) {
				defer wg.Done()
				if toks == "-" {
					return
				}
				for _, tok := range strings.Split(toks, ",") {
					parts := strings.Split(tok, ":")
					s := clock.Add(1)
					if parts[0] == "p" {
						c.OnAdd(internal.KV{Key: VerifKeyName("conc", verifh.Atoi(parts[1])), Val: VerifValName(verifh.Atoi(parts[2]))})
					} else {
						c.OnDelete(internal.KV{Key: VerifKeyName("conc", verifh.Atoi(parts[1]))})
					}
					e := clock.Add(1)
					*out = append(*out, fmt.Sprintf("%d:%d", s, e))
					runtime.Gosched()
				}
			}
			var wa, wb []string
			var panics atomic.Int64
			reads := make([][]string, readers)
			wg.Add(2 + readers)
			start := make(chan struct{})
			var arrived atomic.Int64
			total := int64(2 + readers)
			barrier := func() {
				<-start
				arrived.Add(1)
				for arrived.Load() < total {
					runtime.Gosched()
				}
			}
			go func() { barrier(); writer(op[2], &wa) }()
			go func() { barrier(); writer(op[3], &wb) }()
			for i := 0; i < readers; i++ {
				i := i
				go func() {
					defer wg.Done()
					barrier()
					for n := 0; n < 4; n++ {
						s := clock.Add(1)
						vals, ok := c13SafeValues(sub)
						if !ok {
							panics.Add(1)
						}
						ids := strings.ReplaceAll(VerifValIDs(vals), ",", ".")
						if len(vals) != len(strings.Split(ids, ".")) && len(vals) > 0 {
							ids += ".dup"
						}
						e := clock.Add(1)
						reads[i] = append(reads[i], fmt.Sprintf("%d:%d:%s", s, e, ids))
						runtime.Gosched()
					}
				}()
			}
			close(start)
			wg.Wait()
			var all []string
			for _, rs := range reads {
				all = append(all, rs...)
			}
			final, ok := c13SafeValues(sub)
			if !ok {
				panics.Add(1)
			}
			return fmt.Sprintf("wa=%s wb=%s reads=%s values=%s races=%d panics=%d", strings.Join(wa, ","), strings.Join(wb, ","),
				strings.Join(all, "|"), VerifValIDs(final), VerifRaceErrors()-races0, panics.Load())
		}
		return step, nil
	})
}
