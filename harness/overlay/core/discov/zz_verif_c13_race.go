//go:build verif && race

package discov

import "runtime"

// VerifRaceErrors is the number of data races the race detector has reported so far.
func VerifRaceErrors() int { return runtime.RaceErrors() }

const VerifRaceBuild = true
