//go:build verif

package discov

// C13 correspondence harness (subscriber): a real Subscriber (container) is attached through the real
// registry (Registry.Monitor -> cluster.monitor -> load/handleChanges -> watch/watchStream/handleWatchEvents)
// to a fake etcd client; one registry event per trace line.
//
// Observation per line:
//   log=<listener events in the order the cluster delivered them: +k:v / -k>
//   vals=<container.values: v:[k.k];…>  map=<container.mapping: k:v,…>   (white box, canonical order)
//   values=<Subscriber.Values() as sorted ids>  notified=<listener callbacks during the op>
//   last=<Values() seen by the listener at its last callback, or `none`>

import (
	"fmt"
	"strconv"
	"testing"

	"github.com/zeromicro/go-zero/core/logx"
	"github.com/zeromicro/go-zero/internal/verifh"
)

func TestVerifC13(t *testing.T) {
	logx.Disable()
	secs := verifh.Sections(func(r *verifh.Rng) []verifh.Section { return VerifC13Gen(r, 120, 2500, 0) })
	verifh.Run(t, secs, func(cfg verifh.Cfg) (func(op []string) string, func()) {
		ses := VerifNewSession()
		var opts []SubOption
		if cfg.Int("excl", 0) == 1 {
			opts = append(opts, Exclusive())
		}
		sub, err := NewSubscriber(ses.Endpoints, ses.Key, opts...)
		if err != nil {
			panic(err)
		}
		// two listeners: every listener must be called
		var n1, n2 int
		last := "none"
		sub.AddListener(func() {
			n1++
			last = VerifValIDs(sub.Values())
		})
		sub.AddListener(func() { n2++ })
		ses.Attach()
		observe := func() string {
			vals, mp := VerifDumpContainer(sub)
			noted := strconv.Itoa(n1)
			if n1 != n2 {
				noted = fmt.Sprintf("%d/%d", n1, n2)
			}
			out := fmt.Sprintf("log=%s vals=%s map=%s values=%s notified=%s last=%s",
				ses.Rec.Take(), vals, mp, VerifValIDs(sub.Values()), noted, last) + ses.LateObs()
			n1, n2, last = 0, 0, "none"
			return out
		}
		step := func(op []string) string {
			if !ses.Exec(op) {
				return "bad-op"
			}
			return observe()
		}
		return step, func() {
			ses.Close()
			if !ses.Dead {
				sub.Close()
			}
		}
	})
}
