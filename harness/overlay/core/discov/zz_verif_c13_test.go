//go:build verif

package discov

// C13 correspondence harness (subscriber): a real Subscriber (container) is attached through the real
// registry (Registry.Monitor -> cluster.monitor -> load/handleChanges -> watch/watchStream/handleWatchEvents)
// to a fake etcd client; one registry event per trace line.
//
// Observation per line:
//   log=<listener events in the order the cluster delivered them: +k:v / -k>
//   vals=<container.values: v:[k.k];…>  map=<container.mapping: k:v,…>   (white box, canonical order)
//   values=<Subscriber.Values() as sorted ids>  notified=<listener callbacks during the op>
//   last=<Values() seen by the listener at its last callback, or `none`>

import (
	"fmt"
	"sort"
	"strconv"
	"strings"
	"sync"
	"testing"
	"time"

	"github.com/zeromicro/go-zero/core/discov/internal"
	"github.com/zeromicro/go-zero/core/logx"
	"github.com/zeromicro/go-zero/internal/verifh"
	clientv3 "go.etcd.io/etcd/client/v3"
)

func TestVerifC13(t *testing.T) {
	logx.Disable()
	secs := verifh.Sections(func(r *verifh.Rng) []verifh.Section {
		return append(append(VerifC13Gen(r, 120, 2000, 0), c13MultiGen(r)...), c13LsnGen(r)...)
	})
	verifh.Run(t, secs, func(cfg verifh.Cfg) (func(op []string) string, func()) {
		if cfg.Str("h", "") == "multi" {
			return c13MultiStart(cfg)
		}
		if cfg.Str("h", "") == "lsn" {
			return c13LsnStart(cfg)
		}
		ses := VerifNewSession()
		var opts []SubOption
		if cfg.Int("excl", 0) == 1 {
			opts = append(opts, Exclusive())
		}
		sub, err := NewSubscriber(ses.Endpoints, ses.Key, opts...)
		if err != nil {
			panic(err)
		}
		// two listeners: every listener must be called
		var n1, n2 int
		last := "none"
		sub.AddListener(func() {
			n1++
			last = VerifValIDs(sub.Values())
		})
		sub.AddListener(func() { n2++ })
		ses.Attach()
		observe := func() string {
			vals, mp := VerifDumpContainer(sub)
			noted := strconv.Itoa(n1)
			if n1 != n2 {
				noted = fmt.Sprintf("%d/%d", n1, n2)
			}
			out := fmt.Sprintf("log=%s vals=%s map=%s values=%s notified=%s last=%s",
				ses.Rec.Take(), vals, mp, VerifValIDs(sub.Values()), noted, last) + ses.LateObs()
			n1, n2, last = 0, 0, "none"
			return out
		}
		step := func(op []string) string {
			if !ses.Exec(op) {
				return "bad-op"
			}
			return observe()
		}
		return step, func() {
			ses.Close()
			if !ses.Dead {
				sub.Close()
			}
		}
	})
}

// ---------------------------------------------------------------------------------------------
// Sections `h=multi n=<2..3> excl=<bits> exact=<0/1>`: ONE process watches several service keys on ONE etcd cluster
// (one cluster object, one watcher + watch goroutine per key), optionally also one exact key (WithExactMatch) that
// lies under service 0's prefix.  Registry events are routed like etcd routes them: to every watch that covers the key.
//
//   put <s> <k> <v> | del <s> <k> | batch <s> p:<k>:<v> d:<k> …     a watch response for service <s>
//   reloadc <s> <k>:<v> …                                            compaction on the watch of service <s>
//   connreload <k>:<v> … / <k>:<v> … / …                             the connection state changes: cluster.reload
//                                                                    (one snapshot per service, in service order)
//   close <s>                                                        Subscriber.Close (Registry.Unmonitor): the last
//                                                                    listener of the key leaves, the watch is cancelled
//   reopen <s> <k>:<v> …                                             a new subscriber on the key of a closed one
// Observation: per open service `<s>.log= <s>.vals= <s>.map= <s>.values= <s>.notified= <s>.last=`, `x.values=` for the
// exact-match subscriber, `rewatched=<s,…>` after a connreload (the watches that were established again),
// `lost=1` when an event could not be delivered because nothing watches the key any more.

type c13Svc struct {
	key, prefix string
	sub         *Subscriber
	rec         *VerifRecorder
	n1, n2      int
	last        string
	open        bool
	watched     bool
}

func c13MultiGen(r *verifh.Rng) []verifh.Section {
	var secs []verifh.Section
	nsec := verifh.Scale(24, 300)
	for i := 0; i < nsec; i++ {
		n := r.Range(2, 3)
		nk, nv := r.Range(2, 4), r.Range(2, 4)
		exact := r.Chance(1, 3)
		bits := ""
		for s := 0; s < n; s++ {
			bits += strconv.Itoa(b2i(r.Chance(1, 4)))
		}
		cur := make([]map[int]int, n)
		open := make([]bool, n)
		for s := range cur {
			cur[s] = map[int]int{}
			open[s] = true
		}
		snap := func(s int) []string {
			if r.Chance(1, 6) {
				return nil
			}
			m := map[int]int{}
			for k, v := range cur[s] {
				m[k] = v
			}
			keys := make([]int, 0, len(m))
			for k := range m {
				keys = append(keys, k)
			}
			sort.Ints(keys)
			for _, k := range keys {
				switch x := r.Intn(10); {
				case x < 5:
				case x < 8:
					m[k] = r.Intn(nv)
				default:
					delete(m, k)
				}
			}
			for j := r.Intn(3); j > 0; j-- {
				m[r.Intn(nk)] = r.Intn(nv)
			}
			keys = keys[:0]
			for k := range m {
				keys = append(keys, k)
			}
			sort.Ints(keys)
			var out []string
			for _, k := range keys {
				out = append(out, fmt.Sprintf("%d:%d", k, m[k]))
			}
			return out
		}
		setSnap := func(s int, toks []string) {
			cur[s] = map[int]int{}
			applySnap(cur[s], toks)
		}
		pickOpen := func() int {
			var ids []int
			for s, o := range open {
				if o {
					ids = append(ids, s)
				}
			}
			if len(ids) == 0 {
				return -1
			}
			return ids[r.Intn(len(ids))]
		}
		var ops []string
		nops := r.Range(4, verifh.Scale(12, 24))
		for j := 0; j < nops; j++ {
			s := pickOpen()
			x := r.Intn(100)
			switch {
			case s >= 0 && x < 35:
				k, v := r.Intn(nk), r.Intn(nv)
				cur[s][k] = v
				ops = append(ops, fmt.Sprintf("put %d %d %d", s, k, v))
			case s >= 0 && x < 50:
				k := r.Intn(nk)
				delete(cur[s], k)
				ops = append(ops, fmt.Sprintf("del %d %d", s, k))
			case s >= 0 && x < 58:
				toks := []string{"batch", strconv.Itoa(s)}
				for b := r.Range(2, 3); b > 0; b-- {
					k := r.Intn(nk)
					if r.Chance(2, 3) {
						v := r.Intn(nv)
						cur[s][k] = v
						toks = append(toks, fmt.Sprintf("p:%d:%d", k, v))
					} else {
						delete(cur[s], k)
						toks = append(toks, fmt.Sprintf("d:%d", k))
					}
				}
				ops = append(ops, strings.Join(toks, " "))
			case s >= 0 && x < 66:
				sn := snap(s)
				setSnap(s, sn)
				ops = append(ops, strings.TrimSpace(fmt.Sprintf("reloadc %d %s", s, strings.Join(sn, " "))))
			case x < 86:
				// reconnect: every service has a snapshot (closed ones: ignored by the code, nothing watches them)
				var parts []string
				for t := 0; t < n; t++ {
					sn := snap(t)
					if open[t] {
						setSnap(t, sn)
					}
					parts = append(parts, strings.Join(sn, " "))
				}
				ops = append(ops, strings.Join(strings.Fields("connreload "+strings.Join(parts, " / ")), " "))
			case s >= 1 && x < 93:
				open[s] = false
				cur[s] = map[int]int{}
				ops = append(ops, fmt.Sprintf("close %d", s))
			default:
				t := -1
				for u, o := range open {
					if !o {
						t = u
					}
				}
				if t >= 0 {
					sn := snap(t)
					setSnap(t, sn)
					open[t] = true
					ops = append(ops, strings.TrimSpace(fmt.Sprintf("reopen %d %s", t, strings.Join(sn, " "))))
				}
			}
		}
		secs = append(secs, verifh.Section{Cfg: fmt.Sprintf("h=multi n=%d excl=%s exact=%d", n, bits, b2i(exact)), Ops: ops})
	}
	return secs
}

var c13MultiSeq int

func c13MultiStart(cfg verifh.Cfg) (func(op []string) string, func()) {
	e := VerifInstallEtcd()
	e.DropWatches()
	c13MultiSeq++
	endpoints := []string{fmt.Sprintf("etcd-verif-multi-%d:2379", c13MultiSeq)}
	n := cfg.Int("n", 2)
	bits := cfg.Str("excl", "")
	svcs := make([]*c13Svc, n)
	drain := func() {
		for {
			select {
			case <-e.ready:
			default:
				return
			}
		}
	}
	openSvc := func(i int) {
		sv := svcs[i]
		var opts []SubOption
		if i < len(bits) && bits[i] == '1' {
			opts = append(opts, Exclusive())
		}
		drain()
		sub, err := NewSubscriber(endpoints, sv.key, opts...)
		if err != nil {
			panic(err)
		}
		sv.sub, sv.rec, sv.open, sv.watched, sv.last = sub, &VerifRecorder{}, true, true, "none"
		sub.AddListener(func() {
			sv.n1++
			sv.last = VerifValIDs(sub.Values())
		})
		sub.AddListener(func() { sv.n2++ })
		sv.prefix = e.AwaitWatchOf(sv.key + "/")
		if err := internal.GetRegistry().Monitor(endpoints, sv.key, false, sv.rec); err != nil {
			panic(err)
		}
		sv.rec.Take()
	}
	for i := range svcs {
		svcs[i] = &c13Svc{key: fmt.Sprintf("verif.multi.%d.s%d", c13MultiSeq, i)}
		e.SetSnapshot(svcs[i].key+"/", nil)
		openSvc(i)
		svcs[i].n1, svcs[i].n2, svcs[i].last = 0, 0, "none"
	}
	// the exact-match subscriber: key 0 of service 0
	var xsub *Subscriber
	xkey := VerifKeyName(svcs[0].key, 0)
	xwatched := false
	xw := xkey
	// does x's watch cover its key (etcd delivers an event only to the watches that cover the key)?
	xcovers := func() bool {
		e.mu.Lock()
		defer e.mu.Unlock()
		return verifCovers(xw, e.prefixed[xw], xkey)
	}
	if cfg.Int("exact", 0) == 1 {
		drain()
		var err error
		if xsub, err = NewSubscriber(endpoints, xkey, WithExactMatch()); err != nil {
			panic(err)
		}
		// the watch key is what the code under test built for WithExactMatch (the key itself, no prefix)
		xw = e.AwaitWatchOf(xkey)
		xwatched = true
	}
	// what etcd does with an event: every watch that covers the key gets it
	route := func(sv *c13Svc, evs []*clientv3.Event) (lost bool) {
		if !sv.watched {
			lost = true
		} else if !e.TryDeliver(sv.prefix, clientv3.WatchResponse{Events: evs}) {
			// the watch loop of the key does not take events any more
			sv.watched, lost = false, true
		}
		if xsub != nil && sv == svcs[0] {
			var mine []*clientv3.Event
			for _, ev := range evs {
				if string(ev.Kv.Key) == xkey {
					mine = append(mine, ev)
				}
			}
			if len(mine) > 0 {
				if !xwatched {
					lost = true
				} else if xcovers() && !e.TryDeliver(xw, clientv3.WatchResponse{Events: mine}) {
					xwatched, lost = false, true
				}
			}
		}
		return lost
	}
	setSnap := func(sv *c13Svc, toks []string) {
		kvs := VerifParseKVs(sv.key, toks)
		e.SetSnapshot(sv.key+"/", kvs)
		if sv == svcs[0] {
			var mine []internal.KV
			for _, kv := range kvs {
				if kv.Key == xkey {
					mine = append(mine, kv)
				}
			}
			e.SetSnapshot(xkey, mine)
		}
	}
	wait := verifPatience
	step := func(op []string) string {
		extra := ""
		if wait > verifPatience {
			wait = verifPatience
		}
		svc := func(tok string) *c13Svc {
			i := verifh.Atoi(tok)
			if i < 0 || i >= n {
				panic("verif: no such service " + tok)
			}
			return svcs[i]
		}
		switch op[0] {
		case "put", "del", "batch":
			sv := svc(op[1])
			if !sv.open {
				return "bad-op"
			}
			var evs []*clientv3.Event
			switch op[0] {
			case "put":
				evs = append(evs, verifEvent(sv.key, "p:"+op[2]+":"+op[3]))
			case "del":
				evs = append(evs, verifEvent(sv.key, "d:"+op[2]))
			default:
				for _, t := range op[2:] {
					evs = append(evs, verifEvent(sv.key, t))
				}
			}
			if route(sv, evs) {
				extra = " lost=1"
			}
		case "reloadc":
			sv := svc(op[1])
			if !sv.open {
				return "bad-op"
			}
			setSnap(sv, op[2:])
			if !sv.watched {
				extra = " lost=1"
				break
			}
			drain()
			if !(e.TryPush(sv.prefix, clientv3.WatchResponse{CompactRevision: 1, Canceled: true}) && e.TryAwaitWatch(sv.prefix) &&
				e.TryPush(sv.prefix, clientv3.WatchResponse{})) {
				sv.watched, extra = false, " lost=1"
			}
			if xsub != nil && sv == svcs[0] && xwatched {
				// the exact key lies under this prefix: its watch has lost the same events
				if !(e.TryPush(xw, clientv3.WatchResponse{CompactRevision: 1, Canceled: true}) && e.TryAwaitWatch(xw) &&
					e.TryPush(xw, clientv3.WatchResponse{})) {
					xwatched, extra = false, " lost=1"
				}
			}
		case "connreload":
			parts := [][]string{nil}
			for _, t := range op[1:] {
				if t == "/" {
					parts = append(parts, nil)
				} else {
					parts[len(parts)-1] = append(parts[len(parts)-1], t)
				}
			}
			if len(parts) != n {
				return "bad-op"
			}
			want := 0
			for i, sv := range svcs {
				if sv.open {
					setSnap(sv, parts[i])
					want++
				}
			}
			if xsub != nil {
				want++
			}
			drain()
			done := make(chan struct{})
			go func() {
				internal.VerifReload(endpoints)
				close(done)
			}()
			select {
			case <-done:
			case <-time.After(wait):
				wait = 200 * time.Millisecond
				return "dead=1"
			}
			// every watch goroutine that cluster.reload started loads its key and then calls Watch: one token each
			seen := map[string]bool{}
			for got := 0; got < want; got++ {
				select {
				case k := <-e.ready:
					seen[k] = true
				case <-time.After(wait):
					wait = 200 * time.Millisecond
					got = want
				}
			}
			var ids []string
			for i, sv := range svcs {
				if sv.open {
					sv.watched = seen[sv.prefix] && e.TryPush(sv.prefix, clientv3.WatchResponse{})
					if sv.watched {
						ids = append(ids, strconv.Itoa(i))
					}
				}
			}
			if xsub != nil {
				if xwatched = seen[xw] && e.TryPush(xw, clientv3.WatchResponse{}); xwatched {
					ids = append(ids, "x")
				}
			}
			extra = " rewatched=" + strings.Join(ids, ",")
		case "close":
			sv := svc(op[1])
			if !sv.open {
				return "bad-op"
			}
			sv.sub.Close()
			internal.GetRegistry().Unmonitor(endpoints, sv.key, false, sv.rec)
			sv.open, sv.watched = false, false
		case "reopen":
			i := verifh.Atoi(op[1])
			sv := svc(op[1])
			if sv.open {
				return "bad-op"
			}
			setSnap(sv, op[2:])
			openSvc(i)
		default:
			return "bad-op"
		}
		var out []string
		for i, sv := range svcs {
			if !sv.open {
				continue
			}
			vals, mp := VerifDumpContainer(sv.sub)
			noted := strconv.Itoa(sv.n1)
			if sv.n1 != sv.n2 {
				noted = fmt.Sprintf("%d/%d", sv.n1, sv.n2)
			}
			out = append(out, fmt.Sprintf("%d.log=%s %d.vals=%s %d.map=%s %d.values=%s %d.notified=%s %d.last=%s",
				i, sv.rec.Take(), i, vals, i, mp, i, VerifValIDs(sv.sub.Values()), i, noted, i, sv.last))
			sv.n1, sv.n2, sv.last = 0, 0, "none"
		}
		if xsub != nil {
			out = append(out, "x.values="+VerifValIDs(xsub.Values()))
		}
		if len(out) == 0 {
			out = append(out, "none=1")
		}
		return strings.Join(out, " ") + extra
	}
	return step, func() {
		for _, sv := range svcs {
			if sv.open {
				sv.sub.Close()
				internal.GetRegistry().Unmonitor(endpoints, sv.key, false, sv.rec)
			}
		}
		if xsub != nil {
			xsub.Close()
		}
	}
}

// ---------------------------------------------------------------------------------------------
// Sections `h=lsn n=<3..4>`: n subscribers on ONE key (one watcher, n listeners in the order they subscribed).
//   put <k> <v> | del <k> | batch p:<k>:<v> d:<k> …      a watch response
//   closein <i> <j> p:<k>:<v> d:<k> …    during the delivery of the response, listener <j>'s callback (its first call)
//                                        closes subscriber <i> (Subscriber.Close -> Registry.Unmonitor), from inside
//   closegate <i> <j> p:<k>:<v> …        the same, but another goroutine closes <i> while <j>'s callback is held at a gate
//   close <i>                            between two responses
// Observation: for every subscriber that is open after the operation `<s>.values=<ids> <s>.n=<callbacks during the op>`.

func c13LsnGen(r *verifh.Rng) []verifh.Section {
	var secs []verifh.Section
	nsec := verifh.Scale(24, 400)
	for i := 0; i < nsec; i++ {
		n := r.Range(3, 4)
		nk, nv := r.Range(2, 4), r.Range(2, 4)
		open := make([]bool, n)
		for s := range open {
			open[s] = true
		}
		evs := func(m int) string {
			var toks []string
			for ; m > 0; m-- {
				if r.Chance(2, 3) {
					toks = append(toks, fmt.Sprintf("p:%d:%d", r.Intn(nk), r.Intn(nv)))
				} else {
					toks = append(toks, fmt.Sprintf("d:%d", r.Intn(nk)))
				}
			}
			return strings.Join(toks, " ")
		}
		live := func() []int {
			var ids []int
			for s, o := range open {
				if o {
					ids = append(ids, s)
				}
			}
			return ids
		}
		ops := []string{"batch " + evs(r.Range(1, 3))}
		// every section closes one subscriber during a delivery: the pair (closed, closing) walks through all combinations
		ids := live()
		ci, cj := ids[(i/len(ids))%len(ids)], ids[i%len(ids)]
		kind := "closein"
		if i%3 == 2 && ci != cj {
			kind = "closegate"
		}
		ops = append(ops, fmt.Sprintf("%s %d %d %s", kind, ci, cj, evs(r.Range(1, 3))))
		open[ci] = false
		for j := r.Range(2, 5); j > 0; j-- {
			switch x := r.Intn(10); {
			case x < 4:
				ops = append(ops, fmt.Sprintf("put %d %d", r.Intn(nk), r.Intn(nv)))
			case x < 6:
				ops = append(ops, fmt.Sprintf("del %d", r.Intn(nk)))
			case x < 8:
				ops = append(ops, "batch "+evs(r.Range(2, 3)))
			case x < 9 && len(live()) > 2:
				ids := live()
				a, b := ids[r.Intn(len(ids))], ids[r.Intn(len(ids))]
				ops = append(ops, fmt.Sprintf("closein %d %d %s", a, b, evs(r.Range(1, 2))))
				open[a] = false
			default:
				if ids := live(); len(ids) > 1 {
					a := ids[r.Intn(len(ids))]
					ops = append(ops, fmt.Sprintf("close %d", a))
					open[a] = false
				}
			}
		}
		secs = append(secs, verifh.Section{Cfg: fmt.Sprintf("h=lsn n=%d", n), Ops: ops})
	}
	return secs
}

var c13LsnSeq int

func c13LsnStart(cfg verifh.Cfg) (func(op []string) string, func()) {
	e := VerifInstallEtcd()
	e.DropWatches()
	c13LsnSeq++
	endpoints := []string{fmt.Sprintf("etcd-verif-lsn-%d:2379", c13LsnSeq)}
	key := fmt.Sprintf("verif.lsn.%d", c13LsnSeq)
	e.SetSnapshot(key+"/", nil)
	n := cfg.Int("n", 3)
	subs := make([]*Subscriber, n)
	open := make([]bool, n)
	cnt := make([]int, n)
	// armed: the next callback of listener `by` closes subscriber `victim` (inside: on the delivering goroutine; else on
	// another goroutine while the callback waits)
	victim, by, inside := -1, -1, true
	var mu sync.Mutex
	for i := 0; i < n; i++ {
		i := i
		sub, err := NewSubscriber(endpoints, key)
		if err != nil {
			panic(err)
		}
		subs[i], open[i] = sub, true
		sub.AddListener(func() {
			mu.Lock()
			cnt[i]++
			v := -1
			if by == i && victim >= 0 {
				v, victim, by = victim, -1, -1
			}
			in := inside
			mu.Unlock()
			if v >= 0 {
				if in {
					subs[v].Close()
				} else {
					done := make(chan struct{})
					go func() {
						subs[v].Close()
						close(done)
					}()
					<-done
				}
			}
		})
	}
	prefix := e.AwaitWatchOf(key + "/")
	step := func(op []string) string {
		deliver := func(toks []string) {
			var evs []*clientv3.Event
			for _, t := range toks {
				evs = append(evs, verifEvent(key, t))
			}
			e.Push(prefix, clientv3.WatchResponse{Events: evs})
			e.Sync(prefix)
		}
		switch op[0] {
		case "put":
			deliver([]string{"p:" + op[1] + ":" + op[2]})
		case "del":
			deliver([]string{"d:" + op[1]})
		case "batch":
			deliver(op[1:])
		case "closein", "closegate":
			i, j := verifh.Atoi(op[1]), verifh.Atoi(op[2])
			if i < 0 || i >= n || j < 0 || j >= n || !open[i] || !open[j] || len(op) < 4 {
				return "bad-op"
			}
			mu.Lock()
			victim, by, inside = i, j, op[0] == "closein"
			mu.Unlock()
			deliver(op[3:])
			open[i] = false
		case "close":
			i := verifh.Atoi(op[1])
			if i < 0 || i >= n || !open[i] {
				return "bad-op"
			}
			subs[i].Close()
			open[i] = false
		default:
			return "bad-op"
		}
		var out []string
		mu.Lock()
		for i := range subs {
			if open[i] {
				out = append(out, fmt.Sprintf("%d.values=%s %d.n=%d", i, VerifValIDs(subs[i].Values()), i, cnt[i]))
			}
			cnt[i] = 0
		}
		mu.Unlock()
		if len(out) == 0 {
			return "none=1"
		}
		return strings.Join(out, " ")
	}
	return step, func() {
		for i, sub := range subs {
			if open[i] {
				sub.Close()
			}
		}
	}
}
