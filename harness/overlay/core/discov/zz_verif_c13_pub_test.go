//go:build verif

package discov

// C13 harness (publisher -> etcd -> registry -> subscriber): real Publishers (register / keepAliveAsync / revoke /
// doKeepAlive) talk to the fake etcd's lease store; a real Subscriber watches the service key.
//
//   sub                    the subscriber is created now (NewSubscriber -> load sees what is already registered)
//   pub <p> <id> <v>       NewPublisher(key, value <v>[, WithId(<id>)]).KeepAlive()      (<id> 0: the lease is the id)
//   pubx <p> <id> <v>      the same for the sibling service whose name is <key>x (must never show up)
//   pause <p>…             Pause(): the registration is revoked
//   resume <p>…            Resume(): doKeepAlive registers again (new lease) at the next tick (1 s)
//   stop <p>               Stop()
//   kaclose <p>…           the keep-alive channel of the lease closes: revoke, then doKeepAlive
//   rl                     compaction: the watch loop reloads (Get returns the lease store)
//   join                   a second subscriber joins the watch
// Observation:
//   store=<key:value:lease,…> (our service) xstore=<…> (the sibling) leases=<p:lease:fullKeyId,…>
//   and, once subscribed, the subscriber harness' observation (log= vals= map= values= notified= last= [late= lmap=])

import (
	"fmt"
	"sort"
	"strconv"
	"strings"
	"testing"
	"time"

	"github.com/zeromicro/go-zero/core/logx"
	"github.com/zeromicro/go-zero/internal/verifh"
	clientv3 "go.etcd.io/etcd/client/v3"
)

func c13PubGen(r *verifh.Rng) []verifh.Section {
	var secs []verifh.Section
	nsec := verifh.Scale(14, 60)
	for i := 0; i < nsec; i++ {
		excl := r.Chance(1, 3)
		nv := r.Range(1, 3)
		type pst struct {
			state string // run | paused | stopped
			x     bool
		}
		pubs := map[int]*pst{}
		usedIDs := map[int]bool{}
		var ops []string
		subscribed := false
		if r.Chance(2, 3) {
			ops = append(ops, "sub")
			subscribed = true
		}
		in := func(state string, multi bool) []string {
			var ids []int
			for p, st := range pubs {
				if st.state == state {
					ids = append(ids, p)
				}
			}
			sort.Ints(ids)
			if len(ids) == 0 {
				return nil
			}
			if !multi || excl {
				return []string{strconv.Itoa(ids[r.Intn(len(ids))])}
			}
			var out []string
			for _, p := range ids {
				if r.Chance(2, 3) {
					out = append(out, strconv.Itoa(p))
				}
			}
			if len(out) == 0 {
				out = []string{strconv.Itoa(ids[0])}
			}
			return out
		}
		slow := 0 // operations that wait for the publisher's one-second ticker
		joined := false
		nops := r.Range(4, verifh.Scale(9, 14))
		for j := 0; j < nops; j++ {
			if !subscribed && (j >= 2 || r.Chance(1, 2)) {
				ops = append(ops, "sub")
				subscribed = true
				continue
			}
			switch x := r.Intn(100); {
			case x < 35 || len(pubs) == 0:
				p := len(pubs) + 1
				id := 0
				if r.Chance(1, 2) {
					// a fixed id; rarely one that another publisher uses already is NOT generated (the spec requires distinct ids)
					id = r.Range(1, 9)
					for usedIDs[id] {
						id = r.Range(1, 9)
					}
					usedIDs[id] = true
				}
				kind := "pub"
				if r.Chance(1, 5) {
					kind = "pubx"
				}
				pubs[p] = &pst{state: "run", x: kind == "pubx"}
				ops = append(ops, fmt.Sprintf("%s %d %d %d", kind, p, id, r.Intn(nv)))
			case x < 55:
				if ps := in("run", true); ps != nil {
					for _, p := range ps {
						pubs[verifh.Atoi(p)].state = "paused"
					}
					ops = append(ops, "pause "+strings.Join(ps, " "))
				}
			case x < 70:
				if ps := in("paused", true); ps != nil && slow < 2 {
					slow++
					for _, p := range ps {
						pubs[verifh.Atoi(p)].state = "run"
					}
					ops = append(ops, "resume "+strings.Join(ps, " "))
				}
			case x < 80:
				if ps := in(r.PickS("run", "run", "paused"), false); ps != nil {
					pubs[verifh.Atoi(ps[0])].state = "stopped"
					ops = append(ops, "stop "+ps[0])
				}
			case x < 88:
				if ps := in("run", true); ps != nil && slow < 2 {
					slow++
					ops = append(ops, "kaclose "+strings.Join(ps, " "))
				}
			case x < 94:
				if subscribed {
					ops = append(ops, "rl")
				}
			default:
				if subscribed && !joined {
					joined = true
					ops = append(ops, "join")
				}
			}
		}
		if !subscribed {
			ops = append(ops, "sub")
		}
		secs = append(secs, verifh.Section{Cfg: fmt.Sprintf("h=pub excl=%d", b2i(excl)), Ops: ops})
	}
	return secs
}

func TestVerifC13Pub(t *testing.T) {
	logx.Disable()
	secs := verifh.Sections(c13PubGen)
	verifh.Run(t, secs, func(cfg verifh.Cfg) (func(op []string) string, func()) {
		ses := VerifNewSession()
		var sub *Subscriber
		var n1, n2 int
		last := "none"
		pubs := map[int]*Publisher{}
		running := map[int]bool{}
		wait := 10 * time.Second // after the first timeout of the section (already a violation) the waits are short
		observe := func(timeout bool) string {
			var ls []string
			ids := make([]int, 0, len(pubs))
			for p := range pubs {
				ids = append(ids, p)
			}
			sort.Ints(ids)
			for _, p := range ids {
				ls = append(ls, fmt.Sprintf("%d:%d:%s", p, int64(pubs[p].lease)-7587870000, VerifKeyID(pubs[p].fullKey)))
			}
			out := fmt.Sprintf("store=%s xstore=%s leases=%s", ses.Etcd.StoreDump(ses.Key+"/"), ses.Etcd.StoreDump(ses.Key+"x/"), strings.Join(ls, ","))
			if timeout {
				out += " timeout=1"
			}
			if sub == nil {
				return out
			}
			vals, mp := VerifDumpContainer(sub)
			noted := strconv.Itoa(n1)
			if n1 != n2 {
				noted = fmt.Sprintf("%d/%d", n1, n2)
			}
			out += fmt.Sprintf(" log=%s vals=%s map=%s values=%s notified=%s last=%s",
				ses.Rec.Take(), vals, mp, VerifValIDs(sub.Values()), noted, last) + ses.LateObs()
			n1, n2, last = 0, 0, "none"
			return out
		}
		step := func(op []string) string {
			_, puts, revokes := ses.Etcd.Counts()
			ok := true
			switch op[0] {
			case "sub":
				if sub != nil {
					return "bad-op"
				}
				var opts []SubOption
				if cfg.Int("excl", 0) == 1 {
					opts = append(opts, Exclusive())
				}
				var err error
				if sub, err = NewSubscriber(ses.Endpoints, ses.Key, opts...); err != nil {
					panic(err)
				}
				sub.AddListener(func() {
					n1++
					last = VerifValIDs(sub.Values())
				})
				sub.AddListener(func() { n2++ })
				ses.Attach()
				// the initial load is part of the line: what was loaded is visible in vals= / values=
				n1, n2, last = 0, 0, "none"
			case "pub", "pubx":
				if len(op) != 4 || pubs[verifh.Atoi(op[1])] != nil {
					return "bad-op"
				}
				key := ses.Key
				if op[0] == "pubx" {
					key += "x"
				}
				var opts []PubOption
				if id := verifh.Atoi(op[2]); id != 0 {
					opts = append(opts, WithId(int64(7587870000+id)))
				}
				p := NewPublisher(ses.Endpoints, key, VerifValName(verifh.Atoi(op[3])), opts...)
				pubs[verifh.Atoi(op[1])] = p
				running[verifh.Atoi(op[1])] = true
				if err := p.KeepAlive(); err != nil {
					panic(err)
				}
			case "pause":
				for _, t := range op[1:] {
					pubs[verifh.Atoi(t)].Pause()
					running[verifh.Atoi(t)] = false
				}
				ok = ses.Etcd.AwaitCounts(puts, revokes+len(op)-1, wait)
			case "resume":
				for _, t := range op[1:] {
					pubs[verifh.Atoi(t)].Resume()
					running[verifh.Atoi(t)] = true
				}
				ok = ses.Etcd.AwaitCounts(puts+len(op)-1, revokes, wait)
			case "stop":
				p := pubs[verifh.Atoi(op[1])]
				p.Stop()
				if running[verifh.Atoi(op[1])] {
					ok = ses.Etcd.AwaitCounts(puts, revokes+1, wait)
				}
				running[verifh.Atoi(op[1])] = false
			case "kaclose":
				for _, t := range op[1:] {
					ses.Etcd.CloseKeepAlive(pubs[verifh.Atoi(t)].lease)
				}
				ok = ses.Etcd.AwaitCounts(puts+len(op)-1, revokes+len(op)-1, wait)
			case "rl":
				if sub == nil {
					return "bad-op"
				}
				ses.Etcd.Push(ses.Prefix, clientv3.WatchResponse{CompactRevision: 1})
				ses.Etcd.AwaitWatch(ses.Prefix)
				ses.Etcd.Sync(ses.Prefix)
			case "join":
				if sub == nil || !ses.Exec(op) {
					return "bad-op"
				}
			default:
				return "bad-op"
			}
			if !ok {
				wait = 200 * time.Millisecond
			}
			if ok {
				// a registration that comes late (a publisher that registers once more than it should) would still be running
				time.Sleep(time.Millisecond)
			}
			return observe(!ok)
		}
		return step, func() {
			_, puts, revokes := ses.Etcd.Counts()
			for id, p := range pubs {
				p.Stop()
				if running[id] {
					revokes++
				}
			}
			// the publishers' goroutines revoke on Stop: let them finish before the next session resets the store
			ses.Etcd.AwaitCounts(puts, revokes, 2*time.Second)
			if sub != nil {
				ses.Close()
				sub.Close()
			}
		}
	})
}
