//go:build verif

package discov

// C13 harness (publisher -> etcd -> registry -> subscriber): real Publishers (register / keepAliveAsync / revoke /
// doKeepAlive) talk to the fake etcd's lease store; a real Subscriber watches the service key.
//
//   sub                    the subscriber is created now (NewSubscriber -> load sees what is already registered)
//   pub <p> <id> <v>       NewPublisher(key, value <v>[, WithId(<id>)]).KeepAlive()      (<id> 0: the lease is the id)
//   pubx <p> <id> <v>      the same for the sibling service whose name is <key>x (must never show up)
//   pause <p>…             Pause(): the registration is revoked
//   resume <p>…            Resume(): doKeepAlive registers again (new lease) at the next tick (1 s)
//   stop <p>               Stop()
//   kaclose <p>…           the keep-alive channel of the lease closes: revoke, then doKeepAlive
//   rl                     compaction: the watch loop reloads (Get returns the lease store)
//   join                   a second subscriber joins the watch
//   expire                 etcd expires the leases nobody keeps alive (keys left behind by failed calls)
// Fault injection: a last token `!<kind>:<n>` (one publisher per such op) makes the next n etcd calls of the kind fail:
//   pub … !grant:1 | !put:1 | !ka:1       KeepAlive() returns the error (observed `err=1`); after `ka` the key is in etcd
//   resume <p> / kaclose <p> !grant:n | !put:n | !ka:n    the first n attempts of doKeepAlive fail, the next succeeds
//   pause <p> / stop <p> !revoke:1        the revocation fails: the key stays until its lease expires
// Observation:
//   store=<key:value:lease,…> (our service) xstore=<…> (the sibling) leases=<p:lease:fullKeyId,…>
//   and, once subscribed, the subscriber harness' observation (log= vals= map= values= notified= last= [late= lmap=])

import (
	"fmt"
	"sort"
	"strconv"
	"strings"
	"testing"
	"time"

	"github.com/zeromicro/go-zero/core/logx"
	"github.com/zeromicro/go-zero/internal/verifh"
	clientv3 "go.etcd.io/etcd/client/v3"
)

func c13PubGen(r *verifh.Rng) []verifh.Section {
	var secs []verifh.Section
	nsec := verifh.Scale(9, 40)
	for i := 0; i < nsec; i++ {
		excl := r.Chance(1, 3)
		nv := r.Range(1, 3)
		type pst struct {
			state string // run | paused | stopped
			x     bool
		}
		pubs := map[int]*pst{}
		usedIDs := map[int]bool{}
		var ops []string
		subscribed := false
		if r.Chance(2, 3) {
			ops = append(ops, "sub")
			subscribed = true
		}
		in := func(state string, multi bool) []string {
			var ids []int
			for p, st := range pubs {
				if st.state == state {
					ids = append(ids, p)
				}
			}
			sort.Ints(ids)
			if len(ids) == 0 {
				return nil
			}
			if !multi || excl {
				return []string{strconv.Itoa(ids[r.Intn(len(ids))])}
			}
			var out []string
			for _, p := range ids {
				if r.Chance(2, 3) {
					out = append(out, strconv.Itoa(p))
				}
			}
			if len(out) == 0 {
				out = []string{strconv.Itoa(ids[0])}
			}
			return out
		}
		slow := 0 // operations that wait for the publisher's one-second ticker
		if !verifh.Thorough() && (i%2 == 1 || i%3 == 1) {
			slow = 1 // quick tier: at most one such wait per section, none besides the forced tail of a faulty section
			if i%3 == 1 {
				slow = 2
			}
		}
		faulty := i%verifh.Scale(3, 5) == 1 // sections with failing etcd calls (each failed attempt of doKeepAlive costs one real second)
		fault := func(kinds ...string) string {
			if !faulty || !r.Chance(1, 2) {
				return ""
			}
			n := 1
			if kinds[0] != "revoke" && verifh.Thorough() && r.Chance(1, 4) {
				n = 2
			}
			return fmt.Sprintf(" !%s:%d", kinds[r.Intn(len(kinds))], n)
		}
		one := func(ps []string) []string { return ps[:1] }
		// a failed attempt of doKeepAlive costs one real second: in the quick tier only the forced tail below has them
		slowFault := func() string {
			if !verifh.Thorough() {
				return ""
			}
			return fault("grant", "put", "ka")
		}
		refaulted := false
		joined := false
		nops := r.Range(4, verifh.Scale(9, 14))
		for j := 0; j < nops; j++ {
			if !subscribed && (j >= 2 || r.Chance(1, 2)) {
				ops = append(ops, "sub")
				subscribed = true
				continue
			}
			switch x := r.Intn(100); {
			case x < 35 || len(pubs) == 0:
				p := len(pubs) + 1
				id := 0
				if r.Chance(1, 2) {
					// a fixed id; rarely one that another publisher uses already is NOT generated (the spec requires distinct ids)
					id = r.Range(1, 9)
					for usedIDs[id] {
						id = r.Range(1, 9)
					}
					usedIDs[id] = true
				}
				kind := "pub"
				if r.Chance(1, 5) {
					kind = "pubx"
				}
				pubs[p] = &pst{state: "run", x: kind == "pubx"}
				f := ""
				if kind == "pub" {
					if f = fault([]string{"grant", "put", "ka"}[(i/verifh.Scale(3, 5)+len(pubs))%3]); f != "" {
						f = f[:len(f)-1] + "1" // KeepAlive() is one attempt: exactly one call fails
						pubs[p].state = "failed" // KeepAlive returned an error: no goroutine serves Pause / Resume
					}
				}
				ops = append(ops, fmt.Sprintf("%s %d %d %d%s", kind, p, id, r.Intn(nv), f))
			case x < 55:
				if ps := in("run", true); ps != nil {
					f := ""
					if !pubs[verifh.Atoi(ps[0])].x {
						if f = fault("revoke"); f != "" {
							ps = one(ps)
						}
					}
					for _, p := range ps {
						pubs[verifh.Atoi(p)].state = "paused"
					}
					ops = append(ops, "pause "+strings.Join(ps, " ")+f)
				}
			case x < 70:
				if ps := in("paused", true); ps != nil && slow < 2 {
					slow++
					f := ""
					if !pubs[verifh.Atoi(ps[0])].x {
						if f = slowFault(); f != "" {
							ps = one(ps)
							slow++
							refaulted = true
						}
					}
					for _, p := range ps {
						pubs[verifh.Atoi(p)].state = "run"
					}
					ops = append(ops, "resume "+strings.Join(ps, " ")+f)
				}
			case x < 80:
				if ps := in(r.PickS("run", "run", "paused"), false); ps != nil {
					pubs[verifh.Atoi(ps[0])].state = "stopped"
					ops = append(ops, "stop "+ps[0])
				}
			case x < 88:
				if ps := in("run", true); ps != nil && slow < 2 {
					slow++
					f := ""
					if !pubs[verifh.Atoi(ps[0])].x {
						if f = slowFault(); f != "" {
							ps = one(ps)
							slow++
							refaulted = true
						}
					}
					ops = append(ops, "kaclose "+strings.Join(ps, " ")+f)
				}
			case x < 94:
				if subscribed {
					ops = append(ops, "rl")
				}
			default:
				if faulty && r.Chance(1, 2) {
					ops = append(ops, "expire")
				} else if subscribed && !joined {
					joined = true
					ops = append(ops, "join")
				}
			}
		}
		if !subscribed {
			ops = append(ops, "sub")
		}
		if faulty {
			if !refaulted {
				// every faulty section re-registers once with failing calls: after a lost keep-alive stream, or after Pause / Resume
				var ids []int
				for p, st := range pubs {
					if st.state == "run" && !st.x {
						ids = append(ids, p)
					}
				}
				sort.Ints(ids)
				if len(ids) == 0 {
					p := len(pubs) + 1
					pubs[p] = &pst{state: "run"}
					ops = append(ops, fmt.Sprintf("pub %d 0 %d", p, r.Intn(nv)))
					ids = []int{p}
				}
				p := ids[r.Intn(len(ids))]
				f := fmt.Sprintf(" !%s:1", []string{"grant", "put", "ka"}[(i/verifh.Scale(3, 5))%3]) // every kind in every run
				if r.Chance(1, 2) {
					ops = append(ops, fmt.Sprintf("kaclose %d%s", p, f))
				} else {
					ops = append(ops, fmt.Sprintf("pause %d", p), fmt.Sprintf("resume %d%s", p, f))
				}
			}
			ops = append(ops, "expire")
		}
		secs = append(secs, verifh.Section{Cfg: fmt.Sprintf("h=pub excl=%d", b2i(excl)), Ops: ops})
	}
	return secs
}

func TestVerifC13Pub(t *testing.T) {
	logx.Disable()
	secs := verifh.Sections(c13PubGen)
	verifh.Run(t, secs, func(cfg verifh.Cfg) (func(op []string) string, func()) {
		ses := VerifNewSession()
		var sub *Subscriber
		var n1, n2 int
		last := "none"
		pubs := map[int]*Publisher{}
		running := map[int]bool{}
		wait := 10 * time.Second // after the first timeout of the section (already a violation) the waits are short
		observe := func(timeout bool) string {
			var ls []string
			ids := make([]int, 0, len(pubs))
			for p := range pubs {
				ids = append(ids, p)
			}
			sort.Ints(ids)
			for _, p := range ids {
				lease, fk := int64(pubs[p].lease)-7587870000, VerifKeyID(pubs[p].fullKey)
				if pubs[p].lease == 0 {
					lease = 0 // clientv3.NoLease (a failed Grant)
				}
				if pubs[p].fullKey == "" {
					fk = "0" // never registered
				}
				ls = append(ls, fmt.Sprintf("%d:%d:%s", p, lease, fk))
			}
			out := fmt.Sprintf("store=%s xstore=%s leases=%s", ses.Etcd.StoreDump(ses.Key+"/"), ses.Etcd.StoreDump(ses.Key+"x/"), strings.Join(ls, ","))
			if timeout {
				out += " timeout=1"
			}
			if sub == nil {
				return out
			}
			vals, mp := VerifDumpContainer(sub)
			noted := strconv.Itoa(n1)
			if n1 != n2 {
				noted = fmt.Sprintf("%d/%d", n1, n2)
			}
			out += fmt.Sprintf(" log=%s vals=%s map=%s values=%s notified=%s last=%s",
				ses.Rec.Take(), vals, mp, VerifValIDs(sub.Values()), noted, last) + ses.LateObs()
			n1, n2, last = 0, 0, "none"
			return out
		}
		dead := false
		step := func(op []string) string {
			if dead {
				// a publisher gave up: its goroutine is gone, Pause / Resume would block for ever
				return "dead=1"
			}
			_, puts, revokes := ses.Etcd.Counts()
			ok := true
			// fault injection: `!<kind>:<n>` as the last token
			fkind, fn := "", 0
			if last := op[len(op)-1]; strings.HasPrefix(last, "!") {
				i := strings.IndexByte(last, ':')
				if i < 0 {
					return "bad-op"
				}
				fkind, fn = last[1:i], verifh.Atoi(last[i+1:])
				op = op[:len(op)-1]
				if len(op) != 2 && op[0] != "pub" {
					return "bad-op" // one publisher per faulty operation
				}
				switch {
				case fkind == "revoke" && (op[0] == "pause" || op[0] == "stop"):
				case fkind != "revoke" && (op[0] == "pub" || op[0] == "resume" || op[0] == "kaclose"):
				default:
					return "bad-op"
				}
				if op[0] != "pub" && pubs[verifh.Atoi(op[1])] == nil {
					return "bad-op"
				}
				if (op[0] == "pub" || fkind == "revoke") && fn != 1 {
					return "bad-op" // one attempt / one revocation: a second armed failure would hit a later operation
				}
				ses.Etcd.ArmFault(fkind, fn)
			}
			extra := ""
			opWait := wait
			if fn > 0 && wait > time.Second {
				opWait = time.Duration(fn+1)*time.Second + 2*time.Second
			}
			kaPuts := 0
			if fkind == "ka" {
				kaPuts = fn // an attempt whose KeepAlive fails has put its key already
			}
			switch op[0] {
			case "sub":
				if sub != nil {
					return "bad-op"
				}
				var opts []SubOption
				if cfg.Int("excl", 0) == 1 {
					opts = append(opts, Exclusive())
				}
				var err error
				if sub, err = NewSubscriber(ses.Endpoints, ses.Key, opts...); err != nil {
					panic(err)
				}
				sub.AddListener(func() {
					n1++
					last = VerifValIDs(sub.Values())
				})
				sub.AddListener(func() { n2++ })
				ses.Attach()
				// the initial load is part of the line: what was loaded is visible in vals= / values=
				n1, n2, last = 0, 0, "none"
			case "pub", "pubx":
				if len(op) != 4 || pubs[verifh.Atoi(op[1])] != nil {
					return "bad-op"
				}
				key := ses.Key
				if op[0] == "pubx" {
					key += "x"
				}
				var opts []PubOption
				if id := verifh.Atoi(op[2]); id != 0 {
					opts = append(opts, WithId(int64(7587870000+id)))
				}
				p := NewPublisher(ses.Endpoints, key, VerifValName(verifh.Atoi(op[3])), opts...)
				pubs[verifh.Atoi(op[1])] = p
				running[verifh.Atoi(op[1])] = true
				if err := p.KeepAlive(); err != nil {
					if fn == 0 {
						dead = true // no keep-alive goroutine although nothing failed: Pause / Resume would block for ever
					}
					running[verifh.Atoi(op[1])] = false
					extra = " err=1"
				}
			case "pause":
				for _, t := range op[1:] {
					pubs[verifh.Atoi(t)].Pause()
					running[verifh.Atoi(t)] = false
				}
				if fkind == "revoke" {
					ok = ses.Etcd.AwaitCounts(puts, revokes, opWait)
				} else {
					ok = ses.Etcd.AwaitCounts(puts, revokes+len(op)-1, wait)
				}
			case "resume":
				for _, t := range op[1:] {
					pubs[verifh.Atoi(t)].Resume()
					running[verifh.Atoi(t)] = true
				}
				ok = ses.Etcd.AwaitCounts(puts+len(op)-1+kaPuts, revokes, opWait)
			case "stop":
				p := pubs[verifh.Atoi(op[1])]
				p.Stop()
				if running[verifh.Atoi(op[1])] {
					if fkind == "revoke" {
						ok = ses.Etcd.AwaitCounts(puts, revokes, opWait)
					} else {
						ok = ses.Etcd.AwaitCounts(puts, revokes+1, wait)
					}
				}
				running[verifh.Atoi(op[1])] = false
			case "kaclose":
				for _, t := range op[1:] {
					ses.Etcd.CloseKeepAlive(pubs[verifh.Atoi(t)].lease)
				}
				ok = ses.Etcd.AwaitCounts(puts+len(op)-1+kaPuts, revokes+len(op)-1, opWait)
			case "expire":
				// the leases of the publishers whose keep-alive goroutine runs are renewed, every other lease expires
				alive := map[clientv3.LeaseID]bool{}
				for id, p := range pubs {
					if running[id] {
						alive[p.lease] = true
					}
				}
				ses.Etcd.ExpireOrphans(alive)
			case "rl":
				if sub == nil {
					return "bad-op"
				}
				ses.Etcd.Push(ses.Prefix, clientv3.WatchResponse{CompactRevision: 1})
				ses.Etcd.AwaitWatch(ses.Prefix)
				ses.Etcd.Sync(ses.Prefix)
			case "join":
				if sub == nil || !ses.Exec(op) {
					return "bad-op"
				}
			default:
				return "bad-op"
			}
			if !ok {
				wait = 200 * time.Millisecond
				dead = true
				if fn > 0 && ses.Etcd.PendingFaults() == 0 {
					// every armed failure has happened and no later attempt followed
					extra += " gaveup=1"
				}
			}
			if ok {
				// a registration that comes late (a publisher that registers once more than it should) would still be running
				time.Sleep(time.Millisecond)
			}
			return observe(!ok) + extra
		}
		return step, func() {
			_, puts, revokes := ses.Etcd.Counts()
			for id, p := range pubs {
				p.Stop()
				if running[id] {
					revokes++
				}
			}
			// the publishers' goroutines revoke on Stop: let them finish before the next session resets the store
			if dead {
				ses.Etcd.AwaitCounts(puts, revokes, 300*time.Millisecond)
			} else {
				ses.Etcd.AwaitCounts(puts, revokes, 2*time.Second)
			}
			if sub != nil {
				ses.Close()
				sub.Close()
			}
		}
	})
}
