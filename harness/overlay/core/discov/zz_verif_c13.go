//go:build verif

package discov

// C13 harness support (injected by `go test -overlay`, build tag verif; never part of /repo).
//
// VerifEtcd is an in-process stand-in for the etcd client: `Get` answers with the snapshot the harness
// installed, `Watch` hands out an unbuffered channel into which the harness pushes watch responses.
// Everything else — Registry.Monitor, cluster.monitor/load/watch/watchStream/handleWatchEvents/handleChanges,
// the subscriber's container, its listeners — is the real code.  The type is exported so that the
// resolver harness (zrpc/resolver/internal) can drive discovBuilder.Build through the same fake.

import (
	"context"
	"errors"
	"fmt"
	"reflect"
	"sort"
	"strconv"
	"strings"
	"sync"
	"time"

	"github.com/zeromicro/go-zero/core/discov/internal"
	"github.com/zeromicro/go-zero/internal/verifh"
	"go.etcd.io/etcd/api/v3/etcdserverpb"
	"go.etcd.io/etcd/api/v3/mvccpb"
	clientv3 "go.etcd.io/etcd/client/v3"
	"google.golang.org/grpc"
	"google.golang.org/grpc/credentials/insecure"
)

type VerifEtcd struct {
	mu      sync.Mutex
	conn    *grpc.ClientConn
	rev     int64
	snap    map[string][]internal.KV               // watch prefix -> what Get returns
	chans   map[string]chan clientv3.WatchResponse // watch prefix -> current watch channel
	ready   chan string                            // one token per Watch call
	getErrs int                                    // number of upcoming Get calls that fail
	gets    int
	// lease store (publisher harness): Grant / Put(WithLease) / Revoke / KeepAlive behave like a one-node etcd:
	// a put is stored and delivered as a PUT event to every watch whose key covers it, a revoke deletes the keys
	// attached to the lease and delivers DELETE events.
	order     sync.Mutex // serialises Put / Revoke together with the delivery of their events
	store     map[string]verifStored
	nextLease int64
	kaChans   map[clientv3.LeaseID]chan *clientv3.LeaseKeepAliveResponse
	prefixed  map[string]bool // watch key -> watched WithPrefix
	grants    int
	puts      int
	revokes   int
	// fault injection (publisher harness): the next n calls of the kind fail
	failGrant, failPut, failKA, failRevoke int
	hangGets int // upcoming Gets that hang until their context expires
	deadGets int // consecutive Gets that arrived with (or ended in) an expired context
	// revisions: events that happen after a snapshot was read and before the watch is established again (the gap);
	// a watch that asks for revision r is told the gap events with ModRevision >= r (r == 0: from now on, none)
	gap     map[string][]*clientv3.Event
	reqRev  map[string]int64 // watch key -> start revision of the latest Watch call
	expired int
}

// errVerifFault is what an armed call returns (etcd unreachable)
var errVerifFault = errors.New("verif: etcdserver: request timed out")

// ArmFault makes the next n calls of the kind (grant | put | ka | revoke) fail.
func (e *VerifEtcd) ArmFault(kind string, n int) {
	e.mu.Lock()
	defer e.mu.Unlock()
	switch kind {
	case "grant":
		e.failGrant = n
	case "put":
		e.failPut = n
	case "ka":
		e.failKA = n
	case "revoke":
		e.failRevoke = n
	default:
		panic("verif: unknown fault kind " + kind)
	}
}

// PendingFaults: armed failures that have not happened yet.
func (e *VerifEtcd) PendingFaults() int {
	e.mu.Lock()
	defer e.mu.Unlock()
	return e.failGrant + e.failPut + e.failKA + e.failRevoke
}

// ExpireOrphans: etcd expires every lease that is not in `alive` (nobody renews it): its keys are deleted and the
// watchers are told.  Returns the number of keys deleted.
func (e *VerifEtcd) ExpireOrphans(alive map[clientv3.LeaseID]bool) int {
	e.order.Lock()
	defer e.order.Unlock()
	e.mu.Lock()
	var keys []string
	for k, st := range e.store {
		if !alive[st.lease] {
			keys = append(keys, k)
		}
	}
	sort.Strings(keys)
	for _, k := range keys {
		delete(e.store, k)
	}
	e.rev++
	e.mu.Unlock()
	for _, k := range keys {
		e.deliver(k, &clientv3.Event{Type: clientv3.EventTypeDelete, Kv: &mvccpb.KeyValue{Key: []byte(k)}})
	}
	e.mu.Lock()
	e.expired += len(keys)
	e.mu.Unlock()
	return len(keys)
}

type verifStored struct {
	val   string
	lease clientv3.LeaseID
}

// VerifLeaseBase: leases granted by the fake are VerifLeaseBase+1, +2, … (key id 101, 102, … in the trace)
const VerifLeaseBase = 7587870100

var (
	verifEtcdOnce sync.Once
	verifEtcd     *VerifEtcd
)

// VerifInstallEtcd installs the fake as the etcd client of every cluster created from now on.
func VerifInstallEtcd() *VerifEtcd {
	verifEtcdOnce.Do(func() {
		conn, err := grpc.NewClient("passthrough:///verif-c13", grpc.WithTransportCredentials(insecure.NewCredentials()))
		if err != nil {
			panic(err)
		}
		verifEtcd = &VerifEtcd{
			conn:     conn,
			rev:      1,
			snap:     map[string][]internal.KV{},
			chans:    map[string]chan clientv3.WatchResponse{},
			ready:    make(chan string, 1024),
			store:    map[string]verifStored{},
			kaChans:  map[clientv3.LeaseID]chan *clientv3.LeaseKeepAliveResponse{},
			prefixed: map[string]bool{},
		}
		internal.NewClient = func([]string) (internal.EtcdClient, error) { return verifEtcd, nil }
	})
	return verifEtcd
}

func (e *VerifEtcd) ActiveConnection() *grpc.ClientConn { return e.conn }
func (e *VerifEtcd) Close() error                       { return nil }
func (e *VerifEtcd) Ctx() context.Context               { return context.Background() }

func verifIsPrefix(key string, opts []clientv3.OpOption) bool {
	return len(clientv3.OpGet(key, opts...).RangeBytes()) > 0
}

func verifCovers(watchKey string, prefix bool, key string) bool {
	if prefix {
		return strings.HasPrefix(key, watchKey)
	}
	return key == watchKey
}

func (e *VerifEtcd) Get(ctx context.Context, key string, opts ...clientv3.OpOption) (*clientv3.GetResponse, error) {
	prefix := verifIsPrefix(key, opts)
	// the context of the attempt: a request with an expired context fails at once; an armed `hang` makes this Get wait
	// until its context expires (etcd does not answer in time)
	e.mu.Lock()
	hang := e.hangGets > 0
	if hang {
		e.hangGets--
	}
	e.mu.Unlock()
	if hang {
		<-ctx.Done()
	}
	if err := ctx.Err(); err != nil {
		e.mu.Lock()
		e.gets++
		e.deadGets++
		e.mu.Unlock()
		return nil, err
	}
	e.mu.Lock()
	defer e.mu.Unlock()
	e.gets++
	e.deadGets = 0
	if e.getErrs > 0 {
		e.getErrs--
		return nil, errVerifFault
	}
	// the snapshot was read before the gap events happened
	resp := &clientv3.GetResponse{Header: &etcdserverpb.ResponseHeader{Revision: e.rev - int64(len(e.gap[key]))}}
	for _, kv := range e.snap[key] {
		resp.Kvs = append(resp.Kvs, &mvccpb.KeyValue{Key: []byte(kv.Key), Value: []byte(kv.Val)})
	}
	var keys []string
	for k := range e.store {
		if verifCovers(key, prefix, k) {
			keys = append(keys, k)
		}
	}
	sort.Strings(keys)
	for _, k := range keys {
		resp.Kvs = append(resp.Kvs, &mvccpb.KeyValue{Key: []byte(k), Value: []byte(e.store[k].val), Lease: int64(e.store[k].lease)})
	}
	return resp, nil
}

func (e *VerifEtcd) Grant(context.Context, int64) (*clientv3.LeaseGrantResponse, error) {
	e.mu.Lock()
	defer e.mu.Unlock()
	if e.failGrant > 0 {
		e.failGrant--
		return nil, errVerifFault
	}
	e.nextLease++
	e.grants++
	return &clientv3.LeaseGrantResponse{ID: clientv3.LeaseID(VerifLeaseBase + e.nextLease), TTL: 10}, nil
}

func (e *VerifEtcd) KeepAlive(_ context.Context, id clientv3.LeaseID) (<-chan *clientv3.LeaseKeepAliveResponse, error) {
	ch := make(chan *clientv3.LeaseKeepAliveResponse)
	e.mu.Lock()
	defer e.mu.Unlock()
	if e.failKA > 0 {
		e.failKA--
		return nil, errVerifFault
	}
	e.kaChans[id] = ch
	return ch, nil
}

// CloseKeepAlive closes the keep-alive channel of the lease (the lease expired / the connection was lost).
func (e *VerifEtcd) CloseKeepAlive(id clientv3.LeaseID) {
	e.mu.Lock()
	ch := e.kaChans[id]
	delete(e.kaChans, id)
	e.mu.Unlock()
	if ch == nil {
		panic("verif: no keep-alive channel for the lease")
	}
	close(ch)
}

// deliver hands the events to every established watch that covers the key (called with e.order held).
func (e *VerifEtcd) deliver(key string, ev *clientv3.Event) {
	e.mu.Lock()
	var wks []string
	for wk := range e.chans {
		if verifCovers(wk, e.prefixed[wk], key) {
			wks = append(wks, wk)
		}
	}
	e.mu.Unlock()
	sort.Strings(wks)
	for _, wk := range wks {
		e.Push(wk, clientv3.WatchResponse{Events: []*clientv3.Event{ev}})
		e.Sync(wk)
	}
}

func (e *VerifEtcd) Put(_ context.Context, key, val string, opts ...clientv3.OpOption) (*clientv3.PutResponse, error) {
	lease := clientv3.LeaseID(reflect.ValueOf(clientv3.OpPut(key, val, opts...)).FieldByName("leaseID").Int())
	e.order.Lock()
	defer e.order.Unlock()
	e.mu.Lock()
	if e.failPut > 0 {
		e.failPut--
		e.mu.Unlock()
		return nil, errVerifFault
	}
	e.store[key] = verifStored{val, lease}
	e.rev++
	e.mu.Unlock()
	e.deliver(key, &clientv3.Event{Type: clientv3.EventTypePut, Kv: &mvccpb.KeyValue{Key: []byte(key), Value: []byte(val), Lease: int64(lease)}})
	e.mu.Lock()
	e.puts++
	e.mu.Unlock()
	return &clientv3.PutResponse{}, nil
}

func (e *VerifEtcd) Revoke(_ context.Context, id clientv3.LeaseID) (*clientv3.LeaseRevokeResponse, error) {
	e.order.Lock()
	defer e.order.Unlock()
	e.mu.Lock()
	if e.failRevoke > 0 {
		e.failRevoke--
		e.mu.Unlock()
		return nil, errVerifFault
	}
	var keys []string
	for k, st := range e.store {
		if st.lease == id {
			keys = append(keys, k)
		}
	}
	sort.Strings(keys)
	for _, k := range keys {
		delete(e.store, k)
	}
	e.rev++
	e.mu.Unlock()
	for _, k := range keys {
		e.deliver(k, &clientv3.Event{Type: clientv3.EventTypeDelete, Kv: &mvccpb.KeyValue{Key: []byte(k)}})
	}
	e.mu.Lock()
	e.revokes++
	e.mu.Unlock()
	return &clientv3.LeaseRevokeResponse{}, nil
}

// Counts: (grants, puts, revokes) completed so far.
func (e *VerifEtcd) Counts() (int, int, int) {
	e.mu.Lock()
	defer e.mu.Unlock()
	return e.grants, e.puts, e.revokes
}

// AwaitCounts waits until at least the given numbers of puts and revokes have completed and every armed fault has
// happened; false: timeout.  The timeout is counted in polls of 2 ms, not in wall-clock time: while the test process is
// not scheduled (a loaded machine) no poll happens, whereas the publisher's one-second ticker keeps firing — so a tick
// that is due is never missed because the machine was busy.
func (e *VerifEtcd) AwaitCounts(puts, revokes int, max time.Duration) bool {
	polls := int(max / (2 * time.Millisecond))
	for i := 0; ; i++ {
		_, p, r := e.Counts()
		if p >= puts && r >= revokes && e.PendingFaults() == 0 {
			return true
		}
		if i >= polls {
			return false
		}
		time.Sleep(2 * time.Millisecond)
	}
}

// StoreDump prints the lease store under a key prefix: `<key id>:<value id>:<lease id>,…` sorted by key text.
func (e *VerifEtcd) StoreDump(prefix string) string {
	e.mu.Lock()
	defer e.mu.Unlock()
	var keys []string
	for k := range e.store {
		if strings.HasPrefix(k, prefix) {
			keys = append(keys, k)
		}
	}
	sort.Strings(keys)
	out := make([]string, 0, len(keys))
	for _, k := range keys {
		out = append(out, VerifKeyID(k)+":"+VerifValID(e.store[k].val)+":"+strconv.FormatInt(int64(e.store[k].lease)-7587870000, 10))
	}
	return strings.Join(out, ",")
}

func (e *VerifEtcd) Watch(_ context.Context, key string, opts ...clientv3.OpOption) clientv3.WatchChan {
	ch := make(chan clientv3.WatchResponse)
	prefix := verifIsPrefix(key, opts)
	e.mu.Lock()
	e.chans[key] = ch
	e.prefixed[key] = prefix
	if e.reqRev == nil {
		e.reqRev = map[string]int64{}
	}
	e.reqRev[key] = clientv3.OpGet(key, opts...).Rev()
	e.mu.Unlock()
	e.ready <- key
	return ch
}

// SetSnapshot installs what the next Get on the prefix returns and bumps the revision.
func (e *VerifEtcd) SetSnapshot(prefix string, kvs []internal.KV) {
	e.mu.Lock()
	e.snap[prefix] = kvs
	e.rev++
	e.mu.Unlock()
}

// FailGets makes the next n Get calls fail (load retries after a cool-down of about a second each).
func (e *VerifEtcd) FailGets(n int) {
	e.mu.Lock()
	e.getErrs = n
	e.mu.Unlock()
}

// HangGets makes the next n Get calls wait until their context is done (a request timeout).
func (e *VerifEtcd) HangGets(n int) {
	e.mu.Lock()
	e.hangGets, e.deadGets = n, 0
	e.mu.Unlock()
}

// AwaitWatchOrDeadGets waits until the watch on the prefix is established again (true) or until `dead` consecutive Gets
// have failed on an expired context after the armed hangs (false: the load loop cannot succeed any more — every further
// attempt uses the same expired context).
func (e *VerifEtcd) AwaitWatchOrDeadGets(prefix string, dead int) bool {
	deadline := time.After(verifLongWait())
	tick := time.NewTicker(5 * time.Millisecond)
	defer tick.Stop()
	for {
		select {
		case k := <-e.ready:
			if k == prefix {
				return true
			}
		case <-tick.C:
			e.mu.Lock()
			d := e.deadGets
			e.mu.Unlock()
			if d >= dead {
				return false
			}
		case <-deadline:
			verifGaveUp()
			return false
		}
	}
}

// Gets: number of Get calls so far.
func (e *VerifEtcd) Gets() int {
	e.mu.Lock()
	defer e.mu.Unlock()
	return e.gets
}

// SetGap records events that happen right after the current snapshot (revisions rev+1, rev+2, …) while no watch is
// established.
func (e *VerifEtcd) SetGap(prefix string, evs []*clientv3.Event) {
	e.mu.Lock()
	defer e.mu.Unlock()
	if e.gap == nil {
		e.gap = map[string][]*clientv3.Event{}
	}
	for _, ev := range evs {
		e.rev++
		ev.Kv.ModRevision = e.rev
	}
	e.gap[prefix] = evs
}

// DeliverGap hands the new watch what etcd replays for the revision it asked for, returns how many events that were.
func (e *VerifEtcd) DeliverGap(prefix string) int {
	e.mu.Lock()
	evs, from := e.gap[prefix], e.reqRev[prefix]
	delete(e.gap, prefix)
	e.mu.Unlock()
	var out []*clientv3.Event
	for _, ev := range evs {
		if from != 0 && ev.Kv.ModRevision >= from {
			out = append(out, ev)
		}
	}
	if len(out) > 0 {
		e.Push(prefix, clientv3.WatchResponse{Events: out})
	}
	e.Sync(prefix)
	return len(out)
}

// AwaitWatch blocks until the code under test has (re-)established its watch on the prefix.
func (e *VerifEtcd) AwaitWatch(prefix string) {
	deadline := time.After(verifLongWait())
	for {
		select {
		case k := <-e.ready:
			if k == prefix {
				return
			}
		case <-deadline:
			verifGaveUp()
			panic("verif: watch on " + prefix + " was not established")
		}
	}
}

// AwaitWatchOf waits for the first watch whose key starts with the service key and returns that watch key
// (the code under test builds it: makeKeyPrefix).
func (e *VerifEtcd) AwaitWatchOf(key string) string {
	deadline := time.After(verifLongWait())
	for {
		select {
		case k := <-e.ready:
			if strings.HasPrefix(k, key) {
				return k
			}
		case <-deadline:
			verifGaveUp()
			panic("verif: watch for " + key + " was not established")
		}
	}
}

// DropWatches forgets every watch channel (end of a session: sessions are sequential).
func (e *VerifEtcd) DropWatches() {
	e.mu.Lock()
	e.chans = map[string]chan clientv3.WatchResponse{}
	e.prefixed = map[string]bool{}
	e.store = map[string]verifStored{}
	e.kaChans = map[clientv3.LeaseID]chan *clientv3.LeaseKeepAliveResponse{}
	e.failGrant, e.failPut, e.failKA, e.failRevoke = 0, 0, 0, 0
	e.gap, e.reqRev, e.getErrs, e.hangGets, e.deadGets = map[string][]*clientv3.Event{}, map[string]int64{}, 0, 0, 0
	e.mu.Unlock()
}

// Push hands one watch response to the watch loop (returns once the loop has received it).
func (e *VerifEtcd) Push(prefix string, resp clientv3.WatchResponse) {
	e.mu.Lock()
	ch := e.chans[prefix]
	e.mu.Unlock()
	select {
	case ch <- resp:
	case <-time.After(verifLongWait()):
		verifGaveUp()
		panic("verif: watch loop on " + prefix + " does not receive")
	}
}

// verifLongWait: the patience of the single-key helpers (they panic when it runs out: the operation is recorded as
// PANIC); after the first time the code under test did not react, every later wait of the process is short.
var verifLong = 8 * time.Second

func verifLongWait() time.Duration {
	d := verifLong
	return d
}

func verifGaveUp() { verifLong = 300 * time.Millisecond }

// verifPatience: how long the multi-key sections wait for the watch loop; after the first time it did not react (the
// run is a violation already) the waits are short, so that a stuck view is reported within the quick budget.
var verifPatience = 5 * time.Second

// TryPush is Push that gives up: false when the watch loop does not receive.
func (e *VerifEtcd) TryPush(prefix string, resp clientv3.WatchResponse) bool {
	e.mu.Lock()
	ch := e.chans[prefix]
	e.mu.Unlock()
	if ch == nil {
		return false
	}
	select {
	case ch <- resp:
		return true
	case <-time.After(verifPatience):
		verifPatience = 200 * time.Millisecond
		return false
	}
}

// TryDeliver = push + sync, false when the loop did not take both.
func (e *VerifEtcd) TryDeliver(prefix string, resp clientv3.WatchResponse) bool {
	return e.TryPush(prefix, resp) && e.TryPush(prefix, clientv3.WatchResponse{})
}

// TryAwaitWatch waits for the watch on the key to be established again; false: it was not.
func (e *VerifEtcd) TryAwaitWatch(prefix string) bool {
	deadline := time.After(verifPatience)
	for {
		select {
		case k := <-e.ready:
			if k == prefix {
				return true
			}
		case <-deadline:
			verifPatience = 200 * time.Millisecond
			return false
		}
	}
}

// Sync returns once everything pushed before has been handled: the watch loop is single threaded
// and the channel unbuffered, so when it accepts this empty response the previous one is done.
func (e *VerifEtcd) Sync(prefix string) { e.Push(prefix, clientv3.WatchResponse{}) }

// CloseWatch closes the current watch channel (the loop re-establishes the watch).
func (e *VerifEtcd) CloseWatch(prefix string) {
	e.mu.Lock()
	ch := e.chans[prefix]
	e.mu.Unlock()
	close(ch)
}

// ---------------------------------------------------------------------------------------------
// names: keys and values are small integers in the trace; the real strings look like etcd's.

func VerifKeyName(prefix string, k int) string { return fmt.Sprintf("%s/%d", prefix, 7587870000+k) }
func VerifValName(v int) string                { return fmt.Sprintf("10.0.%d.%d:8080", v/200, v%200+1) }

func VerifKeyID(s string) string {
	i := strings.LastIndexByte(s, '/')
	n, err := strconv.Atoi(s[i+1:])
	if err != nil {
		return "?" + s
	}
	return strconv.Itoa(n - 7587870000)
}

func VerifValID(s string) string {
	var a, b, p int
	if _, err := fmt.Sscanf(s, "10.0.%d.%d:%d", &a, &b, &p); err != nil {
		return "?" + s
	}
	return strconv.Itoa(a*200 + b - 1)
}

// VerifValIDs canonicalises a list of values: ids, sorted numerically, comma separated.
func VerifValIDs(vals []string) string {
	ids := make([]int, 0, len(vals))
	var bad []string
	for _, v := range vals {
		n, err := strconv.Atoi(VerifValID(v))
		if err != nil {
			bad = append(bad, VerifValID(v))
			continue
		}
		ids = append(ids, n)
	}
	sort.Ints(ids)
	out := make([]string, 0, len(ids))
	for _, n := range ids {
		out = append(out, strconv.Itoa(n))
	}
	return strings.Join(append(out, bad...), ",")
}

// VerifParseKVs parses `k:v` tokens.
func VerifParseKVs(prefix string, toks []string) []internal.KV {
	var kvs []internal.KV
	for _, t := range toks {
		i := strings.IndexByte(t, ':')
		kvs = append(kvs, internal.KV{Key: VerifKeyName(prefix, verifh.Atoi(t[:i])), Val: VerifValName(verifh.Atoi(t[i+1:]))})
	}
	return kvs
}

// VerifDumpContainer prints container.values and container.mapping canonically (white box).
func VerifDumpContainer(sub *Subscriber) (string, string) {
	c := sub.items
	c.lock.Lock()
	defer c.lock.Unlock()
	type ent struct {
		id int
		s  string
	}
	var vs []ent
	for v, keys := range c.values {
		ids := make([]string, 0, len(keys))
		for _, k := range keys {
			ids = append(ids, VerifKeyID(k))
		}
		id, _ := strconv.Atoi(VerifValID(v))
		vs = append(vs, ent{id, VerifValID(v) + ":[" + strings.Join(ids, ".") + "]"})
	}
	sort.Slice(vs, func(i, j int) bool { return vs[i].id < vs[j].id })
	var ms []ent
	for k, v := range c.mapping {
		id, _ := strconv.Atoi(VerifKeyID(k))
		ms = append(ms, ent{id, VerifKeyID(k) + ":" + VerifValID(v)})
	}
	sort.Slice(ms, func(i, j int) bool { return ms[i].id < ms[j].id })
	a := make([]string, len(vs))
	for i, e := range vs {
		a[i] = e.s
	}
	b := make([]string, len(ms))
	for i, e := range ms {
		b[i] = e.s
	}
	return strings.Join(a, ";"), strings.Join(b, ",")
}

// VerifRecorder is an UpdateListener that records the listener-level events in order.
type VerifRecorder struct {
	mu  sync.Mutex
	log []string
	// one-shot: the next callback reports on entered and waits for release (a slow listener)
	entered chan struct{}
	release chan struct{}
}

func (r *VerifRecorder) OnAdd(kv internal.KV) {
	r.mu.Lock()
	r.log = append(r.log, "+"+VerifKeyID(kv.Key)+":"+VerifValID(kv.Val))
	r.mu.Unlock()
	r.pause()
}

func (r *VerifRecorder) OnDelete(kv internal.KV) {
	r.mu.Lock()
	r.log = append(r.log, "-"+VerifKeyID(kv.Key))
	r.mu.Unlock()
	r.pause()
}

// BlockNext arms the one-shot pause; the returned channels: entered (receive once), release (close).
func (r *VerifRecorder) BlockNext() (entered, release chan struct{}) {
	r.mu.Lock()
	defer r.mu.Unlock()
	r.entered, r.release = make(chan struct{}), make(chan struct{})
	return r.entered, r.release
}

// Disarm cancels BlockNext; false: a callback has already taken the pause (it will report on entered).
func (r *VerifRecorder) Disarm() bool {
	r.mu.Lock()
	defer r.mu.Unlock()
	armed := r.entered != nil
	r.entered, r.release = nil, nil
	return armed
}

func (r *VerifRecorder) pause() {
	r.mu.Lock()
	en, rel := r.entered, r.release
	r.entered, r.release = nil, nil
	r.mu.Unlock()
	if en != nil {
		en <- struct{}{}
		<-rel
	}
}

func (r *VerifRecorder) Take() string {
	r.mu.Lock()
	defer r.mu.Unlock()
	s := strings.Join(r.log, ",")
	r.log = nil
	return s
}

// VerifSession is one subscriber wired to the fake etcd through the real registry.
type VerifSession struct {
	Etcd      *VerifEtcd
	Endpoints []string
	Key       string
	Prefix    string
	Rec       *VerifRecorder
	Late      *Subscriber // a subscriber that joined the existing watch later (ops join / joinmid)
	awaited   bool        // the first watch of the session has been awaited
	LoadStuck bool        // load cannot finish: every attempt runs on an expired context
	Dead      bool        // cluster.reload deadlocked: the cluster is unusable, the rest of the section is skipped
}

// reload runs cluster.reload; false: it did not return (it waits, holding the cluster lock, for a watch
// goroutine that needs this lock).  `release` (may be nil) is closed after a grace period in which a reload that
// does not have to wait for the slow listener would have finished.
func (s *VerifSession) reload(release chan struct{}) bool {
	done := make(chan struct{})
	go func() {
		internal.VerifReload(s.Endpoints)
		close(done)
	}()
	if release != nil {
		select {
		case <-done:
		case <-time.After(15 * time.Millisecond):
		}
		close(release)
	}
	select {
	case <-done:
		return true
	case <-time.After(time.Second):
		s.Dead = true
		return false
	}
}

// LateObs prints the late joiner's view: ` late=<values> lmap=<k:v,…>` (empty before it joined).
func (s *VerifSession) LateObs() string {
	if s.LoadStuck {
		s.LoadStuck = false
		return " loadstuck=1"
	}
	if s.Dead {
		return " dead=1"
	}
	if s.Late == nil {
		return ""
	}
	_, mp := VerifDumpContainer(s.Late)
	return " late=" + VerifValIDs(s.Late.Values()) + " lmap=" + mp
}

func (s *VerifSession) Close() {
	if s.Dead {
		return
	}
	if s.Late != nil {
		s.Late.Close()
		s.Late = nil
	}
	s.Detach()
}

var verifSessionSeq int

// VerifNewSession prepares a fresh watch key (empty registry).
func VerifNewSession() *VerifSession {
	e := VerifInstallEtcd()
	e.DropWatches()
	verifSessionSeq++
	key := fmt.Sprintf("verif.rpc.%d", verifSessionSeq)
	// a cluster of its own per session: a cluster that deadlocked (see reloadmid) is left behind
	s := &VerifSession{Etcd: e, Endpoints: []string{fmt.Sprintf("etcd-verif-%d:2379", verifSessionSeq)}, Key: key, Prefix: key + "/", Rec: &VerifRecorder{}}
	e.SetSnapshot(s.Prefix, nil)
	return s
}

// Attach registers the recorder on the same watch (after the subscriber exists) and waits for the watch.
func (s *VerifSession) Attach() {
	s.AwaitFirstWatch()
	if err := internal.GetRegistry().Monitor(s.Endpoints, s.Key, false, s.Rec); err != nil {
		panic(err)
	}
	s.Rec.Take() // the recorder joined late: it was told the current entries, which is not part of the history
}

// AwaitFirstWatch waits (once) for the watch the first subscriber of the session establishes; the watch key is
// the one the code under test built (makeKeyPrefix): from then on the session pushes into that watch.
func (s *VerifSession) AwaitFirstWatch() {
	if s.awaited {
		return
	}
	s.awaited = true
	s.Prefix = s.Etcd.AwaitWatchOf(s.Key)
}

func (s *VerifSession) Detach() {
	internal.GetRegistry().Unmonitor(s.Endpoints, s.Key, false, s.Rec)
}

func verifEvent(prefixKey string, tok string) *clientv3.Event {
	// p:<k>:<v> | d:<k>
	parts := strings.Split(tok, ":")
	switch {
	case parts[0] == "p" && len(parts) == 3:
		return &clientv3.Event{Type: clientv3.EventTypePut, Kv: &mvccpb.KeyValue{
			Key: []byte(VerifKeyName(prefixKey, verifh.Atoi(parts[1]))), Value: []byte(VerifValName(verifh.Atoi(parts[2])))}}
	case parts[0] == "d" && len(parts) == 2:
		return &clientv3.Event{Type: clientv3.EventTypeDelete, Kv: &mvccpb.KeyValue{
			Key: []byte(VerifKeyName(prefixKey, verifh.Atoi(parts[1])))}}
	}
	panic("verif: bad event " + tok)
}

// Exec performs one registry-side operation of the line protocol and returns once the code under
// test has handled it.  ok=false: not a registry operation.
func (s *VerifSession) Exec(op []string) bool {
	if s.Dead {
		return true
	}
	switch op[0] {
	case "put":
		s.Etcd.Push(s.Prefix, clientv3.WatchResponse{Events: []*clientv3.Event{verifEvent(s.Key, "p:"+op[1]+":"+op[2])}})
		s.Etcd.Sync(s.Prefix)
	case "del":
		s.Etcd.Push(s.Prefix, clientv3.WatchResponse{Events: []*clientv3.Event{verifEvent(s.Key, "d:"+op[1])}})
		s.Etcd.Sync(s.Prefix)
	case "batch":
		var evs []*clientv3.Event
		for _, t := range op[1:] {
			evs = append(evs, verifEvent(s.Key, t))
		}
		s.Etcd.Push(s.Prefix, clientv3.WatchResponse{Events: evs})
		s.Etcd.Sync(s.Prefix)
	case "reload", "reloadc":
		// compaction: the watch loop reloads the snapshot (load -> handleChanges) and watches again
		s.Etcd.SetSnapshot(s.Prefix, VerifParseKVs(s.Key, op[1:]))
		s.Etcd.Push(s.Prefix, clientv3.WatchResponse{CompactRevision: 1, Canceled: op[0] == "reloadc"})
		s.Etcd.AwaitWatch(s.Prefix)
		s.Etcd.Sync(s.Prefix)
	case "reloadg":
		// reloadg <n> <k>:<v> …: compaction; the next n Gets fail: load cools down and retries, then installs the snapshot
		s.Etcd.SetSnapshot(s.Prefix, VerifParseKVs(s.Key, op[2:]))
		s.Etcd.FailGets(verifh.Atoi(op[1]))
		s.Etcd.Push(s.Prefix, clientv3.WatchResponse{CompactRevision: 1, Canceled: true})
		s.Etcd.AwaitWatch(s.Prefix)
		s.Etcd.Sync(s.Prefix)
	case "reloadt":
		// reloadt <n> <k>:<v> …: compaction; the first n Gets of the load do not answer before their request timeout
		// (RequestTimeout lowered to 100 ms for the operation); etcd answers every later Get whose context is alive
		s.Etcd.SetSnapshot(s.Prefix, VerifParseKVs(s.Key, op[2:]))
		old := internal.RequestTimeout
		internal.RequestTimeout = 100 * time.Millisecond
		s.Etcd.HangGets(verifh.Atoi(op[1]))
		s.Etcd.Push(s.Prefix, clientv3.WatchResponse{CompactRevision: 1, Canceled: true})
		ok := s.Etcd.AwaitWatchOrDeadGets(s.Prefix, verifh.Atoi(op[1])+2)
		internal.RequestTimeout = old
		if !ok {
			// load retries for ever with a context that has expired: the cluster never watches this key again
			s.Dead, s.LoadStuck = true, true
			return true
		}
		s.Etcd.Sync(s.Prefix)
	case "reloadgap":
		// reloadgap <k>:<v> … / p:<k>:<v> d:<k> …: compaction; after the snapshot was read and before the watch is
		// established again further events happen: etcd replays them to a watch that starts at the revision after the snapshot
		i := 1
		for ; i < len(op) && op[i] != "/"; i++ {
		}
		var evs []*clientv3.Event
		if i < len(op) {
			for _, t := range op[i+1:] {
				evs = append(evs, verifEvent(s.Key, t))
			}
		}
		s.Etcd.SetSnapshot(s.Prefix, VerifParseKVs(s.Key, op[1:i]))
		s.Etcd.SetGap(s.Prefix, evs)
		s.Etcd.Push(s.Prefix, clientv3.WatchResponse{CompactRevision: 1, Canceled: true})
		s.Etcd.AwaitWatch(s.Prefix)
		s.Etcd.DeliverGap(s.Prefix)
	case "connreload":
		// connection-state change: cluster.reload cancels every watch, waits for the watch goroutines and
		// starts new ones (load -> handleChanges, then watch); whatever happened meanwhile is in the snapshot only
		s.Etcd.SetSnapshot(s.Prefix, VerifParseKVs(s.Key, op[1:]))
		if !s.reload(nil) {
			return true
		}
		s.Etcd.AwaitWatch(s.Prefix)
		s.Etcd.Sync(s.Prefix)
	case "reloadmid":
		// reloadmid p:<k>:<v> d:<k> … / <k>:<v> …   the connection state changes while a watch response is
		// being handled (a listener is slow in its callback for the first event)
		var evs []*clientv3.Event
		i := 1
		for ; i < len(op) && op[i] != "/"; i++ {
			evs = append(evs, verifEvent(s.Key, op[i]))
		}
		s.Etcd.SetSnapshot(s.Prefix, VerifParseKVs(s.Key, op[i+1:]))
		entered, release := s.Rec.BlockNext()
		go s.Etcd.Push(s.Prefix, clientv3.WatchResponse{Events: evs})
		select {
		case <-entered:
		case <-time.After(500 * time.Millisecond):
			// no listener callback for the first event (only a changed tree does that): reload without a pause
			if s.Rec.Disarm() {
				release = nil
			} else {
				<-entered
			}
		}
		if !s.reload(release) {
			return true
		}
		s.Etcd.AwaitWatch(s.Prefix)
		s.Etcd.Sync(s.Prefix)
	case "join":
		// a second subscriber on the same key: Registry.Monitor replays the current values to it
		if s.Late != nil {
			panic("verif: one late joiner per section")
		}
		late, err := NewSubscriber(s.Endpoints, s.Key)
		if err != nil {
			panic(err)
		}
		s.Late = late
	case "joinmid":
		// one watch response with several events; a listener is slow in its callback for the first event;
		// meanwhile a second subscriber joins.  (With the notifyLock the joiner waits for the response to be
		// finished: the listener is released after a grace period in which an unsynchronised join completes.)
		if s.Late != nil {
			panic("verif: one late joiner per section")
		}
		var evs []*clientv3.Event
		for _, t := range op[1:] {
			evs = append(evs, verifEvent(s.Key, t))
		}
		entered, release := s.Rec.BlockNext()
		handled := make(chan struct{})
		go func() {
			s.Etcd.Push(s.Prefix, clientv3.WatchResponse{Events: evs})
			s.Etcd.Sync(s.Prefix)
			close(handled)
		}()
		mid := false
		select {
		case <-entered:
			mid = true
		case <-handled:
			// the response was handled without any listener callback (nothing to join in the middle of)
			if !s.Rec.Disarm() {
				<-entered
				mid = true
			}
		}
		joined := make(chan *Subscriber)
		go func() {
			late, err := NewSubscriber(s.Endpoints, s.Key)
			if err != nil {
				panic(err)
			}
			joined <- late
		}()
		if mid {
			select {
			case s.Late = <-joined:
			case <-time.After(15 * time.Millisecond):
			}
			close(release)
		}
		if s.Late == nil {
			s.Late = <-joined
		}
		<-handled
	case "cancel":
		// watch cancelled for another reason: re-watch without reload
		s.Etcd.Push(s.Prefix, clientv3.WatchResponse{Canceled: true})
		s.Etcd.AwaitWatch(s.Prefix)
		s.Etcd.Sync(s.Prefix)
	case "closech":
		s.Etcd.CloseWatch(s.Prefix)
		s.Etcd.AwaitWatch(s.Prefix)
		s.Etcd.Sync(s.Prefix)
	default:
		return false
	}
	return true
}

// VerifC13Gen generates histories: puts (new key, update in place, replayed), deletes (present, absent,
// replayed), batches, reload snapshots (compaction) with changed / shared / vanished keys.
func VerifC13Gen(r *verifh.Rng, nsecQuick, nsecThorough int, bigEvery int) []verifh.Section {
	var secs []verifh.Section
	nsec := verifh.Scale(nsecQuick, nsecThorough)
	for i := 0; i < nsec; i++ {
		nk := r.Range(1, 5)
		nv := r.Range(1, 4)
		big := bigEvery > 0 && i%bigEvery == bigEvery-1
		if big {
			nk = r.Range(30, 45)
			nv = nk + r.Intn(4)
		}
		excl := r.Chance(2, 5)
		kv := func() string { return fmt.Sprintf("%d:%d", r.Intn(nk), r.Intn(nv)) }
		snapshot := func(cur map[int]int) []string {
			// a snapshot related to the current registrations: keep / change / drop / add
			var out []string
			switch r.Intn(6) {
			case 0: // unrelated
				n := r.Intn(nk + 1)
				for j := 0; j < n; j++ {
					out = append(out, kv())
				}
				return dedupKeys(out, r)
			case 1: // empty
				return nil
			}
			keys := make([]int, 0, len(cur))
			for k := range cur {
				keys = append(keys, k)
			}
			sort.Ints(keys)
			for _, k := range keys {
				switch x := r.Intn(10); {
				case x < 5:
					out = append(out, fmt.Sprintf("%d:%d", k, cur[k]))
				case x < 8:
					out = append(out, fmt.Sprintf("%d:%d", k, r.Intn(nv))) // value changed in place
				}
			}
			n := r.Intn(3)
			if big {
				n = r.Intn(nk)
			}
			for j := 0; j < n; j++ {
				out = append(out, kv())
			}
			return dedupKeys(out, r)
		}
		cur := map[int]int{}
		var ops []string
		if big || r.Chance(1, 2) {
			// the first load after (re)connect: a snapshot applied to an empty view
			initial := snapshot(cur)
			if big {
				for k := 0; k < nk; k++ {
					v := k // mostly distinct values: more than 32 addresses
					if r.Chance(1, 10) {
						v = r.Intn(nv)
					}
					initial = append(initial, fmt.Sprintf("%d:%d", k, v))
				}
				initial = dedupKeys(initial, r)
			}
			applySnap(cur, initial)
			ops = append(ops, strings.TrimSpace("reload "+strings.Join(initial, " ")))
		}
		nops := r.Range(3, verifh.Scale(14, 30))
		joined := false
		for j := 0; j < nops; j++ {
			if !joined && r.Chance(1, 7) {
				// a second subscriber joins the watch: between two responses, or in the middle of one
				joined = true
				if r.Chance(1, 2) {
					ops = append(ops, "join")
				} else {
					n := r.Range(2, 4)
					toks := []string{"joinmid"}
					for b := 0; b < n; b++ {
						if k := r.Intn(nk); r.Chance(1, 2) {
							v := r.Intn(nv)
							cur[k] = v
							toks = append(toks, fmt.Sprintf("p:%d:%d", k, v))
						} else {
							if len(cur) > 0 && r.Chance(2, 3) {
								// a key that is registered
								keys := make([]int, 0, len(cur))
								for kk := range cur {
									keys = append(keys, kk)
								}
								sort.Ints(keys)
								k = keys[r.Intn(len(keys))]
							}
							delete(cur, k)
							toks = append(toks, fmt.Sprintf("d:%d", k))
						}
					}
					ops = append(ops, strings.Join(toks, " "))
				}
				continue
			}
			switch x := r.Intn(100); {
			case x < 40:
				k, v := r.Intn(nk), r.Intn(nv)
				if old, ok := cur[k]; ok && r.Chance(1, 6) {
					v = old // replayed event
				}
				cur[k] = v
				ops = append(ops, fmt.Sprintf("put %d %d", k, v))
			case x < 60:
				k := r.Intn(nk)
				delete(cur, k)
				ops = append(ops, fmt.Sprintf("del %d", k))
			case x < 70:
				n := r.Range(2, 4)
				toks := []string{"batch"}
				for b := 0; b < n; b++ {
					if r.Chance(2, 3) {
						k, v := r.Intn(nk), r.Intn(nv)
						cur[k] = v
						toks = append(toks, fmt.Sprintf("p:%d:%d", k, v))
					} else {
						k := r.Intn(nk)
						delete(cur, k)
						toks = append(toks, fmt.Sprintf("d:%d", k))
					}
				}
				ops = append(ops, strings.Join(toks, " "))
			case x < 91:
				snap := snapshot(cur)
				for k := range cur {
					delete(cur, k)
				}
				applySnap(cur, snap)
				ops = append(ops, strings.TrimSpace(r.PickS("reload", "reloadc", "connreload", "connreload")+" "+strings.Join(snap, " ")))
			case x < 93:
				// the connection state changes while a response is being handled
				n := r.Range(2, 3)
				toks := []string{"reloadmid"}
				for b := 0; b < n; b++ {
					if r.Chance(2, 3) {
						k, v := r.Intn(nk), r.Intn(nv)
						cur[k] = v
						toks = append(toks, fmt.Sprintf("p:%d:%d", k, v))
					} else {
						k := r.Intn(nk)
						delete(cur, k)
						toks = append(toks, fmt.Sprintf("d:%d", k))
					}
				}
				snap := snapshot(cur)
				for k := range cur {
					delete(cur, k)
				}
				applySnap(cur, snap)
				ops = append(ops, strings.Join(append(append(toks, "/"), snap...), " "))
			case x < 95 && !big:
				// events in the gap between the snapshot and the new watch (revisions)
				snap := snapshot(cur)
				for k := range cur {
					delete(cur, k)
				}
				applySnap(cur, snap)
				toks := append(append([]string{"reloadgap"}, snap...), "/")
				for b := r.Range(1, 3); b > 0; b-- {
					if k := r.Intn(nk); r.Chance(2, 3) {
						v := r.Intn(nv)
						cur[k] = v
						toks = append(toks, fmt.Sprintf("p:%d:%d", k, v))
					} else {
						delete(cur, k)
						toks = append(toks, fmt.Sprintf("d:%d", k))
					}
				}
				ops = append(ops, strings.Join(toks, " "))
			case x < 97:
				ops = append(ops, "cancel")
			default:
				ops = append(ops, "closech")
			}
		}
		if !big && i%verifh.Scale(60, 400) == 37 {
			// the first Get of a load runs into its request timeout (100 ms + the real 1 s cool-down)
			snap := snapshot(cur)
			ops = append(ops, strings.TrimSpace("reloadt 1 "+strings.Join(snap, " ")))
		}
		if !big && i%verifh.Scale(60, 400) == 7 {
			// a failed Get costs about a second of real time (load's cool-down): a few per run
			snap := snapshot(cur)
			ops = append(ops, strings.TrimSpace("reloadg 1 "+strings.Join(snap, " ")))
		}
		secs = append(secs, verifh.Section{
			Cfg: fmt.Sprintf("excl=%d", b2i(excl)),
			Ops: ops,
		})
	}
	return secs
}

func b2i(b bool) int {
	if b {
		return 1
	}
	return 0
}

func applySnap(cur map[int]int, snap []string) {
	for _, t := range snap {
		i := strings.IndexByte(t, ':')
		cur[verifh.Atoi(t[:i])] = verifh.Atoi(t[i+1:])
	}
}

// dedupKeys: etcd never returns a key twice; keep that (rarely leave a duplicate in: the code takes the last).
func dedupKeys(toks []string, r *verifh.Rng) []string {
	if r.Chance(1, 25) {
		return toks
	}
	seen := map[string]bool{}
	var out []string
	for i := len(toks) - 1; i >= 0; i-- {
		k := toks[i][:strings.IndexByte(toks[i], ':')]
		if !seen[k] {
			seen[k] = true
			out = append([]string{toks[i]}, out...)
		}
	}
	return out
}
