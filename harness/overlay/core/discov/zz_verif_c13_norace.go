//go:build verif && !race

package discov

func VerifRaceErrors() int { return 0 }

const VerifRaceBuild = false
