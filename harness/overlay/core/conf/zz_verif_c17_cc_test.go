//go:build verif

package conf_test

// C17: the config center (core/configcenter), the in-tree CALLER that picks one of conf.LoadFrom{Json,Yaml,Toml}Bytes from
// a Type string.  configcenter imports conf, so it is driven from the external test package; the harness in package conf
// reaches it through the exported hook C17ConfigCenter.  NewConfigCenter is generic: the types are static mirrors of the
// type tokens C17CCTypes of the harness.

import (
	"github.com/zeromicro/go-zero/core/conf"
	configurator "github.com/zeromicro/go-zero/core/configcenter"
)

type c17Sub struct{ data string }

func (s *c17Sub) AddListener(func()) error { return nil }
func (s *c17Sub) Value() (string, error)   { return s.data, nil }

type c17CC0 struct {
	Name string   `json:"name"`
	Port int      `json:"port"`
	Tags []string `json:"tags,optional"`
	Cert string   `json:"cert,optional"`
}

type c17CC1 struct {
	Host  string         `json:"host"`
	Meta  map[string]int `json:"meta,optional"`
	Inner struct {
		Ratio float64 `json:"ratio"`
		Debug bool    `json:"debug,optional"`
	} `json:"inner"`
	Cert string `json:"cert,optional"`
}

func c17Center[T any](typ, data string) (any, error) {
	cc, err := configurator.NewConfigCenter[T](configurator.Config{Type: typ, Log: false}, &c17Sub{data: data})
	if err != nil {
		return nil, err
	}
	v, err := cc.GetConfig()
	return v, err
}

func init() {
	conf.C17ConfigCenter = func(tid int, typ, data string) (any, error) {
		switch tid {
		case 0:
			return c17Center[c17CC0](typ, data)
		case 1:
			return c17Center[c17CC1](typ, data)
		}
		panic("c17: unknown static type")
	}
}
