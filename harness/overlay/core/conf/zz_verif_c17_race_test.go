//go:build verif && race

package conf

// built with -race: pload ops are executed in a child process whose race reports are read back (TestVerifC17Race)
const c17RaceBuild = true
