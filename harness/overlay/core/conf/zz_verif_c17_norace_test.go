//go:build verif && !race

package conf

const c17RaceBuild = false
